(** C07 - enum-level format: wraps via [_variant], otherwise is only a default.
    Property theorems only (statements pinned here; proofs in Proofs.v). *)
From Verif Require Import Fmt.Model C07.Proofs.

(** not mentioning [_variant]: a variant's own attribute wins ... *)
Theorem C07_default_own_wins : forall cc d sa a,
  d_shared d = Some sa -> mentions_variant cc sa = false -> d_fmt d = Some a ->
  d_generate_body cc d = ROk (own_body cc d a).
Proof. exact default_own_wins. Qed.
Print Assumptions C07_default_own_wins.

(** ... and the enum-level format is used for exactly the variants that have none *)
Theorem C07_default_used : forall cc d sa,
  d_shared d = Some sa -> mentions_variant cc sa = false -> d_fmt d = None ->
  d_generate_body cc d = ROk (shared_body cc d sa).
Proof. exact default_used. Qed.
Print Assumptions C07_default_used.

(** mentioning [_variant]: applied to every variant, [_variant] bound to the variant's own text:
    its own attribute, ... *)
Theorem C07_wrap_own_attr : forall cc d sa a,
  d_shared d = Some sa -> mentions_variant cc sa = true -> bare_same_trait cc sa (d_trait d) = false ->
  d_fmt d = Some a ->
  d_generate_body cc d =
    ROk (BMatchVariant (VFormatArgs a (additional_deref_args cc a (d_fields d))) (shared_body cc d sa)).
Proof. exact wrap_own_attr. Qed.
Print Assumptions C07_wrap_own_attr.

(** ... else its single field under the derived trait, ... *)
Theorem C07_wrap_single_field : forall cc d sa f,
  d_shared d = Some sa -> mentions_variant cc sa = true -> bare_same_trait cc sa (d_trait d) = false ->
  d_fmt d = None -> fl (d_fields d) = [f] ->
  d_generate_body cc d =
    ROk (BMatchVariant
           (VFieldFormatArgs (d_trait d) (match fname f with Some n => n | None => positional_ident 0 end))
           (shared_body cc d sa)).
Proof. exact wrap_single_field. Qed.
Print Assumptions C07_wrap_single_field.

(** ... else its name *)
Theorem C07_wrap_unit : forall cc d sa,
  d_shared d = Some sa -> mentions_variant cc sa = true -> bare_same_trait cc sa (d_trait d) = false ->
  d_fmt d = None -> fl (d_fields d) = [] ->
  d_generate_body cc d = ROk (BMatchVariant (VName (d_name d)) (shared_body cc d sa)).
Proof. exact wrap_unit. Qed.
Print Assumptions C07_wrap_unit.

Theorem C07_wrap_multi_field_rejected : forall cc d sa f1 f2 l,
  d_shared d = Some sa -> mentions_variant cc sa = true -> bare_same_trait cc sa (d_trait d) = false ->
  d_fmt d = None -> fl (d_fields d) = f1 :: f2 :: l ->
  d_generate_body cc d = RErr E_multi_field_no_attr.
Proof. exact wrap_multi_field_rejected. Qed.
Print Assumptions C07_wrap_multi_field_rejected.

(** a bare [{_variant}] of the derived trait is as if there were no enum-level attribute *)
Theorem C07_bare_variant_is_absent : forall cc d sa,
  d_shared d = Some sa -> mentions_variant cc sa = true -> bare_same_trait cc sa (d_trait d) = true ->
  d_generate_body cc d = d_generate_body cc (without_shared d).
Proof. exact bare_variant_is_absent. Qed.
Print Assumptions C07_bare_variant_is_absent.

(** a [_variant] placeholder with any format specifier or a non-Display trait is rejected at compile time *)
Theorem C07_variant_spec_rejected : forall cc sa vs p,
  In p (placeholders_by_arg cc sa variant_ident) ->
  (ph_mods p = true \/ ph_trait p <> TrDisplay) ->
  d_expand_enum cc (Some sa) vs = RErr E_variant_spec.
Proof. exact variant_spec_rejected. Qed.
Print Assumptions C07_variant_spec_rejected.

Theorem C07_variant_spec_ok_sound : forall cc sa,
  variant_spec_ok cc (Some sa) = true ->
  forall p, In p (placeholders_by_arg cc sa variant_ident) -> ph_mods p = false /\ ph_trait p = TrDisplay.
Proof. exact variant_spec_ok_sound. Qed.
Print Assumptions C07_variant_spec_ok_sound.

(** an enum-level format attribute on Debug is rejected *)
Theorem C07_debug_enum_fmt_rejected : forall cc vs, g_expand_enum cc true vs = RErr E_debug_enum_fmt.
Proof. exact debug_enum_fmt_rejected. Qed.
Print Assumptions C07_debug_enum_fmt_rejected.

(** semantic reading: with [_variant] mentioned, every variant prints the enum-level format evaluated with
    [_variant] bound to the text the variant prints by itself (own attribute / single field / name) *)
Theorem C07_wrap_semantics_own_attr : forall cc (value out fspec : Type) (render : trait -> value -> fspec -> out)
    (run : fmt_attr -> list ident -> (ident -> value) -> out) (text_value : out -> value) (name_text : str -> out)
    (default_fspec : fspec) (eval : texpr -> (ident -> value) -> value) d sa a env sp,
  d_shared d = Some sa -> mentions_variant cc sa = true -> bare_same_trait cc sa (d_trait d) = false ->
  d_fmt d = Some a ->
  exists b, d_generate_body cc d = ROk b /\
    sem value out fspec render run text_value name_text default_fspec eval b env sp =
    sem value out fspec render run text_value name_text default_fspec eval (shared_body cc d sa)
        (bind value variant_ident (text_value (run a (additional_deref_args cc a (d_fields d)) env)) env) sp.
Proof. exact wrap_semantics_own_attr. Qed.
Print Assumptions C07_wrap_semantics_own_attr.

Theorem C07_wrap_semantics_unit : forall cc (value out fspec : Type) (render : trait -> value -> fspec -> out)
    (run : fmt_attr -> list ident -> (ident -> value) -> out) (text_value : out -> value) (name_text : str -> out)
    (default_fspec : fspec) (eval : texpr -> (ident -> value) -> value) d sa env sp,
  d_shared d = Some sa -> mentions_variant cc sa = true -> bare_same_trait cc sa (d_trait d) = false ->
  d_fmt d = None -> fl (d_fields d) = [] ->
  exists b, d_generate_body cc d = ROk b /\
    sem value out fspec render run text_value name_text default_fspec eval b env sp =
    sem value out fspec render run text_value name_text default_fspec eval (shared_body cc d sa)
        (bind value variant_ident (text_value (name_text (d_name d))) env) sp.
Proof. exact wrap_semantics_unit. Qed.
Print Assumptions C07_wrap_semantics_unit.

(** ... and without a mention it is a default only *)
Theorem C07_default_semantics : forall cc (value out fspec : Type) (render : trait -> value -> fspec -> out)
    (run : fmt_attr -> list ident -> (ident -> value) -> out) (text_value : out -> value) (name_text : str -> out)
    (default_fspec : fspec) (eval : texpr -> (ident -> value) -> value) d sa env sp,
  d_shared d = Some sa -> mentions_variant cc sa = false ->
  exists b, d_generate_body cc d = ROk b /\
    sem value out fspec render run text_value name_text default_fspec eval b env sp =
    match d_fmt d with
    | Some a => sem value out fspec render run text_value name_text default_fspec eval (own_body cc d a) env sp
    | None => sem value out fspec render run text_value name_text default_fspec eval (shared_body cc d sa) env sp
    end.
Proof. exact default_semantics. Qed.
Print Assumptions C07_default_semantics.
