(** C07 - enum-level format: wraps via [_variant], otherwise is only a default.
    Property theorems only (statements pinned here; proofs in Proofs.v). *)
From Verif Require Import Fmt.Model C07.Proofs.

(** not mentioning [_variant]: a variant's own attribute wins ... *)
Theorem C07_default_own_wins : forall cc d sa a,
  d_shared d = Some sa -> mentions_variant cc sa = false -> d_fmt d = Some a ->
  d_generate_body cc d = ROk (own_body cc d a).
Proof. exact default_own_wins. Qed.
Print Assumptions C07_default_own_wins.

(** ... and the enum-level format is used for exactly the variants that have none *)
Theorem C07_default_used : forall cc d sa,
  d_shared d = Some sa -> mentions_variant cc sa = false -> d_fmt d = None ->
  d_generate_body cc d = ROk (shared_body cc d sa).
Proof. exact default_used. Qed.
Print Assumptions C07_default_used.

(** mentioning [_variant]: applied to every variant, [_variant] bound to the variant's own text:
    its own attribute, ... *)
Theorem C07_wrap_own_attr : forall cc d sa a,
  d_shared d = Some sa -> mentions_variant cc sa = true -> bare_same_trait cc sa (d_trait d) = false ->
  d_fmt d = Some a ->
  d_generate_body cc d =
    ROk (BMatchVariant (VFormatArgs a (additional_deref_args cc a (d_fields d))) (shared_body cc d sa)).
Proof. exact wrap_own_attr. Qed.
Print Assumptions C07_wrap_own_attr.

(** ... else its single field under the derived trait, ... *)
Theorem C07_wrap_single_field : forall cc d sa f,
  d_shared d = Some sa -> mentions_variant cc sa = true -> bare_same_trait cc sa (d_trait d) = false ->
  d_fmt d = None -> fl (d_fields d) = [f] ->
  d_generate_body cc d =
    ROk (BMatchVariant
           (VFieldFormatArgs (d_trait d) (match fname f with Some n => n | None => positional_ident 0 end))
           (shared_body cc d sa)).
Proof. exact wrap_single_field. Qed.
Print Assumptions C07_wrap_single_field.

(** ... else its name *)
Theorem C07_wrap_unit : forall cc d sa,
  d_shared d = Some sa -> mentions_variant cc sa = true -> bare_same_trait cc sa (d_trait d) = false ->
  d_fmt d = None -> fl (d_fields d) = [] ->
  d_generate_body cc d = ROk (BMatchVariant (VName (d_name d)) (shared_body cc d sa)).
Proof. exact wrap_unit. Qed.
Print Assumptions C07_wrap_unit.

Theorem C07_wrap_multi_field_rejected : forall cc d sa f1 f2 l,
  d_shared d = Some sa -> mentions_variant cc sa = true -> bare_same_trait cc sa (d_trait d) = false ->
  d_fmt d = None -> fl (d_fields d) = f1 :: f2 :: l ->
  d_generate_body cc d = RErr E_multi_field_no_attr.
Proof. exact wrap_multi_field_rejected. Qed.
Print Assumptions C07_wrap_multi_field_rejected.

(** a bare [{_variant}] of the derived trait is as if there were no enum-level attribute *)
Theorem C07_bare_variant_is_absent : forall cc d sa,
  d_shared d = Some sa -> mentions_variant cc sa = true -> bare_same_trait cc sa (d_trait d) = true ->
  d_generate_body cc d = d_generate_body cc (without_shared d).
Proof. exact bare_variant_is_absent. Qed.
Print Assumptions C07_bare_variant_is_absent.

(** a [_variant] placeholder with any format specifier or a non-Display trait is rejected at compile time *)
Theorem C07_variant_spec_rejected : forall cc sa vs p,
  In p (placeholders_by_arg cc sa variant_ident) ->
  (ph_mods p = true \/ ph_trait p <> TrDisplay) ->
  d_expand_enum cc (Some sa) vs = RErr E_variant_spec.
Proof. exact variant_spec_rejected. Qed.
Print Assumptions C07_variant_spec_rejected.

Theorem C07_variant_spec_ok_sound : forall cc sa,
  variant_spec_ok cc (Some sa) = true ->
  forall p, In p (placeholders_by_arg cc sa variant_ident) -> ph_mods p = false /\ ph_trait p = TrDisplay.
Proof. exact variant_spec_ok_sound. Qed.
Print Assumptions C07_variant_spec_ok_sound.

(** an enum-level format attribute on Debug is rejected *)
Theorem C07_debug_enum_fmt_rejected : forall cc vs, g_expand_enum cc true vs = RErr E_debug_enum_fmt.
Proof. exact debug_enum_fmt_rejected. Qed.
Print Assumptions C07_debug_enum_fmt_rejected.

(** semantic reading: with [_variant] mentioned, every variant prints the enum-level format evaluated with
    [_variant] bound to the text the variant prints by itself (own attribute / single field / name) *)
Theorem C07_wrap_semantics_own_attr : forall cc (value out fspec : Type) (render : trait -> value -> fspec -> out)
    (run : fmt_attr -> list ident -> (ident -> value) -> out) (text_value : out -> value) (name_text : str -> out)
    (default_fspec : fspec) (eval : texpr -> (ident -> value) -> value) d sa a env sp,
  d_shared d = Some sa -> mentions_variant cc sa = true -> bare_same_trait cc sa (d_trait d) = false ->
  d_fmt d = Some a ->
  exists b, d_generate_body cc d = ROk b /\
    sem value out fspec render run text_value name_text default_fspec eval b env sp =
    sem value out fspec render run text_value name_text default_fspec eval (shared_body cc d sa)
        (bind value variant_ident (text_value (run a (additional_deref_args cc a (d_fields d)) env)) env) sp.
Proof. exact wrap_semantics_own_attr. Qed.
Print Assumptions C07_wrap_semantics_own_attr.

Theorem C07_wrap_semantics_unit : forall cc (value out fspec : Type) (render : trait -> value -> fspec -> out)
    (run : fmt_attr -> list ident -> (ident -> value) -> out) (text_value : out -> value) (name_text : str -> out)
    (default_fspec : fspec) (eval : texpr -> (ident -> value) -> value) d sa env sp,
  d_shared d = Some sa -> mentions_variant cc sa = true -> bare_same_trait cc sa (d_trait d) = false ->
  d_fmt d = None -> fl (d_fields d) = [] ->
  exists b, d_generate_body cc d = ROk b /\
    sem value out fspec render run text_value name_text default_fspec eval b env sp =
    sem value out fspec render run text_value name_text default_fspec eval (shared_body cc d sa)
        (bind value variant_ident (text_value (name_text (d_name d))) env) sp.
Proof. exact wrap_semantics_unit. Qed.
Print Assumptions C07_wrap_semantics_unit.

(** ... and without a mention it is a default only *)
Theorem C07_default_semantics : forall cc (value out fspec : Type) (render : trait -> value -> fspec -> out)
    (run : fmt_attr -> list ident -> (ident -> value) -> out) (text_value : out -> value) (name_text : str -> out)
    (default_fspec : fspec) (eval : texpr -> (ident -> value) -> value) d sa env sp,
  d_shared d = Some sa -> mentions_variant cc sa = false ->
  exists b, d_generate_body cc d = ROk b /\
    sem value out fspec render run text_value name_text default_fspec eval b env sp =
    match d_fmt d with
    | Some a => sem value out fspec render run text_value name_text default_fspec eval (own_body cc d a) env sp
    | None => sem value out fspec render run text_value name_text default_fspec eval (shared_body cc d sa) env sp
    end.
Proof. exact default_semantics. Qed.
Print Assumptions C07_default_semantics.

(** ---- coverage-growth round: pinned below ---- *)
From Verif Require Import Fmt.Front C07.Cases C02.FrontProofs.

(** complete case analysis of [shared_attr_info]: (effective enum-level format?, wrapping?) *)
Theorem C07_shared_attr_info_cases :
  forall (cc : CharClass) (d : dexpansion),
  shared_attr_info cc d =
  match d_shared d with
  | Some sa =>
  if mentions_variant cc sa
  then if bare_same_trait cc sa (d_trait d) then (false, false) else (true, true)
  else (true, false)
  | None => (false, false)
  end.
Proof. exact Cases.shared_attr_info_cases. Qed.
Print Assumptions C07_shared_attr_info_cases.

(** [generate_body] fails in exactly one situation: several fields, no format of its own, no usable default *)
Theorem C07_body_error_iff :
  forall (cc : CharClass) (d : dexpansion) (c : N),
  d_generate_body cc d = RErr c <->
  c = E_multi_field_no_attr /\
  d_fmt d = None /\
  (exists (f1 f2 : field) (l : list field), fl (d_fields d) = f1 :: f2 :: l) /\ ~ default_available cc d.
Proof. exact Cases.body_error_iff. Qed.
Print Assumptions C07_body_error_iff.

(** one variant of [expand_enum]: the three diagnostics in the order they are tried (the unit/non-Display refusal only when no enum-level format covers the variant) *)
Theorem C07_expand_variant_cases :
  forall (cc : CharClass) (d : dexpansion),
  d_expand_variant cc d =
  (if negb (variant_spec_ok cc (d_shared d))
  then RErr E_variant_spec
  else
  if unit_without_format d && negb (trait_eqb (d_trait d) TrDisplay) && not_covered cc d
  then RErr E_unit_variant_non_display
  else match d_generate_body cc d with
  | ROk b => ROk (b, d_generate_bounds cc d)
  | RErr c => RErr c
  end).
Proof. exact Cases.expand_variant_cases. Qed.
Print Assumptions C07_expand_variant_cases.

(** ... and exactly when each is issued *)
Theorem C07_expand_variant_error_iff :
  forall (cc : CharClass) (d : dexpansion) (c : N),
  d_expand_variant cc d = RErr c <->
  variant_spec_ok cc (d_shared d) = false /\ c = E_variant_spec \/
  variant_spec_ok cc (d_shared d) = true /\
  unit_without_format d = true /\
  d_trait d <> TrDisplay /\ not_covered cc d = true /\ c = E_unit_variant_non_display \/
  variant_spec_ok cc (d_shared d) = true /\
  c = E_multi_field_no_attr /\
  d_fmt d = None /\
  (exists (f1 f2 : field) (l : list field), fl (d_fields d) = f1 :: f2 :: l) /\ ~ default_available cc d.
Proof. exact Cases.expand_variant_error_iff. Qed.
Print Assumptions C07_expand_variant_error_iff.

(** a variant is accepted iff none of them applies *)
Theorem C07_expand_variant_ok_iff :
  forall (cc : CharClass) (d : dexpansion),
  (exists r : body * list bound, d_expand_variant cc d = ROk r) <->
  variant_spec_ok cc (d_shared d) = true /\
  (unit_without_format d = true -> not_covered cc d = true -> d_trait d = TrDisplay) /\
  (d_fmt d = None ->
  (exists (f1 f2 : field) (l : list field), fl (d_fields d) = f1 :: f2 :: l) -> default_available cc d).
Proof. exact Cases.expand_variant_ok_iff. Qed.
Print Assumptions C07_expand_variant_ok_iff.

(** a variant without a format of its own under an enum-level format that does not mention [_variant] prints that format under EVERY Display-like derive, field-less variants included (repo fix 3d5b8b4; before it the non-Display derives refused such a unit variant - the old shape is kept as the regression Example ex_unit_lower_hex_default_accepted) *)
Theorem C07_default_used_any_derive :
  forall (cc : CharClass) (d : dexpansion) (sa : fmt_attr),
  d_shared d = Some sa ->
  mentions_variant cc sa = false ->
  d_fmt d = None -> d_expand_variant cc d = ROk (shared_body cc d sa, d_generate_bounds cc d).
Proof. exact Cases.default_used_any_derive. Qed.
Print Assumptions C07_default_used_any_derive.

(** the non-Display derives still refuse a field-less variant without a format of its own when nothing covers it: no enum-level format, or one that wraps via [_variant] *)
Theorem C07_unit_non_display_rejected_when_not_covered :
  forall (cc : CharClass) (d : dexpansion),
  variant_spec_ok cc (d_shared d) = true ->
  not_covered cc d = true ->
  d_fmt d = None ->
  fl (d_fields d) = [] -> d_trait d <> TrDisplay -> d_expand_variant cc d = RErr E_unit_variant_non_display.
Proof. exact Cases.unit_non_display_rejected_when_not_covered. Qed.
Print Assumptions C07_unit_non_display_rejected_when_not_covered.

(** the Display instance of the above *)
Theorem C07_unit_display_uses_default :
  forall (cc : CharClass) (d : dexpansion) (sa : fmt_attr),
  d_shared d = Some sa ->
  mentions_variant cc sa = false ->
  d_fmt d = None ->
  d_trait d = TrDisplay -> d_expand_variant cc d = ROk (shared_body cc d sa, d_generate_bounds cc d).
Proof. exact Cases.unit_display_uses_default. Qed.
Print Assumptions C07_unit_display_uses_default.

(** [expand_enum] succeeds iff the [_variant] check passes and every variant is accepted; the arms are the variants' in order *)
Theorem C07_expand_enum_ok_iff :
  forall (cc : CharClass) (shared : option fmt_attr) (vs : list dexpansion) (arms : list (body * list bound)),
  d_expand_enum cc shared vs = ROk arms <->
  variant_spec_ok cc shared = true /\ map (d_expand_variant cc) vs = map ROk arms.
Proof. exact Cases.expand_enum_ok_iff. Qed.
Print Assumptions C07_expand_enum_ok_iff.

(** ... otherwise the [_variant] diagnostic, or the diagnostic of the FIRST refused variant *)
Theorem C07_expand_enum_error_iff :
  forall (cc : CharClass) (shared : option fmt_attr) (vs : list dexpansion) (c : N),
  d_expand_enum cc shared vs = RErr c <->
  variant_spec_ok cc shared = false /\ c = E_variant_spec \/
  variant_spec_ok cc shared = true /\
  (exists (pre : list dexpansion) (v : dexpansion) (post : list dexpansion) (arms : list (body * list bound)),
  vs = pre ++ v :: post /\ map (d_expand_variant cc) pre = map ROk arms /\ d_expand_variant cc v = RErr c).
Proof. exact Cases.expand_enum_error_iff. Qed.
Print Assumptions C07_expand_enum_error_iff.

(** the [_variant] diagnostic is issued iff some [_variant] placeholder carries a specifier or a non-Display trait *)
Theorem C07_variant_spec_rejected_iff :
  forall (cc : CharClass) (sa : fmt_attr) (vs : list dexpansion),
  Forall (fun d : dexpansion => d_shared d = Some sa) vs ->
  d_expand_enum cc (Some sa) vs = RErr E_variant_spec <->
  (exists p : placeholder,
  In p (placeholders_by_arg cc sa variant_ident) /\ (ph_mods p = true \/ ph_trait p <> TrDisplay)).
Proof. exact Cases.variant_spec_rejected_iff. Qed.
Print Assumptions C07_variant_spec_rejected_iff.

(** the documented meaning as one equation: wrapping binds [_variant] to the text the variant prints by itself (own attribute, else single field, else name); otherwise the enum-level format is a default only *)
Theorem C07_wrap_or_default :
  forall (cc : CharClass) (value out fspec : Type) (render : trait -> value -> fspec -> out)
  (run : fmt_attr -> list ident -> (ident -> value) -> out) (text_value : out -> value)
  (name_text : str -> out) (default_fspec : fspec) (eval : texpr -> (ident -> value) -> value)
  (d : dexpansion) (sa : fmt_attr) (b : body) (env : ident -> value) (sp : fspec),
  d_shared d = Some sa ->
  bare_same_trait cc sa (d_trait d) = false ->
  d_generate_body cc d = ROk b ->
  sem value out fspec render run text_value name_text default_fspec eval b env sp =
  (if mentions_variant cc sa
  then
  match variant_text cc value out fspec render run name_text default_fspec d env with
  | Some t =>
  sem value out fspec render run text_value name_text default_fspec eval (shared_body cc d sa)
  (bind value variant_ident (text_value t) env) sp
  | None => sem value out fspec render run text_value name_text default_fspec eval b env sp
  end
  else
  match d_fmt d with
  | Some a =>
  sem value out fspec render run text_value name_text default_fspec eval (own_body cc d a) env sp
  | None =>
  sem value out fspec render run text_value name_text default_fspec eval (shared_body cc d sa) env sp
  end).
Proof. exact Cases.wrap_or_default. Qed.
Print Assumptions C07_wrap_or_default.

(** an accepted wrapped variant always has such a text *)
Theorem C07_wrapped_variant_has_text :
  forall (cc : CharClass) (value out fspec : Type) (render : trait -> value -> fspec -> out)
  (run : fmt_attr -> list ident -> (ident -> value) -> out) (name_text : str -> out)
  (default_fspec : fspec) (d : dexpansion) (sa : fmt_attr) (b : body) (env : ident -> value),
  d_shared d = Some sa ->
  mentions_variant cc sa = true ->
  bare_same_trait cc sa (d_trait d) = false ->
  d_generate_body cc d = ROk b ->
  variant_text cc value out fspec render run name_text default_fspec d env <> None.
Proof. exact Cases.wrapped_variant_has_text. Qed.
Print Assumptions C07_wrapped_variant_has_text.

(** wrapping, single-field variant *)
Theorem C07_wrap_semantics_single_field :
  forall (cc : CharClass) (value out fspec : Type) (render : trait -> value -> fspec -> out)
  (run : fmt_attr -> list ident -> (ident -> value) -> out) (text_value : out -> value)
  (name_text : str -> out) (default_fspec : fspec) (eval : texpr -> (ident -> value) -> value)
  (d : dexpansion) (sa : fmt_attr) (f : field) (env : ident -> value) (sp : fspec),
  d_shared d = Some sa ->
  mentions_variant cc sa = true ->
  bare_same_trait cc sa (d_trait d) = false ->
  d_fmt d = None ->
  fl (d_fields d) = [f] ->
  exists b : body,
  d_generate_body cc d = ROk b /\
  sem value out fspec render run text_value name_text default_fspec eval b env sp =
  sem value out fspec render run text_value name_text default_fspec eval (shared_body cc d sa)
  (bind value variant_ident
  (text_value
  (render (d_trait d) (env match fname f with
  | Some n => n
  | None => positional_ident 0
  end) default_fspec)) env) sp.
Proof. exact Proofs.wrap_semantics_single_field. Qed.
Print Assumptions C07_wrap_semantics_single_field.

(** the (rename_all-converted) name is used for unit variants without a format and for nothing else *)
Theorem C07_name_only_matters_for_units :
  forall (cc : CharClass) (d : dexpansion) (n : str),
  unit_without_format d = false -> d_generate_body cc (with_name d n) = d_generate_body cc d.
Proof. exact Cases.name_only_matters_for_units. Qed.
Print Assumptions C07_name_only_matters_for_units.

(** rename_all: a variant's name is converted by its own rename_all, else by the enum's, else not at all *)
Theorem C07_variant_name :
  forall (to_case : casing -> str -> str) (container : dattrs) (params : list ident)
  (tr : trait) (v : rvariant) (a : dattrs),
  d_parse_attrs (attr_name_of tr) (rv_attrs v) = ROk a ->
  exists d : dexpansion,
  d_variant_expansion to_case container params tr v = ROk d /\
  d_name d =
  unit_name to_case match da_rename a with
  | Some k => Some k
  | None => da_rename container
  end (rv_ident v) /\
  d_shared d = ca_fmt (da_common container) /\
  d_fmt d = ca_fmt (da_common a) /\
  d_user_bounds d = ca_bounds (da_common a) /\ d_fields d = plain_fields (rv_fields v) /\ d_trait d = tr.
Proof. exact FrontProofs.variant_name. Qed.
Print Assumptions C07_variant_name.

(** ... and a unit variant of a Display enum without any format prints exactly that name *)
Theorem C07_unit_variant_prints :
  forall (cc : CharClass) (to_case : casing -> str -> str) (container : dattrs) (params : list ident)
  (v : rvariant) (a : dattrs),
  d_parse_attrs (attr_name_of TrDisplay) (rv_attrs v) = ROk a ->
  ca_fmt (da_common container) = None ->
  ca_fmt (da_common a) = None ->
  rfl (rv_fields v) = [] ->
  exists bs : list bound,
  d_variant_result cc to_case container params TrDisplay v =
  ROk
  (BWriteStr
  (unit_name to_case match da_rename a with
  | Some k => Some k
  | None => da_rename container
  end (rv_ident v)), bs).
Proof. exact FrontProofs.unit_variant_prints. Qed.
Print Assumptions C07_unit_variant_prints.

(** the literal standing for a single-field variant inside an enum-level format is the bare placeholder of the derived trait (table [trait_name_to_default_placeholder_literal]) *)
Theorem C07_default_placeholder_literal_spec_unicode :
  forall tr : trait,
  placeholders XidTable.unicode_cc (default_placeholder_literal tr) =
  [{| ph_arg := Positional 0; ph_mods := false; ph_trait := tr |}].
Proof. exact Cases.default_placeholder_literal_spec_unicode. Qed.
Print Assumptions C07_default_placeholder_literal_spec_unicode.

(** the same under the ASCII tables *)
Theorem C07_default_placeholder_literal_spec_ascii :
  forall tr : trait,
  placeholders ascii_cc (default_placeholder_literal tr) =
  [{| ph_arg := Positional 0; ph_mods := false; ph_trait := tr |}].
Proof. exact Cases.default_placeholder_literal_spec_ascii. Qed.
Print Assumptions C07_default_placeholder_literal_spec_ascii.

(** ... i.e. as an attribute it would be a delegation to that field under the derived trait *)
Theorem C07_field_format_args_transparent :
  forall (tr : trait) (f : ident),
  transparent_call ascii_cc (field_format_args_attr tr f) = Some (EIdent f, tr).
Proof. exact Cases.field_format_args_transparent. Qed.
Print Assumptions C07_field_format_args_transparent.

(** whole-item statement: an enum-level format on Debug is rejected whatever the variants are *)
Theorem C07_debug_enum_level_format_rejected :
  forall (cc : CharClass) (it : ritem) (a : cattrs) (x : fmt_attr) (vs : list rvariant),
  c_parse_attrs Lits.n_debug (ri_attrs it) = ROk a ->
  ca_fmt a = Some x -> ri_data it = REnum vs -> g_expand_item cc it = RErr E_debug_enum_fmt.
Proof. exact FrontProofs.debug_enum_level_format_rejected. Qed.
Print Assumptions C07_debug_enum_level_format_rejected.

(** Debug reads a variant's attributes as formats only *)
Theorem C07_debug_variant_attrs_format_only :
  forall (cc : CharClass) (container : cattrs) (params : list ident) (v : rvariant) (r : gbody * list bound),
  g_variant_result cc container params v = ROk r ->
  forall c : raw_content, In c (attrs_named Lits.n_debug (rv_attrs v)) -> exists a : fmt_attr, c = RCFmt a.
Proof. exact FrontProofs.debug_variant_attrs_format_only. Qed.
Print Assumptions C07_debug_variant_attrs_format_only.
