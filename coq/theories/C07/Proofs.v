(** C07 - an enum-level format wraps via [_variant], otherwise it is only a default. *)
From Verif Require Import Fmt.Model.

Section C07.
Variable cc : CharClass.

Definition mentions_variant (sa : fmt_attr) : bool := contains_arg cc sa variant_ident.

(** the enum-level attribute is a bare [{_variant}] (or [{x}], x = _variant ...) of the derived trait *)
Definition bare_same_trait (sa : fmt_attr) (tr : trait) : bool :=
  match transparent_call cc sa with
  | Some (_, called) => trait_eqb called tr
  | None => false
  end.

Definition shared_body (d : dexpansion) (sa : fmt_attr) : body :=
  match transparent_call_on_fields cc sa (d_fields d) with
  | Some (e, tr) => BDelegate tr e
  | None => BWrite sa (additional_deref_args cc sa (d_fields d))
  end.

(** what the variant prints by itself, as a body / as the value bound to [_variant] *)
Definition own_body (d : dexpansion) (a : fmt_attr) : body :=
  match transparent_call_on_fields cc a (d_fields d) with
  | Some (e, tr) => BDelegate tr e
  | None => BWrite a (additional_deref_args cc a (d_fields d))
  end.

Lemma info_cases d sa :
  d_shared d = Some sa ->
  shared_attr_info cc d =
    if mentions_variant sa
    then (if bare_same_trait sa (d_trait d) then (false, false) else (true, true))
    else (true, false).
Proof.
  intros Hs. unfold shared_attr_info, mentions_variant, bare_same_trait. rewrite Hs.
  destruct (contains_arg cc sa variant_ident);
    destruct (transparent_call cc sa) as [[e called]|]; cbn;
      try destruct (trait_eqb called (d_trait d)); reflexivity.
Qed.

(** no mention of [_variant]: used for, and only for, variants without an attribute of their own *)
Theorem default_own_wins d sa a :
  d_shared d = Some sa -> mentions_variant sa = false -> d_fmt d = Some a ->
  d_generate_body cc d = ROk (own_body d a).
Proof.
  intros Hs Hm Ha. unfold d_generate_body, own_body.
  rewrite (info_cases d sa Hs), Hm, Ha.
  destruct (transparent_call_on_fields cc a (d_fields d)) as [[e tr]|]; reflexivity.
Qed.

Theorem default_used d sa :
  d_shared d = Some sa -> mentions_variant sa = false -> d_fmt d = None ->
  d_generate_body cc d = ROk (shared_body d sa).
Proof.
  intros Hs Hm Ha. unfold d_generate_body, shared_body.
  rewrite (info_cases d sa Hs), Hm, Ha, Hs. cbn.
  destruct (transparent_call_on_fields cc sa (d_fields d)) as [[e tr]|]; reflexivity.
Qed.

(** a mention of [_variant]: applied to every variant; [_variant] is the variant's own text *)
Theorem wrap_own_attr d sa a :
  d_shared d = Some sa -> mentions_variant sa = true -> bare_same_trait sa (d_trait d) = false ->
  d_fmt d = Some a ->
  d_generate_body cc d =
    ROk (BMatchVariant (VFormatArgs a (additional_deref_args cc a (d_fields d))) (shared_body d sa)).
Proof.
  intros Hs Hm Hb Ha. unfold d_generate_body, shared_body.
  rewrite (info_cases d sa Hs), Hm, Hb, Ha, Hs.
  destruct (transparent_call_on_fields cc sa (d_fields d)) as [[e tr]|]; reflexivity.
Qed.

Theorem wrap_unit d sa :
  d_shared d = Some sa -> mentions_variant sa = true -> bare_same_trait sa (d_trait d) = false ->
  d_fmt d = None -> fl (d_fields d) = [] ->
  d_generate_body cc d = ROk (BMatchVariant (VName (d_name d)) (shared_body d sa)).
Proof.
  intros Hs Hm Hb Ha Hf. unfold d_generate_body, shared_body.
  rewrite (info_cases d sa Hs), Hm, Hb, Ha, Hs, Hf. cbn.
  destruct (transparent_call_on_fields cc sa (d_fields d)) as [[e tr]|]; reflexivity.
Qed.

Theorem wrap_single_field d sa f :
  d_shared d = Some sa -> mentions_variant sa = true -> bare_same_trait sa (d_trait d) = false ->
  d_fmt d = None -> fl (d_fields d) = [f] ->
  d_generate_body cc d =
    ROk (BMatchVariant
           (VFieldFormatArgs (d_trait d) (match fname f with Some n => n | None => positional_ident 0 end))
           (shared_body d sa)).
Proof.
  intros Hs Hm Hb Ha Hf. unfold d_generate_body, shared_body.
  rewrite (info_cases d sa Hs), Hm, Hb, Ha, Hs, Hf. cbn.
  destruct (transparent_call_on_fields cc sa (d_fields d)) as [[e tr]|]; reflexivity.
Qed.

Theorem wrap_multi_field_rejected d sa f1 f2 l :
  d_shared d = Some sa -> mentions_variant sa = true -> bare_same_trait sa (d_trait d) = false ->
  d_fmt d = None -> fl (d_fields d) = f1 :: f2 :: l ->
  d_generate_body cc d = RErr E_multi_field_no_attr.
Proof.
  intros Hs Hm Hb Ha Hf. unfold d_generate_body.
  rewrite (info_cases d sa Hs), Hm, Hb, Ha, Hf. reflexivity.
Qed.

(** a bare [{_variant}] of the derived trait behaves exactly as no enum-level attribute (flags included) *)
Definition without_shared (d : dexpansion) : dexpansion :=
  {| d_shared := None; d_fmt := d_fmt d; d_user_bounds := d_user_bounds d; d_name := d_name d;
     d_fields := d_fields d; d_params := d_params d; d_trait := d_trait d |}.

Theorem bare_variant_is_absent d sa :
  d_shared d = Some sa -> mentions_variant sa = true -> bare_same_trait sa (d_trait d) = true ->
  d_generate_body cc d = d_generate_body cc (without_shared d).
Proof.
  intros Hs Hm Hb. unfold d_generate_body.
  rewrite (info_cases d sa Hs), Hm, Hb.
  unfold shared_attr_info at 1. cbn [d_shared without_shared d_fmt d_fields d_name d_trait].
  destruct (d_fmt d) as [a|].
  - reflexivity.
  - cbn. destruct (fl (d_fields d)) as [|f [|f2 l]]; reflexivity.
Qed.

(** a [_variant] placeholder carrying any format specifier or a non-Display trait is rejected *)
Theorem variant_spec_rejected sa vs p :
  In p (placeholders_by_arg cc sa variant_ident) ->
  (ph_mods p = true \/ ph_trait p <> TrDisplay) ->
  d_expand_enum cc (Some sa) vs = RErr E_variant_spec.
Proof.
  intros Hin Hbad. unfold d_expand_enum, variant_spec_ok.
  assert (H : existsb (fun p => ph_mods p || negb (trait_eqb (ph_trait p) TrDisplay))
                      (placeholders_by_arg cc sa variant_ident) = true).
  { apply existsb_exists. exists p. split; [exact Hin|].
    destruct Hbad as [Hm|Ht]; [rewrite Hm; reflexivity|].
    destruct (ph_trait p); try (rewrite Bool.orb_true_r; reflexivity); exfalso; apply Ht; reflexivity. }
  rewrite H. reflexivity.
Qed.

(** and conversely the check only fires on such a placeholder *)
Theorem variant_spec_ok_sound sa :
  variant_spec_ok cc (Some sa) = true ->
  forall p, In p (placeholders_by_arg cc sa variant_ident) -> ph_mods p = false /\ ph_trait p = TrDisplay.
Proof.
  unfold variant_spec_ok. intros H p Hin.
  apply Bool.negb_true_iff in H.
  assert (Hp : (ph_mods p || negb (trait_eqb (ph_trait p) TrDisplay)) = false).
  { destruct (ph_mods p || negb (trait_eqb (ph_trait p) TrDisplay)) eqn:E; [|reflexivity].
    assert (existsb (fun p => ph_mods p || negb (trait_eqb (ph_trait p) TrDisplay))
                    (placeholders_by_arg cc sa variant_ident) = true)
      by (apply existsb_exists; exists p; split; assumption).
    congruence. }
  apply Bool.orb_false_iff in Hp as [Hm Ht]. split; [exact Hm|].
  apply Bool.negb_false_iff in Ht. destruct (ph_trait p); try discriminate. reflexivity.
Qed.

(** an enum-level format attribute on [Debug] is rejected *)
Theorem debug_enum_fmt_rejected vs : g_expand_enum cc true vs = RErr E_debug_enum_fmt.
Proof. reflexivity. Qed.

(** ** Layer-2 reading of the emitted shapes: what a variant prints.
    [run a deref env] is what [format_args!(lit, args.., deref..)] prints with the bindings [env];
    [match v { _variant => outer }] evaluates [outer] with [_variant] bound to the value of [v]. *)
Section Sem.
Variables (value out fspec : Type).
Variable render : trait -> value -> fspec -> out.
Variable run : fmt_attr -> list ident -> (ident -> value) -> out.
Variable text_value : out -> value.           (* a [fmt::Arguments] / [&str] as a formattable value *)
Variable name_text : str -> out.
Variable default_fspec : fspec.
Variable eval : texpr -> (ident -> value) -> value.

Definition bind (x : ident) (v : value) (env : ident -> value) : ident -> value :=
  fun y => if ident_eqb y x then v else env y.

(** the text the variant prints by itself, as the value bound to [_variant] *)
Definition sem_v (v : vexpr) (env : ident -> value) : value :=
  match v with
  | VFormatArgs a d => text_value (run a d env)
  | VName s => text_value (name_text s)
  | VFieldFormatArgs tr f => text_value (render tr (env f) default_fspec)
  end.

Fixpoint sem (b : body) (env : ident -> value) (sp : fspec) : out :=
  match b with
  | BDelegate tr e => render tr (eval e env) sp
  | BWrite a d => run a d env
  | BWriteStr s => name_text s
  | BMatchVariant v outer => sem outer (bind variant_ident (sem_v v env) env) sp
  | BEmpty => name_text []
  end.

(** wrapping: every variant prints the enum-level format with [_variant] standing for its own text *)
Theorem wrap_semantics_own_attr d sa a env sp :
  d_shared d = Some sa -> mentions_variant sa = true -> bare_same_trait sa (d_trait d) = false ->
  d_fmt d = Some a ->
  exists b, d_generate_body cc d = ROk b /\
    sem b env sp =
    sem (shared_body d sa)
        (bind variant_ident (text_value (run a (additional_deref_args cc a (d_fields d)) env)) env) sp.
Proof.
  intros Hs Hm Hb Ha. rewrite (wrap_own_attr d sa a Hs Hm Hb Ha). eexists. split; reflexivity.
Qed.

Theorem wrap_semantics_single_field d sa f env sp :
  d_shared d = Some sa -> mentions_variant sa = true -> bare_same_trait sa (d_trait d) = false ->
  d_fmt d = None -> fl (d_fields d) = [f] ->
  exists b, d_generate_body cc d = ROk b /\
    sem b env sp =
    sem (shared_body d sa)
        (bind variant_ident
              (text_value (render (d_trait d)
                             (env (match fname f with Some n => n | None => positional_ident 0 end))
                             default_fspec)) env) sp.
Proof.
  intros Hs Hm Hb Ha Hf. rewrite (wrap_single_field d sa f Hs Hm Hb Ha Hf). eexists. split; reflexivity.
Qed.

Theorem wrap_semantics_unit d sa env sp :
  d_shared d = Some sa -> mentions_variant sa = true -> bare_same_trait sa (d_trait d) = false ->
  d_fmt d = None -> fl (d_fields d) = [] ->
  exists b, d_generate_body cc d = ROk b /\
    sem b env sp = sem (shared_body d sa) (bind variant_ident (text_value (name_text (d_name d))) env) sp.
Proof.
  intros Hs Hm Hb Ha Hf. rewrite (wrap_unit d sa Hs Hm Hb Ha Hf). eexists. split; reflexivity.
Qed.

(** not mentioning [_variant]: the variant's own attribute alone decides (the enum-level one is not consulted),
    and a variant without attribute prints the enum-level format over its own fields *)
Theorem default_semantics d sa env sp :
  d_shared d = Some sa -> mentions_variant sa = false ->
  exists b, d_generate_body cc d = ROk b /\
    sem b env sp = match d_fmt d with
                   | Some a => sem (own_body d a) env sp
                   | None => sem (shared_body d sa) env sp
                   end.
Proof.
  intros Hs Hm. destruct (d_fmt d) as [a|] eqn:Ha.
  - rewrite (default_own_wins d sa a Hs Hm Ha). eexists. split; reflexivity.
  - rewrite (default_used d sa Hs Hm Ha). eexists. split; reflexivity.
Qed.
End Sem.

End C07.

(** non-vacuity: "<{_variant}>" mentions _variant, is not bare; "{_variant}" under Display is bare *)
Definition lit_wrap : str := [60; 123; 95; 118; 97; 114; 105; 97; 110; 116; 125; 62].
Definition lit_bare : str := [123; 95; 118; 97; 114; 105; 97; 110; 116; 125].
Example ex_mentions : mentions_variant ascii_cc {| lit := lit_wrap; args := [] |} = true
  /\ bare_same_trait ascii_cc {| lit := lit_wrap; args := [] |} TrDisplay = false.
Proof. vm_compute. split; reflexivity. Qed.
Example ex_bare : mentions_variant ascii_cc {| lit := lit_bare; args := [] |} = true
  /\ bare_same_trait ascii_cc {| lit := lit_bare; args := [] |} TrDisplay = true.
Proof. vm_compute. split; reflexivity. Qed.
Example ex_default : mentions_variant ascii_cc {| lit := [100; 102]; args := [] |} = false.
Proof. vm_compute. reflexivity. Qed.
