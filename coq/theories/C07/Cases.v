(** C07 - complete case analysis of [shared_attr_info], [generate_body]'s diagnostics, the per-variant part of
    [expand_enum] and [expand_enum] itself; the documented meaning as one equation. *)
From Verif Require Import Fmt.Model Fmt.Front C07.Proofs.
From Verif Require Gen.XidTable.

Section Cases.
Variable cc : CharClass.

Notation mentions_variant := (mentions_variant cc).
Notation bare_same_trait := (bare_same_trait cc).

(** ** [shared_attr_info]: (is there an effective enum-level format, does it wrap) *)
Theorem shared_attr_info_cases d :
  shared_attr_info cc d =
  match d_shared d with
  | None => (false, false)
  | Some sa =>
    if mentions_variant sa
    then (if bare_same_trait sa (d_trait d) then (false, false) else (true, true))
    else (true, false)
  end.
Proof.
  destruct (d_shared d) as [sa|] eqn:Hs; [apply info_cases; exact Hs|].
  unfold shared_attr_info. rewrite Hs. reflexivity.
Qed.

(** the enum-level format is a usable default for a variant without attribute: present, not wrapping *)
Definition default_available (d : dexpansion) : Prop :=
  exists sa, d_shared d = Some sa /\ mentions_variant sa = false.

Lemma default_available_info d : default_available d <-> shared_attr_info cc d = (true, false).
Proof.
  rewrite shared_attr_info_cases. unfold default_available. split.
  - intros (sa & -> & ->). reflexivity.
  - destruct (d_shared d) as [sa|]; [|discriminate].
    destruct (mentions_variant sa) eqn:Hm.
    + destruct (bare_same_trait sa (d_trait d)); discriminate.
    + intros _. exists sa. split; [reflexivity|exact Hm].
Qed.

(** ** [generate_body] fails in exactly one situation: several fields, no format of its own, no default *)
Theorem body_error_iff d c :
  d_generate_body cc d = RErr c <->
  c = E_multi_field_no_attr /\ d_fmt d = None /\
  (exists f1 f2 l, fl (d_fields d) = f1 :: f2 :: l) /\ ~ default_available d.
Proof.
  rewrite default_available_info. unfold d_generate_body.
  destruct (shared_attr_info cc d) as [hs wr] eqn:Hi.
  assert (Hinv : wr = true -> hs = true).
  { rewrite shared_attr_info_cases in Hi. destruct (d_shared d) as [sa|]; [|inversion Hi; discriminate].
    destruct (mentions_variant sa); [destruct (bare_same_trait sa (d_trait d))|]; inversion Hi; subst; auto; discriminate. }
  destruct (d_fmt d) as [a|].
  - split.
    + destruct wr.
      * destruct (d_shared d); discriminate.
      * destruct (transparent_call_on_fields cc a (d_fields d)) as [[e tr]|]; discriminate.
    + intros (_ & H & _). discriminate.
  - destruct (wr || negb hs) eqn:Himp.
    + destruct (fl (d_fields d)) as [|f1 [|f2 l]] eqn:Hf.
      * split; [|intros (_ & _ & (x & y & z & H) & _); discriminate].
        destruct hs; [destruct (d_shared d); discriminate|discriminate].
      * split; [|intros (_ & _ & (x & y & z & H) & _); discriminate].
        destruct hs; [destruct (d_shared d); discriminate|discriminate].
      * split.
        -- intros H. inversion H; subst c. split; [reflexivity|]. split; [reflexivity|].
           split; [exists f1, f2, l; reflexivity|].
           intros E. inversion E; subst. discriminate.
        -- intros (-> & _). reflexivity.
    + apply Bool.orb_false_iff in Himp as [-> Hh]. apply Bool.negb_false_iff in Hh. subst hs.
      split.
      * destruct (d_shared d); discriminate.
      * intros (_ & _ & _ & Hn). exfalso. apply Hn. reflexivity.
Qed.

(** ** one variant of [expand_enum]: the three diagnostics, in the order they are tried *)
Definition unit_without_format (d : dexpansion) : bool :=
  (match d_fmt d with None => true | Some _ => false end)
  && (match fl (d_fields d) with [] => true | _ => false end).

(** no enum-level format stands in for the variant's own: there is none, or it wraps via [_variant] (fix 3d5b8b4) *)
Definition not_covered (d : dexpansion) : bool :=
  match d_shared d with None => true | Some sa => mentions_variant sa end.

Theorem expand_variant_cases d :
  d_expand_variant cc d =
  if negb (variant_spec_ok cc (d_shared d)) then RErr E_variant_spec
  else if unit_without_format d && negb (trait_eqb (d_trait d) TrDisplay) && not_covered d
       then RErr E_unit_variant_non_display
  else match d_generate_body cc d with
       | RErr c => RErr c
       | ROk b => ROk (b, d_generate_bounds cc d)
       end.
Proof. reflexivity. Qed.

Lemma trait_neq_display t : t <> TrDisplay -> trait_eqb t TrDisplay = false.
Proof. intros H. destruct t; try reflexivity. contradiction. Qed.

Theorem expand_variant_error_iff d c :
  d_expand_variant cc d = RErr c <->
  (variant_spec_ok cc (d_shared d) = false /\ c = E_variant_spec)
  \/ (variant_spec_ok cc (d_shared d) = true /\ unit_without_format d = true /\ d_trait d <> TrDisplay /\
      not_covered d = true /\ c = E_unit_variant_non_display)
  \/ (variant_spec_ok cc (d_shared d) = true /\
      c = E_multi_field_no_attr /\ d_fmt d = None /\
      (exists f1 f2 l, fl (d_fields d) = f1 :: f2 :: l) /\ ~ default_available d).
Proof.
  rewrite expand_variant_cases.
  destruct (variant_spec_ok cc (d_shared d)) eqn:Hs; cbn [negb].
  - destruct (unit_without_format d && negb (trait_eqb (d_trait d) TrDisplay) && not_covered d) eqn:Hu.
    + apply Bool.andb_true_iff in Hu as [Hu Hnc]. apply Bool.andb_true_iff in Hu as [Hu Ht].
      split.
      * intros H. inversion H; subst c. right. left. split; [reflexivity|]. split; [exact Hu|].
        split; [|split; [exact Hnc|reflexivity]].
        intros E. rewrite E in Ht. discriminate.
      * intros [[H _]|[(_ & _ & _ & _ & ->)|(_ & -> & Hf & (f1 & f2 & l & Hfl) & _)]]; [discriminate|reflexivity|].
        exfalso. unfold unit_without_format in Hu. rewrite Hfl in Hu. rewrite Bool.andb_false_r in Hu. discriminate.
    + assert (Hno : ~ (unit_without_format d = true /\ d_trait d <> TrDisplay /\ not_covered d = true)).
      { intros (H1 & H2 & H3). rewrite H1, H3, (trait_neq_display _ H2) in Hu. discriminate. }
      destruct (d_generate_body cc d) as [b|c'] eqn:Hb.
      * split; [discriminate|]. intros [[H _]|[(_ & H1 & H2 & H3 & _)|(_ & -> & H)]]; [discriminate| |].
        -- exfalso. apply Hno. repeat split; assumption.
        -- exfalso. assert (Hx : d_generate_body cc d = RErr E_multi_field_no_attr)
             by (apply body_error_iff; split; [reflexivity|exact H]).
           congruence.
      * apply body_error_iff in Hb as (-> & Hb). split.
        -- intros H. inversion H; subst c. right. right. split; [reflexivity|]. split; [reflexivity|exact Hb].
        -- intros [[H _]|[(_ & H1 & H2 & H3 & _)|(_ & -> & _)]]; [discriminate| |reflexivity].
           exfalso. apply Hno. repeat split; assumption.
  - split.
    + intros H. inversion H. left. split; reflexivity.
    + intros [[_ ->]|[(H & _)|(H & _)]]; [reflexivity|discriminate|discriminate].
Qed.

(** a variant is accepted iff none of them applies *)
Corollary expand_variant_ok_iff d :
  (exists r, d_expand_variant cc d = ROk r) <->
  variant_spec_ok cc (d_shared d) = true /\
  (unit_without_format d = true -> not_covered d = true -> d_trait d = TrDisplay) /\
  (d_fmt d = None -> (exists f1 f2 l, fl (d_fields d) = f1 :: f2 :: l) -> default_available d).
Proof.
  split.
  - intros (r & Hr).
    assert (Hne : forall c, d_expand_variant cc d <> RErr c) by (intros c E; congruence).
    destruct (variant_spec_ok cc (d_shared d)) eqn:Hs.
    + split; [reflexivity|]. split.
      * intros Hu Hnc. destruct (d_trait d) eqn:Ht; try reflexivity;
          exfalso; apply (Hne E_unit_variant_non_display); apply expand_variant_error_iff; right; left;
          (split; [exact Hs|split; [exact Hu|split; [rewrite Ht; discriminate|split; [exact Hnc|reflexivity]]]]).
      * intros Hf Hm. rewrite default_available_info.
        destruct (shared_attr_info cc d) as [[|] [|]] eqn:Hi; try reflexivity; exfalso;
          apply (Hne E_multi_field_no_attr); apply expand_variant_error_iff; right; right;
          (split; [exact Hs|split; [reflexivity|split; [exact Hf|split; [exact Hm|]]]]);
          rewrite default_available_info, Hi; discriminate.
    + exfalso. apply (Hne E_variant_spec). apply expand_variant_error_iff. left. split; [exact Hs|reflexivity].
  - intros (Hs & Hu & Hm). destruct (d_expand_variant cc d) as [r|c] eqn:E; [exists r; reflexivity|].
    exfalso. apply expand_variant_error_iff in E as [[H _]|[(_ & H1 & H2 & H3 & _)|(_ & _ & Hf & Hfl & Hn)]].
    + congruence.
    + apply H2. apply Hu; assumption.
    + apply Hn. apply Hm; assumption.
Qed.

Lemma no_mention_no_placeholders sa :
  mentions_variant sa = false -> placeholders_by_arg cc sa variant_ident = [].
Proof.
  unfold C07.Proofs.mentions_variant, contains_arg. intros Hm.
  destruct (placeholders_by_arg cc sa variant_ident); [reflexivity|discriminate].
Qed.

(** a variant without a format of its own under an enum-level format that does not mention [_variant] prints that
    format - under EVERY Display-like derive, field-less variants included (since fix 3d5b8b4 the non-Display derives
    no longer refuse a unit variant the enum-level format covers) *)
Theorem default_used_any_derive d sa :
  d_shared d = Some sa -> mentions_variant sa = false -> d_fmt d = None ->
  d_expand_variant cc d = ROk (shared_body cc d sa, d_generate_bounds cc d).
Proof.
  intros Hs Hm Hf. rewrite expand_variant_cases. unfold not_covered. rewrite Hs, Hm.
  unfold variant_spec_ok. rewrite (no_mention_no_placeholders sa Hm). cbn [existsb negb].
  rewrite Bool.andb_false_r. rewrite (default_used cc d sa Hs Hm Hf). reflexivity.
Qed.

Corollary unit_display_uses_default d sa :
  d_shared d = Some sa -> mentions_variant sa = false -> d_fmt d = None -> d_trait d = TrDisplay ->
  d_expand_variant cc d = ROk (shared_body cc d sa, d_generate_bounds cc d).
Proof. intros Hs Hm Hf _. apply default_used_any_derive; assumption. Qed.

(** the non-Display derives still refuse a field-less variant without a format of its own when nothing covers it:
    no enum-level format at all, or one that wraps via [_variant] (the variant would have no text of its own) *)
Theorem unit_non_display_rejected_when_not_covered d :
  variant_spec_ok cc (d_shared d) = true ->
  not_covered d = true -> d_fmt d = None -> fl (d_fields d) = [] -> d_trait d <> TrDisplay ->
  d_expand_variant cc d = RErr E_unit_variant_non_display.
Proof.
  intros Hs Hnc Hf Hfl Ht. apply expand_variant_error_iff. right. left.
  split; [exact Hs|]. split; [unfold unit_without_format; rewrite Hf, Hfl; reflexivity|].
  split; [exact Ht|split; [exact Hnc|reflexivity]].
Qed.

(** ** [expand_enum]: the [_variant] check, then the variants in order; the first diagnostic wins *)
Lemma collect_ok_iff {A} (l : list (result A)) (r : list A) :
  collect_results l = ROk r <-> l = map ROk r.
Proof.
  revert r. induction l as [|x l IH]; intros r.
  - cbn. split; [intros H; inversion H; reflexivity|destruct r; [reflexivity|discriminate]].
  - cbn [collect_results]. destruct x as [a|c].
    + destruct (collect_results l) as [r'|c'] eqn:E.
      * split.
        -- intros H. inversion H; subst. cbn. f_equal. apply IH. reflexivity.
        -- destruct r as [|a' r]; [discriminate|]. cbn. intros H. inversion H; subst.
           f_equal. f_equal. assert (Hx : ROk r' = ROk r) by (apply IH; reflexivity). inversion Hx. reflexivity.
      * split; [discriminate|]. destruct r as [|a' r]; [discriminate|]. cbn. intros H. inversion H; subst.
        assert (Hx : @RErr (list A) c' = ROk r) by (apply IH; reflexivity). discriminate.
    + split; [discriminate|]. destruct r; discriminate.
Qed.

Lemma collect_err_iff {A} (l : list (result A)) c :
  collect_results l = RErr c <-> exists pre post, l = map ROk pre ++ RErr c :: post.
Proof.
  induction l as [|x l IH].
  - cbn. split; [discriminate|]. intros (pre & post & H). destruct pre; discriminate.
  - cbn [collect_results]. destruct x as [a|c0].
    + destruct (collect_results l) as [r'|c'] eqn:E.
      * split; [discriminate|]. intros (pre & post & H). destruct pre as [|a' pre]; [discriminate|].
        cbn in H. inversion H; subst.
        assert (Hx : @ROk (list A) r' = RErr c) by (apply IH; exists pre, post; reflexivity). discriminate.
      * split.
        -- intros H. inversion H; subst c'. destruct (proj1 IH eq_refl) as (pre & post & Hl).
           exists (a :: pre), post. cbn. rewrite Hl. reflexivity.
        -- intros (pre & post & H). destruct pre as [|a' pre]; [discriminate|]. cbn in H. inversion H; subst.
           f_equal. assert (Hx : @RErr (list A) c' = RErr c) by (apply IH; exists pre, post; reflexivity).
           inversion Hx. reflexivity.
    + split.
      * intros H. inversion H; subst. exists [], l. reflexivity.
      * intros (pre & post & H). destruct pre as [|a' pre]; [|discriminate]. cbn in H. inversion H. reflexivity.
Qed.

Theorem expand_enum_ok_iff shared vs arms :
  d_expand_enum cc shared vs = ROk arms <->
  variant_spec_ok cc shared = true /\ map (d_expand_variant cc) vs = map ROk arms.
Proof.
  unfold d_expand_enum. destruct (variant_spec_ok cc shared); cbn [negb].
  - rewrite collect_ok_iff. split; [intros H; split; [reflexivity|exact H]|intros [_ H]; exact H].
  - split; [discriminate|intros [H _]; discriminate].
Qed.

Theorem expand_enum_error_iff shared vs c :
  d_expand_enum cc shared vs = RErr c <->
  (variant_spec_ok cc shared = false /\ c = E_variant_spec)
  \/ (variant_spec_ok cc shared = true /\
      exists pre v post arms, vs = pre ++ v :: post /\ map (d_expand_variant cc) pre = map ROk arms /\
                              d_expand_variant cc v = RErr c).
Proof.
  unfold d_expand_enum. destruct (variant_spec_ok cc shared); cbn [negb].
  - rewrite collect_err_iff. split.
    + intros (arms & post & H). right. split; [reflexivity|].
      assert (Hsplit : exists pre v post', vs = pre ++ v :: post' /\ map (d_expand_variant cc) pre = map ROk arms /\
                                           d_expand_variant cc v = RErr c).
      { clear -H. revert arms H. induction vs as [|v0 vs IH]; intros arms H.
        - destruct arms; discriminate.
        - destruct arms as [|a arms]; cbn in H; inversion H; subst.
          + exists [], v0, vs. repeat split; assumption.
          + destruct (IH arms H2) as (pre & v & post' & -> & Hp & Hv).
            exists (v0 :: pre), v, post'. cbn. rewrite Hp, H1. repeat split. exact Hv. }
      destruct Hsplit as (pre & v & post' & Hvs & Hp & Hv). exists pre, v, post', arms. repeat split; assumption.
    + intros [[H _]|(_ & pre & v & post & arms & -> & Hp & Hv)]; [discriminate|].
      exists arms, (map (d_expand_variant cc) post). rewrite map_app. cbn [map]. rewrite Hp, Hv. reflexivity.
  - split.
    + intros H. inversion H. left. split; reflexivity.
    + intros [[_ ->]|(H & _)]; [reflexivity|discriminate].
Qed.

(** the [_variant] diagnostic is issued iff some [_variant] placeholder of the enum-level format carries a format
    specifier or a trait other than Display (all variants see the same enum-level attribute) *)
Theorem variant_spec_rejected_iff sa vs :
  Forall (fun d => d_shared d = Some sa) vs ->
  (d_expand_enum cc (Some sa) vs = RErr E_variant_spec <->
   exists p, In p (placeholders_by_arg cc sa variant_ident) /\ (ph_mods p = true \/ ph_trait p <> TrDisplay)).
Proof.
  intros Hall. split.
  - intros H.
    assert (Hbad : variant_spec_ok cc (Some sa) = false).
    { apply expand_enum_error_iff in H as [[H _]|(Hok' & pre & v & post & arms & Hvs & _ & Hv)]; [exact H|].
      apply expand_variant_error_iff in Hv as [[Hs _]|[(_ & _ & _ & _ & Hc)|(_ & Hc & _)]]; try discriminate.
      assert (Hv' : d_shared v = Some sa).
      { rewrite Forall_forall in Hall. apply Hall. rewrite Hvs. apply in_or_app. right. left. reflexivity. }
      rewrite Hv' in Hs. exact Hs. }
    unfold variant_spec_ok in Hbad. apply Bool.negb_false_iff in Hbad.
    apply existsb_exists in Hbad as (p & Hin & Hp). exists p. split; [exact Hin|].
    apply Bool.orb_true_iff in Hp as [Hp|Hp]; [left; exact Hp|right].
    intros E. rewrite E in Hp. discriminate.
  - intros (p & Hin & Hp). eapply variant_spec_rejected; eassumption.
Qed.

(** ** the documented meaning as one equation *)
Section Sem.
Variables (value out fspec : Type).
Variable render : trait -> value -> fspec -> out.
Variable run : fmt_attr -> list ident -> (ident -> value) -> out.
Variable text_value : out -> value.
Variable name_text : str -> out.
Variable default_fspec : fspec.
Variable eval : texpr -> (ident -> value) -> value.

Notation sem := (sem value out fspec render run text_value name_text default_fspec eval).
Notation bind := (bind value).

(** the text a variant prints by itself: its own attribute, else its single field under the derived trait, else
    its name (written from the documentation, not from the code's case split) *)
Definition variant_text (d : dexpansion) (env : ident -> value) : option out :=
  match d_fmt d with
  | Some a => Some (run a (additional_deref_args cc a (d_fields d)) env)
  | None =>
    match fl (d_fields d) with
    | [] => Some (name_text (d_name d))
    | [f] => Some (render (d_trait d) (env (match fname f with Some n => n | None => positional_ident 0 end))
                          default_fspec)
    | _ => None
    end
  end.

Theorem wrap_or_default d sa b env sp :
  d_shared d = Some sa -> bare_same_trait sa (d_trait d) = false ->
  d_generate_body cc d = ROk b ->
  sem b env sp =
  if mentions_variant sa
  then match variant_text d env with
       | Some t => sem (shared_body cc d sa) (bind variant_ident (text_value t) env) sp
       | None => sem b env sp        (* unreachable: such a variant is rejected *)
       end
  else match d_fmt d with
       | Some a => sem (own_body cc d a) env sp
       | None => sem (shared_body cc d sa) env sp
       end.
Proof.
  intros Hs Hb Hbody. destruct (mentions_variant sa) eqn:Hm.
  - unfold variant_text. destruct (d_fmt d) as [a|] eqn:Ha.
    + rewrite (wrap_own_attr cc d sa a Hs Hm Hb Ha) in Hbody. inversion Hbody; subst b. reflexivity.
    + destruct (fl (d_fields d)) as [|f [|f2 l]] eqn:Hf.
      * rewrite (wrap_unit cc d sa Hs Hm Hb Ha Hf) in Hbody. inversion Hbody; subst b. reflexivity.
      * rewrite (wrap_single_field cc d sa f Hs Hm Hb Ha Hf) in Hbody. inversion Hbody; subst b. reflexivity.
      * reflexivity.
  - destruct (d_fmt d) as [a|] eqn:Ha.
    + rewrite (default_own_wins cc d sa a Hs Hm Ha) in Hbody. inversion Hbody; subst b. reflexivity.
    + rewrite (default_used cc d sa Hs Hm Ha) in Hbody. inversion Hbody; subst b. reflexivity.
Qed.

(** ... and whenever a wrapped variant is accepted it has a text of its own *)
Theorem wrapped_variant_has_text d sa b env :
  d_shared d = Some sa -> mentions_variant sa = true -> bare_same_trait sa (d_trait d) = false ->
  d_generate_body cc d = ROk b -> variant_text d env <> None.
Proof.
  intros Hs Hm Hb Hbody. unfold variant_text. destruct (d_fmt d) as [a|] eqn:Ha; [discriminate|].
  destruct (fl (d_fields d)) as [|f [|f2 l]] eqn:Hf; try discriminate.
  rewrite (wrap_multi_field_rejected cc d sa f f2 l Hs Hm Hb Ha Hf) in Hbody. discriminate.
Qed.
End Sem.

(** the unit name only matters for a unit without a format of its own *)
Definition with_name (d : dexpansion) (n : str) : dexpansion :=
  {| d_shared := d_shared d; d_fmt := d_fmt d; d_user_bounds := d_user_bounds d; d_name := n;
     d_fields := d_fields d; d_params := d_params d; d_trait := d_trait d |}.

Theorem name_only_matters_for_units d n :
  unit_without_format d = false -> d_generate_body cc (with_name d n) = d_generate_body cc d.
Proof.
  unfold unit_without_format, d_generate_body, with_name, shared_attr_info. cbn [d_shared d_fmt d_fields d_name d_trait].
  destruct (d_fmt d) as [a|]; [reflexivity|]. cbn [andb].
  destruct (fl (d_fields d)) as [|f [|f2 l]]; [discriminate|reflexivity|reflexivity].
Qed.

End Cases.

(** ** the literal standing for a single-field variant is the bare placeholder of the derived trait *)
Theorem default_placeholder_literal_spec_ascii : forall tr,
  placeholders ascii_cc (default_placeholder_literal tr) =
    [ {| ph_arg := Positional 0; ph_mods := false; ph_trait := tr |} ].
Proof. intros tr. destruct tr; vm_compute; reflexivity. Qed.

Theorem default_placeholder_literal_spec_unicode : forall tr,
  placeholders Gen.XidTable.unicode_cc (default_placeholder_literal tr) =
    [ {| ph_arg := Positional 0; ph_mods := false; ph_trait := tr |} ].
Proof. intros tr. destruct tr; vm_compute; reflexivity. Qed.

(** ... so the [format_args!] of a single-field variant delegates to nothing else than that field under the derived
    trait: as an attribute it is a transparent call of the derived trait on the field *)
Theorem field_format_args_transparent : forall tr f,
  transparent_call ascii_cc (field_format_args_attr tr f) = Some (EIdent f, tr).
Proof. intros tr f. destruct tr; vm_compute; reflexivity. Qed.

(** non-vacuity of the case analysis: a two-field variant without format under a default / under a wrapping format *)
Definition ex_f (n : N) : field := {| fname := None; fty := TyOpaque; ftid := n; fattr := FNone |}.
Definition ex_two (shared : fmt_attr) (tr : trait) : dexpansion :=
  {| d_shared := Some shared; d_fmt := None; d_user_bounds := []; d_name := [65];
     d_fields := {| fk := Unnamed; fl := [ex_f 1; ex_f 2] |}; d_params := []; d_trait := tr |}.
Example ex_two_default_ok :
  exists r, d_expand_variant ascii_cc (ex_two {| lit := [100; 102]; args := [] |} TrDisplay) = ROk r.
Proof. eexists. reflexivity. Qed.
Example ex_two_wrap_rejected :
  d_expand_variant ascii_cc (ex_two {| lit := lit_wrap; args := [] |} TrDisplay) = RErr E_multi_field_no_attr.
Proof. reflexivity. Qed.
(** regression shape of the behaviour before fix 3d5b8b4 (`#[lower_hex("dflt")] enum E { A }` was refused): now the
    default is printed ... *)
Definition ex_unit (shared : option fmt_attr) (tr : trait) : dexpansion :=
  {| d_shared := shared; d_fmt := None; d_user_bounds := []; d_name := [65];
     d_fields := {| fk := Unit; fl := [] |}; d_params := []; d_trait := tr |}.
Example ex_unit_lower_hex_default_accepted :
  d_expand_variant ascii_cc (ex_unit (Some {| lit := [100; 102]; args := [] |}) TrLowerHex)
  = ROk (BWrite {| lit := [100; 102]; args := [] |} [], []).
Proof. reflexivity. Qed.
(** ... while without an enum-level format, or under a wrapping one, the refusal stays *)
Example ex_unit_lower_hex_alone_rejected :
  d_expand_variant ascii_cc (ex_unit None TrLowerHex) = RErr E_unit_variant_non_display.
Proof. reflexivity. Qed.
Example ex_unit_lower_hex_wrapped_rejected :
  d_expand_variant ascii_cc (ex_unit (Some {| lit := lit_wrap; args := [] |}) TrLowerHex)
  = RErr E_unit_variant_non_display.
Proof. reflexivity. Qed.
