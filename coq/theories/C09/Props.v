(* C09 - property theorems (statements in full; proofs in Proofs.v).  All of them are about the model
   of the code as it is (Model.expand, /repo commit 6329c3f and later), for unbounded field lists. *)
From Coq Require Import List Arith Bool.
Import ListNotations.
Require Import Verif.C09.Model.
Require Verif.C09.Proofs.

(* `source()` returns exactly the field the documented rules select - struct and enum variant, every
   layout on which the derive succeeds *)
Theorem C09_selection : forall k sh fs x,
  expand k sh fs = Ok x -> Sel (returned_field x) = documented_source sh fs.
Proof. exact Proofs.selection. Qed.
Print Assumptions C09_selection.

(* `ignore`d fields never change which of the remaining fields the documented rules select ... *)
Theorem C09_ignore_inert : forall sh fs k f,
  f_ignore f = true -> k <= length fs ->
  documented_source sh (insert_at k f fs) = doc_map (shift k) (documented_source sh fs).
Proof. exact Proofs.ignore_inert. Qed.
Print Assumptions C09_ignore_inert.

(* ... nor which field the generated `source()` returns *)
Theorem C09_ignore_inert_code : forall kd sh fs k f x x',
  f_ignore f = true -> k <= length fs ->
  expand kd sh fs = Ok x -> expand kd sh (insert_at k f fs) = Ok x' ->
  returned_field x' = option_map (shift k) (returned_field x).
Proof. exact Proofs.ignore_inert_code. Qed.
Print Assumptions C09_ignore_inert_code.

(* ambiguous selections are compile errors, for every layout *)
Theorem C09_ambiguous_rejected : forall k sh fs,
  documented_source sh fs = Ambiguous -> expand k sh fs = Err.
Proof. exact Proofs.ambiguous_rejected. Qed.
Print Assumptions C09_ambiguous_rejected.

(* the `None` cases: every field ignored or `not(source)` ... *)
Theorem C09_none_cases : forall k sh fs x,
  (forall f, In f fs -> f_ignore f = true \/ f_source f = Some false) ->
  expand k sh fs = Ok x -> returned_field x = None.
Proof. exact Proofs.none_when_opted_out. Qed.
Print Assumptions C09_none_cases.

Theorem C09_none_cases_documented : forall sh fs,
  (forall f, In f fs -> f_ignore f = true \/ f_source f = Some false) ->
  documented_source sh fs = Sel None \/ documented_source sh fs = Ambiguous.
Proof. exact Proofs.documented_none_when_opted_out. Qed.
Print Assumptions C09_none_cases_documented.

(* ... and whole enums: the emitted `match self` is exhaustive (the `_ => None` arm is decided against
   ALL variants, ignored ones included, so the derive compiles), an ignored variant has no source,
   every other variant returns what the documented rules select for its own fields *)
Theorem C09_enum_match_exhaustive : forall vs f,
  render_enum_source vs = Ok f -> match_exhaustive f (length vs) = true.
Proof. exact Proofs.enum_exhaustive. Qed.
Print Assumptions C09_enum_match_exhaustive.

Theorem C09_enum_variant : forall vs f k v,
  render_enum_source vs = Ok f -> nth_error vs k = Some v ->
  (v_ignore v = true -> enum_fn_returns f k = None) /\
  (v_ignore v = false ->
   Sel (enum_fn_returns f k) = documented_source (v_shape v) (v_fields v)).
Proof. exact Proofs.enum_source_documented. Qed.
Print Assumptions C09_enum_variant.

(* the wildcard arm is present exactly when some variant (ignored or source-less) has no arm *)
Theorem C09_enum_wildcard : forall vs arms w,
  render_enum_source vs = Ok (MatchSelf arms w) ->
  (w = true <-> exists k, k < length vs /\ covers arms k = false).
Proof. exact Proofs.enum_wildcard_iff. Qed.
Print Assumptions C09_enum_wildcard.

(* the `Debug + Display + Error + 'static` bound is on the type of the returned field exactly when
   that type mentions a type parameter *)
Theorem C09_bound_on_selected : forall k sh fs x j f,
  expand k sh fs = Ok x -> returned_field x = Some j -> nth_error fs j = Some f ->
  x_bound x = if f_ty_generic f then Some j else None.
Proof. exact Proofs.bound_on_selected. Qed.
Print Assumptions C09_bound_on_selected.

(* no internal failure (index out of bounds) on any layout *)
Theorem C09_no_internal_failure : forall k sh fs, expand k sh fs <> Panic.
Proof. exact Proofs.no_panic. Qed.
Print Assumptions C09_no_internal_failure.

(* ------------------------------------------------------------------ growth round: uniqueness, rejection,
   backtrace / provide(), outcome inertness, bound inference *)

(* the derive is rejected EXACTLY on a documented ambiguity (of the source or of the backtrace) ... *)
Theorem C09_rejected_iff : forall k sh fs,
  expand k sh fs = Err <->
  documented_source sh fs = Ambiguous \/ documented_backtrace sh fs = Ambiguous.
Proof. exact Proofs.rejected_iff. Qed.
Print Assumptions C09_rejected_iff.

(* ... and accepted on every other layout *)
Theorem C09_accepted_iff : forall k sh fs,
  (exists x, expand k sh fs = Ok x) <->
  documented_source sh fs <> Ambiguous /\ documented_backtrace sh fs <> Ambiguous.
Proof. exact Proofs.accepted_iff. Qed.
Print Assumptions C09_accepted_iff.

(* uniqueness: an accepted layout has at most one non-ignored field marked `#[error(source)]` *)
Theorem C09_marked_source_unique : forall k sh fs x,
  expand k sh fs = Ok x ->
  length (filter (fun f => negb (f_ignore f) && marked_source f) fs) <= 1.
Proof. exact Proofs.marked_source_unique. Qed.
Print Assumptions C09_marked_source_unique.

(* the backtrace field is the documented one *)
Theorem C09_backtrace_selection : forall k sh fs x,
  expand k sh fs = Ok x ->
  Sel (option_map (to_all fs) (x_bsel x)) = documented_backtrace sh fs.
Proof. exact Proofs.backtrace_selection. Qed.
Print Assumptions C09_backtrace_selection.

(* provide(): the documented backtrace by reference unless it is the source, whose provide() is forwarded *)
Theorem C09_provide_selection : forall k sh fs x,
  expand k sh fs = Ok x -> Sel (provided x) = documented_provide sh fs.
Proof. exact Proofs.provide_selection. Qed.
Print Assumptions C09_provide_selection.

Theorem C09_enum_provide_match_exhaustive : forall vs f,
  render_enum_provide vs = Ok f -> provide_match_exhaustive f (length vs) = true.
Proof. exact Proofs.enum_provide_exhaustive. Qed.
Print Assumptions C09_enum_provide_match_exhaustive.

Theorem C09_enum_provide_variant : forall vs f k v,
  render_enum_provide vs = Ok f -> nth_error vs k = Some v ->
  (v_ignore v = true -> enum_provide_fn_returns f k = (None, None)) /\
  (v_ignore v = false ->
   Sel (enum_provide_fn_returns f k) = documented_provide (v_shape v) (v_fields v)).
Proof. exact Proofs.enum_provide_documented. Qed.
Print Assumptions C09_enum_provide_variant.

(* `ignore`d fields change neither the documented backtrace nor whether the derive is accepted *)
Theorem C09_ignore_inert_backtrace : forall sh fs k f,
  f_ignore f = true -> k <= length fs ->
  documented_backtrace sh (insert_at k f fs) = doc_map (shift k) (documented_backtrace sh fs).
Proof. exact Proofs.ignore_inert_backtrace. Qed.
Print Assumptions C09_ignore_inert_backtrace.

Theorem C09_ignore_inert_outcome : forall kd sh fs k f,
  f_ignore f = true -> k <= length fs ->
  ((exists x, expand kd sh fs = Ok x) <-> (exists x', expand kd sh (insert_at k f fs) = Ok x'))
  /\ (expand kd sh fs = Err <-> expand kd sh (insert_at k f fs) = Err).
Proof. exact Proofs.ignore_inert_outcome. Qed.
Print Assumptions C09_ignore_inert_outcome.

(* which types get bounded: the walk of utils.rs finds a type parameter iff one of the identifiers it
   looks at (first segment of a path type, name of a constraint, through every position it descends
   into) is a type parameter *)
Theorem C09_type_parameter_used_iff : forall ps t,
  used_ty ps t = true <-> exists i, In i ps /\ In i (idents_ty t).
Proof. exact Proofs.used_ty_iff. Qed.
Print Assumptions C09_type_parameter_used_iff.

(* concrete fields: the `Error + 'static` bound is on the (reference-stripped) type of the returned
   field, exactly when that type mentions a type parameter; never elsewhere; none without a source *)
Theorem C09_bound_inference : forall ps k sh cs x j c,
  expand k sh (map (abstract_field ps) cs) = Ok x ->
  returned_field x = Some j -> nth_error cs j = Some c ->
  (x_bound x = Some j <-> exists i, In i ps /\ In i (idents_ty (c_ty c)))
  /\ (x_bound x = Some j \/ x_bound x = None)
  /\ (x_bound x = Some j ->
      get_if_type_parameter_used_in_type ps (c_ty c) = Some (strip_reference (c_ty c))).
Proof. exact Proofs.bound_inference. Qed.
Print Assumptions C09_bound_inference.

Theorem C09_bound_only_with_source : forall k sh fs x,
  expand k sh fs = Ok x -> returned_field x = None -> x_bound x = None.
Proof. exact Proofs.bound_only_with_source. Qed.
Print Assumptions C09_bound_only_with_source.

(* ================================================================== the enabled -> all index map *)

(* the map at the root of the repaired defect 6329c3f, characterised exactly and unconditionally: it lists the
   positions (among ALL fields) of exactly the fields not marked `ignore`, each once *)
Theorem C09_enabled_indexes_exact : forall fs j,
  In j (enabled_fields_indexes fs) <-> exists f, nth_error fs j = Some f /\ f_ignore f = false.
Proof. exact Proofs.enabled_indexes_iff. Qed.
Print Assumptions C09_enabled_indexes_exact.

Theorem C09_enabled_indexes_nodup : forall fs, NoDup (enabled_fields_indexes fs).
Proof. exact Proofs.enabled_indexes_nodup. Qed.
Print Assumptions C09_enabled_indexes_nodup.

From Coq Require Sorted.
Theorem C09_enabled_indexes_sorted : forall fs, Sorted.StronglySorted lt (enabled_fields_indexes fs).
Proof. exact Proofs.enabled_indexes_sorted. Qed.
Print Assumptions C09_enabled_indexes_sorted.
