(* C09 - `Error::source` returns exactly the field the documented rules select.

   Executable model of the decision logic of /repo/impl/src/error.rs (derive(Error)) and of the
   parts of /repo/impl/src/utils.rs it goes through (State::enabled_fields*, MultiFieldData::matcher),
   with the TWO index spaces kept explicit:

     * the "enabled" space : positions in `State::enabled_fields()` (fields not marked
                             `#[error(ignore)]`); `ParsedFields::source/backtrace` live here;
     * the "all" space     : positions in `state.fields` (every declared field); the match-arm
                             pattern (`matcher`) lives here; `field_indexes` translates.

   The model follows the code as of /repo commit 6329c3f ("fix: keep ignored fields out of the
   source/backtrace selection of derive(Error)"); the behaviour before that commit is kept at the
   end as `parse_fields_old` / `expand_old`, for historical regression lemmas only.

   No proofs in this file (Proofs.v), so that it still runs when a proof breaks.

   Layer-2 semantics (trusted, exercised against rustc at run time by tools/props/c09.py):
   `source_returns` - `Some(self.<member>.as_dyn_error())` returns the named member; a match arm
   `V(p0, .., pn) => Some(source.as_dyn_error())` returns the field at the position whose
   sub-pattern is the binding `source`; no `fn source` (or the `_ => None` arm) returns `None`. *)

From Coq Require Import List Arith Bool.
Import ListNotations.

(* ------------------------------------------------------------------ inputs *)

Definition ident := nat.
Definition id_source : ident := 0.        (* the identifier `source`    *)
Definition id_backtrace : ident := 1.     (* the identifier `backtrace` *)
                                          (* any other number: some other identifier *)

(* One declared field, as far as error.rs looks at it.
   f_source / f_backtrace : MetaInfo::source / MetaInfo::backtrace (utils.rs:1023-1026):
       Some true = `#[error(source)]`, Some false = `#[error(not(source))]`, None = not mentioned.
   f_ignore : `#[error(ignore)]`  (MetaInfo::enabled = Some(false); FullMetaInfo::enabled = false,
       the default being `true` for derive(Error): utils.rs:434-438 and error.rs:132-135).
   f_ty_backtrace : `is_type_path_ends_with_segment(&field.ty, "Backtrace")` (error.rs:365-379).
   f_ty_generic   : `get_if_type_parameter_used_in_type(type_params, &field.ty).is_some()`
                    (utils.rs:1255-1263). *)
Record field := mkField {
  f_name : option ident;
  f_ty_backtrace : bool;
  f_ty_generic : bool;
  f_source : option bool;
  f_backtrace : option bool;
  f_ignore : bool }.

(* DeriveType of the struct / of the per-variant State (utils.rs:376-386, :517-524); a unit
   struct / unit variant is `Named` with no fields. *)
Inductive shape := Named | Unnamed.

(* where the field list comes from *)
Inductive kind := Struct | Variant.

(* outcome of the macro *)
Inductive res (A : Type) :=
| Ok (a : A)
| Err          (* a syn::Error : compile error reported to the user *)
| Panic.       (* internal failure (index out of bounds)            *)
Arguments Ok {A} a.
Arguments Err {A}.
Arguments Panic {A}.

Definition res_bind {A B} (r : res A) (k : A -> res B) : res B :=
  match r with Ok a => k a | Err => Err | Panic => Panic end.

(* ------------------------------------------------------------------ utils.rs : State *)

(* utils.rs:674-681 State::enabled_fields *)
Definition enabled_fields (fs : list field) : list field :=
  filter (fun f => negb (f_ignore f)) fs.

(* utils.rs:711-719 State::enabled_fields_indexes (enumerate + filter), all-space positions of the
   enabled fields; `i` is the position of the head of `fs` *)
Fixpoint enabled_fields_indexes_from (i : nat) (fs : list field) : list nat :=
  match fs with
  | [] => []
  | f :: r => if f_ignore f then enabled_fields_indexes_from (S i) r
              else i :: enabled_fields_indexes_from (S i) r
  end.
Definition enabled_fields_indexes (fs : list field) : list nat := enabled_fields_indexes_from 0 fs.

(* utils.rs:595-598 + :702-709 : `members[k]` is `self.<ident of the k-th ENABLED field>`; a member
   is identified here by the all-space position of the field it names *)
Definition members (fs : list field) : list nat := enabled_fields_indexes fs.

(* Iterator::position *)
Fixpoint position (i : nat) (indexes : list nat) : option nat :=
  match indexes with
  | [] => None
  | x :: r => if Nat.eqb i x then Some 0 else option_map S (position i r)
  end.

(* utils.rs:786-804 MultiFieldData::matcher : one sub-pattern per field of `state.fields` (ALL
   fields); sub-pattern i is `bindings[k]` when `indexes[k] == i`, `_` otherwise.
   [Some k] = the k-th binding, [None] = `_`.  `n` is `self.state.fields.len()`. *)
Definition pattern := list (option nat).
Definition matcher (n : nat) (indexes : list nat) : pattern :=
  map (fun i => position i indexes) (seq 0 n).

(* ------------------------------------------------------------------ error.rs : selection *)

Definition is_some_true (v : option bool) : bool :=
  match v with Some true => true | _ => false end.
Definition is_none (v : option bool) : bool :=
  match v with None => true | _ => false end.

(* Iterator::enumerate *)
Definition enumerate {A} (l : list A) : list (nat * A) := combine (seq 0 (length l)) l.

(* error.rs:492-505 assert_iter_contains_zero_or_one_item *)
Definition assert_iter_contains_zero_or_one_item {A} (it : list A) : res (option A) :=
  match it with
  | [] => Ok None
  | [x] => Ok (Some x)
  | _ :: _ :: _ => Err
  end.

(* error.rs:452-490 parse_field_impl.  `it` = (index among ENABLED fields, field);
   `valid` = is_valid_default_field_for_attr(attr, _, len); `value` = |info| info.<attr> *)
Definition parse_field_impl (valid : field -> bool) (value : field -> option bool)
           (it : list (nat * field)) : res (option (nat * field)) :=
  let explicit_fields := filter (fun p => is_some_true (value (snd p))) it in
  let inferred_fields := filter (fun p => match value (snd p) with
                                          | None => valid (snd p)
                                          | _ => false
                                          end) it in
  res_bind (assert_iter_contains_zero_or_one_item explicit_fields) (fun field =>
  match field with
  | Some x => Ok (Some x)
  | None => assert_iter_contains_zero_or_one_item inferred_fields
  end).

Definition name_is (i : ident) (f : field) : bool :=
  match f_name f with Some n => Nat.eqb n i | None => false end.
  (* `field.ident.as_ref().unwrap()` (error.rs:316): syn guarantees an ident for every field of a
     named struct/variant; a nameless field simply matches no name here *)

(* the closures handed to parse_fields_impl, error.rs:313-326 (Named) and :331-340 (Unnamed) *)
Definition valid_source (sh : shape) (len : nat) (f : field) : bool :=
  match sh with
  | Named => name_is id_source f
  | Unnamed => Nat.eqb len 1 && negb (f_ty_backtrace f)
  end.
Definition valid_backtrace (sh : shape) (f : field) : bool :=
  match sh with
  | Named => name_is id_backtrace f || f_ty_backtrace f
  | Unnamed => f_ty_backtrace f
  end.

(* error.rs:408-450 parse_fields_impl on the enabled fields `efs`; `len` is the third argument of
   the closures (`fields.len()`, :425/:433).  Result: (source, backtrace), both positions among
   the ENABLED fields. *)
Definition parse_fields_impl_on (len : nat) (sh : shape) (efs : list field)
  : res (option nat * option nat) :=
  let it := enumerate efs in
  res_bind (parse_field_impl (valid_source sh len) f_source it) (fun source =>
  res_bind (parse_field_impl (valid_backtrace sh) f_backtrace it) (fun backtrace =>
  Ok (option_map fst source, option_map fst backtrace))).

(* error.rs:381-406 infer_source_field; `nfields` is `fields.len()` of the slice it is given,
   `efs` the enabled fields (`parsed_fields.data.infos` has one entry per ENABLED field) *)
Definition infer_source_field (nfields : nat) (efs : list field)
           (source backtrace : option nat) : res (option nat) :=
  if negb (Nat.eqb nfields 2) then Ok None else
  match source with
  | Some _ => Ok None
  | None =>
    match backtrace with
    | None => Ok None
    | Some b =>
      let s := (b + 1) mod 2 in
      match nth_error efs s with            (* parsed_fields.data.infos[source] *)
      | None => Panic
      | Some f => match f_source f with
                  | Some false => Ok None
                  | _ => Ok (Some s)
                  end
      end
    end
  end.

(* what parse_fields computes *)
Record parsed := mkParsed {
  p_source : option nat;       (* ParsedFields::source, position among ENABLED fields *)
  p_backtrace : option nat;    (* ParsedFields::backtrace, idem *)
  p_bound : option nat }.      (* all-space position of the field whose type received the
                                  `: Debug + Display + Error + 'static` bound, if any *)

(* error.rs:307-350 parse_fields up to the bound, with the two lengths as arguments:
   `len`   = the third argument of the closures (error.rs:425/:433),
   `nflds` = `fields.len()` inside infer_source_field (error.rs:344 passes the enabled fields).
   Result: (source after inference, backtrace), positions among the ENABLED fields. *)
Definition select_source_on (len nflds : nat) (sh : shape) (efs : list field)
  : res (option nat * option nat) :=
  res_bind (parse_fields_impl_on len sh efs) (fun sb =>
  match sh with
  | Named => Ok sb
  | Unnamed =>
    match fst sb with
    | Some _ => Ok sb                                       (* Option::or_else is lazy *)
    | None => res_bind (infer_source_field nflds efs (fst sb) (snd sb)) (fun s => Ok (s, snd sb))
    end
  end).

(* error.rs:352-360 : `bound_of s` = the field whose type is inspected for the bound (:356),
   with its all-space position *)
Definition parse_fields_on (len nflds : nat) (bound_of : nat -> res (nat * field))
           (sh : shape) (efs : list field) : res parsed :=
  res_bind (select_source_on len nflds sh efs) (fun sb =>
  match fst sb with
  | None => Ok (mkParsed None (snd sb) None)
  | Some s =>
    res_bind (bound_of s) (fun jf =>
    Ok (mkParsed (Some s) (snd sb)
                 (if f_ty_generic (snd jf) then Some (fst jf) else None)))
  end).

(* THE CODE AS IT IS (error.rs:307-361 parse_fields): every length is the number of ENABLED fields
   (`fields.len()` of `enabled_fields_data()`, :425/:433, and `&parsed_fields.data.fields`, :344);
   the bound looks at `parsed_fields.data.field_types[source]` (:356), the type of the source-th
   ENABLED field, identified here by its all-space position *)
Definition parse_fields (sh : shape) (fs : list field) : res parsed :=
  parse_fields_on (length (enabled_fields fs)) (length (enabled_fields fs))
    (fun s => match nth_error (combine (enabled_fields_indexes fs) (enabled_fields fs)) s with
              | Some jf => Ok jf
              | None => Panic                                (* Vec index out of bounds *)
              end)
    sh (enabled_fields fs).

(* the selection alone: ParsedFields::source after parse_fields *)
Definition expand_source (sh : shape) (fs : list field) : res (option nat) :=
  res_bind (parse_fields sh fs) (fun p => Ok (p_source p)).

(* ------------------------------------------------------------------ error.rs : rendering *)

Inductive source_code :=
| NoSource                        (* no `fn source` / no arm for the variant: `None`      *)
| SelfMember (m : nat)            (* `Some(self.<member m>.as_dyn_error())`                *)
| MatchArm (pat : pattern).       (* `V(pat) => Some(source.as_dyn_error())`, binding 0 = `source` *)

(* error.rs:207-211 render_source_as_struct : `self.data.members[source]` *)
Definition render_source_as_struct (fs : list field) (source : option nat) : res source_code :=
  match source with
  | None => Ok NoSource
  | Some s => match nth_error (members fs) s with
              | Some m => Ok (SelfMember m)
              | None => Panic
              end
  end.

(* error.rs:213-220 render_source_as_enum_variant_match_arm :
   `self.data.matcher(&[self.data.field_indexes[source]], &[quote! { source }])` - the ENABLED-space
   position is translated before it reaches the all-fields pattern *)
Definition render_source_as_enum_variant_match_arm (fs : list field) (source : option nat)
  : res source_code :=
  match source with
  | None => Ok NoSource
  | Some s => match nth_error (enabled_fields_indexes fs) s with   (* field_indexes[source] *)
              | Some j => Ok (MatchArm (matcher (length fs) [j]))
              | None => Panic
              end
  end.

(* ---- provide() ---- *)

(* the names given to the bindings of a provide arm, in the order of matcher's `bindings` *)
Inductive binder := BSource | BBacktrace.

Inductive provide_code :=
| NoProvide                                  (* no `fn provide` / no arm for the variant *)
| ProvideMembers (backtrace_ref : option nat) (source_fwd : option nat)
    (* struct: `request.provide_ref::<Backtrace>(&self.<m>)` for backtrace_ref = Some m, then
       `Error::provide(&self.<m'>, request)` for source_fwd = Some m' (members by all-space position) *)
| ProvideArm (pat : pattern) (names : list binder).
    (* `V(pat) => { [provide_ref(backtrace);] [Error::provide(source, request);] }`: the first
       statement is present iff a binding is called `backtrace`, the second iff one is called `source` *)

Definition member_at (fs : list field) (k : nat) : res nat :=
  match nth_error (members fs) k with Some m => Ok m | None => Panic end.
Definition field_index_at (fs : list field) (k : nat) : res nat :=
  match nth_error (enabled_fields_indexes fs) k with Some j => Ok j | None => Panic end.

(* error.rs:222-250 render_provide_as_struct *)
Definition render_provide_as_struct (fs : list field) (source backtrace : option nat)
  : res provide_code :=
  match backtrace with
  | None => Ok NoProvide                                              (* `self.backtrace?` *)
  | Some b =>
    res_bind (match source with                                      (* source_provider *)
              | Some s => res_bind (member_at fs s) (fun m => Ok (Some m))
              | None => Ok None
              end) (fun source_provider =>
    res_bind (match source with                                      (* backtrace_provider *)
              | Some s => if Nat.eqb s b then Ok None
                          else res_bind (member_at fs b) (fun m => Ok (Some m))
              | None => res_bind (member_at fs b) (fun m => Ok (Some m))
              end) (fun backtrace_provider =>
    Ok (ProvideMembers backtrace_provider source_provider)))
      (* `(source_provider.is_some() || backtrace_provider.is_some()).then(..)` is always `Some`
         here: without a source the backtrace provider exists *)
  end.

(* error.rs:252-297 render_provide_as_enum_variant_match_arm *)
Definition render_provide_as_enum_variant_match_arm (fs : list field) (source backtrace : option nat)
  : res provide_code :=
  match backtrace with
  | None => Ok NoProvide
  | Some b =>
    match source with
    | Some s =>
      if Nat.eqb s b then
        res_bind (field_index_at fs s) (fun js =>
        Ok (ProvideArm (matcher (length fs) [js]) [BSource]))
      else
        res_bind (field_index_at fs s) (fun js =>
        res_bind (field_index_at fs b) (fun jb =>
        Ok (ProvideArm (matcher (length fs) [js; jb]) [BSource; BBacktrace])))
    | None =>
      res_bind (field_index_at fs b) (fun jb =>
      Ok (ProvideArm (matcher (length fs) [jb]) [BBacktrace]))
    end
  end.

(* the whole expansion for one struct / one enabled variant *)
Record expansion := mkExpansion {
  x_sel : option nat;           (* ParsedFields::source (ENABLED space) *)
  x_code : source_code;         (* what `source()` does for this struct / variant *)
  x_bound : option nat;         (* all-space position of the field whose type is bounded *)
  x_bsel : option nat;          (* ParsedFields::backtrace (ENABLED space) *)
  x_provide : provide_code }.   (* what `provide()` does for this struct / variant *)

(* error.rs:111-121 render_struct, and the body of the loop of render_enum (:137-156) *)
Definition expand (k : kind) (sh : shape) (fs : list field) : res expansion :=
  res_bind (parse_fields sh fs) (fun p =>
  res_bind (match k with
            | Struct => render_source_as_struct fs (p_source p)
            | Variant => render_source_as_enum_variant_match_arm fs (p_source p)
            end) (fun code =>
  res_bind (match k with
            | Struct => render_provide_as_struct fs (p_source p) (p_backtrace p)
            | Variant => render_provide_as_enum_variant_match_arm fs (p_source p) (p_backtrace p)
            end) (fun provide =>
  Ok (mkExpansion (p_source p) code (p_bound p) (p_backtrace p) provide)))).

(* first position of the binding `source` (binding 0) in a pattern *)
Fixpoint binding_position (pat : pattern) : option nat :=
  match pat with
  | [] => None
  | Some 0 :: _ => Some 0
  | _ :: r => option_map S (binding_position r)
  end.

(* Layer-2 semantics: the all-space position of the field `source()` returns, None = `None` *)
Definition source_returns (c : source_code) : option nat :=
  match c with
  | NoSource => None
  | SelfMember m => Some m
  | MatchArm pat => binding_position pat
  end.

Definition returned_field (x : expansion) : option nat := source_returns (x_code x).

(* first position of the k-th binding in a pattern *)
Fixpoint binding_position_of (k : nat) (pat : pattern) : option nat :=
  match pat with
  | [] => None
  | b :: r => if match b with Some k' => Nat.eqb k' k | None => false end then Some 0
              else option_map S (binding_position_of k r)
  end.
Definition binder_eqb (a b : binder) : bool :=
  match a, b with BSource, BSource | BBacktrace, BBacktrace => true | _, _ => false end.
Fixpoint binder_index (b : binder) (names : list binder) : option nat :=
  match names with
  | [] => None
  | n :: r => if binder_eqb n b then Some 0 else option_map S (binder_index b r)
  end.
Definition binder_field (pat : pattern) (names : list binder) (b : binder) : option nat :=
  match binder_index b names with
  | Some k => binding_position_of k pat
  | None => None
  end.

(* Layer-2 semantics of provide(): (field handed to `provide_ref::<Backtrace>`, field whose own
   `provide` is forwarded to), all-space positions *)
Definition provide_returns (c : provide_code) : option nat * option nat :=
  match c with
  | NoProvide => (None, None)
  | ProvideMembers b s => (b, s)
  | ProvideArm pat names => (binder_field pat names BBacktrace, binder_field pat names BSource)
  end.
Definition provided (x : expansion) : option nat * option nat := provide_returns (x_provide x).

(* the position among ALL fields of the k-th enabled field *)
Definition to_all (fs : list field) (k : nat) : nat := nth k (enabled_fields_indexes fs) 0.

(* ------------------------------------------------------------------ error.rs : whole enum *)

Record variant := mkVariant {
  v_ignore : bool;              (* `#[error(ignore)]` on the variant *)
  v_shape : shape;
  v_fields : list field }.

(* error.rs:123-177 render_enum: arms (variant position, pattern) of the enabled variants that
   have a source; an error in any enabled variant fails the whole derive.  `i` = position of the
   head of `vs` in `state.variants`. *)
Fixpoint render_enum_arms (i : nat) (vs : list variant) : res (list (nat * source_code)) :=
  match vs with
  | [] => Ok []
  | v :: r =>
    if v_ignore v then render_enum_arms (S i) r           (* enabled_variant_data: filtered out *)
    else
      res_bind (expand Variant (v_shape v) (v_fields v)) (fun x =>
      res_bind (render_enum_arms (S i) r) (fun arms =>
      Ok (match x_code x with
          | NoSource => arms
          | c => (i, c) :: arms
          end)))
  end.
Definition render_enum (vs : list variant) : res (list (nat * source_code)) :=
  render_enum_arms 0 vs.

(* the arm selected by `match self { arms.. }` for a value of the variant at position k; no arm for
   it: the wildcard `_ => None`, if there is one (see [match_exhaustive]) *)
Fixpoint enum_source_returns (arms : list (nat * source_code)) (k : nat) : option nat :=
  match arms with
  | [] => None
  | (i, c) :: r => if Nat.eqb i k then source_returns c else enum_source_returns r k
  end.

(* error.rs:159-173 the `render` closure of render_enum applied to the source arms:
     `if !match_arms.is_empty() && match_arms.len() < state.variants.len() { push `_ => None` }`
     `(!match_arms.is_empty()).then(|| quote! { match self { #(#match_arms),* } })`
   The wildcard is decided against ALL variants (`state.variants`), ignored ones included. *)
Inductive enum_source_fn :=
| NoSourceFn                                               (* no `fn source`: the trait default, `None` *)
| MatchSelf (arms : list (nat * source_code)) (wildcard : bool).

Definition render_enum_source (vs : list variant) : res enum_source_fn :=
  res_bind (render_enum vs) (fun arms =>
  Ok (match arms with
      | [] => NoSourceFn
      | _ :: _ => MatchSelf arms (Nat.ltb (length arms) (length vs))
      end)).

(* error.rs:156 `bounds.extend(parsed_fields.bounds)`: (variant position, all-space field position)
   of every field whose type receives the bound *)
Fixpoint enum_bounds_from (i : nat) (vs : list variant) : list (nat * nat) :=
  match vs with
  | [] => []
  | v :: r =>
    if v_ignore v then enum_bounds_from (S i) r
    else match expand Variant (v_shape v) (v_fields v) with
         | Ok x => match x_bound x with
                   | Some j => (i, j) :: enum_bounds_from (S i) r
                   | None => enum_bounds_from (S i) r
                   end
         | _ => enum_bounds_from (S i) r
         end
  end.

(* error.rs:152-154 + :159-176: the provide arms of the enabled variants and the same `render`
   closure (`_ => ()` iff there is an arm and fewer arms than ALL variants) *)
Fixpoint render_enum_provide_arms (i : nat) (vs : list variant) : res (list (nat * provide_code)) :=
  match vs with
  | [] => Ok []
  | v :: r =>
    if v_ignore v then render_enum_provide_arms (S i) r
    else
      res_bind (expand Variant (v_shape v) (v_fields v)) (fun x =>
      res_bind (render_enum_provide_arms (S i) r) (fun arms =>
      Ok (match x_provide x with
          | NoProvide => arms
          | c => (i, c) :: arms
          end)))
  end.
Inductive enum_provide_fn :=
| NoProvideFn
| MatchSelfProvide (arms : list (nat * provide_code)) (wildcard : bool).
Definition render_enum_provide (vs : list variant) : res enum_provide_fn :=
  res_bind (render_enum_provide_arms 0 vs) (fun arms =>
  Ok (match arms with
      | [] => NoProvideFn
      | _ :: _ => MatchSelfProvide arms (Nat.ltb (length arms) (length vs))
      end)).
Definition provide_covers (arms : list (nat * provide_code)) (k : nat) : bool :=
  existsb (fun a => Nat.eqb (fst a) k) arms.
Definition provide_match_exhaustive (f : enum_provide_fn) (nvariants : nat) : bool :=
  match f with
  | NoProvideFn => true
  | MatchSelfProvide arms wildcard => wildcard || forallb (provide_covers arms) (seq 0 nvariants)
  end.
Fixpoint enum_provide_returns (arms : list (nat * provide_code)) (k : nat) : option nat * option nat :=
  match arms with
  | [] => (None, None)
  | (i, c) :: r => if Nat.eqb i k then provide_returns c else enum_provide_returns r k
  end.
Definition enum_provide_fn_returns (f : enum_provide_fn) (k : nat) : option nat * option nat :=
  match f with
  | NoProvideFn => (None, None)
  | MatchSelfProvide arms _ => enum_provide_returns arms k
  end.

(* Layer-2 semantics of the emitted `match self`: every arm pattern `E::Vi(..)` consists of bindings
   and `_` only, hence matches every value of its variant; rustc accepts the match (E0004 otherwise)
   iff there is a wildcard or every variant has an arm *)
Definition covers (arms : list (nat * source_code)) (k : nat) : bool :=
  existsb (fun a => Nat.eqb (fst a) k) arms.
Definition match_exhaustive (f : enum_source_fn) (nvariants : nat) : bool :=
  match f with
  | NoSourceFn => true
  | MatchSelf arms wildcard => wildcard || forallb (covers arms) (seq 0 nvariants)
  end.
Definition enum_fn_returns (f : enum_source_fn) (k : nat) : option nat :=
  match f with
  | NoSourceFn => None
  | MatchSelf arms _ => enum_source_returns arms k
  end.

(* ------------------------------------------------------------------ the documented rules *)

(* Written from /repo/impl/doc/error.md ("When and how does it derive `source()`?", "... `provide()`?",
   "Ignoring fields for derives") and the property text, NOT from the code's case split:

     3. one of the fields is annotated with `#[error(source)]`: that field;
     1. named fields and one of them is called `source`: that field;
     2. tuple and exactly one field is not used as the backtrace - "either a tuple struct with one
        field, or one with two where one is the backtrace": that field;
     `#[error(ignore)]` fields are ignored both for detecting `backtrace` and `source`;
     `#[error(not(source))]` excludes a field from being the source.

   Result: position among ALL declared fields.  More than one candidate of the same rank is
   [Ambiguous] (the property demands a compile error).

   Readings fixed where the text is silent (both are pinned by the repository's own tests,
   tests/error/nightly/derives_for_structs_with_backtrace.rs): the sole field of a tuple stays the
   source when it is marked `#[error(backtrace)]` ("backtrace from source"); a sole field whose type
   is called `Backtrace` is the backtrace itself, not an error source. *)

Inductive doc (A : Type) := Sel (a : A) | Ambiguous.
Arguments Sel {A} a.
Arguments Ambiguous {A}.

Definition marked_source (f : field) : bool := is_some_true (f_source f).
Definition opted_out (f : field) : bool :=
  match f_source f with Some false => true | _ => false end.

(* the fields the rules look at: the non-ignored ones, each with its position among all fields *)
Definition indexed (fs : list field) : list (nat * field) := combine (seq 0 (length fs)) fs.
Definition considered (fs : list field) : list (nat * field) :=
  filter (fun p => negb (f_ignore (snd p))) (indexed fs).

Definition pick (c : list (nat * field)) : doc (option nat) :=
  match c with
  | [] => Sel None
  | [p] => Sel (Some (fst p))
  | _ :: _ :: _ => Ambiguous
  end.

(* which of the two fields of a two-field tuple is the backtrace (provide() rules 3 then 2):
   Some true = the first, Some false = the second, None = neither *)
Definition marked_backtrace (f : field) : bool := is_some_true (f_backtrace f).
Definition backtrace_by_type (f : field) : bool := is_none (f_backtrace f) && f_ty_backtrace f.
Definition two_field_backtrace (a b : field) : doc (option bool) :=
  match marked_backtrace a, marked_backtrace b with
  | true, true => Ambiguous
  | true, false => Sel (Some true)
  | false, true => Sel (Some false)
  | false, false =>
    match backtrace_by_type a, backtrace_by_type b with
    | true, true => Ambiguous
    | true, false => Sel (Some true)
    | false, true => Sel (Some false)
    | false, false => Sel None
    end
  end.

Definition unless_opted_out (p : nat * field) : doc (option nat) :=
  if opted_out (snd p) then Sel None else Sel (Some (fst p)).

Definition documented_source_among (sh : shape) (c : list (nat * field)) : doc (option nat) :=
  match filter (fun p => marked_source (snd p)) c with
  | _ :: _ :: _ => Ambiguous                                   (* rule 3, twice *)
  | [p] => Sel (Some (fst p))                                  (* rule 3 *)
  | [] =>
    match sh with
    | Named =>                                                  (* rule 1 *)
      pick (filter (fun p => name_is id_source (snd p) && negb (opted_out (snd p))) c)
    | Unnamed =>                                                (* rule 2 *)
      match c with
      | [p] => if f_ty_backtrace (snd p) then Sel None else unless_opted_out p
      | [p; q] =>
        match two_field_backtrace (snd p) (snd q) with
        | Ambiguous => Ambiguous
        | Sel None => Sel None
        | Sel (Some true) => unless_opted_out q
        | Sel (Some false) => unless_opted_out p
        end
      | _ => Sel None
      end
    end
  end.

Definition documented_source (sh : shape) (fs : list field) : doc (option nat) :=
  documented_source_among sh (considered fs).

(* "When and how does it derive `provide()`?" (impl/doc/error.md):
     3. one of the fields is annotated with `#[error(backtrace)]`: that field;
     1. named fields and one of them is called `backtrace`: that field;
     2. tuple and the type of exactly one of the fields is called `Backtrace`: that field;
   `#[error(not(backtrace))]` excludes a field, `#[error(ignore)]` fields are not looked at.
   Reading fixed where the text is silent: with named fields a field whose TYPE is called
   `Backtrace` is a candidate too (pinned by tests/error/nightly:
   named_implicit_backtrace_by_field_type). *)
Definition backtrace_candidate (sh : shape) (f : field) : bool :=
  is_none (f_backtrace f) &&
  match sh with
  | Named => name_is id_backtrace f || f_ty_backtrace f
  | Unnamed => f_ty_backtrace f
  end.
Definition documented_backtrace_among (sh : shape) (c : list (nat * field)) : doc (option nat) :=
  match filter (fun p => marked_backtrace (snd p)) c with
  | _ :: _ :: _ => Ambiguous
  | [p] => Sel (Some (fst p))
  | [] => pick (filter (fun p => backtrace_candidate sh (snd p)) c)
  end.
Definition documented_backtrace (sh : shape) (fs : list field) : doc (option nat) :=
  documented_backtrace_among sh (considered fs).

(* what provide() offers (doc + the repository's nightly tests): nothing without a backtrace
   field; otherwise the backtrace field by reference - unless it IS the source, whose own
   `provide` then supplies it ("backtrace from source") - and the source's `provide` is forwarded *)
Definition opt_nat_eqb (a b : option nat) : bool :=
  match a, b with
  | Some x, Some y => Nat.eqb x y
  | None, None => true
  | _, _ => false
  end.
Definition documented_provide (sh : shape) (fs : list field) : doc (option nat * option nat) :=
  match documented_backtrace sh fs, documented_source sh fs with
  | Ambiguous, _ => Ambiguous
  | _, Ambiguous => Ambiguous
  | Sel None, Sel _ => Sel (None, None)
  | Sel (Some b), Sel s => Sel (if opt_nat_eqb s (Some b) then None else Some b, s)
  end.

(* ------------------------------------------------------------------ vocabulary of the theorems *)

Definition insert_at {A} (k : nat) (x : A) (l : list A) : list A := firstn k l ++ x :: skipn k l.
Definition shift (k i : nat) : nat := if Nat.ltb i k then i else S i.
Definition doc_map {A B} (g : A -> B) (d : doc (option A)) : doc (option B) :=
  match d with Sel o => Sel (option_map g o) | Ambiguous => Ambiguous end.

Definition no_ignored (fs : list field) : bool := negb (existsb f_ignore fs).

(* ------------------------------------------------------------------ utils.rs : types *)

(* The part of `syn::Type` that error.rs / utils.rs look at.  A field of the selection model above
   is the abstraction of a concrete field: `f_ty_backtrace` and `f_ty_generic` are computed from the
   field's type by the two functions below ([abstract_field]). *)
Inductive ty :=
| TyPath (qself : option ty) (segs : list seg)        (* Type::Path, `<Q as ..>::a::b<..>`          *)
| TyRef (elem : ty)                                    (* Type::Reference                            *)
| TyWrap (elem : ty)                                   (* Type::Array / Slice / Group / Paren / Ptr  *)
| TyTuple (elems : list ty)                            (* Type::Tuple                                *)
| TyBareFn (inputs : list ty) (output : option ty)     (* Type::BareFn                               *)
| TyTraitObject (bounds : list bound)                  (* Type::TraitObject                          *)
| TyOther                                              (* ImplTrait, Infer, Macro, Never, Verbatim   *)
with seg := Seg (name : ident) (args : pargs)          (* PathSegment                                *)
with pargs :=
| PNone
| PAngle (l : list garg)                               (* `<..>`                                     *)
| PParen (inputs : list ty) (output : option ty)       (* `(A, B) -> C`                              *)
with garg :=
| GType (t : ty)                                       (* GenericArgument::Type                      *)
| GAssocType (t : ty)                                  (* GenericArgument::AssocType `X = T`         *)
| GConstraint (i : ident)                              (* GenericArgument::Constraint `X: ..`        *)
| GOther                                               (* Lifetime, Const, AssocConst                *)
with bound :=
| BTrait (path : list seg)                             (* TypeParamBound::Trait                      *)
| BLifetime.                                           (* TypeParamBound::Lifetime (and others)      *)

Definition memb (i : ident) (ps : list ident) : bool := existsb (Nat.eqb i) ps.

(* utils.rs:1265-1356 is_type_parameter_used_in_type (`ps` = the type parameters of the item);
   `used_seg`/`used_pargs`/`used_garg` are the closure `used_in_path` (:1269-1300) *)
Fixpoint used_ty (ps : list ident) (t : ty) {struct t} : bool :=
  match t with
  | TyPath q segs =>
      (match q with Some qt => used_ty ps qt | None => false end)          (* :1304-1308 *)
      || (match segs with Seg n _ :: _ => memb n ps | [] => false end)     (* :1310-1314, FIRST segment *)
      || existsb (used_seg ps) segs                                        (* :1316 *)
  | TyRef e => used_ty ps e                                                (* :1319-1321 *)
  | TyWrap e => used_ty ps e                                               (* :1323-1329 *)
  | TyTuple es => existsb (used_ty ps) es                                  (* :1331-1334 *)
  | TyBareFn ins out =>                                                    (* :1336-1345 *)
      existsb (used_ty ps) ins
      || (match out with Some o => used_ty ps o | None => false end)
  | TyTraitObject bs => existsb (used_bound ps) bs                         (* :1347-1352 *)
  | TyOther => false                                                       (* :1354 *)
  end
with used_seg (ps : list ident) (s : seg) {struct s} : bool :=
  match s with Seg _ a => used_pargs ps a end
with used_pargs (ps : list ident) (a : pargs) {struct a} : bool :=
  match a with
  | PNone => false
  | PAngle l => existsb (used_garg ps) l
  | PParen ins out =>
      existsb (used_ty ps) ins
      || (match out with Some o => used_ty ps o | None => false end)
  end
with used_garg (ps : list ident) (g : garg) {struct g} : bool :=
  match g with
  | GType t => used_ty ps t
  | GAssocType t => used_ty ps t
  | GConstraint i => memb i ps
  | GOther => false
  end
with used_bound (ps : list ident) (b : bound) {struct b} : bool :=
  match b with
  | BTrait path => existsb (used_seg ps) path       (* only `used_in_path`: no first-segment test *)
  | BLifetime => false
  end.

(* utils.rs:1255-1263 get_if_type_parameter_used_in_type: the type that receives the bound; one
   layer of reference is stripped *)
Definition strip_reference (t : ty) : ty := match t with TyRef e => e | _ => t end.
Definition get_if_type_parameter_used_in_type (ps : list ident) (t : ty) : option ty :=
  if used_ty ps t then Some (strip_reference t) else None.

(* error.rs:365-379 is_type_path_ends_with_segment: a path type whose LAST segment is `tail` and
   carries no arguments (a path without segments does not exist in syn; it is `false` here) *)
Definition is_type_path_ends_with_segment (t : ty) (tail : ident) : bool :=
  match t with
  | TyPath _ segs =>
      match rev segs with
      | Seg n PNone :: _ => Nat.eqb n tail
      | _ => false
      end
  | _ => false
  end.

(* the identifiers the walk looks at (specification side): the first segment of every path TYPE,
   the names of `X: ..` constraints, recursively through every position the walk descends into *)
Fixpoint idents_ty (t : ty) {struct t} : list ident :=
  match t with
  | TyPath q segs =>
      (match q with Some qt => idents_ty qt | None => [] end)
      ++ (match segs with Seg n _ :: _ => [n] | [] => [] end)
      ++ flat_map idents_seg segs
  | TyRef e => idents_ty e
  | TyWrap e => idents_ty e
  | TyTuple es => flat_map idents_ty es
  | TyBareFn ins out => flat_map idents_ty ins ++ (match out with Some o => idents_ty o | None => [] end)
  | TyTraitObject bs => flat_map idents_bound bs
  | TyOther => []
  end
with idents_seg (s : seg) {struct s} : list ident :=
  match s with Seg _ a => idents_pargs a end
with idents_pargs (a : pargs) {struct a} : list ident :=
  match a with
  | PNone => []
  | PAngle l => flat_map idents_garg l
  | PParen ins out => flat_map idents_ty ins ++ (match out with Some o => idents_ty o | None => [] end)
  end
with idents_garg (g : garg) {struct g} : list ident :=
  match g with
  | GType t => idents_ty t
  | GAssocType t => idents_ty t
  | GConstraint i => [i]
  | GOther => []
  end
with idents_bound (b : bound) {struct b} : list ident :=
  match b with
  | BTrait path => flat_map idents_seg path
  | BLifetime => []
  end.

(* a concrete field and its abstraction *)
Definition ty_Backtrace : ident := 2.                 (* the identifier `Backtrace` *)
Record cfield := mkCField {
  c_name : option ident;
  c_ty : ty;
  c_source : option bool;
  c_backtrace : option bool;
  c_ignore : bool }.
Definition abstract_field (ps : list ident) (c : cfield) : field :=
  mkField (c_name c)
          (is_type_path_ends_with_segment (c_ty c) ty_Backtrace)
          (used_ty ps (c_ty c))
          (c_source c) (c_backtrace c) (c_ignore c).

(* ------------------------------------------------------------------ entry point of the tie *)

(* one line per case for tools/props/c09.py: (outcome, selection, returned field, bound, documented) *)
Inductive outcome := OOk | OErr | OPanic.
Definition run_case (k : kind) (sh : shape) (fs : list field)
  : outcome * option nat * option nat * option nat * doc (option nat) :=
  match expand k sh fs with
  | Ok x => (OOk, x_sel x, returned_field x, x_bound x, documented_source sh fs)
  | Err => (OErr, None, None, None, documented_source sh fs)
  | Panic => (OPanic, None, None, None, documented_source sh fs)
  end.

(* an enum `enum E { [#[error(ignore)]] V <fields>, U }`: what `source()` returns on `E::V ..` and
   on `E::U` *)
Definition run_enum_case (ign : bool) (sh : shape) (fs : list field)
  : outcome * option nat * option nat :=
  match render_enum [mkVariant ign sh fs; mkVariant false Named []] with
  | Ok arms => (OOk, enum_source_returns arms 0, enum_source_returns arms 1)
  | Err => (OErr, None, None)
  | Panic => (OPanic, None, None)
  end.

(* everything about one struct / variant from ONE expansion:
   (outcome, (selection, returned field, bound), (backtrace in all-space, provide_ref target, forward
   target), (documented source, backtrace, provide)) *)
Definition run_full (k : kind) (sh : shape) (fs : list field)
  : outcome * (option nat * option nat * option nat) * (option nat * option nat * option nat)
    * (doc (option nat) * doc (option nat) * doc (option nat * option nat)) :=
  let d := (documented_source sh fs, documented_backtrace sh fs, documented_provide sh fs) in
  match expand k sh fs with
  | Ok x => (OOk, (x_sel x, returned_field x, x_bound x),
             (option_map (to_all fs) (x_bsel x), fst (provided x), snd (provided x)), d)
  | Err => (OErr, (None, None, None), (None, None, None), d)
  | Panic => (OPanic, (None, None, None), (None, None, None), d)
  end.

(* provide() of a whole enum: (has fn, wildcard, exhaustive), per variant what it offers *)
Definition run_enum_provide (vs : list variant)
  : outcome * (bool * bool * bool) * list (option nat * option nat) :=
  match render_enum_provide vs with
  | Ok f => (OOk,
             (match f with NoProvideFn => false | MatchSelfProvide _ _ => true end,
              match f with NoProvideFn => false | MatchSelfProvide _ w => w end,
              provide_match_exhaustive f (length vs)),
             map (enum_provide_fn_returns f) (seq 0 (length vs)))
  | Err => (OErr, (false, false, true), [])
  | Panic => (OPanic, (false, false, true), [])
  end.

(* the two type predicates and the bounded type *)
Definition run_type (ps : list ident) (t : ty) : option ty * bool :=
  (get_if_type_parameter_used_in_type ps t, is_type_path_ends_with_segment t ty_Backtrace).

(* a whole enum: (outcome, (has `fn source`, wildcard arm, exhaustive), what `source()` returns on
   each variant, bounds) *)
Definition run_enum (vs : list variant)
  : outcome * (bool * bool * bool) * list (option nat) * list (nat * nat) :=
  match render_enum_source vs with
  | Ok f => (OOk,
             (match f with NoSourceFn => false | MatchSelf _ _ => true end,
              match f with NoSourceFn => false | MatchSelf _ w => w end,
              match_exhaustive f (length vs)),
             map (enum_fn_returns f) (seq 0 (length vs)),
             enum_bounds_from 0 vs)
  | Err => (OErr, (false, false, true), [], [])
  | Panic => (OPanic, (false, false, true), [], [])
  end.

(* ------------------------------------------------------------------ before commit 6329c3f *)

(* HISTORICAL: the selection as it was before /repo commit 6329c3f.  Every length was
   `state.fields.len()` (ALL fields), the bound looked at `state.fields[source]` and the match arm
   was built by `matcher(&[source], ..)`, although `source` is a position among the ENABLED fields.
   Kept only for the regression lemmas of Proofs.v (`old_*`); no property theorem is about it. *)
Definition parse_fields_old (sh : shape) (fs : list field) : res parsed :=
  parse_fields_on (length fs) (length fs)
    (fun s => match nth_error fs s with Some f => Ok (s, f) | None => Panic end)
    sh (enabled_fields fs).

Definition render_source_as_enum_variant_match_arm_old (fs : list field) (source : option nat)
  : source_code :=
  match source with
  | None => NoSource
  | Some s => MatchArm (matcher (length fs) [s])
  end.

Definition expand_old (k : kind) (sh : shape) (fs : list field) : res expansion :=
  res_bind (parse_fields_old sh fs) (fun p =>
  res_bind (match k with
            | Struct => render_source_as_struct fs (p_source p)
            | Variant => Ok (render_source_as_enum_variant_match_arm_old fs (p_source p))
            end) (fun code =>
  Ok (mkExpansion (p_source p) code (p_bound p) (p_backtrace p) NoProvide))).
  (* provide() is not part of the historical variant *)

(* the layouts on which the old code selected correctly:
     lengths_agree : the inference never looks at a length (named fields, or an explicit
                     `#[error(source)]` on a non-ignored field), or no field is ignored, so that
                     `state.fields.len()` IS the number of enabled fields;
     prefix_clean  : (enum variants only) no ignored field is declared before the documented
                     source, so that its position is the same in both index spaces. *)
Definition has_marked_source (fs : list field) : bool :=
  existsb (fun f => negb (f_ignore f) && marked_source f) fs.
Definition lengths_agree (sh : shape) (fs : list field) : Prop :=
  sh = Named \/ no_ignored fs = true \/ has_marked_source fs = true.
Definition prefix_clean (sh : shape) (fs : list field) : Prop :=
  forall j, documented_source sh fs = Sel (Some j) -> no_ignored (firstn j fs) = true.
Definition selection_safe (k : kind) (sh : shape) (fs : list field) : Prop :=
  lengths_agree sh fs /\ (k = Variant -> prefix_clean sh fs).

Definition run_case_old (k : kind) (sh : shape) (fs : list field)
  : outcome * option nat * option nat * option nat * doc (option nat) :=
  match expand_old k sh fs with
  | Ok x => (OOk, x_sel x, returned_field x, x_bound x, documented_source sh fs)
  | Err => (OErr, None, None, None, documented_source sh fs)
  | Panic => (OPanic, None, None, None, documented_source sh fs)
  end.
