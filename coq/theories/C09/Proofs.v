(* C09 - proofs about the model of derive(Error)'s source selection (Model.v). *)

From Coq Require Import List Arith Bool Lia.
Import ListNotations.
Require Import Verif.C09.Model.

(* ------------------------------------------------------------------ lists *)

Definition relabel {A} (g : nat -> nat) (c : list (nat * A)) : list (nat * A) :=
  map (fun p => (g (fst p), snd p)) c.

Lemma filter_relabel : forall A (P : A -> bool) g (c : list (nat * A)),
  filter (fun p => P (snd p)) (relabel g c) = relabel g (filter (fun p => P (snd p)) c).
Proof.
  intros A P g c. unfold relabel. induction c as [|p c IH]; cbn; [reflexivity|].
  destruct (P (snd p)); cbn; rewrite IH; reflexivity.
Qed.

Lemma relabel_combine : forall A g (a : list nat) (b : list A),
  relabel g (combine a b) = combine (map g a) b.
Proof.
  intros A g a. unfold relabel. induction a as [|x a IH]; intros [|y b]; cbn; try reflexivity.
  rewrite IH. reflexivity.
Qed.

Lemma map_nth_seq_from : forall (l : list nat) d pre,
  map (fun i => nth i (pre ++ l) d) (seq (length pre) (length l)) = l.
Proof.
  induction l as [|x l IH]; intros d pre; cbn [length seq map]; [reflexivity|].
  f_equal.
  - rewrite app_nth2 by lia. rewrite Nat.sub_diag. reflexivity.
  - specialize (IH d (pre ++ [x])). rewrite app_length in IH. cbn [length] in IH.
    rewrite Nat.add_1_r in IH. rewrite <- app_assoc in IH. exact IH.
Qed.

Lemma map_nth_seq : forall (l : list nat) d,
  map (fun i => nth i l d) (seq 0 (length l)) = l.
Proof. intros l d. exact (map_nth_seq_from l d []). Qed.

Lemma filter_none : forall A (P : A -> bool) l,
  (forall x, In x l -> P x = false) -> filter P l = [].
Proof.
  intros A P l. induction l as [|x l IH]; intros H; cbn; [reflexivity|].
  rewrite (H x (or_introl eq_refl)). apply IH. intros y Hy. apply H. right. exact Hy.
Qed.

Lemma filter_ext_in' : forall A (P Q : A -> bool) l,
  (forall x, In x l -> P x = Q x) -> filter P l = filter Q l.
Proof.
  intros A P Q l. induction l as [|x l IH]; intros H; cbn; [reflexivity|].
  rewrite (H x (or_introl eq_refl)). rewrite IH; [reflexivity|].
  intros y Hy. apply H. right. exact Hy.
Qed.

Lemma filter_nil_all : forall A (P : A -> bool) l,
  filter P l = [] -> forall x, In x l -> P x = false.
Proof.
  intros A P l. induction l as [|y l IH]; intros H x Hx; [destruct Hx|].
  cbn in H. destruct (P y) eqn:Py; [discriminate|].
  destruct Hx as [->|Hx]; [exact Py|]. apply IH; assumption.
Qed.

Lemma enumerate_in_lt : forall A (l : list A) i x, In (i, x) (enumerate l) -> i < length l.
Proof.
  intros A l i x H. unfold enumerate in H. apply in_combine_l in H.
  apply in_seq in H. lia.
Qed.

Lemma enumerate_in_nth : forall A (l : list A) i x,
  In (i, x) (enumerate l) -> nth_error l i = Some x.
Proof.
  intros A l i x. unfold enumerate.
  assert (G : forall a, In (i, x) (combine (seq a (length l)) l) -> nth_error l (i - a) = Some x /\ a <= i).
  { induction l as [|y l IH]; intros a H; [destruct H|].
    cbn in H. destruct H as [H|H].
    - inversion H; subst. rewrite Nat.sub_diag. split; [reflexivity|lia].
    - destruct (IH (S a) H) as [E L]. split; [|lia].
      replace (i - a) with (S (i - S a)) by lia. exact E. }
  intros H. destruct (G 0 H) as [E _]. rewrite Nat.sub_0_r in E. exact E.
Qed.

(* ------------------------------------------------------------------ the two index spaces *)

Lemma enabled_indexes_length : forall fs i,
  length (enabled_fields_indexes_from i fs) = length (enabled_fields fs).
Proof.
  induction fs as [|f fs IH]; intros i; cbn; [reflexivity|].
  destruct (f_ignore f); cbn; rewrite IH; reflexivity.
Qed.

Lemma considered_from : forall fs i,
  filter (fun p : nat * field => negb (f_ignore (snd p))) (combine (seq i (length fs)) fs)
  = combine (enabled_fields_indexes_from i fs) (enabled_fields fs).
Proof.
  induction fs as [|f fs IH]; intros i; cbn; [reflexivity|].
  destruct (f_ignore f); cbn; rewrite IH; reflexivity.
Qed.

(* Lemma A: the fields the documented rules look at are the enabled fields of the code, each
   carrying its all-space position *)
Lemma considered_enabled : forall fs,
  considered fs
  = relabel (fun s => nth s (enabled_fields_indexes fs) 0) (enumerate (enabled_fields fs)).
Proof.
  intros fs. unfold considered, indexed, enumerate. rewrite considered_from.
  rewrite relabel_combine. f_equal.
  unfold enabled_fields_indexes. rewrite <- (enabled_indexes_length fs 0).
  symmetry. apply map_nth_seq.
Qed.

Definition count_ignored (l : list field) : nat := length (filter f_ignore l).

(* the all-space position of the s-th enabled field = s + number of ignored fields before it *)
Lemma enabled_index_count : forall fs i s j,
  nth_error (enabled_fields_indexes_from i fs) s = Some j ->
  j = i + s + count_ignored (firstn (j - i) fs) /\ j - i < length fs.
Proof.
  induction fs as [|f fs IH]; intros i s j H.
  - destruct s; discriminate H.
  - cbn [enabled_fields_indexes_from] in H. destruct (f_ignore f) eqn:Ig.
    + destruct (IH _ _ _ H) as [E L].
      assert (Hj : j - i = S (j - S i)) by lia. rewrite Hj. cbn [firstn length].
      unfold count_ignored in *. cbn [filter]. rewrite Ig. cbn [length]. lia.
    + destruct s as [|s].
      * cbn in H. inversion H; subst. rewrite Nat.sub_diag. cbn. unfold count_ignored. cbn. lia.
      * cbn [nth_error] in H. destruct (IH _ _ _ H) as [E L].
        assert (Hj : j - i = S (j - S i)) by lia. rewrite Hj. cbn [firstn length].
        unfold count_ignored in *. cbn [filter]. rewrite Ig. lia.
Qed.

Lemma no_ignored_count : forall l, no_ignored l = true <-> count_ignored l = 0.
Proof.
  unfold no_ignored, count_ignored. induction l as [|f l IH]; cbn; [tauto|].
  destruct (f_ignore f); cbn; [split; [discriminate|lia]|exact IH].
Qed.

Lemma enabled_index_lt : forall fs s j,
  nth_error (enabled_fields_indexes fs) s = Some j -> j < length fs.
Proof.
  intros fs s j H. destruct (enabled_index_count fs 0 s j H) as [_ L]. lia.
Qed.

(* same position in both spaces <-> no ignored field before it *)
Lemma enabled_index_same : forall fs s j,
  nth_error (enabled_fields_indexes fs) s = Some j ->
  (j = s <-> no_ignored (firstn j fs) = true).
Proof.
  intros fs s j H. destruct (enabled_index_count fs 0 s j H) as [E _].
  rewrite Nat.sub_0_r in E. rewrite no_ignored_count. lia.
Qed.

(* the s-th enabled field IS the field at its all-space position *)
Lemma enabled_index_field : forall fs i s j f,
  nth_error (enabled_fields_indexes_from i fs) s = Some j ->
  nth_error (enabled_fields fs) s = Some f ->
  nth_error fs (j - i) = Some f.
Proof.
  induction fs as [|g fs IH]; intros i s j f Hj Hf.
  - destruct s; discriminate Hj.
  - cbn [enabled_fields_indexes_from] in Hj. cbn [enabled_fields filter] in Hf.
    destruct (enabled_index_count (g :: fs) i s j) as [E _].
    { cbn [enabled_fields_indexes_from]. exact Hj. }
    destruct (f_ignore g) eqn:Ig; cbn [negb] in Hf.
    + destruct (enabled_index_count fs (S i) s j Hj) as [E' _].
      replace (j - i) with (S (j - S i)) by lia. cbn [nth_error]. eapply IH; eassumption.
    + destruct s as [|s].
      * cbn in Hj, Hf. inversion Hj; subst. rewrite Nat.sub_diag. exact Hf.
      * cbn [nth_error] in Hj, Hf.
        destruct (enabled_index_count fs (S i) s j Hj) as [E' _].
        replace (j - i) with (S (j - S i)) by lia. cbn [nth_error]. eapply IH; eassumption.
Qed.

Lemma no_ignored_enabled : forall fs, no_ignored fs = true -> enabled_fields fs = fs.
Proof.
  unfold no_ignored, enabled_fields. induction fs as [|f fs IH]; cbn; [reflexivity|].
  destruct (f_ignore f); cbn; [discriminate|]. intros H. rewrite IH by exact H. reflexivity.
Qed.

Lemma enabled_length_le : forall fs, length (enabled_fields fs) <= length fs.
Proof.
  unfold enabled_fields. induction fs as [|f fs IH]; cbn; [lia|].
  destruct (f_ignore f); cbn; lia.
Qed.

(* ------------------------------------------------------------------ the documented rules do not
   depend on how positions are numbered (Lemma C) *)

Lemma documented_relabel : forall sh g c,
  documented_source_among sh (relabel g c) = doc_map g (documented_source_among sh c).
Proof.
  intros sh g c. unfold documented_source_among.
  pose proof (filter_relabel field marked_source g c) as F. cbn beta in F. rewrite F. clear F.
  destruct (filter (fun p : nat * field => marked_source (snd p)) c) as [|x [|y t]];
    [|reflexivity|reflexivity].
  cbn [relabel map]. destruct sh.
  - pose proof (filter_relabel field (fun f => name_is id_source f && negb (opted_out f)) g c) as F.
    cbn beta in F. rewrite F. clear F.
    destruct (filter (fun p : nat * field => name_is id_source (snd p) && negb (opted_out (snd p))) c)
      as [|x [|y t]]; reflexivity.
  - destruct c as [|p [|q [|r t]]]; cbn; try reflexivity.
    + unfold unless_opted_out. cbn. destruct (f_ty_backtrace (snd p)), (opted_out (snd p)); reflexivity.
    + unfold unless_opted_out. cbn.
      destruct (two_field_backtrace (snd p) (snd q)) as [[[|]|]|]; cbn; try reflexivity.
      * destruct (opted_out (snd q)); reflexivity.
      * destruct (opted_out (snd p)); reflexivity.
Qed.

(* ------------------------------------------------------------------ inserting an ignored field *)

Lemma enabled_indexes_S : forall fs i,
  enabled_fields_indexes_from (S i) fs = map S (enabled_fields_indexes_from i fs).
Proof.
  induction fs as [|f fs IH]; intros i; cbn; [reflexivity|].
  destruct (f_ignore f); cbn; rewrite IH; reflexivity.
Qed.

Lemma enabled_indexes_ge : forall fs i x, In x (enabled_fields_indexes_from i fs) -> i <= x.
Proof.
  induction fs as [|f fs IH]; intros i x H; cbn in H; [destruct H|].
  destruct (f_ignore f).
  - apply IH in H. lia.
  - destruct H as [H|H]; [lia|]. apply IH in H. lia.
Qed.

Lemma enabled_indexes_insert : forall k fs i f,
  f_ignore f = true -> k <= length fs ->
  enabled_fields_indexes_from i (insert_at k f fs)
  = map (fun x => if Nat.ltb x (i + k) then x else S x) (enabled_fields_indexes_from i fs).
Proof.
  unfold insert_at. induction k as [|k IH]; intros fs i f Hf Hk.
  - cbn [firstn skipn app enabled_fields_indexes_from]. rewrite Hf. rewrite enabled_indexes_S.
    apply map_ext_in. intros x Hx. apply enabled_indexes_ge in Hx.
    destruct (Nat.ltb_spec x (i + 0)); [lia|reflexivity].
  - destruct fs as [|g fs]; [cbn in Hk; lia|].
    cbn [firstn skipn app enabled_fields_indexes_from]. cbn [length] in Hk.
    destruct (f_ignore g).
    + rewrite IH by (try assumption; lia). apply map_ext. intros x.
      replace (S i + k) with (i + S k) by lia. reflexivity.
    + cbn [map]. destruct (Nat.ltb_spec i (i + S k)); [|lia]. f_equal.
      rewrite IH by (try assumption; lia). apply map_ext. intros x.
      replace (S i + k) with (i + S k) by lia. reflexivity.
Qed.

Lemma enabled_fields_insert : forall k fs f,
  f_ignore f = true -> enabled_fields (insert_at k f fs) = enabled_fields fs.
Proof.
  intros k fs f Hf. unfold insert_at, enabled_fields. rewrite filter_app. cbn [filter].
  rewrite Hf. cbn [negb]. rewrite <- filter_app. rewrite firstn_skipn. reflexivity.
Qed.

Lemma considered_combine : forall fs,
  considered fs = combine (enabled_fields_indexes fs) (enabled_fields fs).
Proof. intros fs. unfold considered, indexed. apply considered_from. Qed.

(* Lemma B *)
Lemma considered_insert : forall k fs f,
  f_ignore f = true -> k <= length fs ->
  considered (insert_at k f fs) = relabel (shift k) (considered fs).
Proof.
  intros k fs f Hf Hk. rewrite !considered_combine. rewrite relabel_combine.
  rewrite enabled_fields_insert by exact Hf. f_equal.
  unfold enabled_fields_indexes. rewrite enabled_indexes_insert by assumption.
  apply map_ext. intros x. reflexivity.
Qed.

Lemma ignore_inert : forall sh fs k f,
  f_ignore f = true -> k <= length fs ->
  documented_source sh (insert_at k f fs) = doc_map (shift k) (documented_source sh fs).
Proof.
  intros sh fs k f Hf Hk. unfold documented_source.
  rewrite considered_insert by assumption. apply documented_relabel.
Qed.

(* the documented source expressed over the code's own iterator (Lemmas A + C) *)
Lemma documented_via_enabled : forall sh fs,
  documented_source sh fs
  = doc_map (fun s => nth s (enabled_fields_indexes fs) 0)
            (documented_source_among sh (enumerate (enabled_fields fs))).
Proof.
  intros sh fs. unfold documented_source. rewrite considered_enabled. apply documented_relabel.
Qed.

(* ------------------------------------------------------------------ the selection of the code vs
   the documented rules, both over the enabled fields numbered 0..n-1 (Lemma D) *)

Lemma enumerate_length : forall A (l : list A), length (enumerate l) = length l.
Proof. intros A l. unfold enumerate. rewrite combine_length, seq_length. lia. Qed.

Lemma parse_field_impl_source_cases : forall valid it,
  parse_field_impl valid f_source it =
  match filter (fun p : nat * field => marked_source (snd p)) it with
  | [] => assert_iter_contains_zero_or_one_item
            (filter (fun p : nat * field => match f_source (snd p) with
                                           | None => valid (snd p)
                                           | _ => false
                                           end) it)
  | [x] => Ok (Some x)
  | _ :: _ :: _ => Err
  end.
Proof.
  intros valid it. unfold parse_field_impl, marked_source.
  destruct (filter (fun p : nat * field => is_some_true (f_source (snd p))) it) as [|x [|y t]];
    reflexivity.
Qed.

Lemma zero_or_one_no_panic : forall A (l : list A), assert_iter_contains_zero_or_one_item l <> Panic.
Proof. intros A [|x [|y t]]; discriminate. Qed.

Lemma parse_field_impl_no_panic : forall valid value it, parse_field_impl valid value it <> Panic.
Proof.
  intros valid value it. unfold parse_field_impl.
  destruct (filter (fun p : nat * field => is_some_true (value (snd p))) it) as [|x [|y t]];
    cbn; try discriminate.
  apply zero_or_one_no_panic.
Qed.

Lemma zero_or_one_in : forall A (l : list A) x,
  assert_iter_contains_zero_or_one_item l = Ok (Some x) -> In x l.
Proof. intros A [|y [|z t]] x H; inversion H. left. reflexivity. Qed.

Lemma parse_field_impl_in : forall valid value it x,
  parse_field_impl valid value it = Ok (Some x) -> In x it.
Proof.
  intros valid value it x. unfold parse_field_impl.
  destruct (filter (fun p : nat * field => is_some_true (value (snd p))) it) as [|y [|z t]] eqn:E;
    cbn; intros H.
  - apply zero_or_one_in in H. apply filter_In in H. tauto.
  - inversion H; subst. assert (I : In x (filter (fun p : nat * field => is_some_true (value (snd p))) it))
      by (rewrite E; left; reflexivity). apply filter_In in I. tauto.
  - discriminate.
Qed.

(* what the documented rules say, by number of marked fields *)
Lemma spec_marked_one : forall sh c x,
  filter (fun p : nat * field => marked_source (snd p)) c = [x] ->
  documented_source_among sh c = Sel (Some (fst x)).
Proof. intros sh c x H. unfold documented_source_among. rewrite H. reflexivity. Qed.

Lemma spec_marked_many : forall sh c x y t,
  filter (fun p : nat * field => marked_source (snd p)) c = x :: y :: t ->
  documented_source_among sh c = Ambiguous.
Proof. intros sh c x y t H. unfold documented_source_among. rewrite H. reflexivity. Qed.

Lemma spec_unnamed_many : forall c,
  3 <= length c -> filter (fun p : nat * field => marked_source (snd p)) c = [] ->
  documented_source_among Unnamed c = Sel None.
Proof.
  intros c L H. unfold documented_source_among. rewrite H.
  destruct c as [|p [|q [|r t]]]; cbn in L; try lia. reflexivity.
Qed.

(* the result of the simulation: the code's selection is the documented one, or a compile error *)
Definition agrees (r : res (option nat * option nat)) (d : doc (option nat)) : Prop :=
  match r with
  | Ok sb => d = Sel (fst sb)
  | Err => True
  | Panic => False
  end.

Lemma named_pred_eq : forall c,
  filter (fun p : nat * field => marked_source (snd p)) c = [] ->
  filter (fun p : nat * field => match f_source (snd p) with
                                 | None => valid_source Named 0 (snd p)
                                 | _ => false
                                 end) c
  = filter (fun p : nat * field => name_is id_source (snd p) && negb (opted_out (snd p))) c.
Proof.
  intros c H. apply filter_ext_in'. intros p Hp.
  pose proof (filter_nil_all _ _ _ H p Hp) as M. cbn beta in M.
  unfold marked_source, is_some_true, opted_out, valid_source in *.
  destruct (f_source (snd p)) as [[|]|]; try discriminate;
    destruct (name_is id_source (snd p)); reflexivity.
Qed.

Lemma valid_source_named_len : forall len f, valid_source Named len f = valid_source Named 0 f.
Proof. reflexivity. Qed.

(* named fields: for every length the code may use *)
Lemma named_sim : forall len n l,
  agrees (select_source_on len n Named l) (documented_source_among Named (enumerate l))
  /\ (documented_source_among Named (enumerate l) = Ambiguous ->
      select_source_on len n Named l = Err).
Proof.
  intros len n l. unfold select_source_on, parse_fields_impl_on.
  rewrite parse_field_impl_source_cases.
  destruct (filter (fun p : nat * field => marked_source (snd p)) (enumerate l)) as [|x [|y t]] eqn:E.
  - (* no marked field *)
    change (fun p : nat * field => match f_source (snd p) with
                                   | None => valid_source Named len (snd p)
                                   | _ => false end)
      with (fun p : nat * field => match f_source (snd p) with
                                   | None => valid_source Named 0 (snd p)
                                   | _ => false end).
    rewrite (named_pred_eq _ E).
    unfold documented_source_among. rewrite E.
    destruct (filter (fun p : nat * field => name_is id_source (snd p) && negb (opted_out (snd p)))
                     (enumerate l)) as [|x [|y t]]; cbn [assert_iter_contains_zero_or_one_item res_bind pick].
    + split; [|discriminate].
      destruct (parse_field_impl (valid_backtrace Named) f_backtrace (enumerate l)) as [bt| |] eqn:B;
        cbn; try exact I; try reflexivity.
      exact (parse_field_impl_no_panic _ _ _ B).
    + split; [|discriminate].
      destruct (parse_field_impl (valid_backtrace Named) f_backtrace (enumerate l)) as [bt| |] eqn:B;
        cbn; try exact I; try reflexivity.
      exact (parse_field_impl_no_panic _ _ _ B).
    + split; [exact I|reflexivity].
  - rewrite (spec_marked_one _ _ _ E). cbn [res_bind]. split; [|discriminate].
    destruct (parse_field_impl (valid_backtrace Named) f_backtrace (enumerate l)) as [bt| |] eqn:B;
      cbn; try exact I; try reflexivity.
    exact (parse_field_impl_no_panic _ _ _ B).
  - cbn. split; [exact I|reflexivity].
Qed.

(* an explicit `#[error(source)]` on exactly one enabled field: for every shape and every length *)
Lemma marked_sim : forall len n sh l,
  existsb marked_source l = true ->
  agrees (select_source_on len n sh l) (documented_source_among sh (enumerate l)).
Proof.
  intros len n sh l Hm. unfold select_source_on, parse_fields_impl_on.
  rewrite parse_field_impl_source_cases.
  destruct (filter (fun p : nat * field => marked_source (snd p)) (enumerate l)) as [|x [|y t]] eqn:E.
  - exfalso. apply existsb_exists in Hm. destruct Hm as [f [Hf Mf]].
    destruct (In_nth_error _ _ Hf) as [i Hi].
    assert (Hin : In (i, f) (enumerate l)).
    { unfold enumerate. clear - Hi.
      assert (G : forall a, In (a + i, f) (combine (seq a (length l)) l)).
      { revert i Hi. induction l as [|g l IH]; intros i Hi a; [destruct i; discriminate|].
        destruct i as [|i]; cbn in Hi |- *.
        - inversion Hi; subst. left. f_equal. lia.
        - right. replace (a + S i) with (S a + i) by lia. apply IH. exact Hi. }
      exact (G 0). }
    pose proof (filter_nil_all _ _ _ E _ Hin) as Z. cbn in Z. congruence.
  - rewrite (spec_marked_one _ _ _ E). cbn [res_bind].
    destruct (parse_field_impl (valid_backtrace sh) f_backtrace (enumerate l)) as [bt| |] eqn:B;
      cbn; try exact I.
    + destruct sh; cbn; reflexivity.
    + exact (parse_field_impl_no_panic _ _ _ B).
  - cbn. exact I.
Qed.

Ltac split_field a :=
  let tb := fresh "tb" in
  destruct a as [? tb ? [[|]|] [[|]|] ?]; destruct tb.

(* tuple fields, when the lengths the code uses ARE the number of enabled fields *)
Lemma unnamed_sim : forall l,
  agrees (select_source_on (length l) (length l) Unnamed l)
         (documented_source_among Unnamed (enumerate l)).
Proof.
  intros [|a [|b [|c t]]].
  - vm_compute. reflexivity.
  - split_field a; vm_compute; reflexivity.
  - split_field a; split_field b; vm_compute; try reflexivity; exact I.
  - set (l := a :: b :: c :: t).
    assert (L3 : 3 <= length (enumerate l)) by (rewrite enumerate_length; cbn; lia).
    unfold select_source_on, parse_fields_impl_on. rewrite parse_field_impl_source_cases.
    destruct (filter (fun p : nat * field => marked_source (snd p)) (enumerate l)) as [|x [|y u]] eqn:E.
    + rewrite (spec_unnamed_many _ L3 E).
      rewrite filter_none.
      2:{ intros p _. destruct (f_source (snd p)); reflexivity. }
      cbn [assert_iter_contains_zero_or_one_item res_bind].
      destruct (parse_field_impl (valid_backtrace Unnamed) f_backtrace (enumerate l)) as [bt| |] eqn:B;
        cbn; try exact I; try reflexivity.
      exact (parse_field_impl_no_panic _ _ _ B).
    + rewrite (spec_marked_one _ _ _ E). cbn [res_bind].
      destruct (parse_field_impl (valid_backtrace Unnamed) f_backtrace (enumerate l)) as [bt| |] eqn:B;
        cbn; try exact I; try reflexivity.
      exact (parse_field_impl_no_panic _ _ _ B).
    + cbn. exact I.
Qed.

(* tuple fields: an ambiguous layout is rejected whatever (large enough) length the code uses *)
Lemma unnamed_ambiguous : forall len n l,
  length l <= len ->
  documented_source_among Unnamed (enumerate l) = Ambiguous ->
  select_source_on len n Unnamed l = Err.
Proof.
  intros len n [|a [|b [|c t]]] Hlen.
  - vm_compute. discriminate.
  - split_field a; vm_compute; discriminate.
  - destruct len as [|[|len]]; cbn in Hlen; try lia.
    split_field a; split_field b; cbn; try discriminate; reflexivity.
  - set (l := a :: b :: c :: t).
    assert (L3 : 3 <= length (enumerate l)) by (rewrite enumerate_length; cbn; lia).
    unfold select_source_on, parse_fields_impl_on. rewrite parse_field_impl_source_cases.
    destruct (filter (fun p : nat * field => marked_source (snd p)) (enumerate l)) as [|x [|y u]] eqn:E.
    + rewrite (spec_unnamed_many _ L3 E). discriminate.
    + rewrite (spec_marked_one _ _ _ E). discriminate.
    + reflexivity.
Qed.

Lemma select_sim : forall sh l,
  agrees (select_source_on (length l) (length l) sh l) (documented_source_among sh (enumerate l)).
Proof. intros [|] l; [apply named_sim|apply unnamed_sim]. Qed.

Lemma select_ambiguous : forall len n sh l,
  length l <= len ->
  documented_source_among sh (enumerate l) = Ambiguous ->
  select_source_on len n sh l = Err.
Proof.
  intros len n [|] l Hlen H; [apply named_sim; exact H|apply unnamed_ambiguous; assumption].
Qed.

(* the selected position is a position among the enabled fields *)
Lemma select_in_range : forall len n sh l s b,
  select_source_on len n sh l = Ok (Some s, b) -> s < length l.
Proof.
  intros len n sh l s b. unfold select_source_on, parse_fields_impl_on.
  destruct (parse_field_impl (valid_source sh len) f_source (enumerate l)) as [src| |] eqn:S1;
    cbn [res_bind]; try discriminate.
  destruct (parse_field_impl (valid_backtrace sh) f_backtrace (enumerate l)) as [bt| |] eqn:B1;
    cbn [res_bind]; try discriminate.
  assert (Hsrc : forall x, src = Some x -> fst x < length l).
  { intros [i f] ->. apply parse_field_impl_in in S1. apply enumerate_in_lt in S1. exact S1. }
  destruct sh; cbn [fst snd res_bind].
  - intros H. inversion H as [[H1 H2]]. destruct src as [x|]; [|discriminate].
    cbn in H1. inversion H1; subst. apply Hsrc. reflexivity.
  - destruct src as [x|]; cbn [option_map fst snd res_bind].
    + intros H. inversion H; subst. apply Hsrc. reflexivity.
    + unfold infer_source_field. destruct (negb (n =? 2)); cbn [res_bind]; [discriminate|].
      destruct (option_map fst bt) as [b0|]; cbn [res_bind]; [|discriminate].
      destruct (nth_error l ((b0 + 1) mod 2)) as [f|] eqn:N; cbn [res_bind]; [|discriminate].
      assert (R : (b0 + 1) mod 2 < length l) by (apply nth_error_Some; congruence).
      destruct (f_source f) as [[|]|]; cbn [res_bind]; intros H; inversion H; subst; exact R.
Qed.

(* ------------------------------------------------------------------ rendering *)

Lemma binding_matcher_from : forall s n a,
  a <= s -> s < a + n ->
  binding_position (map (fun i => position i [s]) (seq a n)) = Some (s - a).
Proof.
  intros s n. induction n as [|n IH]; intros a L U; [lia|].
  cbn [seq map position]. destruct (Nat.eqb_spec a s) as [->|Ne].
  - cbn. rewrite Nat.sub_diag. reflexivity.
  - cbn [option_map binding_position]. rewrite IH by lia. cbn. f_equal. lia.
Qed.

Lemma binding_matcher : forall s n, s < n -> binding_position (matcher n [s]) = Some s.
Proof.
  intros s n L. unfold matcher. rewrite binding_matcher_from by lia. f_equal. lia.
Qed.

Lemma nth_error_combine : forall A B (a : list A) (b : list B) s x y,
  nth_error (combine a b) s = Some (x, y) -> nth_error a s = Some x /\ nth_error b s = Some y.
Proof.
  intros A B a. induction a as [|u a IH]; intros [|v b] s x y H; try (destruct s; discriminate H).
  destruct s as [|s]; cbn in H |- *.
  - inversion H; subst. split; reflexivity.
  - apply IH. exact H.
Qed.

Lemma nth_error_combine_some : forall A B (a : list A) (b : list B) s,
  length a = length b -> s < length b -> exists x y, nth_error (combine a b) s = Some (x, y).
Proof.
  intros A B a. induction a as [|u a IH]; intros [|v b] s E L; cbn in E, L; try lia.
  destruct s as [|s]; cbn.
  - eauto.
  - apply IH; lia.
Qed.

(* ------------------------------------------------------------------ what parse_fields_old returns *)

Lemma old_parse_fields_select : forall sh fs p,
  parse_fields_old sh fs = Ok p ->
  select_source_on (length fs) (length fs) sh (enabled_fields fs) = Ok (p_source p, p_backtrace p)
  /\ match p_source p with
     | None => p_bound p = None
     | Some s => exists f, nth_error fs s = Some f
                           /\ p_bound p = if f_ty_generic f then Some s else None
     end.
Proof.
  intros sh fs p. unfold parse_fields_old, parse_fields_on.
  destruct (select_source_on (length fs) (length fs) sh (enabled_fields fs)) as [[s b]| |];
    cbn [res_bind fst snd]; try discriminate.
  destruct s as [s|].
  - destruct (nth_error fs s) as [f|] eqn:N; cbn [res_bind fst snd]; [|discriminate].
    intros H. inversion H; subst. cbn. split; [reflexivity|]. exists f. split; [exact N|reflexivity].
  - intros H. inversion H; subst. cbn. split; reflexivity.
Qed.

Lemma parse_fields_select : forall sh fs p,
  parse_fields sh fs = Ok p ->
  select_source_on (length (enabled_fields fs)) (length (enabled_fields fs)) sh (enabled_fields fs)
  = Ok (p_source p, p_backtrace p)
  /\ match p_source p with
     | None => p_bound p = None
     | Some s => exists j f, nth_error (enabled_fields_indexes fs) s = Some j
                             /\ nth_error fs j = Some f
                             /\ p_bound p = if f_ty_generic f then Some j else None
     end.
Proof.
  intros sh fs p. unfold parse_fields, parse_fields_on.
  destruct (select_source_on (length (enabled_fields fs)) (length (enabled_fields fs)) sh
                             (enabled_fields fs)) as [[s b]| |];
    cbn [res_bind fst snd]; try discriminate.
  destruct s as [s|].
  - destruct (nth_error (combine (enabled_fields_indexes fs) (enabled_fields fs)) s) as [[j f]|] eqn:N;
      cbn [res_bind fst snd]; [|discriminate].
    intros H. inversion H; subst. cbn. split; [reflexivity|]. exists j, f.
    apply nth_error_combine in N. destruct N as [Nj Nf]. split; [exact Nj|]. split; [|reflexivity].
    pose proof (enabled_index_field fs 0 s j f Nj Nf) as G. rewrite Nat.sub_0_r in G. exact G.
  - intros H. inversion H; subst. cbn. split; reflexivity.
Qed.

Lemma has_marked_enabled : forall fs,
  has_marked_source fs = true -> existsb marked_source (enabled_fields fs) = true.
Proof.
  unfold has_marked_source, enabled_fields. induction fs as [|f fs IH]; cbn; [discriminate|].
  destruct (f_ignore f); cbn.
  - exact IH.
  - destruct (marked_source f); cbn; [reflexivity|exact IH].
Qed.

Lemma old_lengths_agree_sim : forall sh fs,
  lengths_agree sh fs ->
  agrees (select_source_on (length fs) (length fs) sh (enabled_fields fs))
         (documented_source_among sh (enumerate (enabled_fields fs))).
Proof.
  intros sh fs [->|[H|H]].
  - apply named_sim.
  - rewrite (no_ignored_enabled _ H). apply select_sim.
  - apply marked_sim. apply has_marked_enabled. exact H.
Qed.

(* ------------------------------------------------------------------ selection: the code before commit 6329c3f (historical) *)

Lemma old_selection_restricted : forall k sh fs x,
  expand_old k sh fs = Ok x -> selection_safe k sh fs ->
  Sel (returned_field x) = documented_source sh fs.
Proof.
  intros k sh fs x H [LA PC]. unfold expand_old in H.
  destruct (parse_fields_old sh fs) as [p| |] eqn:P; cbn [res_bind] in H; try discriminate.
  destruct (old_parse_fields_select _ _ _ P) as [S B].
  pose proof (old_lengths_agree_sim _ _ LA) as AG. rewrite S in AG. cbn in AG.
  assert (Hdoc : documented_source sh fs
                 = Sel (option_map (fun s => nth s (enabled_fields_indexes fs) 0) (p_source p))).
  { rewrite documented_via_enabled, AG. reflexivity. }
  rewrite Hdoc. destruct k.
  - (* struct: members[source] names the right field *)
    unfold render_source_as_struct in H. destruct (p_source p) as [s|].
    + unfold members in H. destruct (nth_error (enabled_fields_indexes fs) s) as [m|] eqn:M;
        cbn [res_bind] in H; [|discriminate].
      inversion H; subst. unfold returned_field. cbn. do 2 f_equal.
      symmetry. apply nth_error_nth. exact M.
    + cbn [res_bind] in H. inversion H; subst. reflexivity.
  - (* variant: the enabled-space position is put into the all-fields pattern *)
    cbn [res_bind] in H. inversion H; subst. unfold returned_field. cbn [x_code].
    unfold render_source_as_enum_variant_match_arm_old. destruct (p_source p) as [s|] eqn:Ps; [|reflexivity].
    destruct B as [f [Nf _]].
    assert (Ls : s < length fs) by (apply nth_error_Some; congruence).
    cbn [source_returns option_map]. rewrite binding_matcher by exact Ls.
    pose proof (select_in_range _ _ _ _ _ _ S) as Le.
    destruct (nth_error (enabled_fields_indexes fs) s) as [j|] eqn:M.
    2:{ apply nth_error_None in M. unfold enabled_fields_indexes in M.
        rewrite enabled_indexes_length in M. lia. }
    rewrite (nth_error_nth _ _ 0 M).
    assert (Hj : j = s).
    { apply (enabled_index_same fs s j M). apply (PC eq_refl). rewrite Hdoc. cbn.
      rewrite (nth_error_nth _ _ 0 M). reflexivity. }
    rewrite Hj. reflexivity.
Qed.

(* named variants: the characterisation is exact *)
Lemma old_selection_named_variant_exact : forall fs x,
  expand_old Variant Named fs = Ok x ->
  (Sel (returned_field x) = documented_source Named fs <-> prefix_clean Named fs).
Proof.
  intros fs x H. split.
  2:{ intros PC. apply (old_selection_restricted Variant Named fs x H). split; [left; reflexivity|].
      intros _. exact PC. }
  intros Heq j Hj.
  unfold expand_old in H.
  destruct (parse_fields_old Named fs) as [p| |] eqn:P; cbn [res_bind] in H; try discriminate.
  destruct (old_parse_fields_select _ _ _ P) as [S B].
  pose proof (old_lengths_agree_sim Named fs (or_introl eq_refl)) as AG. rewrite S in AG. cbn in AG.
  assert (Hdoc : documented_source Named fs
                 = Sel (option_map (fun s => nth s (enabled_fields_indexes fs) 0) (p_source p))).
  { rewrite documented_via_enabled, AG. reflexivity. }
  inversion H; subst x. unfold returned_field in Heq. cbn [x_code] in Heq.
  unfold render_source_as_enum_variant_match_arm_old in Heq.
  destruct (p_source p) as [s|] eqn:Ps.
  2:{ rewrite Hdoc in Hj. discriminate. }
  destruct B as [f [Nf _]].
  assert (Ls : s < length fs) by (apply nth_error_Some; congruence).
  cbn [source_returns] in Heq. rewrite binding_matcher in Heq by exact Ls.
  pose proof (select_in_range _ _ _ _ _ _ S) as Le.
  destruct (nth_error (enabled_fields_indexes fs) s) as [m|] eqn:M.
  2:{ apply nth_error_None in M. unfold enabled_fields_indexes in M.
      rewrite enabled_indexes_length in M. lia. }
  rewrite Hdoc in Heq, Hj. cbn in Heq, Hj. rewrite (nth_error_nth _ _ 0 M) in Heq, Hj.
  inversion Heq; subst. inversion Hj; subst.
  apply (enabled_index_same fs j j M). reflexivity.
Qed.

(* ------------------------------------------------------------------ taking `expand` apart *)

Definition render_source (k : kind) (fs : list field) (source : option nat) : res source_code :=
  match k with
  | Struct => render_source_as_struct fs source
  | Variant => render_source_as_enum_variant_match_arm fs source
  end.
Definition render_provide (k : kind) (fs : list field) (source backtrace : option nat)
  : res provide_code :=
  match k with
  | Struct => render_provide_as_struct fs source backtrace
  | Variant => render_provide_as_enum_variant_match_arm fs source backtrace
  end.

Lemma expand_inv : forall k sh fs x,
  expand k sh fs = Ok x ->
  exists p code prov,
    parse_fields sh fs = Ok p /\
    render_source k fs (p_source p) = Ok code /\
    render_provide k fs (p_source p) (p_backtrace p) = Ok prov /\
    x = mkExpansion (p_source p) code (p_bound p) (p_backtrace p) prov.
Proof.
  intros k sh fs x H. unfold expand in H. unfold render_source, render_provide.
  destruct (parse_fields sh fs) as [p| |] eqn:P; cbn [res_bind] in H; try discriminate.
  destruct k.
  - destruct (render_source_as_struct fs (p_source p)) as [code| |] eqn:RS; cbn [res_bind] in H;
      try discriminate.
    destruct (render_provide_as_struct fs (p_source p) (p_backtrace p)) as [prov| |] eqn:RP;
      cbn [res_bind] in H; try discriminate.
    inversion H; subst. exists p, code, prov. repeat split; try reflexivity; assumption.
  - destruct (render_source_as_enum_variant_match_arm fs (p_source p)) as [code| |] eqn:RS;
      cbn [res_bind] in H; try discriminate.
    destruct (render_provide_as_enum_variant_match_arm fs (p_source p) (p_backtrace p)) as [prov| |] eqn:RP;
      cbn [res_bind] in H; try discriminate.
    inversion H; subst. exists p, code, prov. repeat split; try reflexivity; assumption.
Qed.

(* the source rendering, in the all-fields space *)
Lemma render_source_returns : forall k fs s code,
  render_source k fs s = Ok code ->
  source_returns code = option_map (to_all fs) s
  /\ (forall s0, s = Some s0 -> nth_error (enabled_fields_indexes fs) s0 = Some (to_all fs s0)).
Proof.
  intros k fs s code H. destruct s as [s|].
  2:{ destruct k; cbn in H; inversion H; subst; (split; [reflexivity|discriminate]). }
  assert (G : exists j, nth_error (enabled_fields_indexes fs) s = Some j /\ source_returns code = Some j).
  { destruct k; cbn in H.
    - unfold members in H. destruct (nth_error (enabled_fields_indexes fs) s) as [j|] eqn:M; [|discriminate].
      inversion H; subst. exists j. split; reflexivity.
    - destruct (nth_error (enabled_fields_indexes fs) s) as [j|] eqn:M; [|discriminate].
      inversion H; subst. exists j. split; [reflexivity|]. cbn.
      apply binding_matcher. apply (enabled_index_lt fs s j M). }
  destruct G as [j [M R]]. split.
  - cbn. unfold to_all. rewrite (nth_error_nth _ _ 0 M). exact R.
  - intros s0 E. inversion E; subst. unfold to_all. rewrite (nth_error_nth _ _ 0 M). exact M.
Qed.

(* ------------------------------------------------------------------ selection: the code as it is *)

Lemma selection : forall k sh fs x,
  expand k sh fs = Ok x -> Sel (returned_field x) = documented_source sh fs.
Proof.
  intros k sh fs x H. destruct (expand_inv _ _ _ _ H) as [p [code [prov [P [RS [RP E]]]]]]. subst x.
  destruct (parse_fields_select _ _ _ P) as [S B].
  pose proof (select_sim sh (enabled_fields fs)) as AG. rewrite S in AG. cbn in AG.
  rewrite documented_via_enabled, AG. cbn [doc_map].
  destruct (render_source_returns _ _ _ _ RS) as [R _].
  unfold returned_field. cbn [x_code]. rewrite R. reflexivity.
Qed.

(* ------------------------------------------------------------------ ambiguous layouts *)

Lemma ambiguous_among : forall sh fs,
  documented_source sh fs = Ambiguous ->
  documented_source_among sh (enumerate (enabled_fields fs)) = Ambiguous.
Proof.
  intros sh fs H. rewrite documented_via_enabled in H.
  destruct (documented_source_among sh (enumerate (enabled_fields fs))); [discriminate|reflexivity].
Qed.

Lemma old_ambiguous_rejected : forall k sh fs,
  documented_source sh fs = Ambiguous -> expand_old k sh fs = Err.
Proof.
  intros k sh fs H. apply ambiguous_among in H.
  unfold expand_old, parse_fields_old, parse_fields_on.
  rewrite (select_ambiguous _ _ _ _ (enabled_length_le fs) H). reflexivity.
Qed.

Lemma ambiguous_rejected : forall k sh fs,
  documented_source sh fs = Ambiguous -> expand k sh fs = Err.
Proof.
  intros k sh fs H. apply ambiguous_among in H.
  unfold expand, parse_fields, parse_fields_on.
  rewrite (select_ambiguous _ _ _ _ (le_n _) H). reflexivity.
Qed.

(* ------------------------------------------------------------------ the `None` cases *)

Lemma enumerate_in_snd : forall A (l : list A) p, In p (enumerate l) -> In (snd p) l.
Proof. intros A l [i x] H. unfold enumerate in H. apply in_combine_r in H. exact H. Qed.

Lemma select_none_opted_out : forall len n sh l s b,
  (forall f, In f l -> f_source f = Some false) ->
  select_source_on len n sh l = Ok (s, b) -> s = None.
Proof.
  intros len n sh l s b All. unfold select_source_on, parse_fields_impl_on.
  rewrite parse_field_impl_source_cases.
  rewrite filter_none.
  2:{ intros p Hp. apply enumerate_in_snd in Hp. unfold marked_source. rewrite (All _ Hp). reflexivity. }
  rewrite filter_none.
  2:{ intros p Hp. apply enumerate_in_snd in Hp. rewrite (All _ Hp). reflexivity. }
  cbn [assert_iter_contains_zero_or_one_item res_bind].
  destruct (parse_field_impl (valid_backtrace sh) f_backtrace (enumerate l)) as [bt| |];
    cbn [res_bind option_map]; try discriminate.
  destruct sh; cbn [fst snd].
  - intros H. inversion H. reflexivity.
  - unfold infer_source_field. destruct (negb (n =? 2)); cbn [res_bind].
    + intros H. inversion H. reflexivity.
    + destruct (option_map fst bt) as [b0|]; cbn [res_bind].
      * destruct (nth_error l ((b0 + 1) mod 2)) as [f|] eqn:N; cbn [res_bind]; [|discriminate].
        apply nth_error_In in N. rewrite (All _ N). cbn [res_bind].
        intros H. inversion H. reflexivity.
      * intros H. inversion H. reflexivity.
Qed.

Lemma old_none_when_opted_out : forall k sh fs x,
  (forall f, In f fs -> f_ignore f = true \/ f_source f = Some false) ->
  expand_old k sh fs = Ok x -> returned_field x = None.
Proof.
  intros k sh fs x All H. unfold expand_old in H.
  destruct (parse_fields_old sh fs) as [p| |] eqn:P; cbn [res_bind] in H; try discriminate.
  destruct (old_parse_fields_select _ _ _ P) as [S _].
  assert (N : p_source p = None).
  { eapply select_none_opted_out; [|exact S]. intros f Hf. unfold enabled_fields in Hf.
    apply filter_In in Hf. destruct Hf as [Hf Ig]. destruct (All f Hf) as [I|I]; [|exact I].
    rewrite I in Ig. discriminate. }
  rewrite N in H. destruct k; cbn in H; inversion H; subst; reflexivity.
Qed.

Lemma none_when_opted_out : forall k sh fs x,
  (forall f, In f fs -> f_ignore f = true \/ f_source f = Some false) ->
  expand k sh fs = Ok x -> returned_field x = None.
Proof.
  intros k sh fs x All H. destruct (expand_inv _ _ _ _ H) as [p [code [prov [P [RS [RP E]]]]]]. subst x.
  destruct (parse_fields_select _ _ _ P) as [S _].
  assert (N : p_source p = None).
  { eapply select_none_opted_out; [|exact S]. intros f Hf. unfold enabled_fields in Hf.
    apply filter_In in Hf. destruct Hf as [Hf Ig]. destruct (All f Hf) as [I|I]; [|exact I].
    rewrite I in Ig. discriminate. }
  destruct (render_source_returns _ _ _ _ RS) as [R _]. unfold returned_field. cbn [x_code].
  rewrite R, N. reflexivity.
Qed.

Lemma documented_none_when_opted_out : forall sh fs,
  (forall f, In f fs -> f_ignore f = true \/ f_source f = Some false) ->
  documented_source sh fs = Sel None \/ documented_source sh fs = Ambiguous.
Proof.
  intros sh fs All. unfold documented_source.
  assert (A2 : forall p, In p (considered fs) -> f_source (snd p) = Some false).
  { intros p Hp. unfold considered in Hp. apply filter_In in Hp. destruct Hp as [Hp Ig].
    unfold indexed in Hp. destruct p as [i f]. apply in_combine_r in Hp. cbn in *.
    destruct (All f Hp) as [I|I]; [rewrite I in Ig; discriminate|exact I]. }
  revert A2. generalize (considered fs). intros c A2. unfold documented_source_among.
  rewrite filter_none.
  2:{ intros p Hp. unfold marked_source. rewrite (A2 _ Hp). reflexivity. }
  destruct sh.
  - rewrite filter_none.
    2:{ intros p Hp. unfold opted_out. rewrite (A2 _ Hp). apply andb_false_r. }
    left. reflexivity.
  - destruct c as [|p [|q [|r t]]]; try (left; reflexivity).
    + unfold unless_opted_out, opted_out. rewrite (A2 p (or_introl eq_refl)).
      destruct (f_ty_backtrace (snd p)); left; reflexivity.
    + unfold unless_opted_out, opted_out.
      rewrite (A2 p (or_introl eq_refl)), (A2 q (or_intror (or_introl eq_refl))).
      destruct (two_field_backtrace (snd p) (snd q)) as [[[|]|]|]; auto.
Qed.

(* ------------------------------------------------------------------ whole enums *)

Lemma arms_ge : forall vs i arms,
  render_enum_arms i vs = Ok arms -> forall j c, In (j, c) arms -> i <= j.
Proof.
  induction vs as [|v vs IH]; intros i arms H j c Hin.
  - cbn in H. inversion H; subst. destruct Hin.
  - cbn [render_enum_arms] in H. destruct (v_ignore v).
    + specialize (IH _ _ H _ _ Hin). lia.
    + destruct (expand Variant (v_shape v) (v_fields v)) as [x| |]; cbn [res_bind] in H; try discriminate.
      destruct (render_enum_arms (S i) vs) as [arms'| |] eqn:R; cbn [res_bind] in H; try discriminate.
      inversion H; subst. clear H.
      assert (G : In (j, c) arms' -> i <= j) by (intros G; specialize (IH _ _ R _ _ G); lia).
      destruct (x_code x); [exact (G Hin)| |]; (destruct Hin as [E|E]; [inversion E; lia|exact (G E)]).
Qed.

Lemma enum_lookup_none : forall arms k,
  (forall j c, In (j, c) arms -> j <> k) -> enum_source_returns arms k = None.
Proof.
  induction arms as [|[i c] arms IH]; intros k H; [reflexivity|].
  cbn. destruct (Nat.eqb_spec i k) as [->|Ne].
  - exfalso. apply (H k c); [left; reflexivity|reflexivity].
  - apply IH. intros j c' Hin. apply (H j c'). right. exact Hin.
Qed.

Lemma enum_variant_from : forall vs i arms k v,
  render_enum_arms i vs = Ok arms -> nth_error vs k = Some v ->
  (v_ignore v = true -> enum_source_returns arms (i + k) = None) /\
  (v_ignore v = false ->
   exists x, expand Variant (v_shape v) (v_fields v) = Ok x
             /\ enum_source_returns arms (i + k) = returned_field x).
Proof.
  induction vs as [|w vs IH]; intros i arms k v H N; [destruct k; discriminate|].
  cbn [render_enum_arms] in H. destruct k as [|k].
  - cbn in N. inversion N; subst w. clear N. rewrite Nat.add_0_r.
    destruct (v_ignore v) eqn:Ig.
    + split; [|discriminate]. intros _. apply enum_lookup_none. intros j c Hin.
      pose proof (arms_ge _ _ _ H _ _ Hin). lia.
    + split; [discriminate|]. intros _.
      destruct (expand Variant (v_shape v) (v_fields v)) as [x| |]; cbn [res_bind] in H; try discriminate.
      destruct (render_enum_arms (S i) vs) as [arms'| |] eqn:R; cbn [res_bind] in H; try discriminate.
      exists x. split; [reflexivity|]. inversion H; subst. clear H.
      assert (G : enum_source_returns arms' i = None).
      { apply enum_lookup_none. intros j c Hin. pose proof (arms_ge _ _ _ R _ _ Hin). lia. }
      unfold returned_field. destruct (x_code x); cbn; rewrite ?Nat.eqb_refl; try reflexivity.
      exact G.
  - cbn [nth_error] in N. replace (i + S k) with (S i + k) by lia.
    assert (Skip : forall arms' c, enum_source_returns ((i, c) :: arms') (S i + k)
                                   = enum_source_returns arms' (S i + k)).
    { intros arms' c. cbn. destruct (Nat.eqb_spec i (S (i + k))); [lia|reflexivity]. }
    destruct (v_ignore w).
    + exact (IH _ _ _ _ H N).
    + destruct (expand Variant (v_shape w) (v_fields w)) as [x| |]; cbn [res_bind] in H; try discriminate.
      destruct (render_enum_arms (S i) vs) as [arms'| |] eqn:R; cbn [res_bind] in H; try discriminate.
      inversion H; subst. clear H. specialize (IH _ _ _ _ R N).
      destruct (x_code x); rewrite ?Skip; exact IH.
Qed.

Lemma enum_variant : forall vs arms k v,
  render_enum vs = Ok arms -> nth_error vs k = Some v ->
  (v_ignore v = true -> enum_source_returns arms k = None) /\
  (v_ignore v = false ->
   exists x, expand Variant (v_shape v) (v_fields v) = Ok x
             /\ enum_source_returns arms k = returned_field x).
Proof. intros vs arms k v H N. exact (enum_variant_from vs 0 arms k v H N). Qed.

(* ------------------------------------------------------------------ the bound *)

Lemma old_bound_on_selected_restricted : forall k sh fs x j f,
  expand_old k sh fs = Ok x -> returned_field x = Some j -> nth_error fs j = Some f ->
  (k = Struct -> no_ignored (firstn j fs) = true) ->
  x_bound x = if f_ty_generic f then Some j else None.
Proof.
  intros k sh fs x j f H R Nf Clean. unfold expand_old in H.
  destruct (parse_fields_old sh fs) as [p| |] eqn:P; cbn [res_bind] in H; try discriminate.
  destruct (old_parse_fields_select _ _ _ P) as [S B].
  destruct (p_source p) as [s|] eqn:Ps.
  2:{ destruct k; cbn in H; inversion H; subst; discriminate R. }
  destruct B as [f' [Nf' Hb]].
  assert (Ls : s < length fs) by (apply nth_error_Some; congruence).
  assert (Hj : j = s).
  { destruct k.
    - unfold render_source_as_struct, members in H.
      destruct (nth_error (enabled_fields_indexes fs) s) as [m|] eqn:M; cbn [res_bind] in H; [|discriminate].
      inversion H; subst. unfold returned_field in R. cbn in R. inversion R; subst.
      apply (enabled_index_same fs s j M). apply Clean. reflexivity.
    - cbn [res_bind] in H. inversion H; subst. unfold returned_field in R. cbn in R.
      rewrite binding_matcher in R by exact Ls. inversion R. reflexivity. }
  subst j. assert (f' = f) by congruence. subst f'.
  destruct k; [destruct (render_source_as_struct fs (Some s)); cbn [res_bind] in H; try discriminate|];
    cbn [res_bind] in H; inversion H; subst; exact Hb.
Qed.

Lemma bound_on_selected : forall k sh fs x j f,
  expand k sh fs = Ok x -> returned_field x = Some j -> nth_error fs j = Some f ->
  x_bound x = if f_ty_generic f then Some j else None.
Proof.
  intros k sh fs x j f H R Nf. destruct (expand_inv _ _ _ _ H) as [p [code [prov [P [RS [RP E]]]]]]. subst x.
  destruct (parse_fields_select _ _ _ P) as [S B].
  destruct (render_source_returns _ _ _ _ RS) as [RR RI].
  unfold returned_field in R. cbn [x_code] in R. rewrite RR in R.
  destruct (p_source p) as [s|] eqn:Ps; [|discriminate].
  destruct B as [j' [f' [Nj [Nf' Hb]]]]. cbn in R. inversion R; subst j.
  pose proof (RI s eq_refl) as M. rewrite Nj in M. inversion M as [M']. rewrite <- M' in *.
  assert (f' = f) by congruence. subst f'. cbn [x_bound]. exact Hb.
Qed.

(* ------------------------------------------------------------------ internal failures *)

Lemma old_no_panic_restricted : forall k sh fs, lengths_agree sh fs -> expand_old k sh fs <> Panic.
Proof.
  intros k sh fs LA. pose proof (old_lengths_agree_sim _ _ LA) as AG.
  unfold expand_old, parse_fields_old, parse_fields_on.
  destruct (select_source_on (length fs) (length fs) sh (enabled_fields fs)) as [[s b]| |] eqn:S;
    cbn [res_bind fst snd]; try discriminate; [|destruct AG].
  destruct s as [s|].
  - pose proof (select_in_range _ _ _ _ _ _ S) as Le. pose proof (enabled_length_le fs) as Ll.
    destruct (nth_error fs s) as [f|] eqn:N.
    2:{ apply nth_error_None in N. lia. }
    cbn [res_bind p_source]. destruct k; cbn [res_bind]; [|discriminate].
    unfold render_source_as_struct, members.
    destruct (nth_error (enabled_fields_indexes fs) s) eqn:M; cbn [res_bind]; [discriminate|].
    apply nth_error_None in M. unfold enabled_fields_indexes in M. rewrite enabled_indexes_length in M. lia.
  - cbn. destruct k; cbn; discriminate.
Qed.

Lemma select_backtrace_in_range : forall len n sh l s b,
  select_source_on len n sh l = Ok (s, Some b) -> b < length l.
Proof.
  intros len n sh l s b. unfold select_source_on, parse_fields_impl_on.
  destruct (parse_field_impl (valid_source sh len) f_source (enumerate l)) as [src| |] eqn:S1;
    cbn [res_bind]; try discriminate.
  destruct (parse_field_impl (valid_backtrace sh) f_backtrace (enumerate l)) as [bt| |] eqn:B1;
    cbn [res_bind]; try discriminate.
  assert (Hbt : option_map fst bt = Some b -> b < length l).
  { destruct bt as [[i f]|]; cbn; [|discriminate]. intros E. inversion E; subst.
    apply parse_field_impl_in in B1. apply enumerate_in_lt in B1. exact B1. }
  destruct sh; cbn [fst snd res_bind].
  - intros H. inversion H. apply Hbt. assumption.
  - destruct (option_map fst src) as [x|]; cbn [res_bind fst snd].
    + intros H. inversion H. apply Hbt. assumption.
    + destruct (infer_source_field n l None (option_map fst bt)) as [s'| |]; cbn [res_bind];
        try discriminate.
      intros H. inversion H. apply Hbt. assumption.
Qed.

Lemma index_at_ok : forall fs k, k < length (enabled_fields fs) ->
  exists j, nth_error (enabled_fields_indexes fs) k = Some j.
Proof.
  intros fs k L. destruct (nth_error (enabled_fields_indexes fs) k) as [j|] eqn:M; [eauto|].
  apply nth_error_None in M. unfold enabled_fields_indexes in M. rewrite enabled_indexes_length in M. lia.
Qed.

Lemma render_source_no_panic : forall k fs s,
  (forall s0, s = Some s0 -> s0 < length (enabled_fields fs)) -> render_source k fs s <> Panic.
Proof.
  intros k fs [s|] R; [|destruct k; discriminate].
  destruct (index_at_ok fs s (R s eq_refl)) as [j M].
  destruct k; cbn; unfold members; rewrite M; discriminate.
Qed.

Lemma render_provide_no_panic : forall k fs s b,
  (forall s0, s = Some s0 -> s0 < length (enabled_fields fs)) ->
  (forall b0, b = Some b0 -> b0 < length (enabled_fields fs)) ->
  render_provide k fs s b <> Panic.
Proof.
  intros k fs s [b|] Rs Rb; [|destruct k; discriminate].
  destruct (index_at_ok fs b (Rb b eq_refl)) as [jb Mb].
  destruct s as [s|].
  - destruct (index_at_ok fs s (Rs s eq_refl)) as [js Ms].
    destruct k; cbn; unfold member_at, field_index_at, members; rewrite ?Ms; cbn [res_bind];
      destruct (Nat.eqb s b); rewrite ?Ms, ?Mb; cbn; discriminate.
  - destruct k; cbn; unfold member_at, field_index_at, members; rewrite Mb; cbn; discriminate.
Qed.

Lemma no_panic : forall k sh fs, expand k sh fs <> Panic.
Proof.
  intros k sh fs. pose proof (select_sim sh (enabled_fields fs)) as AG.
  unfold expand. fold (render_source k fs). fold (render_provide k fs).
  destruct (parse_fields sh fs) as [p| |] eqn:P; cbn [res_bind]; try discriminate.
  - destruct (parse_fields_select _ _ _ P) as [S _].
    assert (Rs : forall s0, p_source p = Some s0 -> s0 < length (enabled_fields fs)).
    { intros s0 E. rewrite E in S. exact (select_in_range _ _ _ _ _ _ S). }
    assert (Rb : forall b0, p_backtrace p = Some b0 -> b0 < length (enabled_fields fs)).
    { intros b0 E. rewrite E in S. exact (select_backtrace_in_range _ _ _ _ _ _ S). }
    change (match k with
            | Struct => render_source_as_struct fs (p_source p)
            | Variant => render_source_as_enum_variant_match_arm fs (p_source p)
            end) with (render_source k fs (p_source p)).
    destruct (render_source k fs (p_source p)) as [code| |] eqn:RS; cbn [res_bind]; try discriminate.
    + change (match k with
              | Struct => render_provide_as_struct fs (p_source p) (p_backtrace p)
              | Variant => render_provide_as_enum_variant_match_arm fs (p_source p) (p_backtrace p)
              end) with (render_provide k fs (p_source p) (p_backtrace p)).
      destruct (render_provide k fs (p_source p) (p_backtrace p)) as [prov| |] eqn:RP; cbn [res_bind];
        try discriminate.
      exfalso. exact (render_provide_no_panic _ _ _ _ Rs Rb RP).
    + exfalso. exact (render_source_no_panic _ _ _ Rs RS).
  - (* parse_fields never panics *)
    exfalso. unfold parse_fields, parse_fields_on in P.
    destruct (select_source_on (length (enabled_fields fs)) (length (enabled_fields fs)) sh
                               (enabled_fields fs)) as [[s b]| |] eqn:S;
      cbn [res_bind fst snd] in P; try discriminate; [|destruct AG].
    destruct s as [s|]; [|discriminate].
    pose proof (select_in_range _ _ _ _ _ _ S) as Le.
    destruct (nth_error_combine_some _ _ (enabled_fields_indexes fs) (enabled_fields fs) s) as [j [f C]];
      [apply enabled_indexes_length|exact Le|].
    rewrite C in P. discriminate.
Qed.

(* ------------------------------------------------------------------ `ignore` at the level of the code *)

Lemma sel_inj : forall a b : option nat, Sel a = Sel b -> a = b.
Proof. intros a b H. inversion H. reflexivity. Qed.

Lemma old_ignore_inert_code_named_struct : forall fs k f x x',
  f_ignore f = true -> k <= length fs ->
  expand_old Struct Named fs = Ok x -> expand_old Struct Named (insert_at k f fs) = Ok x' ->
  returned_field x' = option_map (shift k) (returned_field x).
Proof.
  intros fs k f x x' Hf Hk H H'.
  assert (Safe : forall l, selection_safe Struct Named l).
  { intros l. split; [left; reflexivity|discriminate]. }
  pose proof (old_selection_restricted _ _ _ _ H (Safe _)) as E.
  pose proof (old_selection_restricted _ _ _ _ H' (Safe _)) as E'.
  rewrite (ignore_inert Named fs k f Hf Hk) in E'. rewrite <- E in E'. cbn in E'.
  apply sel_inj. exact E'.
Qed.

Lemma ignore_inert_code : forall kd sh fs k f x x',
  f_ignore f = true -> k <= length fs ->
  expand kd sh fs = Ok x -> expand kd sh (insert_at k f fs) = Ok x' ->
  returned_field x' = option_map (shift k) (returned_field x).
Proof.
  intros kd sh fs k f x x' Hf Hk H H'.
  pose proof (selection _ _ _ _ H) as E.
  pose proof (selection _ _ _ _ H') as E'.
  rewrite (ignore_inert sh fs k f Hf Hk) in E'. rewrite <- E in E'. cbn in E'.
  apply sel_inj. exact E'.
Qed.

(* ------------------------------------------------------------------ whole enums vs the documented rules *)

Lemma enum_variant_documented : forall vs arms k v,
  render_enum vs = Ok arms -> nth_error vs k = Some v ->
  (v_ignore v = true -> enum_source_returns arms k = None) /\
  (v_ignore v = false ->
   Sel (enum_source_returns arms k) = documented_source (v_shape v) (v_fields v)).
Proof.
  intros vs arms k v H N. destruct (enum_variant vs arms k v H N) as [A B]. split; [exact A|].
  intros Ig. destruct (B Ig) as [x [Hx E]]. rewrite E. exact (selection _ _ _ _ Hx).
Qed.

(* ------------------------------------------------------------------ the emitted `match self` is exhaustive *)

Lemma arms_full : forall vs i arms,
  render_enum_arms i vs = Ok arms ->
  length arms <= length vs /\ (length arms = length vs -> map fst arms = seq i (length vs)).
Proof.
  induction vs as [|v vs IH]; intros i arms H.
  - cbn in H. inversion H; subst. cbn. split; [lia|reflexivity].
  - cbn [render_enum_arms] in H. cbn [length].
    assert (Skip : forall a, render_enum_arms (S i) vs = Ok a ->
                   length a <= S (length vs) /\ (length a = S (length vs) -> map fst a = seq i (S (length vs)))).
    { intros a Ha. destruct (IH _ _ Ha) as [L _]. split; [lia|intros E; lia]. }
    destruct (v_ignore v); [exact (Skip _ H)|].
    destruct (expand Variant (v_shape v) (v_fields v)) as [x| |]; cbn [res_bind] in H; try discriminate.
    destruct (render_enum_arms (S i) vs) as [arms'| |] eqn:R; cbn [res_bind] in H; try discriminate.
    inversion H; subst. clear H. destruct (IH _ _ R) as [L F].
    destruct (x_code x); [exact (Skip _ eq_refl)| |];
      (cbn [length map fst seq]; split; [lia|]; intros E; f_equal; apply F; lia).
Qed.

Lemma covers_in : forall arms k, covers arms k = true <-> In k (map fst arms).
Proof.
  intros arms k. unfold covers. rewrite existsb_exists. split.
  - intros [a [Ha E]]. apply Nat.eqb_eq in E. subst. apply in_map. exact Ha.
  - intros H. apply in_map_iff in H. destruct H as [a [E Ha]]. exists a. split; [exact Ha|].
    apply Nat.eqb_eq. exact E.
Qed.

Lemma enum_exhaustive : forall vs f,
  render_enum_source vs = Ok f -> match_exhaustive f (length vs) = true.
Proof.
  intros vs f H. unfold render_enum_source, render_enum in H.
  destruct (render_enum_arms 0 vs) as [arms| |] eqn:R; cbn [res_bind] in H; try discriminate.
  destruct (arms_full _ _ _ R) as [L F].
  destruct arms as [|a arms]; inversion H; subst; [reflexivity|]. clear H.
  unfold match_exhaustive. cbn [length] in L, F |- *.
  destruct (Nat.ltb_spec (S (length arms)) (length vs)) as [Lt|Ge]; [reflexivity|].
  cbn [orb]. apply forallb_forall. intros k Hk. apply covers_in. rewrite F by lia. exact Hk.
Qed.

Lemma enum_source_documented : forall vs f k v,
  render_enum_source vs = Ok f -> nth_error vs k = Some v ->
  (v_ignore v = true -> enum_fn_returns f k = None) /\
  (v_ignore v = false ->
   Sel (enum_fn_returns f k) = documented_source (v_shape v) (v_fields v)).
Proof.
  intros vs f k v H N. unfold render_enum_source in H.
  destruct (render_enum vs) as [arms| |] eqn:R; cbn [res_bind] in H; try discriminate.
  pose proof (enum_variant_documented vs arms k v R N) as D.
  destruct arms as [|a arms]; inversion H; subst; exact D.
Qed.

(* a variant without arm really needs the wildcard: it is there whenever some variant (ignored or
   source-less) has no arm *)
Lemma enum_wildcard_iff : forall vs arms w,
  render_enum_source vs = Ok (MatchSelf arms w) ->
  (w = true <-> exists k, k < length vs /\ covers arms k = false).
Proof.
  intros vs arms w H. unfold render_enum_source, render_enum in H.
  destruct (render_enum_arms 0 vs) as [arms0| |] eqn:R; cbn [res_bind] in H; try discriminate.
  destruct (arms_full _ _ _ R) as [L F].
  destruct arms0 as [|a arms0]; inversion H; subst. clear H. cbn [length] in L, F |- *.
  destruct (Nat.ltb_spec (S (length arms0)) (length vs)) as [Lt|Ge]; split; intros W;
    try reflexivity; try discriminate.
  - (* fewer arms than variants: some position is not covered *)
    destruct (forallb (covers (a :: arms0)) (seq 0 (length vs))) eqn:All.
    + exfalso. assert (I : incl (seq 0 (length vs)) (map fst (a :: arms0))).
      { intros k Hk. apply covers_in. exact (proj1 (forallb_forall _ _) All k Hk). }
      pose proof (NoDup_incl_length (seq_NoDup (length vs) 0) I) as Len.
      rewrite seq_length, map_length in Len. cbn [length] in Len. lia.
    + assert (E : exists k, In k (seq 0 (length vs)) /\ covers (a :: arms0) k = false).
      { clear - All. induction (seq 0 (length vs)) as [|k l IH]; [discriminate|].
        cbn [forallb] in All. destruct (covers (a :: arms0) k) eqn:C.
        - cbn [andb] in All. destruct (IH All) as [k' [I C']]. exists k'. split; [right; exact I|exact C'].
        - exists k. split; [left; reflexivity|exact C]. }
      destruct E as [k [I C]]. exists k. apply in_seq in I. split; [lia|exact C].
  - destruct W as [k [Lk C]]. exfalso.
    assert (In k (map fst (a :: arms0))) by (rewrite F by lia; apply in_seq; lia).
    apply covers_in in H. congruence.
Qed.

(* ------------------------------------------------------------------ the backtrace selection *)

Lemma documented_backtrace_relabel : forall sh g c,
  documented_backtrace_among sh (relabel g c) = doc_map g (documented_backtrace_among sh c).
Proof.
  intros sh g c. unfold documented_backtrace_among.
  pose proof (filter_relabel field marked_backtrace g c) as F. cbn beta in F. rewrite F. clear F.
  destruct (filter (fun p : nat * field => marked_backtrace (snd p)) c) as [|x [|y t]]; try reflexivity.
  pose proof (filter_relabel field (backtrace_candidate sh) g c) as F. cbn beta in F. rewrite F. clear F.
  destruct (filter (fun p : nat * field => backtrace_candidate sh (snd p)) c) as [|x [|y t]]; reflexivity.
Qed.

Lemma documented_backtrace_via_enabled : forall sh fs,
  documented_backtrace sh fs
  = doc_map (to_all fs) (documented_backtrace_among sh (enumerate (enabled_fields fs))).
Proof.
  intros sh fs. unfold documented_backtrace. rewrite considered_enabled.
  apply documented_backtrace_relabel.
Qed.

Lemma ignore_inert_backtrace : forall sh fs k f,
  f_ignore f = true -> k <= length fs ->
  documented_backtrace sh (insert_at k f fs) = doc_map (shift k) (documented_backtrace sh fs).
Proof.
  intros sh fs k f Hf Hk. unfold documented_backtrace.
  rewrite considered_insert by assumption. apply documented_backtrace_relabel.
Qed.

(* the code's backtrace parse IS the documented backtrace rule *)
Lemma backtrace_parse_sim : forall sh it,
  match parse_field_impl (valid_backtrace sh) f_backtrace it with
  | Ok b => documented_backtrace_among sh it = Sel (option_map fst b)
  | Err => documented_backtrace_among sh it = Ambiguous
  | Panic => False
  end.
Proof.
  intros sh it. unfold parse_field_impl, documented_backtrace_among, marked_backtrace.
  destruct (filter (fun p : nat * field => is_some_true (f_backtrace (snd p))) it) as [|x [|y t]];
    cbn [assert_iter_contains_zero_or_one_item res_bind]; try reflexivity.
  rewrite (filter_ext_in' _ (fun p : nat * field => match f_backtrace (snd p) with
                                                 | None => valid_backtrace sh (snd p)
                                                 | _ => false end)
                          (fun p : nat * field => backtrace_candidate sh (snd p))).
  2:{ intros p _. unfold backtrace_candidate, valid_backtrace, is_none.
      destruct (f_backtrace (snd p)), sh; reflexivity. }
  destruct (filter (fun p : nat * field => backtrace_candidate sh (snd p)) it) as [|x [|y t]]; reflexivity.
Qed.

(* the source parse alone can only fail on a documented ambiguity *)
Lemma source_parse_err : forall sh l,
  parse_field_impl (valid_source sh (length l)) f_source (enumerate l) = Err ->
  documented_source_among sh (enumerate l) = Ambiguous.
Proof.
  intros sh l. rewrite parse_field_impl_source_cases.
  destruct (filter (fun p : nat * field => marked_source (snd p)) (enumerate l)) as [|x [|y t]] eqn:E;
    [|discriminate|intros _; exact (spec_marked_many _ _ _ _ _ E)].
  destruct sh.
  - change (fun p : nat * field => match f_source (snd p) with
                                   | None => valid_source Named (length l) (snd p)
                                   | _ => false end)
      with (fun p : nat * field => match f_source (snd p) with
                                   | None => valid_source Named 0 (snd p)
                                   | _ => false end).
    rewrite (named_pred_eq _ E). unfold documented_source_among. rewrite E.
    destruct (filter (fun p : nat * field => name_is id_source (snd p) && negb (opted_out (snd p)))
                     (enumerate l)) as [|x [|y t]]; cbn; try discriminate. reflexivity.
  - destruct l as [|a [|b t]].
    + cbn. discriminate.
    + clear E. split_field a; vm_compute; discriminate.
    + rewrite filter_none; [cbn; discriminate|].
      intros p _. cbn. destruct (f_source (snd p)); reflexivity.
Qed.

Lemma infer_source_field_not_err : forall n l s b, infer_source_field n l s b <> Err.
Proof.
  intros n l s b. unfold infer_source_field. destruct (negb (n =? 2)); [discriminate|].
  destruct s; [discriminate|]. destruct b as [b|]; [|discriminate].
  destruct (nth_error l ((b + 1) mod 2)) as [f|]; [|discriminate].
  destruct (f_source f) as [[|]|]; discriminate.
Qed.

(* the selection as a whole: (source, backtrace) are the documented ones; it fails exactly on a
   documented ambiguity of either *)
Lemma select_full_sim : forall sh l,
  match select_source_on (length l) (length l) sh l with
  | Ok sb => documented_source_among sh (enumerate l) = Sel (fst sb)
             /\ documented_backtrace_among sh (enumerate l) = Sel (snd sb)
  | Err => documented_source_among sh (enumerate l) = Ambiguous
           \/ documented_backtrace_among sh (enumerate l) = Ambiguous
  | Panic => False
  end.
Proof.
  intros sh l. pose proof (select_sim sh l) as AG. pose proof (source_parse_err sh l) as SE.
  pose proof (backtrace_parse_sim sh (enumerate l)) as BS.
  unfold select_source_on, parse_fields_impl_on in *.
  destruct (parse_field_impl (valid_source sh (length l)) f_source (enumerate l)) as [src| |] eqn:S1;
    cbn [res_bind] in *.
  - destruct (parse_field_impl (valid_backtrace sh) f_backtrace (enumerate l)) as [bt| |] eqn:B1;
      cbn [res_bind] in *.
    + destruct sh; cbn [fst snd] in *.
      * split; assumption.
      * destruct (option_map fst src) as [s0|]; cbn [res_bind fst snd] in *.
        -- split; assumption.
        -- destruct (infer_source_field (length l) l None (option_map fst bt)) as [s'| |] eqn:I;
             cbn [res_bind fst snd] in *.
           ++ split; assumption.
           ++ exfalso. exact (infer_source_field_not_err _ _ _ _ I).
           ++ exact AG.
    + right. exact BS.
    + exact BS.
  - left. apply SE. reflexivity.
  - exact AG.
Qed.

Lemma doc_map_ambiguous : forall (g : nat -> nat) d, doc_map g d = Ambiguous <-> d = Ambiguous.
Proof. intros g [o|]; cbn; split; intros H; try discriminate; reflexivity. Qed.

Lemma parse_fields_err_iff : forall sh fs,
  parse_fields sh fs = Err <->
  select_source_on (length (enabled_fields fs)) (length (enabled_fields fs)) sh (enabled_fields fs) = Err.
Proof.
  intros sh fs. unfold parse_fields, parse_fields_on.
  destruct (select_source_on (length (enabled_fields fs)) (length (enabled_fields fs)) sh
                             (enabled_fields fs)) as [[s b]| |] eqn:S; cbn [res_bind fst snd].
  - split; [|discriminate]. destruct s as [s|]; [|discriminate].
    destruct (nth_error (combine (enabled_fields_indexes fs) (enabled_fields fs)) s) as [jf|];
      cbn; discriminate.
  - tauto.
  - split; discriminate.
Qed.

(* the derive is rejected exactly on a documented ambiguity (of the source or of the backtrace) *)
Lemma rejected_iff : forall k sh fs,
  expand k sh fs = Err <->
  documented_source sh fs = Ambiguous \/ documented_backtrace sh fs = Ambiguous.
Proof.
  intros k sh fs. rewrite documented_via_enabled, documented_backtrace_via_enabled.
  rewrite !doc_map_ambiguous.
  pose proof (select_full_sim sh (enabled_fields fs)) as F.
  split.
  - intros H. destruct (parse_fields sh fs) as [p| |] eqn:P.
    + exfalso. (* parse ok: rendering never errs *)
      unfold expand in H. rewrite P in H. cbn [res_bind] in H.
      destruct k; cbn in H.
      * unfold render_source_as_struct in H. destruct (p_source p) as [s|].
        -- destruct (nth_error (members fs) s); cbn [res_bind] in H; try discriminate.
           unfold render_provide_as_struct, member_at in H.
           destruct (p_backtrace p) as [b|]; [|discriminate].
           destruct (nth_error (members fs) s); cbn [res_bind] in H; try discriminate.
           destruct (Nat.eqb s b); cbn [res_bind] in H; try discriminate.
           destruct (nth_error (members fs) b); cbn [res_bind] in H; discriminate.
        -- cbn [res_bind] in H. unfold render_provide_as_struct, member_at in H.
           destruct (p_backtrace p) as [b|]; [|discriminate]. cbn [res_bind] in H.
           destruct (nth_error (members fs) b); cbn [res_bind] in H; discriminate.
      * unfold render_source_as_enum_variant_match_arm in H. destruct (p_source p) as [s|].
        -- destruct (nth_error (enabled_fields_indexes fs) s) eqn:Ms; cbn [res_bind] in H; try discriminate.
           unfold render_provide_as_enum_variant_match_arm, field_index_at in H.
           destruct (p_backtrace p) as [b|]; [|discriminate].
           destruct (Nat.eqb s b); rewrite Ms in H; cbn [res_bind] in H; try discriminate.
           destruct (nth_error (enabled_fields_indexes fs) b); cbn [res_bind] in H; discriminate.
        -- cbn [res_bind] in H. unfold render_provide_as_enum_variant_match_arm, field_index_at in H.
           destruct (p_backtrace p) as [b|]; [|discriminate].
           destruct (nth_error (enabled_fields_indexes fs) b); cbn [res_bind] in H; discriminate.
    + apply parse_fields_err_iff in P. rewrite P in F. exact F.
    + exfalso. apply (no_panic k sh fs). unfold expand. rewrite P. reflexivity.
  - intros H.
    assert (S : select_source_on (length (enabled_fields fs)) (length (enabled_fields fs)) sh
                                 (enabled_fields fs) = Err).
    { destruct (select_source_on (length (enabled_fields fs)) (length (enabled_fields fs)) sh
                                 (enabled_fields fs)) as [[s b]| |]; [|reflexivity|destruct F].
      destruct F as [F1 F2]. destruct H as [H|H]; congruence. }
    apply parse_fields_err_iff in S. unfold expand. rewrite S. reflexivity.
Qed.

Lemma accepted_iff : forall k sh fs,
  (exists x, expand k sh fs = Ok x) <->
  documented_source sh fs <> Ambiguous /\ documented_backtrace sh fs <> Ambiguous.
Proof.
  intros k sh fs. pose proof (rejected_iff k sh fs) as R. pose proof (no_panic k sh fs) as NP.
  destruct (expand k sh fs) as [x| |] eqn:E.
  - split; [|eauto]. intros _. split; intros A; [assert (X : @Ok expansion x = Err) by (apply R; left; exact A)
                                                  |assert (X : @Ok expansion x = Err) by (apply R; right; exact A)];
      discriminate.
  - split.
    + intros [x X]. discriminate.
    + intros [A B]. destruct (proj1 R eq_refl); contradiction.
  - contradiction.
Qed.

Lemma backtrace_selection : forall k sh fs x,
  expand k sh fs = Ok x ->
  Sel (option_map (to_all fs) (x_bsel x)) = documented_backtrace sh fs.
Proof.
  intros k sh fs x H. destruct (expand_inv _ _ _ _ H) as [p [code [prov [P [RS [RP E]]]]]]. subst x.
  destruct (parse_fields_select _ _ _ P) as [S _].
  pose proof (select_full_sim sh (enabled_fields fs)) as F. rewrite S in F. destruct F as [_ F].
  cbn in F. rewrite documented_backtrace_via_enabled, F. reflexivity.
Qed.

Lemma considered_filter_length : forall (P : field -> bool) fs i,
  length (filter (fun p : nat * field => P (snd p))
            (filter (fun p : nat * field => negb (f_ignore (snd p))) (combine (seq i (length fs)) fs)))
  = length (filter (fun f => negb (f_ignore f) && P f) fs).
Proof.
  intros P. induction fs as [|f fs IH]; intros i; cbn; [reflexivity|].
  destruct (f_ignore f); cbn; [apply IH|]. destruct (P f); cbn; rewrite IH; reflexivity.
Qed.

(* at most one non-ignored field carries `#[error(source)]` whenever the derive is accepted *)
Lemma marked_source_unique : forall k sh fs x,
  expand k sh fs = Ok x ->
  length (filter (fun f => negb (f_ignore f) && marked_source f) fs) <= 1.
Proof.
  intros k sh fs x H.
  assert (A : documented_source sh fs <> Ambiguous).
  { apply (proj1 (accepted_iff k sh fs)). eauto. }
  unfold documented_source, documented_source_among in A.
  rewrite <- (considered_filter_length marked_source fs 0).
  fold (indexed fs). fold (considered fs).
  destruct (filter (fun p : nat * field => marked_source (snd p)) (considered fs)) as [|a [|b t]];
    cbn; try lia. exfalso. apply A. reflexivity.
Qed.

(* ------------------------------------------------------------------ provide() *)

Lemma enabled_index_inj : forall fs s b j,
  nth_error (enabled_fields_indexes fs) s = Some j ->
  nth_error (enabled_fields_indexes fs) b = Some j -> s = b.
Proof.
  intros fs s b j Hs Hb.
  destruct (enabled_index_count fs 0 s j Hs) as [E1 _].
  destruct (enabled_index_count fs 0 b j Hb) as [E2 _]. lia.
Qed.

Lemma position_some : forall idxs i k, position i idxs = Some k -> nth_error idxs k = Some i.
Proof.
  induction idxs as [|x r IH]; intros i k H; [discriminate|].
  cbn in H. destruct (Nat.eqb_spec i x) as [->|Ne].
  - inversion H; subst. reflexivity.
  - destruct (position i r) as [k'|] eqn:P; [|discriminate]. cbn in H. inversion H; subst.
    cbn. apply IH. exact P.
Qed.

Lemma position_nodup : forall idxs k j,
  NoDup idxs -> nth_error idxs k = Some j -> position j idxs = Some k.
Proof.
  induction idxs as [|x r IH]; intros k j ND H; [destruct k; discriminate|].
  inversion ND as [|? ? Nin ND']; subst. destruct k as [|k]; cbn in H |- *.
  - inversion H; subst. rewrite Nat.eqb_refl. reflexivity.
  - destruct (Nat.eqb_spec j x) as [->|Ne].
    + exfalso. apply Nin. eapply nth_error_In. exact H.
    + rewrite (IH _ _ ND' H). reflexivity.
Qed.

Lemma binding_position_of_matcher_from : forall idxs k j,
  NoDup idxs -> nth_error idxs k = Some j ->
  forall n a, a <= j -> j < a + n ->
  binding_position_of k (map (fun i => position i idxs) (seq a n)) = Some (j - a).
Proof.
  intros idxs k j ND Hk. induction n as [|n IH]; intros a L U; [lia|].
  cbn [seq map binding_position_of]. destruct (Nat.eq_dec a j) as [->|Ne].
  - rewrite (position_nodup _ _ _ ND Hk). rewrite Nat.eqb_refl. rewrite Nat.sub_diag. reflexivity.
  - assert (T : match position a idxs with Some k' => k' =? k | None => false end = false).
    { destruct (position a idxs) as [k'|] eqn:P; [|reflexivity].
      destruct (Nat.eqb_spec k' k) as [->|]; [|reflexivity].
      apply position_some in P. congruence. }
    rewrite T. rewrite IH by lia. cbn. f_equal. lia.
Qed.

Lemma binding_position_of_matcher : forall idxs k j n,
  NoDup idxs -> nth_error idxs k = Some j -> j < n ->
  binding_position_of k (matcher n idxs) = Some j.
Proof.
  intros idxs k j n ND Hk L. unfold matcher.
  rewrite (binding_position_of_matcher_from idxs k j ND Hk n 0) by lia. f_equal. lia.
Qed.

(* what the rendered provide() offers, in the all-fields space *)
Definition provide_of (fs : list field) (s b : option nat) : option nat * option nat :=
  match b with
  | None => (None, None)
  | Some b0 => (if opt_nat_eqb s (Some b0) then None else Some (to_all fs b0), option_map (to_all fs) s)
  end.

Lemma render_provide_returns : forall k fs s b prov,
  render_provide k fs s b = Ok prov -> provide_returns prov = provide_of fs s b.
Proof.
  intros k fs s [b|] prov H; [|destruct k; cbn in H; inversion H; reflexivity].
  unfold provide_of.
  assert (TA : forall i j, nth_error (enabled_fields_indexes fs) i = Some j -> to_all fs i = j).
  { intros i j M. unfold to_all. apply nth_error_nth. exact M. }
  destruct k; cbn in H; unfold member_at, field_index_at, members in H.
  - (* struct *)
    destruct s as [s|].
    + destruct (nth_error (enabled_fields_indexes fs) s) as [js|] eqn:Ms; cbn [res_bind] in H; [|discriminate].
      cbn [opt_nat_eqb]. destruct (Nat.eqb s b) eqn:E; cbn [res_bind] in H.
      * inversion H; subst. cbn. rewrite (TA _ _ Ms). reflexivity.
      * destruct (nth_error (enabled_fields_indexes fs) b) as [jb|] eqn:Mb; cbn [res_bind] in H; [|discriminate].
        inversion H; subst. cbn. rewrite (TA _ _ Ms), (TA _ _ Mb). reflexivity.
    + destruct (nth_error (enabled_fields_indexes fs) b) as [jb|] eqn:Mb; cbn [res_bind] in H; [|discriminate].
      inversion H; subst. cbn. rewrite (TA _ _ Mb). reflexivity.
  - (* variant *)
    destruct s as [s|].
    + cbn [opt_nat_eqb]. destruct (Nat.eqb_spec s b) as [->|Ne].
      * destruct (nth_error (enabled_fields_indexes fs) b) as [jb|] eqn:Mb; cbn [res_bind] in H; [|discriminate].
        inversion H; subst. cbn [provide_returns]. unfold binder_field. cbn [binder_index binder_eqb option_map].
        rewrite (binding_position_of_matcher [jb] 0 jb (length fs)).
        -- cbn. rewrite (TA _ _ Mb). reflexivity.
        -- constructor; [intros []|constructor].
        -- reflexivity.
        -- apply (enabled_index_lt fs b jb Mb).
      * destruct (nth_error (enabled_fields_indexes fs) s) as [js|] eqn:Ms; cbn [res_bind] in H; [|discriminate].
        destruct (nth_error (enabled_fields_indexes fs) b) as [jb|] eqn:Mb; cbn [res_bind] in H; [|discriminate].
        inversion H; subst. cbn [provide_returns]. unfold binder_field. cbn [binder_index binder_eqb option_map].
        assert (ND : NoDup [js; jb]).
        { constructor; [|constructor; [intros []|constructor]].
          intros [E|[]]. subst. apply Ne. exact (enabled_index_inj fs s b js Ms Mb). }
        rewrite (binding_position_of_matcher [js; jb] 1 jb (length fs) ND eq_refl (enabled_index_lt fs b jb Mb)).
        rewrite (binding_position_of_matcher [js; jb] 0 js (length fs) ND eq_refl (enabled_index_lt fs s js Ms)).
        cbn. rewrite (TA _ _ Ms), (TA _ _ Mb). reflexivity.
    + destruct (nth_error (enabled_fields_indexes fs) b) as [jb|] eqn:Mb; cbn [res_bind] in H; [|discriminate].
      inversion H; subst. cbn [provide_returns]. unfold binder_field. cbn [binder_index binder_eqb option_map].
      rewrite (binding_position_of_matcher [jb] 0 jb (length fs)).
      * cbn. rewrite (TA _ _ Mb). reflexivity.
      * constructor; [intros []|constructor].
      * reflexivity.
      * apply (enabled_index_lt fs b jb Mb).
Qed.

Lemma to_all_inj : forall fs s b,
  s < length (enabled_fields fs) -> b < length (enabled_fields fs) ->
  to_all fs s = to_all fs b -> s = b.
Proof.
  intros fs s b Ls Lb E.
  destruct (index_at_ok fs s Ls) as [js Ms]. destruct (index_at_ok fs b Lb) as [jb Mb].
  unfold to_all in E. rewrite (nth_error_nth _ _ 0 Ms), (nth_error_nth _ _ 0 Mb) in E. subst.
  exact (enabled_index_inj fs s b jb Ms Mb).
Qed.

Lemma provide_selection : forall k sh fs x,
  expand k sh fs = Ok x -> Sel (provided x) = documented_provide sh fs.
Proof.
  intros k sh fs x H. destruct (expand_inv _ _ _ _ H) as [p [code [prov [P [RS [RP E]]]]]]. subst x.
  destruct (parse_fields_select _ _ _ P) as [S _].
  pose proof (select_full_sim sh (enabled_fields fs)) as F. rewrite S in F. destruct F as [F1 F2].
  cbn [fst snd] in F1, F2.
  unfold documented_provide. rewrite documented_via_enabled, documented_backtrace_via_enabled, F1, F2.
  cbn [doc_map]. unfold provided. cbn [x_provide]. rewrite (render_provide_returns _ _ _ _ _ RP).
  unfold provide_of. destruct (p_backtrace p) as [b|] eqn:Pb; cbn [option_map]; [|reflexivity].
  assert (Lb : b < length (enabled_fields fs)).
  { exact (select_backtrace_in_range _ _ _ _ _ _ S). }
  destruct (p_source p) as [s|] eqn:Ps; cbn [option_map opt_nat_eqb]; [|reflexivity].
  assert (Ls : s < length (enabled_fields fs)).
  { exact (select_in_range _ _ _ _ _ _ S). }
  destruct (Nat.eqb_spec s b) as [->|Ne].
  - rewrite Nat.eqb_refl. reflexivity.
  - change (nth s (enabled_fields_indexes fs) 0) with (to_all fs s).
    destruct (Nat.eqb_spec (to_all fs s) (to_all fs b)) as [E|_]; [|reflexivity].
    exfalso. apply Ne. exact (to_all_inj fs s b Ls Lb E).
Qed.

(* ---- whole enums: the provide() match ---- *)

Lemma arms_ge_p : forall vs i arms,
  render_enum_provide_arms i vs = Ok arms -> forall j c, In (j, c) arms -> i <= j.
Proof.
  induction vs as [|v vs IH]; intros i arms H j c Hin.
  - cbn in H. inversion H; subst. destruct Hin.
  - cbn [render_enum_provide_arms] in H. destruct (v_ignore v).
    + specialize (IH _ _ H _ _ Hin). lia.
    + destruct (expand Variant (v_shape v) (v_fields v)) as [x| |]; cbn [res_bind] in H; try discriminate.
      destruct (render_enum_provide_arms (S i) vs) as [arms'| |] eqn:R; cbn [res_bind] in H; try discriminate.
      inversion H; subst. clear H.
      assert (G : In (j, c) arms' -> i <= j) by (intros G; specialize (IH _ _ R _ _ G); lia).
      destruct (x_provide x); [exact (G Hin)| |]; (destruct Hin as [E|E]; [inversion E; lia|exact (G E)]).
Qed.

Lemma enum_lookup_none_p : forall arms k,
  (forall j c, In (j, c) arms -> j <> k) -> enum_provide_returns arms k = (None, None).
Proof.
  induction arms as [|[i c] arms IH]; intros k H; [reflexivity|].
  cbn. destruct (Nat.eqb_spec i k) as [->|Ne].
  - exfalso. apply (H k c); [left; reflexivity|reflexivity].
  - apply IH. intros j c' Hin. apply (H j c'). right. exact Hin.
Qed.

Lemma enum_variant_from_p : forall vs i arms k v,
  render_enum_provide_arms i vs = Ok arms -> nth_error vs k = Some v ->
  (v_ignore v = true -> enum_provide_returns arms (i + k) = (None, None)) /\
  (v_ignore v = false ->
   exists x, expand Variant (v_shape v) (v_fields v) = Ok x
             /\ enum_provide_returns arms (i + k) = provided x).
Proof.
  induction vs as [|w vs IH]; intros i arms k v H N; [destruct k; discriminate|].
  cbn [render_enum_provide_arms] in H. destruct k as [|k].
  - cbn in N. inversion N; subst w. clear N. rewrite Nat.add_0_r.
    destruct (v_ignore v) eqn:Ig.
    + split; [|discriminate]. intros _. apply enum_lookup_none_p. intros j c Hin.
      pose proof (arms_ge_p _ _ _ H _ _ Hin). lia.
    + split; [discriminate|]. intros _.
      destruct (expand Variant (v_shape v) (v_fields v)) as [x| |]; cbn [res_bind] in H; try discriminate.
      destruct (render_enum_provide_arms (S i) vs) as [arms'| |] eqn:R; cbn [res_bind] in H; try discriminate.
      exists x. split; [reflexivity|]. inversion H; subst. clear H.
      assert (G : enum_provide_returns arms' i = (None, None)).
      { apply enum_lookup_none_p. intros j c Hin. pose proof (arms_ge_p _ _ _ R _ _ Hin). lia. }
      unfold provided. destruct (x_provide x); cbn; rewrite ?Nat.eqb_refl; try reflexivity.
      exact G.
  - cbn [nth_error] in N. replace (i + S k) with (S i + k) by lia.
    assert (Skip : forall arms' c, enum_provide_returns ((i, c) :: arms') (S i + k)
                                   = enum_provide_returns arms' (S i + k)).
    { intros arms' c. cbn. destruct (Nat.eqb_spec i (S (i + k))); [lia|reflexivity]. }
    destruct (v_ignore w).
    + exact (IH _ _ _ _ H N).
    + destruct (expand Variant (v_shape w) (v_fields w)) as [x| |]; cbn [res_bind] in H; try discriminate.
      destruct (render_enum_provide_arms (S i) vs) as [arms'| |] eqn:R; cbn [res_bind] in H; try discriminate.
      inversion H; subst. clear H. specialize (IH _ _ _ _ R N).
      destruct (x_provide x); rewrite ?Skip; exact IH.
Qed.

Lemma arms_full_p : forall vs i arms,
  render_enum_provide_arms i vs = Ok arms ->
  length arms <= length vs /\ (length arms = length vs -> map fst arms = seq i (length vs)).
Proof.
  induction vs as [|v vs IH]; intros i arms H.
  - cbn in H. inversion H; subst. cbn. split; [lia|reflexivity].
  - cbn [render_enum_provide_arms] in H. cbn [length].
    assert (Skip : forall a, render_enum_provide_arms (S i) vs = Ok a ->
                   length a <= S (length vs) /\ (length a = S (length vs) -> map fst a = seq i (S (length vs)))).
    { intros a Ha. destruct (IH _ _ Ha) as [L _]. split; [lia|intros E; lia]. }
    destruct (v_ignore v); [exact (Skip _ H)|].
    destruct (expand Variant (v_shape v) (v_fields v)) as [x| |]; cbn [res_bind] in H; try discriminate.
    destruct (render_enum_provide_arms (S i) vs) as [arms'| |] eqn:R; cbn [res_bind] in H; try discriminate.
    inversion H; subst. clear H. destruct (IH _ _ R) as [L F].
    destruct (x_provide x); [exact (Skip _ eq_refl)| |];
      (cbn [length map fst seq]; split; [lia|]; intros E; f_equal; apply F; lia).
Qed.

Lemma covers_in_p : forall arms k, provide_covers arms k = true <-> In k (map fst arms).
Proof.
  intros arms k. unfold provide_covers. rewrite existsb_exists. split.
  - intros [a [Ha E]]. apply Nat.eqb_eq in E. subst. apply in_map. exact Ha.
  - intros H. apply in_map_iff in H. destruct H as [a [E Ha]]. exists a. split; [exact Ha|].
    apply Nat.eqb_eq. exact E.
Qed.

Lemma enum_provide_exhaustive : forall vs f,
  render_enum_provide vs = Ok f -> provide_match_exhaustive f (length vs) = true.
Proof.
  intros vs f H. unfold render_enum_provide in H.
  destruct (render_enum_provide_arms 0 vs) as [arms| |] eqn:R; cbn [res_bind] in H; try discriminate.
  destruct (arms_full_p _ _ _ R) as [L F].
  destruct arms as [|a arms]; inversion H; subst; [reflexivity|]. clear H.
  unfold provide_match_exhaustive. cbn [length] in L, F |- *.
  destruct (Nat.ltb_spec (S (length arms)) (length vs)) as [Lt|Ge]; [reflexivity|].
  cbn [orb]. apply forallb_forall. intros k Hk. apply covers_in_p. rewrite F by lia. exact Hk.
Qed.

Lemma enum_provide_documented : forall vs f k v,
  render_enum_provide vs = Ok f -> nth_error vs k = Some v ->
  (v_ignore v = true -> enum_provide_fn_returns f k = (None, None)) /\
  (v_ignore v = false ->
   Sel (enum_provide_fn_returns f k) = documented_provide (v_shape v) (v_fields v)).
Proof.
  intros vs f k v H N. unfold render_enum_provide in H.
  destruct (render_enum_provide_arms 0 vs) as [arms| |] eqn:R; cbn [res_bind] in H; try discriminate.
  destruct (enum_variant_from_p vs 0 arms k v R N) as [A B]. cbn [Nat.add] in A, B.
  assert (D : (v_ignore v = true -> enum_provide_returns arms k = (None, None)) /\
              (v_ignore v = false ->
               Sel (enum_provide_returns arms k) = documented_provide (v_shape v) (v_fields v))).
  { split; [exact A|]. intros Ig. destruct (B Ig) as [x [Hx E]]. rewrite E.
    exact (provide_selection _ _ _ _ Hx). }
  destruct arms as [|a arms]; inversion H; subst; exact D.
Qed.

(* ------------------------------------------------------------------ `ignore` and the outcome *)

Lemma ignore_inert_outcome : forall kd sh fs k f,
  f_ignore f = true -> k <= length fs ->
  ((exists x, expand kd sh fs = Ok x) <-> (exists x', expand kd sh (insert_at k f fs) = Ok x'))
  /\ (expand kd sh fs = Err <-> expand kd sh (insert_at k f fs) = Err).
Proof.
  intros kd sh fs k f Hf Hk.
  rewrite !accepted_iff, !rejected_iff.
  rewrite (ignore_inert sh fs k f Hf Hk), (ignore_inert_backtrace sh fs k f Hf Hk).
  rewrite !doc_map_ambiguous. split; tauto.
Qed.

(* ------------------------------------------------------------------ types: which fields get bounded *)

(* induction over the nested mutual type of types *)
Section TyInduction.
  Variable Pt : ty -> Prop.
  Variable Ps : seg -> Prop.
  Variable Pa : pargs -> Prop.
  Variable Pg : garg -> Prop.
  Variable Pb : bound -> Prop.
  Definition OptP (o : option ty) : Prop := match o with Some t => Pt t | None => True end.
  Hypothesis HPath : forall q segs, OptP q -> Forall Ps segs -> Pt (TyPath q segs).
  Hypothesis HRef : forall e, Pt e -> Pt (TyRef e).
  Hypothesis HWrap : forall e, Pt e -> Pt (TyWrap e).
  Hypothesis HTuple : forall es, Forall Pt es -> Pt (TyTuple es).
  Hypothesis HBareFn : forall ins out, Forall Pt ins -> OptP out -> Pt (TyBareFn ins out).
  Hypothesis HTraitObject : forall bs, Forall Pb bs -> Pt (TyTraitObject bs).
  Hypothesis HOther : Pt TyOther.
  Hypothesis HSeg : forall n a, Pa a -> Ps (Seg n a).
  Hypothesis HPNone : Pa PNone.
  Hypothesis HPAngle : forall l, Forall Pg l -> Pa (PAngle l).
  Hypothesis HPParen : forall ins out, Forall Pt ins -> OptP out -> Pa (PParen ins out).
  Hypothesis HGType : forall t, Pt t -> Pg (GType t).
  Hypothesis HGAssoc : forall t, Pt t -> Pg (GAssocType t).
  Hypothesis HGConstraint : forall i, Pg (GConstraint i).
  Hypothesis HGOther : Pg GOther.
  Hypothesis HBTrait : forall path, Forall Ps path -> Pb (BTrait path).
  Hypothesis HBLifetime : Pb BLifetime.

  Fixpoint ty_induction (t : ty) {struct t} : Pt t :=
    match t with
    | TyPath q segs =>
        HPath q segs
          (match q return OptP q with Some qt => ty_induction qt | None => I end)
          ((fix go (l : list seg) : Forall Ps l :=
              match l with [] => Forall_nil _ | x :: r => Forall_cons x (seg_induction x) (go r) end) segs)
    | TyRef e => HRef e (ty_induction e)
    | TyWrap e => HWrap e (ty_induction e)
    | TyTuple es =>
        HTuple es ((fix go (l : list ty) : Forall Pt l :=
                      match l with [] => Forall_nil _ | x :: r => Forall_cons x (ty_induction x) (go r) end) es)
    | TyBareFn ins out =>
        HBareFn ins out
          ((fix go (l : list ty) : Forall Pt l :=
              match l with [] => Forall_nil _ | x :: r => Forall_cons x (ty_induction x) (go r) end) ins)
          (match out return OptP out with Some o => ty_induction o | None => I end)
    | TyTraitObject bs =>
        HTraitObject bs ((fix go (l : list bound) : Forall Pb l :=
                            match l with [] => Forall_nil _ | x :: r => Forall_cons x (bound_induction x) (go r) end) bs)
    | TyOther => HOther
    end
  with seg_induction (s : seg) {struct s} : Ps s :=
    match s with Seg n a => HSeg n a (pargs_induction a) end
  with pargs_induction (a : pargs) {struct a} : Pa a :=
    match a with
    | PNone => HPNone
    | PAngle l =>
        HPAngle l ((fix go (l : list garg) : Forall Pg l :=
                      match l with [] => Forall_nil _ | x :: r => Forall_cons x (garg_induction x) (go r) end) l)
    | PParen ins out =>
        HPParen ins out
          ((fix go (l : list ty) : Forall Pt l :=
              match l with [] => Forall_nil _ | x :: r => Forall_cons x (ty_induction x) (go r) end) ins)
          (match out return OptP out with Some o => ty_induction o | None => I end)
    end
  with garg_induction (g : garg) {struct g} : Pg g :=
    match g with
    | GType t => HGType t (ty_induction t)
    | GAssocType t => HGAssoc t (ty_induction t)
    | GConstraint i => HGConstraint i
    | GOther => HGOther
    end
  with bound_induction (b : bound) {struct b} : Pb b :=
    match b with
    | BTrait path =>
        HBTrait path ((fix go (l : list seg) : Forall Ps l :=
                         match l with [] => Forall_nil _ | x :: r => Forall_cons x (seg_induction x) (go r) end) path)
    | BLifetime => HBLifetime
    end.
End TyInduction.

Lemma existsb_flat_map_spec : forall A (f : A -> bool) (g : A -> list ident) (P : ident -> bool) l,
  Forall (fun x => f x = existsb P (g x)) l -> existsb f l = existsb P (flat_map g l).
Proof.
  intros A f g P l H. induction H as [|x l Hx Hl IH]; cbn; [reflexivity|].
  rewrite existsb_app, Hx, IH. reflexivity.
Qed.

(* the walk finds a type parameter iff one of the identifiers it looks at is a type parameter *)
Lemma used_ty_spec : forall ps t, used_ty ps t = existsb (fun i => memb i ps) (idents_ty t).
Proof.
  intros ps.
  apply (ty_induction
           (fun t => used_ty ps t = existsb (fun i => memb i ps) (idents_ty t))
           (fun s => used_seg ps s = existsb (fun i => memb i ps) (idents_seg s))
           (fun a => used_pargs ps a = existsb (fun i => memb i ps) (idents_pargs a))
           (fun g => used_garg ps g = existsb (fun i => memb i ps) (idents_garg g))
           (fun b => used_bound ps b = existsb (fun i => memb i ps) (idents_bound b))).
  - intros q segs Hq Hs. cbn [used_ty idents_ty]. rewrite !existsb_app.
    rewrite (existsb_flat_map_spec _ _ _ _ _ Hs).
    destruct q as [qt|]; cbn in Hq; [rewrite Hq|]; destruct segs as [|[n a] r]; cbn;
      rewrite ?orb_false_r, ?orb_assoc; reflexivity.
  - intros e He. exact He.
  - intros e He. exact He.
  - intros es H. cbn [used_ty idents_ty]. apply existsb_flat_map_spec. exact H.
  - intros ins out Hi Ho. cbn [used_ty idents_ty]. rewrite existsb_app.
    rewrite (existsb_flat_map_spec _ _ _ _ _ Hi). destruct out as [o|]; cbn in Ho; [rewrite Ho|]; reflexivity.
  - intros bs H. cbn [used_ty idents_ty]. apply existsb_flat_map_spec. exact H.
  - reflexivity.
  - intros n a Ha. exact Ha.
  - reflexivity.
  - intros l H. cbn [used_pargs idents_pargs]. apply existsb_flat_map_spec. exact H.
  - intros ins out Hi Ho. cbn [used_pargs idents_pargs]. rewrite existsb_app.
    rewrite (existsb_flat_map_spec _ _ _ _ _ Hi). destruct out as [o|]; cbn in Ho; [rewrite Ho|]; reflexivity.
  - intros t Ht. exact Ht.
  - intros t Ht. exact Ht.
  - intros i. cbn. rewrite orb_false_r. reflexivity.
  - reflexivity.
  - intros path H. cbn [used_bound idents_bound]. apply existsb_flat_map_spec. exact H.
  - reflexivity.
Qed.

Lemma used_ty_iff : forall ps t,
  used_ty ps t = true <-> exists i, In i ps /\ In i (idents_ty t).
Proof.
  intros ps t. rewrite used_ty_spec, existsb_exists. split.
  - intros [i [Hi M]]. exists i. split; [|exact Hi]. unfold memb in M. apply existsb_exists in M.
    destruct M as [j [Hj E]]. apply Nat.eqb_eq in E. subst. exact Hj.
  - intros [i [Hp Hi]]. exists i. split; [exact Hi|]. unfold memb. apply existsb_exists.
    exists i. split; [exact Hp|apply Nat.eqb_refl].
Qed.

Lemma get_if_spec : forall ps t,
  get_if_type_parameter_used_in_type ps t
  = if used_ty ps t then Some (strip_reference t) else None.
Proof. reflexivity. Qed.

(* references are transparent for the walk; no parameters, no bound *)
Lemma used_ty_ref : forall ps t, used_ty ps (TyRef t) = used_ty ps t.
Proof. reflexivity. Qed.
Lemma used_ty_no_params : forall t, used_ty [] t = false.
Proof.
  intros t. rewrite used_ty_spec. induction (idents_ty t) as [|i l IH]; [reflexivity|exact IH].
Qed.

(* no source, no bound *)
Lemma bound_only_with_source : forall k sh fs x,
  expand k sh fs = Ok x -> returned_field x = None -> x_bound x = None.
Proof.
  intros k sh fs x H R. destruct (expand_inv _ _ _ _ H) as [p [code [prov [P [RS [RP E]]]]]]. subst x.
  destruct (parse_fields_select _ _ _ P) as [S B].
  destruct (render_source_returns _ _ _ _ RS) as [RR _].
  unfold returned_field in R. cbn [x_code] in R. rewrite RR in R.
  destruct (p_source p) as [s|]; [discriminate|]. exact B.
Qed.

(* concrete fields: the bound is put on the type of the returned field exactly when one of the
   identifiers the walk looks at in that type is a type parameter of the item *)
Lemma bound_inference : forall ps k sh cs x j c,
  expand k sh (map (abstract_field ps) cs) = Ok x ->
  returned_field x = Some j -> nth_error cs j = Some c ->
  (x_bound x = Some j <-> exists i, In i ps /\ In i (idents_ty (c_ty c)))
  /\ (x_bound x = Some j \/ x_bound x = None)
  /\ (x_bound x = Some j ->
      get_if_type_parameter_used_in_type ps (c_ty c)
      = Some (strip_reference (c_ty c))).
Proof.
  intros ps k sh cs x j c H R N.
  assert (Nf : nth_error (map (abstract_field ps) cs) j = Some (abstract_field ps c)).
  { rewrite nth_error_map, N. reflexivity. }
  pose proof (bound_on_selected _ _ _ _ _ _ H R Nf) as B. cbn [abstract_field f_ty_generic] in B.
  rewrite <- used_ty_iff. unfold get_if_type_parameter_used_in_type.
  destruct (used_ty ps (c_ty c)); rewrite B.
  - split; [split; reflexivity|]. split; [left; reflexivity|]. intros _. reflexivity.
  - split; [split; discriminate|]. split; [right; reflexivity|]. discriminate.
Qed.

Example used_ty_example :
  (* `Vec<(u8, &'a [T; 2])>` with T := 100: bounded; `Vec<u8>`: not; `&T`: the bound goes on `T` *)
  let t := TyPath None [Seg 10 (PAngle [GType (TyTuple [TyPath None [Seg 11 PNone];
                                                       TyRef (TyWrap (TyPath None [Seg 100 PNone]))])])] in
  used_ty [100] t = true
  /\ used_ty [100] (TyPath None [Seg 10 (PAngle [GType (TyPath None [Seg 11 PNone])])]) = false
  /\ get_if_type_parameter_used_in_type [100] (TyRef (TyPath None [Seg 100 PNone]))
     = Some (TyPath None [Seg 100 PNone])
  /\ is_type_path_ends_with_segment (TyPath None [Seg 7 PNone; Seg ty_Backtrace PNone]) ty_Backtrace = true
  /\ is_type_path_ends_with_segment (TyPath None [Seg ty_Backtrace (PAngle [GOther])]) ty_Backtrace = false.
Proof. repeat split. Qed.

(* ------------------------------------------------------------------ witnesses
   `old_*` : historical regression lemmas about the code before commit 6329c3f (`expand_old`);
   `regression_witnesses` : the same layouts through the current model. *)

(* `a: i32` / `i32` *)
Definition w_plain (n : ident) : field := mkField (Some n) false false None None false.
(* `#[error(ignore)] a: i32` *)
Definition w_ignored (n : ident) : field := mkField (Some n) false false None None true.
(* `source: Inner` *)
Definition w_source : field := mkField (Some id_source) false false None None false.
(* `source: T` *)
Definition w_source_generic : field := mkField (Some id_source) false true None None false.
(* `Backtrace` *)
Definition w_backtrace : field := mkField None true false None None false.
(* `#[error(source)] x: Inner` *)
Definition w_marked (n : ident) : field := mkField (Some n) false false (Some true) None false.

(* enum E { V { #[error(ignore)] a: i32, source: Inner } } : `a` is returned *)
Lemma old_selection_refuted :
  exists fs x, expand_old Variant Named fs = Ok x
               /\ returned_field x = Some 0 /\ documented_source Named fs = Sel (Some 1).
Proof. exists [w_ignored 5; w_source]. eexists. vm_compute. repeat split. Qed.

(* struct E(#[error(ignore)] i32, Inner) : no source although the only remaining field is one *)
Lemma old_selection_refuted_tuple :
  exists fs x, expand_old Struct Unnamed fs = Ok x
               /\ returned_field x = None /\ documented_source Unnamed fs = Sel (Some 1).
Proof. exists [w_ignored 5; w_plain 6]. eexists. vm_compute. repeat split. Qed.

(* struct E(Inner) has a source; struct E(#[error(ignore)] i32, Inner) has none *)
Lemma old_ignore_inert_code_refuted :
  exists kd sh fs k f x x',
    f_ignore f = true /\ k <= length fs /\
    expand_old kd sh fs = Ok x /\ expand_old kd sh (insert_at k f fs) = Ok x' /\
    returned_field x' <> option_map (shift k) (returned_field x).
Proof.
  exists Struct, Unnamed, [w_plain 6], 0, (w_ignored 5). do 2 eexists.
  vm_compute. repeat split; try reflexivity; try lia. discriminate.
Qed.

(* struct E<T> { #[error(ignore)] a: i32, source: T } : `T` gets no bound *)
Lemma old_bound_refuted :
  exists fs x j f, expand_old Struct Named fs = Ok x /\ returned_field x = Some j
                   /\ nth_error fs j = Some f /\ f_ty_generic f = true /\ x_bound x = None.
Proof. exists [w_ignored 5; w_source_generic]. do 3 eexists. vm_compute. repeat split. Qed.

(* struct E(#[error(ignore)] i32, Backtrace) : index out of bounds in infer_source_field *)
Lemma old_internal_failure_witness : expand_old Struct Unnamed [w_ignored 5; w_backtrace] = Panic.
Proof. vm_compute. reflexivity. Qed.

(* the hypotheses of the restricted (historical) lemmas are satisfiable, also with ignored fields around *)
Example old_selection_safe_example :
  selection_safe Variant Named [w_source; w_ignored 5]
  /\ exists x, expand_old Variant Named [w_source; w_ignored 5] = Ok x /\ returned_field x = Some 0.
Proof.
  split.
  - split; [left; reflexivity|]. intros _ j H. vm_compute in H. inversion H; subst. reflexivity.
  - eexists. vm_compute. split; reflexivity.
Qed.

Example old_lengths_agree_marked_example :
  selection_safe Struct Unnamed [w_ignored 5; w_marked 6; w_plain 7]
  /\ exists x, expand_old Struct Unnamed [w_ignored 5; w_marked 6; w_plain 7] = Ok x
               /\ returned_field x = Some 1.
Proof.
  split.
  - split; [right; right; reflexivity|discriminate].
  - eexists. vm_compute. split; reflexivity.
Qed.

Example ambiguous_example : documented_source Named [w_marked 5; w_marked 6] = Ambiguous.
Proof. reflexivity. Qed.

Example ambiguous_tuple_example : documented_source Unnamed [w_backtrace; w_backtrace] = Ambiguous.
Proof. reflexivity. Qed.

Example regression_witnesses :
  (exists x, expand Variant Named [w_ignored 5; w_source] = Ok x /\ returned_field x = Some 1)
  /\ (exists x, expand Struct Unnamed [w_ignored 5; w_plain 6] = Ok x /\ returned_field x = Some 1)
  /\ (exists x, expand Struct Unnamed [w_ignored 5; w_backtrace] = Ok x /\ returned_field x = None)
  /\ (exists x, expand Struct Named [w_ignored 5; w_source_generic] = Ok x /\ x_bound x = Some 1).
Proof. repeat split; eexists; vm_compute; split; reflexivity. Qed.

(* ------------------------------------------------------------------ the new hypotheses are satisfiable *)

(* struct E(Inner, Backtrace): source = field 0, backtrace = field 1, provide() offers the backtrace
   by reference and forwards to the source *)
Example provide_example :
  exists x, expand Struct Unnamed [w_plain 6; w_backtrace] = Ok x
            /\ returned_field x = Some 0 /\ provided x = (Some 1, Some 0)
            /\ documented_provide Unnamed [w_plain 6; w_backtrace] = Sel (Some 1, Some 0).
Proof. eexists. vm_compute. repeat split. Qed.

(* V { #[error(ignore)] a, #[error(backtrace)] source: Inner }: "backtrace from source" *)
Example provide_from_source_example :
  let fs := [w_ignored 5; mkField (Some id_source) false false None (Some true) false] in
  exists x, expand Variant Named fs = Ok x
            /\ returned_field x = Some 1 /\ provided x = (None, Some 1)
            /\ documented_provide Named fs = Sel (None, Some 1).
Proof. eexists. vm_compute. repeat split. Qed.

(* struct E(Inner, Backtrace, Backtrace): the source is determined (none), the backtrace is not *)
Example rejected_by_backtrace_example :
  documented_source Unnamed [w_plain 6; w_backtrace; w_backtrace] = Sel None
  /\ documented_backtrace Unnamed [w_plain 6; w_backtrace; w_backtrace] = Ambiguous
  /\ expand Struct Unnamed [w_plain 6; w_backtrace; w_backtrace] = Err.
Proof. vm_compute. repeat split. Qed.

(* enum E { A(Inner, Backtrace), #[error(ignore)] B(Inner) }: both matches need their wildcard *)
Example enum_example :
  let vs := [mkVariant false Unnamed [w_plain 6; w_backtrace]; mkVariant true Unnamed [w_plain 6]] in
  (exists arms, render_enum_source vs = Ok (MatchSelf arms true)
                /\ enum_source_returns arms 0 = Some 0 /\ enum_source_returns arms 1 = None)
  /\ (exists arms, render_enum_provide vs = Ok (MatchSelfProvide arms true)
                   /\ enum_provide_returns arms 0 = (Some 1, Some 0)
                   /\ enum_provide_returns arms 1 = (None, None)).
Proof. split; eexists; vm_compute; repeat split. Qed.

(* struct E<T>(#[error(ignore)] u8, Vec<(u8, &[T; 2])>): the bound is on field 1 *)
Example bound_inference_example :
  let t := TyPath None [Seg 10 (PAngle [GType (TyTuple [TyPath None [Seg 11 PNone];
                                                       TyRef (TyWrap (TyPath None [Seg 100 PNone]))])])] in
  let cs := [mkCField None (TyPath None [Seg 11 PNone]) None None true; mkCField None t None None false] in
  exists x, expand Struct Unnamed (map (abstract_field [100]) cs) = Ok x
            /\ returned_field x = Some 1 /\ x_bound x = Some 1.
Proof. eexists. vm_compute. repeat split. Qed.

(* ------------------------------------------------------------------ the enabled->all index map, characterised exactly *)

(** `State::enabled_fields_indexes` lists exactly the all-space positions of the non-ignored fields ... *)
Lemma enabled_indexes_iff : forall fs j,
  In j (enabled_fields_indexes fs) <-> exists f, nth_error fs j = Some f /\ f_ignore f = false.
Proof.
  unfold enabled_fields_indexes. induction fs as [|f r IH]; intros j.
  - cbn [enabled_fields_indexes_from In]. split; [intros [] | intros [f [H _]]; destruct j; discriminate].
  - cbn [enabled_fields_indexes_from]. rewrite enabled_indexes_S.
    destruct j as [|j]; cbn [nth_error].
    + destruct (f_ignore f) eqn:Ig.
      * split.
        -- intros H. apply in_map_iff in H as [x [E _]]. discriminate.
        -- intros [f' [E Hf]]. inversion E; subst. congruence.
      * split.
        -- intros _. exists f. auto.
        -- intros _. left. reflexivity.
    + rewrite <- IH. destruct (f_ignore f).
      * split.
        -- intros H. apply in_map_iff in H as [x [E Hx]]. inversion E; subst. exact Hx.
        -- intros H. apply in_map. exact H.
      * cbn [In]. split.
        -- intros [E|H]; [discriminate|]. apply in_map_iff in H as [x [E Hx]]. inversion E; subst. exact Hx.
        -- intros H. right. apply in_map. exact H.
Qed.

(** ... each once *)
Lemma enabled_indexes_nodup : forall fs, NoDup (enabled_fields_indexes fs).
Proof.
  unfold enabled_fields_indexes. induction fs as [|f r IH]; cbn [enabled_fields_indexes_from]; [constructor|].
  rewrite enabled_indexes_S.
  assert (HN : NoDup (map S (enabled_fields_indexes_from 0 r))).
  { clear -IH. induction IH as [|x l Hx ND IHn]; cbn [map]; constructor; [|exact IHn].
    intros H. apply in_map_iff in H as [y [E Hy]]. inversion E; subst. exact (Hx Hy). }
  destruct (f_ignore f); [exact HN|]. constructor; [|exact HN].
  intros H. apply in_map_iff in H as [x [E _]]. discriminate.
Qed.

(** ... in declaration order (strictly increasing) *)
From Coq Require Sorted.
Lemma enabled_indexes_sorted_from : forall fs i, Sorted.StronglySorted lt (enabled_fields_indexes_from i fs).
Proof.
  induction fs as [|f r IH]; intros i; cbn [enabled_fields_indexes_from]; [constructor|].
  destruct (f_ignore f); [apply IH|]. constructor; [apply IH|].
  apply Forall_forall. intros x Hx. apply enabled_indexes_ge in Hx. lia.
Qed.

Lemma enabled_indexes_sorted : forall fs, Sorted.StronglySorted lt (enabled_fields_indexes fs).
Proof. intros fs. apply enabled_indexes_sorted_from. Qed.
