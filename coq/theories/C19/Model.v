(** C19 - expansion is a deterministic pure function of the derive input.

    A Gallina function is deterministic by construction, so the hidden inputs of an expansion are made
    EXPLICIT parameters of the model:

      - [seed]    : the per-process / per-thread random keys of std's [RandomState];
      - [history] : whatever earlier expansions in the same process could have left behind in global
                    mutable state (statics, thread-locals, lazies, ...), the environment
                    (time, env vars, pid, addresses), and WHERE the item sits in its file (byte positions
                    of its tokens, i.e. what precedes it) - one opaque list.

    Whether an expander can *see* them is decided by FACTS about the source text, which the translator
    tools/lib/c19_hashfacts.py re-extracts from /repo/impl/src on every run into Gen/HashFacts.v:
    which hasher the [utils::{HashMap,HashSet}] aliases are built with, where every mention of a hash
    collection resolves to, and every occurrence of a global-state / environment pattern.

    This file has no proofs (it stays executable when a proof breaks). *)
From Coq Require Import List NArith Bool String.
From Verif Require Import Base.Chars.
Import ListNotations.
Open Scope N_scope.

(* ------------------------------------------------------------------ facts (types; the value is generated) *)

Inductive coll_kind :=
  KHashMap | KHashSet | KRandomState | KBTreeMap | KBTreeSet | KIndexMap | KIndexSet.

(** where a mention of a collection name resolves to *)
Inductive origin :=
| OAlias        (* crate::utils::{HashMap,HashSet}: the alias with the explicit hasher state *)
| OAliasDef     (* the right-hand side of the alias definition itself (utils.rs:49-50) *)
| OStd          (* std::collections::{HashMap,HashSet} / hash_map:: with the default RandomState *)
| OOrdered      (* BTreeMap / BTreeSet / IndexMap / IndexSet: iteration order is not hash order *)
| OUnresolved.  (* the translator could not resolve the name: treated as random *)

Record mention := {
  m_file : string;        (* relative to impl/src *)
  m_line : N;
  m_kind : coll_kind;
  m_origin : origin;
  m_iterated : bool       (* a binding of this collection is iterated in the same file
                             (for / .iter() / .into_iter() / .keys() / .values() / .drain()) *)
}.

(** the third (second) generic argument of the aliased std collection, utils.rs:38-50 *)
Inductive state_param :=
| StUnitStruct    (* a field-less struct of the crate: it cannot carry per-process keys *)
| StFieldStruct   (* a struct with fields: could carry keys *)
| StRandomState   (* std's RandomState spelled out *)
| StMissing       (* no state argument: std's default = RandomState *)
| StUnknown.
Inductive hasher_ty := HtDefaultHasher | HtSipHasher | HtOther.
(** how [BuildHasher::build_hasher] makes the hasher *)
Inductive hasher_ctor := CtDefault | CtNew | CtOther.

Record alias_def := {
  al_kind : coll_kind;
  al_std_base : bool;        (* the alias expands to std::collections::<same name> *)
  al_state : state_param;
  al_hasher : hasher_ty;     (* <State as BuildHasher>::Hasher *)
  al_ctor : hasher_ctor      (* body of build_hasher: `Self::Hasher::default()` / `::new()` / other *)
}.

Inductive state_kind :=
  SStatic | SThreadLocal | SLazy | SOnce | SAtomic | STime | SEnv | SProcessId | SPointerFmt
| SRandom | SFs | SAddress
| SInteriorMut    (* RefCell / Cell / Mutex / RwLock / Once* / Lazy* inside a static / thread_local! / lazy_static! *)
| SDebugFmt       (* `{:?}` in the macro's own format!/write!/panic!: Debug of syn / proc_macro2 values prints byte positions *)
| SSpanRead       (* .start() / .end() / .byte_range() / .source_text() / .line() ... of a span *)
| SOrderKey.      (* sort / dedup / cmp / min / max keyed on Debug output, spans or addresses *)

Record state_site := {
  s_file : string;
  s_line : N;
  s_kind : state_kind;
  s_in_template : bool     (* inside a quote!-like template: emitted into user code, not state of the macro *)
}.

Record facts := {
  f_aliases : list alias_def;
  f_mentions : list mention;
  f_state : list state_site
}.

(* ------------------------------------------------------------------ hidden inputs *)

Definition seed := N.
Definition history := list str.

Inductive hasher_kind := Fixed | Random.

(** `DefaultHasher::default()` / `DefaultHasher::new()` = SipHasher13 with keys (0, 0) *)
Definition fixed_seed : seed := 0.

(** std::hash::BuildHasher::build_hasher: which keys the hasher of a collection starts from.
    [Fixed] = utils.rs:41-47 (DeterministicState): ignores the process seed.
    [Random] = std RandomState: keys drawn per process / thread. *)
Definition build_hasher (k : hasher_kind) (s : seed) : seed :=
  match k with Fixed => fixed_seed | Random => s end.

Definition is_fixed (k : hasher_kind) : bool := match k with Fixed => true | Random => false end.

(* ------------------------------------------------------------------ reading the facts *)

Definition kind_eqb (a b : coll_kind) : bool :=
  match a, b with
  | KHashMap, KHashMap | KHashSet, KHashSet | KRandomState, KRandomState | KBTreeMap, KBTreeMap
  | KBTreeSet, KBTreeSet | KIndexMap, KIndexMap | KIndexSet, KIndexSet => true
  | _, _ => false
  end.

(** utils.rs:38-50: the alias is deterministic iff it is std's collection with a state type that has no
    fields and whose build_hasher returns a freshly constructed SipHasher (constant keys). *)
Definition alias_hasher_kind (a : alias_def) : hasher_kind :=
  if al_std_base a
     && match al_state a with StUnitStruct => true | _ => false end
     && match al_hasher a with HtDefaultHasher | HtSipHasher => true | HtOther => false end
     && match al_ctor a with CtDefault | CtNew => true | CtOther => false end
  then Fixed else Random.

Definition alias_kind_for (fs : facts) (k : coll_kind) : hasher_kind :=
  match find (fun a => kind_eqb (al_kind a) k) (f_aliases fs) with
  | Some a => alias_hasher_kind a
  | None => Random
  end.

(** the hasher a mentioned collection is built with *)
Definition mention_hasher (fs : facts) (m : mention) : hasher_kind :=
  match m_kind m with
  | KHashMap | KHashSet =>
      match m_origin m with
      | OAlias | OAliasDef => alias_kind_for fs (m_kind m)
      | OOrdered => Fixed
      | OStd | OUnresolved => Random
      end
  | KRandomState => Random
  | KBTreeMap | KBTreeSet | KIndexMap | KIndexSet => Fixed
  end.

(** the weakest hasher used by any collection mentioned in [file] (no mention: nothing hashed) *)
Definition file_hasher (fs : facts) (file : string) : hasher_kind :=
  if forallb (fun m => negb (String.eqb (m_file m) file) || is_fixed (mention_hasher fs m)) (f_mentions fs)
  then Fixed else Random.

Definition global_hasher (fs : facts) : hasher_kind :=
  if forallb (fun m => is_fixed (mention_hasher fs m)) (f_mentions fs) then Fixed else Random.

(** some global-state / environment pattern occurs in macro code proper (conservatively: then every
    expander may observe the history) *)
Definition leaks_history (fs : facts) : bool :=
  existsb (fun s => negb (s_in_template s)) (f_state fs).

Definition facts_ok (fs : facts) : bool :=
  is_fixed (alias_kind_for fs KHashMap)
  && is_fixed (alias_kind_for fs KHashSet)
  && is_fixed (global_hasher fs)
  && negb (leaks_history fs).

(** files that iterate a hash collection but have no dedicated expander model below (they are covered
    by the generic [DOther] case); reported in the evidence *)
Definition modelled_files : list string :=
  ["try_into.rs"; "from_str.rs"; "mul_like.rs"; "mul_assign_like.rs"; "error.rs"; "utils.rs"]%string.

Definition is_hash_kind (k : coll_kind) : bool :=
  match k with KHashMap | KHashSet | KRandomState => true | _ => false end.

Definition unmodelled_iterating_files (fs : facts) : list string :=
  map m_file
      (filter (fun m => m_iterated m && is_hash_kind (m_kind m)
                        && negb (existsb (String.eqb (m_file m)) modelled_files))
              (f_mentions fs)).

(* ------------------------------------------------------------------ hash collections *)

(** A std HashMap / HashSet holding keys whose `Hash` feeds the bytes [k : str] to the hasher:
    an association list in INSERTION order; iteration visits the entries in the order of
    [hash seed' key] (ties: insertion order), where seed' = build_hasher kind seed. *)
Definition hmap (V : Type) := list (str * V).

(** `map.entry(k).or_insert_with(Vec::new).push(v)` *)
Fixpoint hm_entry_push {V} (k : str) (v : V) (m : hmap (list V)) : hmap (list V) :=
  match m with
  | [] => [(k, [v])]
  | (k', vs) :: r => if str_eqb k k' then (k', vs ++ [v]) :: r else (k', vs) :: hm_entry_push k v r
  end.

(** `set.insert(k)` *)
Fixpoint hs_insert (k : str) (s : hmap (list str)) : hmap (list str) :=
  match s with
  | [] => [(k, [])]
  | (k', x) :: r => if str_eqb k k' then s else (k', x) :: hs_insert k r
  end.

Definition hs_of_list (l : list str) : hmap (list str) :=
  fold_left (fun s t => hs_insert t s) l [].

(** `set.replace(k).is_some()` for each element in turn: first element already present, if any
    (membership never depends on the bucket order, hence not on the seed) *)
Fixpoint first_dup (seen : list str) (l : list str) : option str :=
  match l with
  | [] => None
  | x :: r => if existsb (str_eqb x) seen then Some x else first_dup (x :: seen) r
  end.

Fixpoint ins_by {A} (rank : A -> N) (x : A) (l : list A) : list A :=
  match l with
  | [] => [x]
  | y :: r => if rank x <=? rank y then x :: y :: r else y :: ins_by rank x r
  end.

Fixpoint sort_by {A} (rank : A -> N) (l : list A) : list A :=
  match l with
  | [] => []
  | x :: r => ins_by rank x (sort_by rank r)
  end.

(** `for (k, v) in map` / `set.iter()` *)
Definition hm_iter {V} (hash : seed -> str -> N) (sd : seed) (m : hmap V) : list (str * V) :=
  sort_by (fun e => hash sd (fst e)) m.

(* ------------------------------------------------------------------ derive inputs (only what the hash-iterating code reads) *)

Inductive ref_type := RNo | RRef | RMut.      (* utils.rs:52-57 *)
Definition ref_code (r : ref_type) : N := match r with RNo => 0 | RRef => 1 | RMut => 2 end.

Record variant := {
  v_name : str;
  v_types : list str;          (* enabled field types, as token strings (syn's Hash/Eq ignore spans) *)
  v_refs : list ref_type       (* FullMetaInfo::ref_types(), utils.rs:1240-1252 *)
}.

Record item := {
  it_name : str;
  it_params : list str;        (* type parameter names *)
  it_field_types : list str;   (* struct: enabled field types in declaration order *)
  it_variants : list variant;  (* enum: enabled variants in declaration order *)
  it_legacy : list str         (* #[from(types(..))] / #[into(types(..))] entries in source order *)
}.

Inductive derive :=
| DTryInto | DFromStr | DMulLike | DMulAssignLike | DError
| DLegacyTypes       (* From / Into carrying the legacy `types(...)` attribute *)
| DOther (n : N).    (* every other derive: no dedicated model, see [other_groups] *)

Definition input := (derive * item)%type.

(** functions of other crates / pure helpers the expanders call *)
Record externals := {
  ext_hash : seed -> str -> N;              (* SipHasher13 keyed by the effective seed, over the `Hash` bytes *)
  ext_lower : str -> str;                   (* str::to_lowercase *)
  ext_uses_param : list str -> str -> bool; (* utils::is_type_parameter_used_in_type, utils.rs:1265-1308 *)
  ext_strip_ref : str -> str                (* utils::get_if_type_parameter_used_in_type: `&T` -> `T` *)
}.

Definition sep := 0.
Definition join0 (l : list str) : str := flat_map (fun t => t ++ [sep]) l.

(* ---- try_into.rs:30-45  variants_per_types: HashMap<(RefType, Vec<&Type>), Vec<MultiFieldData>> *)
Definition key_try_into (r : ref_type) (tys : list str) : str := ref_code r :: join0 tys.

Definition try_into_groups (i : item) : hmap (list str) :=
  fold_left (fun m v =>
               fold_left (fun m r => hm_entry_push (key_try_into r (v_types v)) (v_name v) m) (v_refs v) m)
            (it_variants i) [].

(* try_into.rs:49-126  one `impl TryFrom<..> for (..)` per entry, in iteration order *)
Definition try_into_render (i : item) (g : str * list str) : list (str * str) :=
  [(fst g, it_name i ++ [sep] ++ fst g ++ [sep] ++ join0 (snd g))].

(* ---- from_str.rs:58-69  variants_caseinsensitive: HashMap<String, Vec<Ident>> *)
Definition from_str_groups (E : externals) (i : item) : hmap (list str) :=
  fold_left (fun m v => hm_entry_push (ext_lower E (v_name v)) (v_name v) m) (it_variants i) [].

(* from_str.rs:78-92  one arm per unique lower-case name, else one guarded arm per variant *)
Definition from_str_render (i : item) (g : str * list str) : list (str * str) :=
  match snd g with
  | [v] => [(fst g, fst g ++ [sep] ++ it_name i ++ [sep] ++ v)]
  | vs => map (fun v => (fst g, fst g ++ [sep; sep] ++ v ++ [sep] ++ it_name i ++ [sep] ++ v)) vs
  end.

(* ---- mul_like.rs:39-46  tys = field_types.iter().collect::<HashSet<_>>(); where #(#tys: Trait<__RhsT, Output=#tys>),* *)
Definition mul_like_groups (i : item) : hmap (list str) := hs_of_list (it_field_types i).
Definition mul_like_render (i : item) (g : str * list str) : list (str * str) :=
  [(fst g, fst g ++ [sep] ++ fst g)].

(* ---- mul_assign_like.rs:38-44  same set, where #(#tys: Trait<__RhsT>),* *)
Definition mul_assign_like_groups (i : item) : hmap (list str) := hs_of_list (it_field_types i).
Definition mul_assign_like_render (i : item) (g : str * list str) : list (str * str) :=
  [(fst g, fst g)].

(* ---- error.rs:25-33 type_params (membership only), :129-158 / :512-520 bounds: HashSet<syn::Type>,
        :79-94 `where #(#bounds: Debug + Display + Error + 'static),*` in iteration order *)
Definition error_source_types (i : item) : list str :=
  it_field_types i ++ flat_map v_types (it_variants i).
Definition error_groups (E : externals) (i : item) : hmap (list str) :=
  hs_of_list (map (ext_strip_ref E) (filter (ext_uses_param E (it_params i)) (error_source_types i))).
Definition error_render (i : item) (g : str * list str) : list (str * str) :=
  [(fst g, fst g)].

(* ---- utils.rs:924-975 legacy `types(...)`: info.types.entry(ref_type).or_default().replace(typ).is_some()
        => "Duplicate type" error.  The sets are filled and probed, never iterated: no entry is
        emitted from them.  The single group carries the verdict. *)
Definition legacy_groups (i : item) : hmap (list str) :=
  match first_dup [] (it_legacy i) with
  | Some t => [([], [t])]
  | None => [([], [])]
  end.
Definition legacy_render (i : item) (g : str * list str) : list (str * str) :=
  [(fst g, it_name i ++ [sep] ++ join0 (snd g))].

(* ---- every other derive: emits from Vecs / slices in declaration order (no hash collection; if a
        future one iterates an alias collection the order is the fixed-hash order as well).  One group. *)
Definition other_groups (n : N) (i : item) : hmap (list str) :=
  [([], [it_name i ++ [sep; n; sep] ++ join0 (it_params i) ++ [sep] ++ join0 (it_field_types i) ++ [sep]
         ++ join0 (flat_map (fun v => v_name v :: v_types v) (it_variants i))])].
Definition other_render (i : item) (g : str * list str) : list (str * str) :=
  [(fst g, join0 (snd g))].

(* ------------------------------------------------------------------ the expansion *)

(** the hash collection an expander iterates while emitting, in INSERTION order (a function of the
    item alone) *)
Definition groups_of (E : externals) (x : input) : hmap (list str) :=
  let '(d, i) := x in
  match d with
  | DTryInto => try_into_groups i
  | DFromStr => from_str_groups E i
  | DMulLike => mul_like_groups i
  | DMulAssignLike => mul_assign_like_groups i
  | DError => error_groups E i
  | DLegacyTypes => legacy_groups i
  | DOther n => other_groups n i
  end.

Definition render_group (x : input) (g : str * list str) : list (str * str) :=
  let '(d, i) := x in
  match d with
  | DTryInto => try_into_render i g
  | DFromStr => from_str_render i g
  | DMulLike => mul_like_render i g
  | DMulAssignLike => mul_assign_like_render i g
  | DError => error_render i g
  | DLegacyTypes => legacy_render i g
  | DOther _ => other_render i g
  end.

(** which hasher the iterated collection of an expander is built with, according to the facts *)
Definition hasher_at (fs : facts) (d : derive) : hasher_kind :=
  match d with
  | DTryInto => file_hasher fs "try_into.rs"
  | DFromStr => file_hasher fs "from_str.rs"
  | DMulLike => file_hasher fs "mul_like.rs"
  | DMulAssignLike => file_hasher fs "mul_assign_like.rs"
  | DError => file_hasher fs "error.rs"
  | DLegacyTypes => file_hasher fs "utils.rs"
  | DOther _ => global_hasher fs
  end.

(** an expander without a dedicated model is assumed to leak the seed as soon as ANY collection of
    the crate is randomly keyed (conservative) *)
Definition seed_leak (fs : facts) (d : derive) (s : seed) : list (str * str) :=
  match d with
  | DOther _ | DLegacyTypes => if is_fixed (global_hasher fs) then [] else [([], [s])]
  | _ => []
  end.

(** and every expander is assumed to observe the history as soon as a global-state / environment
    pattern occurs in macro code (conservative) *)
Definition observe_history (fs : facts) (h : history) : list (str * str) :=
  if leaks_history fs then [([], join0 h)] else [].

(** emitted units in emission order; each unit = (key of the collection entry it stems from, text) *)
Definition expand_model (E : externals) (fs : facts) (s : seed) (h : history) (x : input) : list (str * str) :=
  flat_map (render_group x) (hm_iter (ext_hash E) (build_hasher (hasher_at fs (fst x)) s) (groups_of E x))
  ++ seed_leak fs (fst x) s
  ++ observe_history fs h.

(** the same with the seed / history parameters gone: what the order is when the facts hold *)
Definition expand_pure (E : externals) (x : input) : list (str * str) :=
  flat_map (render_group x) (hm_iter (ext_hash E) fixed_seed (groups_of E x)).

(* ------------------------------------------------------------------ a concrete instance (for Examples / experiments) *)

Definition toy_hash (sd : seed) (k : str) : N :=
  fold_left (fun a c => (a * 31 + c + sd * 7 + 1) mod 1009) k (sd mod 1009).

Definition ascii_lower (s : str) : str :=
  map (fun c => if (65 <=? c) && (c <=? 90) then c + 32 else c) s.

Definition toy_ext : externals := {|
  ext_hash := toy_hash;
  ext_lower := ascii_lower;
  ext_uses_param := fun ps t => existsb (fun p => str_eqb p t) ps;
  ext_strip_ref := fun t => match t with 38 :: r => r | _ => t end
|}.

(* ================================================================== second level: bucket tables, processes, positions *)

(** A closer model of std's (hashbrown) table for the operations the expanders use - `HashMap::default()`,
    `entry(k).or_insert_with(Vec::new).push(v)`, `insert`, `extend` / `collect`, `iter` / `into_iter` / `drain`:
    a bucket count that only grows (0 -> 4 -> 8 -> ..., load factor 7/8) plus the entries in insertion order;
    iteration visits the entries in the order of their BUCKET = hash(seed', key) mod bucket count (ties: insertion
    order).  `drain()` / `clear()` empty the table but KEEP the bucket count - which is how a table that survives an
    expansion (thread_local / static scratch) carries the history into the next one. *)
Record table := { t_cap : N; t_ents : hmap (list str) }.

Definition t_new : table := {| t_cap := 0; t_ents := [] |}.     (* HashMap::default(): no allocation *)

Fixpoint grow_fuel (fuel : nat) (cap len : N) : N :=
  match fuel with
  | O => cap
  | S k => if len * 8 <=? cap * 7 then cap else grow_fuel k (if cap =? 0 then 4 else cap * 2) len
  end.

(** bucket count after the table has grown to hold [len] entries (never shrinks) *)
Definition t_fit (cap : N) (len : nat) : N := grow_fuel (S (S len)) cap (N.of_nat len).

Definition t_entry_push (k : str) (v : str) (t : table) : table :=
  let e := hm_entry_push k v (t_ents t) in {| t_cap := t_fit (t_cap t) (List.length e); t_ents := e |}.

Definition t_insert (k : str) (t : table) : table :=
  let e := hs_insert k (t_ents t) in {| t_cap := t_fit (t_cap t) (List.length e); t_ents := e |}.

Definition t_extend (ks : list str) (t : table) : table := fold_left (fun t k => t_insert k t) ks t.

Definition bucket (hash : seed -> str -> N) (sd : seed) (cap : N) (k : str) : N :=
  if cap =? 0 then 0 else hash sd k mod cap.

Definition t_iter (hash : seed -> str -> N) (sd : seed) (t : table) : list (str * list str) :=
  sort_by (fun e => bucket hash sd (t_cap t) (fst e)) (t_ents t).

(** `drain()`: the entries in iteration order, and the emptied table with its bucket count retained *)
Definition t_drain (hash : seed -> str -> N) (sd : seed) (t : table) : list (str * list str) * table :=
  (t_iter hash sd t, {| t_cap := t_cap t; t_ents := [] |}).

(** an (emptied) table filled with the entries of an expansion: the bucket count it ends with depends on the one it
    started with (growth is monotone in the number of entries, so filling entry by entry ends at the same count) *)
Definition t_fill (start : table) (g : hmap (list str)) : table :=
  {| t_cap := t_fit (t_cap start) (List.length g); t_ents := g |}.

(** the table an expander starts from: `HashMap::default()` / `HashSet::default()` / `.collect()` make a FRESH one
    (try_into.rs:30, from_str.rs:58, mul_like.rs:39, mul_assign_like.rs:38, error.rs:129) - unless the macro keeps
    state across expansions, in which case the scratch table left by the history is what it gets (conservative) *)
Definition start_table (fs : facts) (scratch : table) : table :=
  if leaks_history fs then {| t_cap := t_cap scratch; t_ents := [] |} else t_new.

Definition expand_model_b (E : externals) (fs : facts) (s : seed) (h : history) (scratch : table) (x : input)
  : list (str * str) :=
  flat_map (render_group x)
           (t_iter (ext_hash E) (build_hasher (hasher_at fs (fst x)) s) (t_fill (start_table fs scratch) (groups_of E x)))
  ++ seed_leak fs (fst x) s
  ++ observe_history fs h.

Definition expand_pure_b (E : externals) (x : input) : list (str * str) :=
  flat_map (render_group x) (t_iter (ext_hash E) fixed_seed (t_fill t_new (groups_of E x))).

(** ---- a compiler process: one seed, one thread of expansions; each expansion sees what the earlier ones left
    (the names / positions of the items expanded so far, the scratch table) *)
Record pstate := { ps_history : history; ps_scratch : table }.

Definition ps_init : pstate := {| ps_history := []; ps_scratch := t_new |}.

(** an item as the compiler hands it to the macro: the derive input AND where it sits (byte position of its tokens) *)
Definition located := (N * input)%type.

Definition trace_of (p : located) : str := [fst p] ++ it_name (snd (snd p)).

Definition step (E : externals) (fs : facts) (s : seed) (st : pstate) (p : located) : list (str * str) * pstate :=
  let x := snd p in
  (* the position is part of what a span-reading / Debug-formatting macro would see: it travels in the history *)
  let out := expand_model_b E fs s (trace_of p :: ps_history st) (ps_scratch st) x in
  (out, {| ps_history := trace_of p :: ps_history st;
           ps_scratch := snd (t_drain (ext_hash E) s (t_fill (start_table fs (ps_scratch st)) (groups_of E x))) |}).

Fixpoint run_process (E : externals) (fs : facts) (s : seed) (st : pstate) (ps : list located)
  : list (list (str * str)) :=
  match ps with
  | [] => []
  | p :: r => let '(o, st') := step E fs s st p in o :: run_process E fs s st' r
  end.

(** ---- fact values that differ from a good one in exactly one respect (for the sensitivity lemmas) *)
Open Scope string_scope.
Definition std_alias (k : coll_kind) : alias_def :=
  {| al_kind := k; al_std_base := true; al_state := StUnitStruct; al_hasher := HtDefaultHasher; al_ctor := CtDefault |}.
Definition base_mention : mention :=
  {| m_file := "try_into.rs"; m_line := 30; m_kind := KHashMap; m_origin := OAlias; m_iterated := true |}.
Definition base_facts : facts :=
  {| f_aliases := [std_alias KHashMap; std_alias KHashSet]; f_mentions := [base_mention]; f_state := [] |}.
Definition facts_with_state (k : state_kind) : facts :=
  {| f_aliases := f_aliases base_facts; f_mentions := f_mentions base_facts;
     f_state := [{| s_file := "x.rs"; s_line := 1; s_kind := k; s_in_template := false |}] |}.
Definition facts_with_origin (o : origin) : facts :=
  {| f_aliases := f_aliases base_facts;
     f_mentions := [{| m_file := "try_into.rs"; m_line := 30; m_kind := KHashMap; m_origin := o; m_iterated := true |}];
     f_state := [] |}.
Definition facts_with_alias (a : alias_def) : facts :=
  {| f_aliases := [a; std_alias KHashSet]; f_mentions := [base_mention]; f_state := [] |}.
Open Scope N_scope.
