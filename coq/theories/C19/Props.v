(** C19 - expansion is a deterministic pure function of the derive input: the property theorems. *)
From Coq Require Import List NArith Bool Permutation Sorted.
From Verif Require Import Base.Chars C19.Model Gen.HashFacts C19.Proofs.
Import ListNotations.
Open Scope N_scope.

Theorem C19_seed_history_irrelevant :
  facts_ok hash_facts = true ->
  forall (E : externals) (s1 s2 : seed) (h1 h2 : history) (i : input),
    expand_model E hash_facts s1 h1 i = expand_model E hash_facts s2 h2 i.
Proof. exact (Proofs.seed_history_irrelevant hash_facts). Qed.
Print Assumptions C19_seed_history_irrelevant.

Theorem C19_facts_ok : facts_ok hash_facts = true.
Proof. exact Proofs.hash_facts_ok. Qed.
Print Assumptions C19_facts_ok.

Theorem C19_order_is_function_of_input :
  facts_ok hash_facts = true ->
  forall (E : externals) (x : input),
  exists order : list (str * list str),
    order = hm_iter (ext_hash E) fixed_seed (groups_of E x)
    /\ Permutation (groups_of E x) order
    /\ Sorted (fun a b => ext_hash E fixed_seed (fst a) <= ext_hash E fixed_seed (fst b)) order
    /\ forall (s : seed) (h : history), expand_model E hash_facts s h x = flat_map (render_group x) order.
Proof. exact (Proofs.order_is_function_of_input hash_facts). Qed.
Print Assumptions C19_order_is_function_of_input.
