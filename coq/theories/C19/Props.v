(** C19 - expansion is a deterministic pure function of the derive input: the property theorems. *)
From Coq Require Import List NArith Bool Permutation Sorted.
From Verif Require Import Base.Chars C19.Model Gen.HashFacts C19.Proofs.
Import ListNotations.
Open Scope N_scope.

Theorem C19_seed_history_irrelevant :
  facts_ok hash_facts = true ->
  forall (E : externals) (s1 s2 : seed) (h1 h2 : history) (i : input),
    expand_model E hash_facts s1 h1 i = expand_model E hash_facts s2 h2 i.
Proof. exact (Proofs.seed_history_irrelevant hash_facts). Qed.
Print Assumptions C19_seed_history_irrelevant.

Theorem C19_facts_ok : facts_ok hash_facts = true.
Proof. exact Proofs.hash_facts_ok. Qed.
Print Assumptions C19_facts_ok.

Theorem C19_order_is_function_of_input :
  facts_ok hash_facts = true ->
  forall (E : externals) (x : input),
  exists order : list (str * list str),
    order = hm_iter (ext_hash E) fixed_seed (groups_of E x)
    /\ Permutation (groups_of E x) order
    /\ Sorted (fun a b => ext_hash E fixed_seed (fst a) <= ext_hash E fixed_seed (fst b)) order
    /\ forall (s : seed) (h : history), expand_model E hash_facts s h x = flat_map (render_group x) order.
Proof. exact (Proofs.order_is_function_of_input hash_facts). Qed.
Print Assumptions C19_order_is_function_of_input.

(** the invariant over arbitrary sequences of expansions (any seed, any starting state, any items at any positions
    in any order): every expansion is the pure function of its derive input *)
Theorem C19_process_is_pure :
  facts_ok hash_facts = true ->
  forall (E : externals) (ps : list located) (s : seed) (st : pstate),
    run_process E hash_facts s st ps = map (fun p => expand_pure_b E (snd p)) ps.
Proof. exact (Proofs.process_is_pure hash_facts). Qed.
Print Assumptions C19_process_is_pure.

Theorem C19_same_input_same_expansion :
  facts_ok hash_facts = true ->
  forall (E : externals) (x : input) (s1 s2 : seed) (st1 st2 : pstate) (pre1 post1 pre2 post2 : list located)
         (pos1 pos2 : N),
    nth (List.length pre1) (run_process E hash_facts s1 st1 (pre1 ++ (pos1, x) :: post1)) []
    = nth (List.length pre2) (run_process E hash_facts s2 st2 (pre2 ++ (pos2, x) :: post2)) [].
Proof. exact (Proofs.same_input_same_expansion hash_facts). Qed.
Print Assumptions C19_same_input_same_expansion.

Theorem C19_interleaving_irrelevant :
  facts_ok hash_facts = true ->
  forall (E : externals) (ps qs : list located) (s1 s2 : seed) (st1 st2 : pstate),
    Permutation (map snd ps) (map snd qs) ->
    Permutation (run_process E hash_facts s1 st1 ps) (run_process E hash_facts s2 st2 qs).
Proof. exact (Proofs.interleaving_irrelevant hash_facts). Qed.
Print Assumptions C19_interleaving_irrelevant.

(** iteration order in the bucket-table model of HashMap/HashSet (entry / insert / extend / iter / drain) *)
Theorem C19_bucket_order_is_function_of_input :
  facts_ok hash_facts = true ->
  forall (E : externals) (x : input),
  exists order : list (str * list str),
    order = t_iter (ext_hash E) fixed_seed (t_fill t_new (groups_of E x))
    /\ Permutation (groups_of E x) order
    /\ Sorted (fun a b => bucket (ext_hash E) fixed_seed (t_fit 0 (List.length (groups_of E x))) (fst a)
                          <= bucket (ext_hash E) fixed_seed (t_fit 0 (List.length (groups_of E x))) (fst b)) order
    /\ forall (s : seed) (h : history) (scratch : table),
         expand_model_b E hash_facts s h scratch x = flat_map (render_group x) order.
Proof. exact (Proofs.bucket_order_is_function_of_input hash_facts). Qed.
Print Assumptions C19_bucket_order_is_function_of_input.

Theorem C19_position_irrelevant :
  facts_ok hash_facts = true ->
  forall (E : externals) (s : seed) (h : history) (pos1 pos2 : N) (x : input),
    expand_model E hash_facts s ([pos1] :: h) x = expand_model E hash_facts s ([pos2] :: h) x.
Proof. exact (Proofs.position_irrelevant hash_facts). Qed.
Print Assumptions C19_position_irrelevant.

(** the facts are not vacuous: dropping any one of them lets the model's output vary *)
Theorem C19_every_state_kind_matters :
  forall k : state_kind,
    facts_ok (facts_with_state k) = false
    /\ exists h1 h2 : history,
         expand_model toy_ext (facts_with_state k) 0 h1 ex_input <> expand_model toy_ext (facts_with_state k) 0 h2 ex_input.
Proof. exact Proofs.every_state_kind_matters. Qed.
Print Assumptions C19_every_state_kind_matters.

Theorem C19_every_bad_origin_matters :
  forall o : origin, (o = OStd \/ o = OUnresolved) ->
    facts_ok (facts_with_origin o) = false
    /\ exists s1 s2 : seed,
         expand_model toy_ext (facts_with_origin o) s1 [] ex_input <> expand_model toy_ext (facts_with_origin o) s2 [] ex_input.
Proof. exact Proofs.every_bad_origin_matters. Qed.
Print Assumptions C19_every_bad_origin_matters.

Theorem C19_every_bad_alias_matters :
  forall a : alias_def, In a bad_aliases ->
    facts_ok (facts_with_alias a) = false
    /\ exists s1 s2 : seed,
         expand_model toy_ext (facts_with_alias a) s1 [] ex_input <> expand_model toy_ext (facts_with_alias a) s2 [] ex_input.
Proof. exact Proofs.every_bad_alias_matters. Qed.
Print Assumptions C19_every_bad_alias_matters.
