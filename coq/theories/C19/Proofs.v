(** C19 - proofs about the explicit-seed / explicit-history model. *)
From Coq Require Import List NArith Bool String Lia Permutation Sorted.
From Verif Require Import Base.Chars C19.Model Gen.HashFacts.
Import ListNotations.
Open Scope N_scope.

(* ------------------------------------------------------------------ reading the facts *)

Lemma forallb_weaken {A} (p q : A -> bool) (l : list A) :
  (forall a, p a = true -> q a = true) -> forallb p l = true -> forallb q l = true.
Proof.
  intros Hpq Hp. rewrite forallb_forall in *. intros a Ha. apply Hpq, Hp, Ha.
Qed.

Lemma global_fixed_file_fixed fs file :
  global_hasher fs = Fixed -> file_hasher fs file = Fixed.
Proof.
  unfold global_hasher, file_hasher. intros Hg.
  destruct (forallb (fun m => is_fixed (mention_hasher fs m)) (f_mentions fs)) eqn:Hall; [|discriminate].
  rewrite (forallb_weaken _ (fun m => negb (String.eqb (m_file m) file) || is_fixed (mention_hasher fs m)) _
             (fun a Ha => eq_trans (f_equal (orb _) Ha) (orb_true_r _)) Hall).
  reflexivity.
Qed.

Lemma is_fixed_true k : is_fixed k = true -> k = Fixed.
Proof. destruct k; [reflexivity|discriminate]. Qed.

Lemma facts_ok_parts fs :
  facts_ok fs = true ->
  alias_kind_for fs KHashMap = Fixed /\ alias_kind_for fs KHashSet = Fixed /\
  global_hasher fs = Fixed /\ leaks_history fs = false.
Proof.
  unfold facts_ok. intros H.
  apply andb_true_iff in H as [H Hh]. apply andb_true_iff in H as [H Hg]. apply andb_true_iff in H as [Hm Hs].
  repeat split; try (apply is_fixed_true; assumption).
  now apply negb_true_iff in Hh.
Qed.

Lemma facts_ok_hasher_at fs d : facts_ok fs = true -> hasher_at fs d = Fixed.
Proof.
  intros H. apply facts_ok_parts in H as (_ & _ & Hg & _).
  destruct d; cbn [hasher_at]; try (apply global_fixed_file_fixed; exact Hg); exact Hg.
Qed.

Lemma facts_ok_seed_leak fs d s : facts_ok fs = true -> seed_leak fs d s = [].
Proof.
  intros H. apply facts_ok_parts in H as (_ & _ & Hg & _).
  destruct d; cbn [seed_leak]; try reflexivity; rewrite Hg; reflexivity.
Qed.

Lemma facts_ok_history fs h : facts_ok fs = true -> observe_history fs h = [].
Proof.
  intros H. apply facts_ok_parts in H as (_ & _ & _ & Hl).
  unfold observe_history. rewrite Hl. reflexivity.
Qed.

(** with the facts, the model collapses to the seed-free, history-free function *)
Lemma expand_model_pure E fs s h x :
  facts_ok fs = true -> expand_model E fs s h x = expand_pure E x.
Proof.
  intros H. unfold expand_model, expand_pure.
  rewrite (facts_ok_hasher_at fs (fst x) H), (facts_ok_seed_leak fs (fst x) s H), (facts_ok_history fs h H).
  cbn [build_hasher]. rewrite !app_nil_r. reflexivity.
Qed.

Lemma seed_history_irrelevant fs :
  facts_ok fs = true ->
  forall (E : externals) (s1 s2 : seed) (h1 h2 : history) (i : input),
    expand_model E fs s1 h1 i = expand_model E fs s2 h2 i.
Proof.
  intros H E s1 s2 h1 h2 i.
  rewrite (expand_model_pure E fs s1 h1 i H), (expand_model_pure E fs s2 h2 i H). reflexivity.
Qed.

(** the regenerated facts satisfy the side condition (re-checked by coqc on every run) *)
Lemma hash_facts_ok : facts_ok hash_facts = true.
Proof. vm_compute. reflexivity. Qed.

(* ------------------------------------------------------------------ iteration order = order by the hash of the key *)

Section Sorting.
  Context {A : Type} (rank : A -> N).
  Let R (a b : A) : Prop := rank a <= rank b.

  Lemma ins_by_perm x l : Permutation (x :: l) (ins_by rank x l).
  Proof.
    induction l as [|y r IH]; cbn [ins_by]; [apply Permutation_refl|].
    destruct (rank x <=? rank y); [apply Permutation_refl|].
    eapply Permutation_trans; [apply perm_swap|]. apply perm_skip, IH.
  Qed.

  Lemma sort_by_perm l : Permutation l (sort_by rank l).
  Proof.
    induction l as [|x r IH]; cbn [sort_by]; [apply perm_nil|].
    eapply Permutation_trans; [apply perm_skip, IH|apply ins_by_perm].
  Qed.

  Lemma ins_by_hd a x l : HdRel R a l -> R a x -> HdRel R a (ins_by rank x l).
  Proof.
    intros Hl Hx. destruct l as [|y r]; cbn [ins_by]; [constructor; exact Hx|].
    destruct (rank x <=? rank y); constructor; [exact Hx|]. inversion Hl; assumption.
  Qed.

  Lemma ins_by_sorted x l : Sorted R l -> Sorted R (ins_by rank x l).
  Proof.
    induction l as [|y r IH]; intros Hs; cbn [ins_by]; [repeat constructor|].
    destruct (N.leb_spec (rank x) (rank y)) as [Hle|Hgt].
    - constructor; [exact Hs|constructor; exact Hle].
    - inversion Hs as [|? ? Hr Hhd]; subst. constructor; [apply IH, Hr|].
      apply ins_by_hd; [exact Hhd|]. unfold R. lia.
  Qed.

  Lemma sort_by_sorted l : Sorted R (sort_by rank l).
  Proof.
    induction l as [|x r IH]; cbn [sort_by]; [constructor|]. apply ins_by_sorted, IH.
  Qed.
End Sorting.

Lemma order_is_function_of_input fs :
  facts_ok fs = true ->
  forall (E : externals) (x : input),
  exists order : list (str * list str),
    order = hm_iter (ext_hash E) fixed_seed (groups_of E x)
    /\ Permutation (groups_of E x) order
    /\ Sorted (fun a b => ext_hash E fixed_seed (fst a) <= ext_hash E fixed_seed (fst b)) order
    /\ forall (s : seed) (h : history), expand_model E fs s h x = flat_map (render_group x) order.
Proof.
  intros H E x. exists (hm_iter (ext_hash E) fixed_seed (groups_of E x)).
  split; [reflexivity|]. split; [apply sort_by_perm|]. split.
  - apply (sort_by_sorted (fun e : str * list str => ext_hash E fixed_seed (fst e))).
  - intros s h. rewrite (expand_model_pure E fs s h x H). reflexivity.
Qed.

(* ------------------------------------------------------------------ the hypotheses are satisfiable, and the model can see a violation *)

Open Scope string_scope.

Definition ok_alias k := {| al_kind := k; al_std_base := true; al_state := StUnitStruct;
                            al_hasher := HtDefaultHasher; al_ctor := CtDefault |}.
Definition m_at file origin := {| m_file := file; m_line := 1; m_kind := KHashMap; m_origin := origin;
                                  m_iterated := true |}.

Definition good_facts : facts :=
  {| f_aliases := [ok_alias KHashMap; ok_alias KHashSet]; f_mentions := [m_at "try_into.rs" OAlias]; f_state := [] |}.
(** the alias without a state argument (std's RandomState) *)
Definition bad_alias_facts : facts :=
  {| f_aliases := [{| al_kind := KHashMap; al_std_base := true; al_state := StMissing; al_hasher := HtOther;
                      al_ctor := CtOther |}; ok_alias KHashSet];
     f_mentions := [m_at "try_into.rs" OAlias]; f_state := [] |}.
(** a `use std::collections::HashMap` in try_into.rs *)
Definition bad_std_facts : facts :=
  {| f_aliases := [ok_alias KHashMap; ok_alias KHashSet]; f_mentions := [m_at "try_into.rs" OStd]; f_state := [] |}.
(** a `static` in macro code *)
Definition bad_static_facts : facts :=
  {| f_aliases := [ok_alias KHashMap; ok_alias KHashSet]; f_mentions := [m_at "try_into.rs" OAlias];
     f_state := [{| s_file := "utils.rs"; s_line := 1; s_kind := SStatic; s_in_template := false |}] |}.

Example good_facts_ok : facts_ok good_facts = true. Proof. reflexivity. Qed.
Example bad_alias_not_ok : facts_ok bad_alias_facts = false. Proof. reflexivity. Qed.
Example bad_std_not_ok : facts_ok bad_std_facts = false. Proof. reflexivity. Qed.
Example bad_static_not_ok : facts_ok bad_static_facts = false. Proof. reflexivity. Qed.

Open Scope N_scope.

(** enum E { A(i32), B(u8), C(i64) } deriving TryInto (owned) *)
Definition ex_item : item :=
  {| it_name := [69]; it_params := []; it_field_types := [];
     it_variants := [ {| v_name := [65]; v_types := [[105; 51; 50]]; v_refs := [RNo] |};
                      {| v_name := [66]; v_types := [[117; 56]]; v_refs := [RNo] |};
                      {| v_name := [67]; v_types := [[105; 54; 52]]; v_refs := [RNo] |} ];
     it_legacy := [] |}.

(** under a randomly keyed map the model's impl order does depend on the seed ... *)
Example model_sees_random_state :
  exists s1 s2, expand_model toy_ext bad_std_facts s1 [] (DTryInto, ex_item)
                <> expand_model toy_ext bad_std_facts s2 [] (DTryInto, ex_item).
Proof. exists 0, 1. vm_compute. discriminate. Qed.

Example model_sees_random_alias :
  exists s1 s2, expand_model toy_ext bad_alias_facts s1 [] (DTryInto, ex_item)
                <> expand_model toy_ext bad_alias_facts s2 [] (DTryInto, ex_item).
Proof. exists 0, 1. vm_compute. discriminate. Qed.

(** ... and with global state in the macro it depends on what was expanded before *)
Example model_sees_history :
  exists h1 h2, expand_model toy_ext bad_static_facts 0 h1 (DTryInto, ex_item)
                <> expand_model toy_ext bad_static_facts 0 h2 (DTryInto, ex_item).
Proof. exists [], [[1]]. vm_compute. discriminate. Qed.

(** while with the facts it does not (instance of the theorem, computed) *)
Example model_fixed_instance :
  expand_model toy_ext good_facts 0 [] (DTryInto, ex_item)
  = expand_model toy_ext good_facts 12345 [[1]; [2]] (DTryInto, ex_item).
Proof. vm_compute. reflexivity. Qed.

(** case-colliding FromStr names go to one entry and yield guarded arms (from_str.rs:78-92) *)
Example from_str_groups_example :
  map fst (from_str_groups toy_ext
             {| it_name := [69]; it_params := []; it_field_types := [];
                it_variants := [ {| v_name := [65; 98]; v_types := []; v_refs := [] |};
                                 {| v_name := [97; 66]; v_types := []; v_refs := [] |};
                                 {| v_name := [67]; v_types := []; v_refs := [] |} ];
                it_legacy := [] |})
  = [[97; 98]; [99]].
Proof. reflexivity. Qed.
