(** C19 - proofs about the explicit-seed / explicit-history model. *)
From Coq Require Import List NArith Bool String Lia Permutation Sorted.
From Verif Require Import Base.Chars C19.Model Gen.HashFacts.
Import ListNotations.
Open Scope N_scope.

(* ------------------------------------------------------------------ reading the facts *)

Lemma forallb_weaken {A} (p q : A -> bool) (l : list A) :
  (forall a, p a = true -> q a = true) -> forallb p l = true -> forallb q l = true.
Proof.
  intros Hpq Hp. rewrite forallb_forall in *. intros a Ha. apply Hpq, Hp, Ha.
Qed.

Lemma global_fixed_file_fixed fs file :
  global_hasher fs = Fixed -> file_hasher fs file = Fixed.
Proof.
  unfold global_hasher, file_hasher. intros Hg.
  destruct (forallb (fun m => is_fixed (mention_hasher fs m)) (f_mentions fs)) eqn:Hall; [|discriminate].
  rewrite (forallb_weaken _ (fun m => negb (String.eqb (m_file m) file) || is_fixed (mention_hasher fs m)) _
             (fun a Ha => eq_trans (f_equal (orb _) Ha) (orb_true_r _)) Hall).
  reflexivity.
Qed.

Lemma is_fixed_true k : is_fixed k = true -> k = Fixed.
Proof. destruct k; [reflexivity|discriminate]. Qed.

Lemma facts_ok_parts fs :
  facts_ok fs = true ->
  alias_kind_for fs KHashMap = Fixed /\ alias_kind_for fs KHashSet = Fixed /\
  global_hasher fs = Fixed /\ leaks_history fs = false.
Proof.
  unfold facts_ok. intros H.
  apply andb_true_iff in H as [H Hh]. apply andb_true_iff in H as [H Hg]. apply andb_true_iff in H as [Hm Hs].
  repeat split; try (apply is_fixed_true; assumption).
  now apply negb_true_iff in Hh.
Qed.

Lemma facts_ok_hasher_at fs d : facts_ok fs = true -> hasher_at fs d = Fixed.
Proof.
  intros H. apply facts_ok_parts in H as (_ & _ & Hg & _).
  destruct d; cbn [hasher_at]; try (apply global_fixed_file_fixed; exact Hg); exact Hg.
Qed.

Lemma facts_ok_seed_leak fs d s : facts_ok fs = true -> seed_leak fs d s = [].
Proof.
  intros H. apply facts_ok_parts in H as (_ & _ & Hg & _).
  destruct d; cbn [seed_leak]; try reflexivity; rewrite Hg; reflexivity.
Qed.

Lemma facts_ok_history fs h : facts_ok fs = true -> observe_history fs h = [].
Proof.
  intros H. apply facts_ok_parts in H as (_ & _ & _ & Hl).
  unfold observe_history. rewrite Hl. reflexivity.
Qed.

(** with the facts, the model collapses to the seed-free, history-free function *)
Lemma expand_model_pure E fs s h x :
  facts_ok fs = true -> expand_model E fs s h x = expand_pure E x.
Proof.
  intros H. unfold expand_model, expand_pure.
  rewrite (facts_ok_hasher_at fs (fst x) H), (facts_ok_seed_leak fs (fst x) s H), (facts_ok_history fs h H).
  cbn [build_hasher]. rewrite !app_nil_r. reflexivity.
Qed.

Lemma seed_history_irrelevant fs :
  facts_ok fs = true ->
  forall (E : externals) (s1 s2 : seed) (h1 h2 : history) (i : input),
    expand_model E fs s1 h1 i = expand_model E fs s2 h2 i.
Proof.
  intros H E s1 s2 h1 h2 i.
  rewrite (expand_model_pure E fs s1 h1 i H), (expand_model_pure E fs s2 h2 i H). reflexivity.
Qed.

(** the regenerated facts satisfy the side condition (re-checked by coqc on every run) *)
Lemma hash_facts_ok : facts_ok hash_facts = true.
Proof. vm_compute. reflexivity. Qed.

(* ------------------------------------------------------------------ iteration order = order by the hash of the key *)

Section Sorting.
  Context {A : Type} (rank : A -> N).
  Let R (a b : A) : Prop := rank a <= rank b.

  Lemma ins_by_perm x l : Permutation (x :: l) (ins_by rank x l).
  Proof.
    induction l as [|y r IH]; cbn [ins_by]; [apply Permutation_refl|].
    destruct (rank x <=? rank y); [apply Permutation_refl|].
    eapply Permutation_trans; [apply perm_swap|]. apply perm_skip, IH.
  Qed.

  Lemma sort_by_perm l : Permutation l (sort_by rank l).
  Proof.
    induction l as [|x r IH]; cbn [sort_by]; [apply perm_nil|].
    eapply Permutation_trans; [apply perm_skip, IH|apply ins_by_perm].
  Qed.

  Lemma ins_by_hd a x l : HdRel R a l -> R a x -> HdRel R a (ins_by rank x l).
  Proof.
    intros Hl Hx. destruct l as [|y r]; cbn [ins_by]; [constructor; exact Hx|].
    destruct (rank x <=? rank y); constructor; [exact Hx|]. inversion Hl; assumption.
  Qed.

  Lemma ins_by_sorted x l : Sorted R l -> Sorted R (ins_by rank x l).
  Proof.
    induction l as [|y r IH]; intros Hs; cbn [ins_by]; [repeat constructor|].
    destruct (N.leb_spec (rank x) (rank y)) as [Hle|Hgt].
    - constructor; [exact Hs|constructor; exact Hle].
    - inversion Hs as [|? ? Hr Hhd]; subst. constructor; [apply IH, Hr|].
      apply ins_by_hd; [exact Hhd|]. unfold R. lia.
  Qed.

  Lemma sort_by_sorted l : Sorted R (sort_by rank l).
  Proof.
    induction l as [|x r IH]; cbn [sort_by]; [constructor|]. apply ins_by_sorted, IH.
  Qed.
End Sorting.

Lemma order_is_function_of_input fs :
  facts_ok fs = true ->
  forall (E : externals) (x : input),
  exists order : list (str * list str),
    order = hm_iter (ext_hash E) fixed_seed (groups_of E x)
    /\ Permutation (groups_of E x) order
    /\ Sorted (fun a b => ext_hash E fixed_seed (fst a) <= ext_hash E fixed_seed (fst b)) order
    /\ forall (s : seed) (h : history), expand_model E fs s h x = flat_map (render_group x) order.
Proof.
  intros H E x. exists (hm_iter (ext_hash E) fixed_seed (groups_of E x)).
  split; [reflexivity|]. split; [apply sort_by_perm|]. split.
  - apply (sort_by_sorted (fun e : str * list str => ext_hash E fixed_seed (fst e))).
  - intros s h. rewrite (expand_model_pure E fs s h x H). reflexivity.
Qed.

(* ------------------------------------------------------------------ the hypotheses are satisfiable, and the model can see a violation *)

Open Scope string_scope.

Definition ok_alias k := {| al_kind := k; al_std_base := true; al_state := StUnitStruct;
                            al_hasher := HtDefaultHasher; al_ctor := CtDefault |}.
Definition m_at file origin := {| m_file := file; m_line := 1; m_kind := KHashMap; m_origin := origin;
                                  m_iterated := true |}.

Definition good_facts : facts :=
  {| f_aliases := [ok_alias KHashMap; ok_alias KHashSet]; f_mentions := [m_at "try_into.rs" OAlias]; f_state := [] |}.
(** the alias without a state argument (std's RandomState) *)
Definition bad_alias_facts : facts :=
  {| f_aliases := [{| al_kind := KHashMap; al_std_base := true; al_state := StMissing; al_hasher := HtOther;
                      al_ctor := CtOther |}; ok_alias KHashSet];
     f_mentions := [m_at "try_into.rs" OAlias]; f_state := [] |}.
(** a `use std::collections::HashMap` in try_into.rs *)
Definition bad_std_facts : facts :=
  {| f_aliases := [ok_alias KHashMap; ok_alias KHashSet]; f_mentions := [m_at "try_into.rs" OStd]; f_state := [] |}.
(** a `static` in macro code *)
Definition bad_static_facts : facts :=
  {| f_aliases := [ok_alias KHashMap; ok_alias KHashSet]; f_mentions := [m_at "try_into.rs" OAlias];
     f_state := [{| s_file := "utils.rs"; s_line := 1; s_kind := SStatic; s_in_template := false |}] |}.

Example good_facts_ok : facts_ok good_facts = true. Proof. reflexivity. Qed.
Example bad_alias_not_ok : facts_ok bad_alias_facts = false. Proof. reflexivity. Qed.
Example bad_std_not_ok : facts_ok bad_std_facts = false. Proof. reflexivity. Qed.
Example bad_static_not_ok : facts_ok bad_static_facts = false. Proof. reflexivity. Qed.

Open Scope N_scope.

(** enum E { A(i32), B(u8), C(i64) } deriving TryInto (owned) *)
Definition ex_item : item :=
  {| it_name := [69]; it_params := []; it_field_types := [];
     it_variants := [ {| v_name := [65]; v_types := [[105; 51; 50]]; v_refs := [RNo] |};
                      {| v_name := [66]; v_types := [[117; 56]]; v_refs := [RNo] |};
                      {| v_name := [67]; v_types := [[105; 54; 52]]; v_refs := [RNo] |} ];
     it_legacy := [] |}.

(** under a randomly keyed map the model's impl order does depend on the seed ... *)
Example model_sees_random_state :
  exists s1 s2, expand_model toy_ext bad_std_facts s1 [] (DTryInto, ex_item)
                <> expand_model toy_ext bad_std_facts s2 [] (DTryInto, ex_item).
Proof. exists 0, 1. vm_compute. discriminate. Qed.

Example model_sees_random_alias :
  exists s1 s2, expand_model toy_ext bad_alias_facts s1 [] (DTryInto, ex_item)
                <> expand_model toy_ext bad_alias_facts s2 [] (DTryInto, ex_item).
Proof. exists 0, 1. vm_compute. discriminate. Qed.

(** ... and with global state in the macro it depends on what was expanded before *)
Example model_sees_history :
  exists h1 h2, expand_model toy_ext bad_static_facts 0 h1 (DTryInto, ex_item)
                <> expand_model toy_ext bad_static_facts 0 h2 (DTryInto, ex_item).
Proof. exists [], [[1]]. vm_compute. discriminate. Qed.

(** while with the facts it does not (instance of the theorem, computed) *)
Example model_fixed_instance :
  expand_model toy_ext good_facts 0 [] (DTryInto, ex_item)
  = expand_model toy_ext good_facts 12345 [[1]; [2]] (DTryInto, ex_item).
Proof. vm_compute. reflexivity. Qed.

(** case-colliding FromStr names go to one entry and yield guarded arms (from_str.rs:78-92) *)
Example from_str_groups_example :
  map fst (from_str_groups toy_ext
             {| it_name := [69]; it_params := []; it_field_types := [];
                it_variants := [ {| v_name := [65; 98]; v_types := []; v_refs := [] |};
                                 {| v_name := [97; 66]; v_types := []; v_refs := [] |};
                                 {| v_name := [67]; v_types := []; v_refs := [] |} ];
                it_legacy := [] |})
  = [[97; 98]; [99]].
Proof. reflexivity. Qed.

(* ================================================================== second level: bucket tables, processes, positions *)

Lemma t_iter_perm hash sd t : Permutation (t_ents t) (t_iter hash sd t).
Proof. apply sort_by_perm. Qed.

Lemma t_iter_sorted hash sd t :
  Sorted (fun a b => bucket hash sd (t_cap t) (fst a) <= bucket hash sd (t_cap t) (fst b)) (t_iter hash sd t).
Proof. apply (sort_by_sorted (fun e : str * list str => bucket hash sd (t_cap t) (fst e))). Qed.

(** the bucket table refines the association-list model: same entries, same insertion order *)
Lemma t_entry_push_ents k v t : t_ents (t_entry_push k v t) = hm_entry_push k v (t_ents t).
Proof. reflexivity. Qed.
Lemma t_insert_ents k t : t_ents (t_insert k t) = hs_insert k (t_ents t).
Proof. reflexivity. Qed.
Lemma t_extend_ents ks t : t_ents (t_extend ks t) = fold_left (fun s k => hs_insert k s) ks (t_ents t).
Proof.
  revert t; induction ks as [|k r IH]; intros t; [reflexivity|]. cbn [t_extend fold_left]. apply IH.
Qed.
Lemma t_drain_keeps_cap hash sd t : t_cap (snd (t_drain hash sd t)) = t_cap t /\ t_ents (snd (t_drain hash sd t)) = [].
Proof. split; reflexivity. Qed.

(** bucket counts never shrink *)
Lemma grow_fuel_ge fuel cap len : cap <= grow_fuel fuel cap len.
Proof.
  revert cap; induction fuel as [|k IH]; intros cap; cbn [grow_fuel]; [lia|].
  destruct (len * 8 <=? cap * 7); [lia|].
  eapply N.le_trans; [|apply IH]. destruct (N.eqb_spec cap 0); lia.
Qed.
Lemma t_fit_ge cap len : cap <= t_fit cap len.
Proof. apply grow_fuel_ge. Qed.

Lemma facts_ok_start_table fs scratch : facts_ok fs = true -> start_table fs scratch = t_new.
Proof.
  intros H. apply facts_ok_parts in H as (_ & _ & _ & Hl). unfold start_table. rewrite Hl. reflexivity.
Qed.

Lemma expand_model_b_pure E fs s h scratch x :
  facts_ok fs = true -> expand_model_b E fs s h scratch x = expand_pure_b E x.
Proof.
  intros H. unfold expand_model_b, expand_pure_b.
  rewrite (facts_ok_hasher_at fs (fst x) H), (facts_ok_seed_leak fs (fst x) s H), (facts_ok_history fs h H),
          (facts_ok_start_table fs scratch H).
  cbn [build_hasher]. rewrite !app_nil_r. reflexivity.
Qed.

(** THE INVARIANT over arbitrary sequences of expansions: whatever the seed of the process, whatever state the
    process is in, whatever items (at whatever positions) are expanded in whatever order - every item's expansion is
    the pure function of its derive input.  By induction over the sequence, for every starting state. *)
Lemma process_is_pure fs :
  facts_ok fs = true ->
  forall (E : externals) (ps : list located) (s : seed) (st : pstate),
    run_process E fs s st ps = map (fun p => expand_pure_b E (snd p)) ps.
Proof.
  intros H E ps. induction ps as [|p r IH]; intros s st; [reflexivity|].
  cbn [run_process step map]. rewrite (expand_model_b_pure E fs s _ _ (snd p) H). f_equal. apply IH.
Qed.

(** two processes (different seeds, different starting states, different surrounding items, different positions of
    the item): the same derive input gets the same expansion in both *)
Lemma same_input_same_expansion fs :
  facts_ok fs = true ->
  forall (E : externals) (x : input) (s1 s2 : seed) (st1 st2 : pstate) (pre1 post1 pre2 post2 : list located)
         (pos1 pos2 : N),
    nth (List.length pre1) (run_process E fs s1 st1 (pre1 ++ (pos1, x) :: post1)) []
    = nth (List.length pre2) (run_process E fs s2 st2 (pre2 ++ (pos2, x) :: post2)) [].
Proof.
  intros H E x s1 s2 st1 st2 pre1 post1 pre2 post2 pos1 pos2.
  rewrite !(process_is_pure fs H). rewrite !map_app. cbn [map snd].
  rewrite <- (map_length (fun p => expand_pure_b E (snd p)) pre1) at 1.
  rewrite <- (map_length (fun p => expand_pure_b E (snd p)) pre2) at 1.
  rewrite !nth_middle. reflexivity.
Qed.

(** permuting the items of a crate permutes the expansions and changes none of them *)
Lemma interleaving_irrelevant fs :
  facts_ok fs = true ->
  forall (E : externals) (ps qs : list located) (s1 s2 : seed) (st1 st2 : pstate),
    Permutation (map snd ps) (map snd qs) ->
    Permutation (run_process E fs s1 st1 ps) (run_process E fs s2 st2 qs).
Proof.
  intros H E ps qs s1 s2 st1 st2 HP. rewrite !(process_is_pure fs H).
  rewrite <- !(map_map snd (expand_pure_b E)). apply Permutation_map, HP.
Qed.

(** order in the bucket model: a permutation of the insertion-ordered entries, sorted by bucket of the FIXED hash in
    a table whose bucket count is a function of the number of entries alone *)
Lemma bucket_order_is_function_of_input fs :
  facts_ok fs = true ->
  forall (E : externals) (x : input),
  exists order : list (str * list str),
    order = t_iter (ext_hash E) fixed_seed (t_fill t_new (groups_of E x))
    /\ Permutation (groups_of E x) order
    /\ Sorted (fun a b => bucket (ext_hash E) fixed_seed (t_fit 0 (List.length (groups_of E x))) (fst a)
                          <= bucket (ext_hash E) fixed_seed (t_fit 0 (List.length (groups_of E x))) (fst b)) order
    /\ forall (s : seed) (h : history) (scratch : table),
         expand_model_b E fs s h scratch x = flat_map (render_group x) order.
Proof.
  intros H E x. eexists. split; [reflexivity|]. split; [apply (t_iter_perm _ _ (t_fill t_new (groups_of E x)))|]. split.
  - apply (t_iter_sorted (ext_hash E) fixed_seed (t_fill t_new (groups_of E x))).
  - intros s h scratch. rewrite (expand_model_b_pure E fs s h scratch x H). reflexivity.
Qed.

(** position independence on the first-level model as well: the position travels in the history *)
Lemma position_irrelevant fs :
  facts_ok fs = true ->
  forall (E : externals) (s : seed) (h : history) (pos1 pos2 : N) (x : input),
    expand_model E fs s ([pos1] :: h) x = expand_model E fs s ([pos2] :: h) x.
Proof. intros H E s h p1 p2 x. apply (seed_history_irrelevant fs H). Qed.

(* ------------------------------------------------------------------ sensitivity: every fact kind is needed *)

Definition ex_input : input := (DTryInto, ex_item).

(** any kind of surviving state / environment / position read in macro code lets the model's output depend on the history *)
Lemma every_state_kind_matters :
  forall k : state_kind,
    facts_ok (facts_with_state k) = false
    /\ exists h1 h2 : history,
         expand_model toy_ext (facts_with_state k) 0 h1 ex_input <> expand_model toy_ext (facts_with_state k) 0 h2 ex_input.
Proof.
  intros k. split; [destruct k; reflexivity|]. exists [], [[1]]. destruct k; vm_compute; discriminate.
Qed.

(** any resolution of a hash-collection mention other than the crate's alias lets it depend on the seed *)
Lemma every_bad_origin_matters :
  forall o : origin, (o = OStd \/ o = OUnresolved) ->
    facts_ok (facts_with_origin o) = false
    /\ exists s1 s2 : seed,
         expand_model toy_ext (facts_with_origin o) s1 [] ex_input <> expand_model toy_ext (facts_with_origin o) s2 [] ex_input.
Proof.
  intros o [->| ->]; (split; [reflexivity|]); exists 0, 1; vm_compute; discriminate.
Qed.

(** and so does any way of building the alias other than std's table + field-less state + constant-key SipHasher *)
Definition bad_aliases : list alias_def :=
  [ {| al_kind := KHashMap; al_std_base := false; al_state := StUnitStruct; al_hasher := HtDefaultHasher; al_ctor := CtDefault |};
    {| al_kind := KHashMap; al_std_base := true; al_state := StFieldStruct; al_hasher := HtDefaultHasher; al_ctor := CtDefault |};
    {| al_kind := KHashMap; al_std_base := true; al_state := StRandomState; al_hasher := HtDefaultHasher; al_ctor := CtDefault |};
    {| al_kind := KHashMap; al_std_base := true; al_state := StMissing; al_hasher := HtDefaultHasher; al_ctor := CtDefault |};
    {| al_kind := KHashMap; al_std_base := true; al_state := StUnknown; al_hasher := HtDefaultHasher; al_ctor := CtDefault |};
    {| al_kind := KHashMap; al_std_base := true; al_state := StUnitStruct; al_hasher := HtOther; al_ctor := CtDefault |};
    {| al_kind := KHashMap; al_std_base := true; al_state := StUnitStruct; al_hasher := HtDefaultHasher; al_ctor := CtOther |} ].

Lemma every_bad_alias_matters :
  forall a : alias_def, In a bad_aliases ->
    facts_ok (facts_with_alias a) = false
    /\ exists s1 s2 : seed,
         expand_model toy_ext (facts_with_alias a) s1 [] ex_input <> expand_model toy_ext (facts_with_alias a) s2 [] ex_input.
Proof.
  intros a Ha. cbn [bad_aliases In] in Ha.
  repeat (destruct Ha as [<-|Ha]; [split; [reflexivity|exists 0, 1; vm_compute; discriminate]|]). destruct Ha.
Qed.

(** a scratch table that survives expansions (thread_local / static + drain): a SMALL enum expanded after a LARGE one
    inherits the larger bucket count and its arms come out in another order (the mechanism of the seeded change) *)
Definition small_enum : input :=
  (DFromStr, {| it_name := [76]; it_params := []; it_field_types := [];
                it_variants := map (fun n => {| v_name := n; v_types := []; v_refs := [] |})
                                   [[65]; [66]; [67]];
                it_legacy := [] |}).
Definition big_table : table := {| t_cap := 16; t_ents := [] |}.

Example scratch_table_matters :
  facts_ok (facts_with_state SThreadLocal) = false /\
  expand_model_b toy_ext (facts_with_state SThreadLocal) 0 [] t_new small_enum
  <> expand_model_b toy_ext (facts_with_state SThreadLocal) 0 [] big_table small_enum.
Proof. split; [reflexivity|]. vm_compute. discriminate. Qed.

(** ... while with the facts the very same call ignores the scratch table, the seed, the history (computed instance) *)
Example scratch_table_ignored :
  expand_model_b toy_ext base_facts 0 [] t_new small_enum
  = expand_model_b toy_ext base_facts 77 [[1]; [2]] big_table small_enum.
Proof. vm_compute. reflexivity. Qed.

Example process_instance :
  run_process toy_ext base_facts 5 ps_init [(86, small_enum); (425, ex_input); (1001, small_enum)]
  = [expand_pure_b toy_ext small_enum; expand_pure_b toy_ext ex_input; expand_pure_b toy_ext small_enum].
Proof. vm_compute. reflexivity. Qed.

Example table_growth : map (t_fit 0) [0; 1; 3; 4; 7; 8; 14; 15]%nat = [0; 4; 4; 8; 8; 16; 16; 32].
Proof. reflexivity. Qed.
