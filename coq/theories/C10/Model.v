(** C10 - derived operators act field-wise with operand order preserved.

    Executable model (no proofs in this file) of the six operator expanders of
    [/repo/impl/src]:

      add_helpers.rs      tuple_exprs, struct_exprs, receiver
      add_like.rs         expand, tuple_content, struct_content, enum_content
      add_assign_like.rs  expand
      mul_helpers.rs      generics_and_exprs (expression part)
      mul_like.rs         expand            (scalar rhs / [forward] re-dispatch)
      mul_assign_like.rs  expand
      not_like.rs         expand, tuple_content, struct_content, enum_output_type_and_content
      sum_like.rs         expand
      utils.rs            State::new_impl / get_meta_info / parse_punctuated_nested_meta
                          (the part reachable with the attribute parameters these
                          expanders allow), enabled_fields_data, MultiFieldData::initializer
      lib.rs              the 24 [create_derive!] lines (trait -> expander)
      /repo/src/ops.rs, /repo/src/add.rs   Display of UnitError / WrongVariantError

    The expanders produce an [impl] whose body is an expression tree
    ([ECall meth (ESel Lhs m) (ESel Rhs m)], ...).  The second half of the file gives those
    trees a small explicit semantics over an uninterpreted, non-commutative
    [op : method -> V -> V -> V], [uop], [ident] (what [Sum::sum]/[Product::product] return on
    an empty iterator) - this is the "Layer 2" assumption, validated on every run against the
    real macro compiled by rustc (tools/props/c10.py).

    The generic parameters and the where-clause of the generated impl ([__RhsT], its [Copy]
    bound iff more than one field, one predicate per distinct field type, the extra bound on every
    type parameter) are modelled by [derive_header]; they decide bounds, not the expressions, so
    they are a separate argument. *)
From Coq Require Import String Ascii.
From Verif Require Import Base.Chars.
Import ListNotations.
Open Scope N_scope.

(* ------------------------------------------------------------------ strings *)

Definition lit (s : string) : str := map N_of_ascii (list_ascii_of_string s).
Arguments lit s%string.

Definition ascii_lower_char (c : N) : N := if (65 <=? c) && (c <=? 90) then c + 32 else c.
(** what [str::to_lowercase] does on ASCII input *)
Definition ascii_lower (s : str) : str := map ascii_lower_char s.
Definition is_ascii (s : str) : bool := forallb (fun c => c <? 128) s.

Fixpoint strip_prefix (p s : str) : option str :=
  match p, s with
  | [], _ => Some s
  | x :: p', y :: s' => if N.eqb x y then strip_prefix p' s' else None
  | _ :: _, [] => None
  end.

Fixpoint trim_start_fuel (fuel : nat) (p s : str) : str :=
  match fuel with
  | O => s
  | S f => match strip_prefix p s with
           | Some s' => trim_start_fuel f p s'
           | None => s
           end
  end.

(** [str::trim_end_matches(pat)] for a non-empty string pattern: strip the suffix repeatedly *)
Definition trim_end_matches (p s : str) : str :=
  match p with
  | [] => s
  | _ => rev (trim_start_fuel (List.length s) (rev p) (rev s))
  end.

Fixpoint join (sep : str) (l : list str) : str :=
  match l with
  | [] => []
  | [x] => x
  | x :: l' => x ++ sep ++ join sep l'
  end.

Definition mem_str (w : str) (l : list str) : bool := existsb (str_eqb w) l.

(* ------------------------------------------------------------------ the 24 derives (lib.rs:110-267) *)

Inductive trait :=
  TAdd | TSub | TBitAnd | TBitOr | TBitXor
| TAddAssign | TSubAssign | TBitAndAssign | TBitOrAssign | TBitXorAssign
| TMul | TDiv | TRem | TShr | TShl
| TMulAssign | TDivAssign | TRemAssign | TShrAssign | TShlAssign
| TNot | TNeg | TSum | TProduct.

Definition all_traits : list trait :=
  [TAdd; TSub; TBitAnd; TBitOr; TBitXor; TAddAssign; TSubAssign; TBitAndAssign; TBitOrAssign;
   TBitXorAssign; TMul; TDiv; TRem; TShr; TShl; TMulAssign; TDivAssign; TRemAssign; TShrAssign;
   TShlAssign; TNot; TNeg; TSum; TProduct].

(** the trait ident handed to [expand] by [create_derive!] *)
Definition trait_name (t : trait) : str :=
  match t with
  | TAdd => lit "Add" | TSub => lit "Sub" | TBitAnd => lit "BitAnd" | TBitOr => lit "BitOr"
  | TBitXor => lit "BitXor"
  | TAddAssign => lit "AddAssign" | TSubAssign => lit "SubAssign"
  | TBitAndAssign => lit "BitAndAssign" | TBitOrAssign => lit "BitOrAssign"
  | TBitXorAssign => lit "BitXorAssign"
  | TMul => lit "Mul" | TDiv => lit "Div" | TRem => lit "Rem" | TShr => lit "Shr" | TShl => lit "Shl"
  | TMulAssign => lit "MulAssign" | TDivAssign => lit "DivAssign" | TRemAssign => lit "RemAssign"
  | TShrAssign => lit "ShrAssign" | TShlAssign => lit "ShlAssign"
  | TNot => lit "Not" | TNeg => lit "Neg" | TSum => lit "Sum" | TProduct => lit "Product"
  end.

Inductive expander := XAddLike | XAddAssignLike | XMulLike | XMulAssignLike | XNotLike | XSumLike.

(** second argument of [create_derive!] (the module whose [expand] is called) *)
Definition expander_of (t : trait) : expander :=
  match t with
  | TAdd | TSub | TBitAnd | TBitOr | TBitXor => XAddLike
  | TAddAssign | TSubAssign | TBitAndAssign | TBitOrAssign | TBitXorAssign => XAddAssignLike
  | TMul | TDiv | TRem | TShr | TShl => XMulLike
  | TMulAssign | TDivAssign | TRemAssign | TShrAssign | TShlAssign => XMulAssignLike
  | TNot | TNeg => XNotLike
  | TSum | TProduct => XSumLike
  end.

(** The method names of [core::ops] / [core::iter], written down from the standard library's
    documentation independently of the expanders.  (The generated crate implements exactly these
    methods on the operand type, so rustc re-checks this table on every run.) *)
Definition std_method (t : trait) : str :=
  match t with
  | TAdd => lit "add" | TSub => lit "sub" | TBitAnd => lit "bitand" | TBitOr => lit "bitor"
  | TBitXor => lit "bitxor"
  | TAddAssign => lit "add_assign" | TSubAssign => lit "sub_assign"
  | TBitAndAssign => lit "bitand_assign" | TBitOrAssign => lit "bitor_assign"
  | TBitXorAssign => lit "bitxor_assign"
  | TMul => lit "mul" | TDiv => lit "div" | TRem => lit "rem" | TShr => lit "shr" | TShl => lit "shl"
  | TMulAssign => lit "mul_assign" | TDivAssign => lit "div_assign" | TRemAssign => lit "rem_assign"
  | TShrAssign => lit "shr_assign" | TShlAssign => lit "shl_assign"
  | TNot => lit "not" | TNeg => lit "neg" | TSum => lit "sum" | TProduct => lit "product"
  end.

(** the non-assigning operator an [*Assign] trait corresponds to *)
Definition base_of (t : trait) : trait :=
  match t with
  | TAddAssign => TAdd | TSubAssign => TSub | TBitAndAssign => TBitAnd | TBitOrAssign => TBitOr
  | TBitXorAssign => TBitXor
  | TMulAssign => TMul | TDivAssign => TDiv | TRemAssign => TRem | TShrAssign => TShr
  | TShlAssign => TShl
  | t => t
  end.

(* ------------------------------------------------------------------ derive input *)

(** attribute arguments, two levels deep (what [parse_punctuated_nested_meta] can tell apart
    when the only allowed parameter is [forward]) *)
Inductive iparam := IWord (w : str) | IList (w : str).                       (* inside [not(...)] *)
Inductive tparam := AWord (w : str) | ANot (inner : list iparam) | AList (w : str).
Inductive meta := MetaPath | MetaList (ps : list tparam) | MetaNameValue.
Record attr := { at_name : str; at_meta : meta }.           (* [at_name]: first path segment *)

Record field := { f_ty : N; f_attrs : list attr }.          (* [f_ty]: an id of the field type *)
Inductive fields :=
| FNamed (fs : list (str * field))
| FUnnamed (fs : list field)
| FUnit.
Record variant := { v_name : str; v_fields : fields; v_attrs : list attr }.
Inductive data := DStruct (f : fields) | DEnum (vs : list variant) | DUnion.
Record input := { i_attrs : list attr; i_data : data }.

Inductive member := MIdx (i : nat) | MName (s : str).

Definition member_eqb (a b : member) : bool :=
  match a, b with
  | MIdx i, MIdx j => Nat.eqb i j
  | MName s, MName t => str_eqb s t
  | _, _ => false
  end.

Definition field_names (l : list (str * field)) : list str := map fst l.

Definition members_of (fs : fields) : list member :=
  match fs with
  | FNamed l => map MName (field_names l)
  | FUnnamed l => map MIdx (seq 0 (List.length l))
  | FUnit => []
  end.

Definition field_list (fs : fields) : list field :=
  match fs with
  | FNamed l => map snd l
  | FUnnamed l => l
  | FUnit => []
  end.

(* ------------------------------------------------------------------ generated code *)

Inductive side := Lhs | Rhs.                     (* [self] / [rhs];  [__l_i] / [__r_i] *)
Inductive reftype := RefNo | RefMut.
Inductive callstyle :=
| CPath (r : reftype)                             (* [derive_more::core::ops::Trait::meth(& mut a, b)] *)
| CUfcs (ty : N) (r : reftype).                   (* [<ty as Trait<__RhsT>>::meth(& mut a, b)] *)

Inductive expr :=
| ESel (s : side) (m : member)                    (* [self.0], [rhs.x] *)
| EVar (s : side) (i : nat)                       (* a variable bound by a match pattern *)
| EScalar                                         (* [rhs] of type [__RhsT] *)
| ECall (st : callstyle) (meth : str) (a b : expr)
| ECall1 (meth : str) (a : expr)                  (* [derive_more::core::ops::Trait::meth(a)] *)
| EIdentity (meth : str) (ty : N).                (* [Trait::meth(core::iter::empty::<ty>())] *)

Inductive ctor := CStruct | CVariant (v : str).   (* [S] / [E::V] *)

Inductive build :=
| BTuple (c : ctor) (es : list expr)              (* [c(e0, e1, ...)] *)
| BNamed (c : ctor) (inits : list (str * expr)).  (* [c{x: e0, y: e1, ...}] *)

Inductive pat :=
| PTuple (v : str) (n : nat)                      (* [E::v(__l_0, ..)] *)
| PNamed (v : str) (names : list str)             (* [E::v{x: __l_0, ..}] *)
| PUnit (v : str).

Inductive rexpr :=
| RPlain (b : build)
| ROk (b : build)                                 (* [Result::Ok(b)] *)
| RErrBinUnit (opname : str)                      (* [Err(BinaryError::Unit(UnitError::new(op)))] *)
| RErrBinMismatch (opname : str)                  (* [Err(BinaryError::Mismatch(WrongVariantError::new(op)))] *)
| RErrUnit (opname : str).                        (* [Err(UnitError::new(op))] *)

Inductive body :=
| BodyBuild (b : build)
| BodyStmts (ss : list expr)                      (* [e0; e1; ...] *)
| BodyMatch2 (arms : list (pat * pat * rexpr)) (wild : option rexpr)   (* [match (self, rhs)] *)
| BodyMatch1 (arms : list (pat * rexpr))                               (* [match self] *)
| BodyFold (identity : build) (op_trait op_method : str).              (* [iter.fold(identity, Op::op)] *)

Inductive trait_root := RootCoreOps | RootWithTrait.  (* [derive_more::core::ops::] / [derive_more::with_trait::] *)
Inductive outkind :=
| OutSelf             (* [type Output = S;  -> S] *)
| OutResultBinary | OutResultUnit
| OutNone             (* no return value *)
| OutSelfKw.          (* [-> Self], no associated type (Sum / Product) *)

Record impl := {
  im_allows : bool;            (* [#[allow(deprecated)] #[allow(unreachable_code)]] precede [#[automatically_derived]]
                                  (add_like.rs:54-55, not_like.rs:48-49) *)
  im_trait : str;
  im_root : trait_root;
  im_scalar : option bool;     (* [Some copy]: extra parameter [__RhsT], with a [Copy] bound iff [copy] *)
  im_method : str;
  im_output : outkind;
  im_body : body
}.

Inductive outcome (A : Type) :=
| Expanded (x : A)
| Rejected (msg : str)          (* [Err(syn::Error)]: a compile error at the attribute *)
| Panicked (msg : str).         (* [panic!]: "proc-macro derive panicked" *)
Arguments Expanded {A} x.
Arguments Rejected {A} msg.
Arguments Panicked {A} msg.

Definition omap {A B} (f : A -> B) (o : outcome A) : outcome B :=
  match o with
  | Expanded x => Expanded (f x)
  | Rejected m => Rejected m
  | Panicked m => Panicked m
  end.

(* ------------------------------------------------------------------ add_helpers.rs *)

(** add_helpers.rs:45-51: [&mut] for the [*_assign] methods, nothing for the by-value ones *)
Definition receiver (meth : str) : reftype :=
  match strip_prefix (rev (lit "_assign")) (rev meth) with
  | Some _ => RefMut
  | None => RefNo
  end.

(** add_helpers.rs:5-22: [derive_more::core::ops::Trait::meth(& mut self.i, rhs.i)] *)
Definition tuple_exprs (n : nat) (meth : str) : list expr :=
  map (fun i => ECall (CPath (receiver meth)) meth (ESel Lhs (MIdx i)) (ESel Rhs (MIdx i))) (seq 0 n).

(** add_helpers.rs:24-42 *)
Definition struct_exprs (names : list str) (meth : str) : list expr :=
  map (fun x => ECall (CPath (receiver meth)) meth (ESel Lhs (MName x)) (ESel Rhs (MName x))) names.

(* ------------------------------------------------------------------ add_like.rs *)

(** add_like.rs:70-78 *)
Definition add_tuple_content (c : ctor) (n : nat) (meth : str) : build :=
  BTuple c (tuple_exprs n meth).

(** add_like.rs:80-91 *)
Definition add_struct_content (c : ctor) (names : list str) (meth : str) : build :=
  BNamed c (combine names (struct_exprs names meth)).

Definition var_calls (n : nat) (meth : str) : list expr :=
  map (fun i => ECall (CPath RefNo) meth (EVar Lhs i) (EVar Rhs i)) (seq 0 n).

(** add_like.rs:104-158, one arm per variant *)
Definition add_enum_arm (meth : str) (vr : variant) : pat * pat * rexpr :=
  let v := v_name vr in
  match v_fields vr with
  | FUnnamed fs =>
      let n := List.length fs in
      (PTuple v n, PTuple v n, ROk (BTuple (CVariant v) (var_calls n meth)))
  | FNamed fs =>
      let names := field_names fs in
      (PNamed v names, PNamed v names,
       ROk (BNamed (CVariant v) (combine names (var_calls (List.length fs) meth))))
  | FUnit => (PUnit v, PUnit v, RErrBinUnit meth)
  end.

(** add_like.rs:93-175; the wildcard arm exists only when there is more than one variant
    (add_like.rs:160) *)
Definition add_enum_content (vs : list variant) (meth : str) : body :=
  BodyMatch2 (map (add_enum_arm meth) vs)
             (if Nat.ltb 1 (List.length vs) then Some (RErrBinMismatch meth) else None).

(** add_like.rs:11-68 *)
Definition add_like_expand (lower : str -> str) (inp : input) (tname : str) : outcome impl :=
  let tname := trim_end_matches (lit "Self") tname in
  let meth := lower tname in
  let mk out b := {| im_allows := true; im_trait := tname; im_root := RootCoreOps; im_scalar := None;
                     im_method := meth; im_output := out; im_body := b |} in
  match i_data inp with
  | DStruct (FUnnamed fs) =>
      Expanded (mk OutSelf (BodyBuild (add_tuple_content CStruct (List.length fs) meth)))
  | DStruct (FNamed fs) =>
      Expanded (mk OutSelf (BodyBuild (add_struct_content CStruct (field_names fs) meth)))
  | DStruct FUnit => Panicked (lit "Unit structs cannot use derive(" ++ tname ++ lit ")")
  | DEnum vs => Expanded (mk OutResultBinary (add_enum_content vs meth))
  | DUnion => Panicked (lit "Only structs and enums can use derive(" ++ tname ++ lit ")")
  end.

(* ------------------------------------------------------------------ add_assign_like.rs *)

(** add_assign_like.rs:7-41 *)
Definition add_assign_like_expand (lower : str -> str) (inp : input) (tname : str) : outcome impl :=
  let meth := lower (trim_end_matches (lit "Assign") tname) ++ lit "_assign" in
  let mk ss := {| im_allows := false; im_trait := tname; im_root := RootCoreOps; im_scalar := None;
                  im_method := meth; im_output := OutNone; im_body := BodyStmts ss |} in
  match i_data inp with
  | DStruct (FUnnamed fs) => Expanded (mk (tuple_exprs (List.length fs) meth))
  | DStruct (FNamed fs) => Expanded (mk (struct_exprs (field_names fs) meth))
  | DStruct FUnit => Panicked (lit "Unit structs cannot use derive(" ++ tname ++ lit ")")
  | _ => Panicked (lit "Only structs can use derive(" ++ tname ++ lit ")")
  end.

(* ------------------------------------------------------------------ utils.rs: attributes and State *)

Definition msg_not_allowed := lit "Attribute is not allowed here".
Definition msg_single := lit "Only a single attribute is allowed".
Definition msg_empty (allowed : list str) :=
  lit "Empty attribute is not allowed, add one of the following parameters: " ++ join (lit ", ") allowed.
Definition msg_name_value := lit "Attribute doesn't support name-value format here".
Definition msg_nested_not := lit "Attribute doesn't support multiple multiple or nested `not` parameters".
Definition msg_nested_unsupported (allowed : list str) :=
  lit "Attribute nested parameter not supported. Supported attribute parameters are: " ++ join (lit ", ") allowed.
Definition msg_nested_here (w : str) :=
  lit "Attribute doesn't support nested parameter `" ++ w ++ lit "` here".
Definition msg_param_unsupported (allowed : list str) :=
  lit "Attribute parameter not supported. Supported attribute parameters are: " ++ join (lit ", ") allowed.
Definition msg_param_here (w : str) :=
  lit "Attribute doesn't support parameter `" ++ w ++ lit "` here".

(** utils.rs:879-1042 with [wrapper_name = Some("not")].  Only [forward] is ever allowed by the
    expanders modelled here, so the arms for owned/ref/ref_mut/types/ignore/source/backtrace are
    unreachable and are folded into the final error. *)
Fixpoint parse_not_params (allowed : list str) (ps : list iparam) (fw : option bool) : str + option bool :=
  match ps with
  | [] => inr fw
  | IList w :: ps' =>
      if str_eqb w (lit "not") then inl msg_nested_not
      else if negb (mem_str w allowed) then inl (msg_nested_unsupported allowed)
      else inl (msg_nested_here w)
  | IWord w :: ps' =>
      if negb (mem_str w allowed) then inl (msg_param_unsupported allowed)
      else if str_eqb w (lit "forward") then parse_not_params allowed ps' (Some false)
      else inl (msg_param_here w)
  end.

(** utils.rs:879-1042 with [wrapper_name = None] *)
Fixpoint parse_params (allowed : list str) (ps : list tparam) (fw : option bool) : str + option bool :=
  match ps with
  | [] => inr fw
  | ANot inner :: ps' =>
      match parse_not_params allowed inner fw with
      | inl e => inl e
      | inr fw' => parse_params allowed ps' fw'
      end
  | AList w :: ps' =>
      if negb (mem_str w allowed) then inl (msg_nested_unsupported allowed)
      else inl (msg_nested_here w)
  | AWord w :: ps' =>
      if negb (mem_str w allowed) then inl (msg_param_unsupported allowed)
      else if str_eqb w (lit "forward") then parse_params allowed ps' (Some true)
      else inl (msg_param_here w)
  end.

(** utils.rs:813-877; returns the [forward] component of [MetaInfo] *)
Definition get_meta_info (trait_attr : str) (attrs : list attr) (allowed : list str) : str + option bool :=
  match filter (fun a => str_eqb (at_name a) trait_attr) attrs with
  | [] => inr None
  | a :: rest =>
      match allowed with
      | [] => inl msg_not_allowed
      | _ =>
          match rest with
          | _ :: _ => inl msg_single
          | [] =>
              match at_meta a with
              | MetaPath => if mem_str (lit "ignore") allowed then inr None else inl (msg_empty allowed)
              | MetaNameValue => inl msg_name_value
              | MetaList ps => parse_params allowed ps None
              end
          end
      end
  end.

(** first error of [attrs.iter().map(get_meta_info).collect::<Result<Vec<_>>>()] *)
Fixpoint first_meta_error (trait_attr : str) (attrss : list (list attr)) (allowed : list str) : option str :=
  match attrss with
  | [] => None
  | a :: rest =>
      match get_meta_info trait_attr a allowed with
      | inl e => Some e
      | inr _ => first_meta_error trait_attr rest allowed
      end
  end.

Record attr_params := { ap_enum : list str; ap_variant : list str; ap_struct : list str; ap_field : list str }.
(** mul_like.rs:14-20: [forward] is allowed on structs and on enums (it is what makes the derive
    applicable to enums at all); mul_assign_like.rs:20: [AttrParams::struct_(vec!["forward"])]
    (utils.rs:295); [AttrParams::default()] (sum_like.rs:9 via [State::new]) *)
Definition params_mul_like : attr_params :=
  {| ap_enum := [lit "forward"]; ap_variant := []; ap_struct := [lit "forward"]; ap_field := [] |}.
Definition params_mul_assign_like : attr_params :=
  {| ap_enum := []; ap_variant := []; ap_struct := [lit "forward"]; ap_field := [] |}.
Definition params_none : attr_params :=
  {| ap_enum := []; ap_variant := []; ap_struct := []; ap_field := [] |}.

Inductive dtype := DtUnnamed | DtNamed | DtEnum.
Record state := { st_forward : bool; st_dtype : dtype; st_fields : fields }.

Definition field_attrs (fs : fields) : list (list attr) := map f_attrs (field_list fs).

(** utils.rs:365-503 ([State::new_impl]) and 505-556 ([from_variant]): the order in which
    attributes are examined, and what is kept of them.  No field or variant attribute is allowed
    by the expanders modelled here, so every field stays enabled. *)
Definition state_new (tname trait_attr : str) (ap : attr_params) (inp : input) : outcome state :=
  match i_data inp with
  | DUnion => Panicked (lit "cannot derive(" ++ tname ++ lit ") for union")
  | DStruct fs =>
      match get_meta_info trait_attr (i_attrs inp) (ap_struct ap) with
      | inl e => Rejected e
      | inr fw =>
          match first_meta_error trait_attr (field_attrs fs) (ap_field ap) with
          | Some e => Rejected e
          | None =>
              Expanded {| st_forward := match fw with Some b => b | None => false end;
                          st_dtype := match fs with FUnnamed _ => DtUnnamed | _ => DtNamed end;
                          st_fields := fs |}
          end
      end
  | DEnum vs =>
      match get_meta_info trait_attr (i_attrs inp) (ap_enum ap) with
      | inl e => Rejected e
      | inr fw =>
          match first_meta_error trait_attr (map v_attrs vs) (ap_variant ap) with
          | Some e => Rejected e
          | None =>
              match first_meta_error trait_attr (flat_map (fun v => field_attrs (v_fields v)) vs) (ap_field ap) with
              | Some e => Rejected e
              | None =>
                  Expanded {| st_forward := match fw with Some b => b | None => false end;
                              st_dtype := DtEnum; st_fields := FUnit |}
              end
          end
      end
  end.

(** utils.rs:774-785 [MultiFieldData::initializer] *)
Definition initializer (st : state) (es : list expr) : build :=
  match st_dtype st with
  | DtUnnamed => BTuple CStruct es
  | _ => BNamed CStruct (combine (match st_fields st with FNamed l => field_names l | _ => [] end) es)
  end.

(* ------------------------------------------------------------------ mul_helpers.rs / mul_like.rs / mul_assign_like.rs *)

(** mul_helpers.rs:20-26: [<ty as Trait<__RhsT>>::meth(& mut self.m, rhs)] for every enabled field *)
Definition scalar_exprs (fs : fields) (meth : str) (r : reftype) : list expr :=
  map (fun p => ECall (CUfcs (f_ty (snd p)) r) meth (ESel Lhs (fst p)) EScalar)
      (combine (members_of fs) (field_list fs)).

(** utils.rs:220-237: the new parameter is [__RhsT: Copy] iff more than one field *)
Definition scalar_needs_copy (fs : fields) : bool := Nat.ltb 1 (List.length (field_list fs)).

(** mul_like.rs:9-68 *)
Definition mul_like_expand (lower : str -> str) (inp : input) (tname : str) : outcome impl :=
  let meth := lower tname in
  match state_new tname meth params_mul_like inp with
  | Rejected e => Rejected e
  | Panicked e => Panicked e
  | Expanded st =>
      if st_forward st then add_like_expand lower inp tname
      else
        match st_dtype st with
        | DtEnum => Panicked (lit "cannot derive(" ++ tname ++ lit ") for enum")      (* utils.rs:589 *)
        | _ =>
            let fs := st_fields st in
            Expanded {| im_allows := false; im_trait := tname; im_root := RootWithTrait;
                        im_scalar := Some (scalar_needs_copy fs);
                        im_method := meth; im_output := OutSelf;
                        im_body := BodyBuild (initializer st (scalar_exprs fs meth RefNo)) |}
        end
  end.

(** mul_assign_like.rs:9-64 *)
Definition mul_assign_like_expand (lower : str -> str) (inp : input) (tname : str) : outcome impl :=
  let meth := trim_end_matches (lit "assign") (lower tname) ++ lit "_assign" in
  match state_new tname meth params_mul_assign_like inp with
  | Rejected e => Rejected e
  | Panicked e => Panicked e
  | Expanded st =>
      if st_forward st then add_assign_like_expand lower inp tname
      else
        match st_dtype st with
        | DtEnum => Panicked (lit "cannot derive(" ++ tname ++ lit ") for enum")
        | _ =>
            let fs := st_fields st in
            Expanded {| im_allows := false; im_trait := tname; im_root := RootWithTrait;
                        im_scalar := Some (scalar_needs_copy fs);
                        im_method := meth; im_output := OutNone;
                        im_body := BodyStmts (scalar_exprs fs meth RefMut) |}
        end
  end.

(* ------------------------------------------------------------------ not_like.rs *)

(** not_like.rs:63-81 *)
Definition not_tuple_content (n : nat) (meth : str) : build :=
  BTuple CStruct (map (fun i => ECall1 meth (ESel Lhs (MIdx i))) (seq 0 n)).

(** not_like.rs:83-102 *)
Definition not_struct_content (names : list str) (meth : str) : build :=
  BNamed CStruct (map (fun x => (x, ECall1 meth (ESel Lhs (MName x)))) names).

Definition is_unit (fs : fields) : bool := match fs with FUnit => true | _ => false end.

Definition var_calls1 (n : nat) (meth : str) : list expr :=
  map (fun i => ECall1 meth (EVar Lhs i)) (seq 0 n).

(** not_like.rs:118-177, one arm per variant *)
Definition not_enum_arm (meth : str) (has_unit : bool) (vr : variant) : pat * rexpr :=
  let v := v_name vr in
  let wrap b := if has_unit then ROk b else RPlain b in
  match v_fields vr with
  | FUnnamed fs =>
      let n := List.length fs in (PTuple v n, wrap (BTuple (CVariant v) (var_calls1 n meth)))
  | FNamed fs =>
      let names := field_names fs in
      (PNamed v names, wrap (BNamed (CVariant v) (combine names (var_calls1 (List.length fs) meth))))
  | FUnit => (PUnit v, RErrUnit meth)
  end.

(** not_like.rs:116 *)
Definition has_unit_type (vs : list variant) : bool := existsb (fun v => is_unit (v_fields v)) vs.

(** not_like.rs:9-61 and 104-194 *)
Definition not_like_expand (lower : str -> str) (inp : input) (tname : str) : outcome impl :=
  let meth := lower tname in
  let mk out b := {| im_allows := true; im_trait := tname; im_root := RootCoreOps; im_scalar := None;
                     im_method := meth; im_output := out; im_body := b |} in
  match i_data inp with
  | DStruct (FUnnamed fs) => Expanded (mk OutSelf (BodyBuild (not_tuple_content (List.length fs) meth)))
  | DStruct (FNamed fs) => Expanded (mk OutSelf (BodyBuild (not_struct_content (field_names fs) meth)))
  | DStruct FUnit => Panicked (lit "Unit structs cannot use derive(" ++ tname ++ lit ")")
  | DEnum vs =>
      let hu := has_unit_type vs in
      Expanded (mk (if hu then OutResultUnit else OutSelf) (BodyMatch1 (map (not_enum_arm meth hu) vs)))
  | DUnion => Panicked (lit "Only structs and enums can use derive(" ++ tname ++ lit ")")
  end.

(* ------------------------------------------------------------------ sum_like.rs *)

(** sum_like.rs:8-53 *)
Definition sum_like_expand (lower : str -> str) (inp : input) (tname : str) : outcome impl :=
  let meth := lower tname in
  match state_new tname meth params_none inp with
  | Rejected e => Rejected e
  | Panicked e => Panicked e
  | Expanded st =>
      match st_dtype st with
      | DtEnum => Panicked (lit "cannot derive(" ++ tname ++ lit ") for enum")
      | _ =>
          let op_trait := if str_eqb tname (lit "Sum") then lit "Add" else lit "Mul" in
          let op_method := lower op_trait in
          let inits := map (fun f => EIdentity meth (f_ty f)) (field_list (st_fields st)) in
          Expanded {| im_allows := false; im_trait := tname; im_root := RootWithTrait; im_scalar := None;
                      im_method := meth; im_output := OutSelfKw;
                      im_body := BodyFold (initializer st inits) op_trait op_method |}
      end
  end.

(* ------------------------------------------------------------------ lib.rs dispatch *)

Definition derive (lower : str -> str) (t : trait) (inp : input) : outcome impl :=
  match expander_of t with
  | XAddLike => add_like_expand lower inp (trait_name t)
  | XAddAssignLike => add_assign_like_expand lower inp (trait_name t)
  | XMulLike => mul_like_expand lower inp (trait_name t)
  | XMulAssignLike => mul_assign_like_expand lower inp (trait_name t)
  | XNotLike => not_like_expand lower inp (trait_name t)
  | XSumLike => sum_like_expand lower inp (trait_name t)
  end.

(* ------------------------------------------------------------------ the impl header: generic parameters and where-clause
   (utils.rs:138-237 and the callers in the six expanders).  The expressions do not depend on the
   generics, so they are a separate argument: [derive] gives the body, [derive_header] the
   [impl<...> ... where ...] around it. *)

Inductive gparam :=
| GLifetime (text : str)                     (* ['a], ['a: 'b] *)
| GType (n : str) (bounds : list str)        (* [T], [T: Clone + Copy] (bounds kept as opaque texts) *)
| GConst (text : str).                       (* [const N: usize] *)
Record generics := { g_params : list gparam; g_where : list str }.

Inductive bound :=
| BOrig (s : str)
| BOpOutput (tr : str) (t : str)             (* [derive_more::core::ops::tr<Output = t>] *)
| BOp (tr : str)                             (* [derive_more::core::ops::tr] *)
| BWith (tr : str).                          (* [derive_more::with_trait::tr] *)

Inductive oparam :=
| OLifetime (text : str)
| OType (n : str) (bs : list bound)
| OConst (text : str)
| ORhs (copy : bool).                        (* [__RhsT] / [__RhsT: derive_more::core::marker::Copy] *)

Inductive wpred :=
| WOrig (s : str)
| WScalarOut (ty : N) (tr : str)             (* [ty: derive_more::with_trait::tr<__RhsT, Output = ty>] *)
| WScalar (ty : N) (tr : str)                (* [ty: derive_more::with_trait::tr<__RhsT>] *)
| WSelfOp (tr : str).                        (* [S<..>: derive_more::core::ops::tr<Output = S<..>>] *)

Record header := { h_params : list oparam; h_where : list wpred }.

Definition orig_param (p : gparam) : oparam :=
  match p with
  | GLifetime t => OLifetime t
  | GType n bs => OType n (map BOrig bs)
  | GConst t => OConst t
  end.

(** push one more bound on every type parameter; [b] may mention the parameter's name *)
Definition push_bound (b : str -> bound) (p : oparam) : oparam :=
  match p with
  | OType n bs => OType n (bs ++ [b n])
  | p => p
  end.

(** utils.rs:138-152 *)
Definition add_extra_type_param_bound_op_output (ps : list oparam) (tr : str) : list oparam :=
  map (push_bound (fun n => BOpOutput tr n)) ps.

(** utils.rs:161-172 (and 154-159 with [bound = core::ops::tr]) *)
Definition add_extra_ty_param_bound (ps : list oparam) (b : bound) : list oparam :=
  map (push_bound (fun _ => b)) ps.

(** utils.rs:206-218: the new predicates come first, the declaration's own follow *)
Definition add_extra_where_clauses (old : list wpred) (new : list wpred) : list wpred := new ++ old.

Definition is_lifetime (p : oparam) : bool := match p with OLifetime _ => true | _ => false end.
Definition is_type_param (p : oparam) : bool := match p with OType _ _ => true | _ => false end.
Definition is_const_param (p : oparam) : bool := match p with OConst _ => true | _ => false end.

(** utils.rs:185-204: lifetimes, type parameters, the new parameter, const parameters *)
Definition add_extra_generic_type_param (ps : list oparam) (p : oparam) : list oparam :=
  filter is_lifetime ps ++ filter is_type_param ps ++ [p] ++ filter is_const_param ps.

(** the distinct field types, as the [HashSet<&Type>] of mul_like.rs:39 / mul_assign_like.rs:38
    holds them (its iteration order is the hasher's; first-occurrence order here, compared as a
    set by the tie) *)
Fixpoint dedup (l : list N) : list N :=
  match l with
  | [] => []
  | x :: l' => x :: filter (fun y => negb (N.eqb x y)) (dedup l')
  end.

(** utils.rs:220-237 *)
Definition add_where_clauses_for_new_ident (g : generics) (nfields : nat) (new : list wpred) : header :=
  {| h_params := add_extra_generic_type_param (map orig_param (g_params g)) (ORhs (Nat.ltb 1 nfields));
     h_where := add_extra_where_clauses (map WOrig (g_where g)) new |}.

Definition has_type_param (g : generics) : bool :=
  existsb (fun p => match p with GType _ _ => true | _ => false end) (g_params g).

(** the header each expander puts around the body [im] it produced:
      add_like.rs:18-19 / not_like.rs:15-16   every type parameter gets [core::ops::Tr<Output = T>]
      add_assign_like.rs:14-15                every type parameter gets [core::ops::Tr]
      mul_like.rs:39-55, mul_assign_like.rs:38-52, mul_helpers.rs:26-33
                                              [__RhsT], one predicate per distinct field type
      sum_like.rs:23-34                       nothing without type parameters; otherwise every type
                                              parameter gets [with_trait::Sum] and the type itself
                                              must implement the operator *)
Definition header_of (t : trait) (g : generics) (inp : input) (im : impl) : header :=
  let ps := map orig_param (g_params g) in
  let plain w := {| h_params := w; h_where := map WOrig (g_where g) |} in
  let field_tys := match i_data inp with DStruct fs => map f_ty (field_list fs) | _ => [] end in
  match expander_of t, im_scalar im with
  | XAddLike, _ | XNotLike, _ | XMulLike, None =>
      plain (add_extra_type_param_bound_op_output ps (im_trait im))
  | XAddAssignLike, _ | XMulAssignLike, None =>
      plain (add_extra_ty_param_bound ps (BOp (im_trait im)))
  | XMulLike, Some _ =>
      add_where_clauses_for_new_ident g (List.length field_tys)
        (map (fun ty => WScalarOut ty (im_trait im)) (dedup field_tys))
  | XMulAssignLike, Some _ =>
      add_where_clauses_for_new_ident g (List.length field_tys)
        (map (fun ty => WScalar ty (im_trait im)) (dedup field_tys))
  | XSumLike, _ =>
      if has_type_param g then
        {| h_params := add_extra_ty_param_bound ps (BWith (im_trait im));
           h_where := add_extra_where_clauses (map WOrig (g_where g))
                        [WSelfOp (if str_eqb (im_trait im) (lit "Sum") then lit "Add" else lit "Mul")] |}
      else plain ps
  end.

Definition derive_header (lower : str -> str) (t : trait) (g : generics) (inp : input) : outcome header :=
  omap (header_of t g inp) (derive lower t inp).

(** /repo/src/ops.rs:23 and /repo/src/add.rs:23-30: Display of the two error structs *)
Definition unit_error_display (opname : str) : str := lit "Cannot " ++ opname ++ lit "() unit variants".
Definition wrong_variant_display (opname : str) : str :=
  lit "Trying to " ++ opname ++ lit "() mismatched enum variants".

(* ================================================================== semantics of the generated code *)

Inductive errkind := EBinUnit | EBinMismatch | EUnit.
Inductive res (A : Type) := RVal (x : A) | ROkV (x : A) | RErrV (k : errkind) (opname : str).
Arguments RVal {A} x.
Arguments ROkV {A} x.
Arguments RErrV {A} k opname.

Definition ctor_eqb (a b : ctor) : bool :=
  match a, b with
  | CStruct, CStruct => true
  | CVariant v, CVariant w => str_eqb v w
  | _, _ => false
  end.

Fixpoint mapM {A B} (f : A -> option B) (l : list A) : option (list B) :=
  match l with
  | [] => Some []
  | x :: l' => match f x, mapM f l' with
               | Some y, Some ys => Some (y :: ys)
               | _, _ => None
               end
  end.

Fixpoint assoc {A} (k : str) (l : list (str * A)) : option A :=
  match l with
  | [] => None
  | (k', x) :: l' => if str_eqb k k' then Some x else assoc k l'
  end.

(** the declaration context: which members, in which order, a constructor has *)
Definition ctx_of (inp : input) (c : ctor) : option (list member) :=
  match i_data inp, c with
  | DStruct fs, CStruct => Some (members_of fs)
  | DEnum vs, CVariant v =>
      option_map (fun vr => members_of (v_fields vr)) (find (fun vr => str_eqb (v_name vr) v) vs)
  | _, _ => None
  end.

Section Sem.
  Variable V : Type.
  Variable op : str -> V -> V -> V.            (* [x.meth(y)] on an operand; NOT assumed commutative *)
  Variable uop : str -> V -> V.                (* [x.meth()] *)
  Variable ident : str -> N -> V.              (* [Sum::sum(empty::<ty>())] / [Product::product(..)] *)
  Variable self_op : str -> list V -> list V -> list V.
      (* the implementation of [Add::add] / [Mul::mul] the struct itself has (used by the fold of
         Sum/Product); fields in declaration order *)

  Definition val : Type := ctor * list V.      (* a value: constructor + fields in declaration order *)

  (** field selection / update by member name, against the declared member list *)
  Fixpoint sel (ms : list member) (vals : list V) (m : member) : option V :=
    match ms, vals with
    | k :: ms', v :: vals' => if member_eqb m k then Some v else sel ms' vals' m
    | _, _ => None
    end.

  Fixpoint upd (ms : list member) (vals : list V) (m : member) (x : V) : list V :=
    match ms, vals with
    | k :: ms', v :: vals' => if member_eqb m k then x :: vals' else v :: upd ms' vals' m x
    | _, _ => vals
    end.

  Record env := {
    en_self : member -> option V;
    en_rhs : member -> option V;
    en_l : list V;
    en_r : list V;
    en_scalar : option V
  }.

  Definition no_member : member -> option V := fun _ => None.

  Fixpoint eval (en : env) (e : expr) : option V :=
    match e with
    | ESel Lhs m => en_self en m
    | ESel Rhs m => en_rhs en m
    | EVar Lhs i => nth_error (en_l en) i
    | EVar Rhs i => nth_error (en_r en) i
    | EScalar => en_scalar en
    | ECall _ meth a b =>
        match eval en a, eval en b with
        | Some x, Some y => Some (op meth x y)
        | _, _ => None
        end
    | ECall1 meth a => option_map (uop meth) (eval en a)
    | EIdentity meth ty => Some (ident meth ty)
    end.

  (** a constructor expression; named initialisers are resolved against the declaration *)
  Definition eval_build (ctx : ctor -> option (list member)) (en : env) (b : build) : option val :=
    match b with
    | BTuple c es => option_map (fun vs => (c, vs)) (mapM (eval en) es)
    | BNamed c inits =>
        match ctx c with
        | None => None
        | Some ms =>
            option_map (fun vs => (c, vs))
              (mapM (fun m => match m with
                              | MName x => match assoc x inits with Some e => eval en e | None => None end
                              | MIdx _ => None
                              end) ms)
        end
    end.

  Definition eval_rexpr ctx (en : env) (r : rexpr) : option (res val) :=
    match r with
    | RPlain b => option_map RVal (eval_build ctx en b)
    | ROk b => option_map ROkV (eval_build ctx en b)
    | RErrBinUnit o => Some (RErrV EBinUnit o)
    | RErrBinMismatch o => Some (RErrV EBinMismatch o)
    | RErrUnit o => Some (RErrV EUnit o)
    end.

  Definition pat_variant (p : pat) : str :=
    match p with PTuple v _ | PNamed v _ | PUnit v => v end.

  (** [None]: the pattern does not match; [Some vars]: the variables it binds, in order *)
  Definition bind_pat (ctx : ctor -> option (list member)) (p : pat) (x : val) : option (list V) :=
    if ctor_eqb (fst x) (CVariant (pat_variant p)) then
      match p with
      | PTuple _ _ => Some (snd x)
      | PUnit _ => Some []
      | PNamed _ names =>
          match ctx (fst x) with
          | Some ms => mapM (fun n => sel ms (snd x) (MName n)) names
          | None => None
          end
      end
    else None.

  Definition env_vars (l r : list V) : env :=
    {| en_self := no_member; en_rhs := no_member; en_l := l; en_r := r; en_scalar := None |}.

  Fixpoint match2 ctx (arms : list (pat * pat * rexpr)) (wild : option rexpr) (x y : val) : option (res val) :=
    match arms with
    | [] => match wild with Some r => eval_rexpr ctx (env_vars [] []) r | None => None end
    | (pl, pr, r) :: arms' =>
        match bind_pat ctx pl x, bind_pat ctx pr y with
        | Some l, Some rr => eval_rexpr ctx (env_vars l rr) r
        | _, _ => match2 ctx arms' wild x y
        end
    end.

  Fixpoint match1 ctx (arms : list (pat * rexpr)) (x : val) : option (res val) :=
    match arms with
    | [] => None
    | (p, r) :: arms' =>
        match bind_pat ctx p x with
        | Some l => eval_rexpr ctx (env_vars l []) r
        | None => match1 ctx arms' x
        end
    end.

  Definition env_struct (ms : list member) (a : list V) (b : option (list V)) (sc : option V) : env :=
    {| en_self := sel ms a;
       en_rhs := match b with Some b => sel ms b | None => no_member end;
       en_l := []; en_r := []; en_scalar := sc |}.

  (** value-returning bodies: [self op rhs], [self op scalar], [op self] *)
  Definition run_body ctx (bd : body) (x : val) (y : option val) (sc : option V) : option (res val) :=
    match bd with
    | BodyBuild b =>
        match ctx (fst x) with
        | Some ms => option_map RVal (eval_build ctx (env_struct ms (snd x) (option_map snd y) sc) b)
        | None => None
        end
    | BodyMatch2 arms wild => match y with Some y => match2 ctx arms wild x y | None => None end
    | BodyMatch1 arms => match1 ctx arms x
    | _ => None
    end.

  (** one statement [self.m.meth(arg)] / [<T as Tr<R>>::meth(&mut self.m, arg)]: updates [self.m] *)
  Definition exec_stmt (ms : list member) (b : option (list V)) (sc : option V) (a : list V) (e : expr)
    : option (list V) :=
    match e with
    | ECall _ meth (ESel Lhs m) arg =>
        match sel ms a m, eval (env_struct ms a b sc) arg with
        | Some x, Some y => Some (upd ms a m (op meth x y))
        | _, _ => None
        end
    | _ => None
    end.

  Fixpoint exec_stmts ms b sc (a : list V) (ss : list expr) : option (list V) :=
    match ss with
    | [] => Some a
    | s :: ss' => match exec_stmt ms b sc a s with
                  | Some a' => exec_stmts ms b sc a' ss'
                  | None => None
                  end
    end.

  (** [*Assign] bodies: the value of [self] afterwards *)
  Definition run_assign ctx (bd : body) (x : val) (y : option val) (sc : option V) : option val :=
    match bd with
    | BodyStmts ss =>
        match ctx (fst x) with
        | Some ms => option_map (fun a => (fst x, a)) (exec_stmts ms (option_map snd y) sc (snd x) ss)
        | None => None
        end
    | _ => None
    end.

  (** [iter.fold(identity, Op::op)] *)
  Definition run_fold ctx (bd : body) (xs : list val) : option val :=
    match bd with
    | BodyFold idb _ opm =>
        match eval_build ctx (env_vars [] []) idb with
        | Some i => Some (fold_left (fun acc x => (CStruct, self_op opm (snd acc) (snd x))) xs i)
        | None => None
        end
    | _ => None
    end.

  (** what the property says the field-wise operations are *)
  Fixpoint map2 (f : V -> V -> V) (a b : list V) : list V :=
    match a, b with
    | x :: a', y :: b' => f x y :: map2 f a' b'
    | _, _ => []
    end.
End Sem.

Arguments sel {V}.
Arguments upd {V}.
Arguments map2 {V}.

(* ================================================================== free term instantiation
   Used by the run-time tie (tools/props/c10.py): operands are strings, every operator builds the
   term "(meth L R)" from its operands' strings - the same thing the instrumented Rust operand
   type does.  The assigning methods record the name of the base operator (so that `a op= b` and
   `a op b` are comparable, which is what the operand type does too). *)

Definition free_op (m : str) (x y : str) : str :=
  lit "(" ++ trim_end_matches (lit "_assign") m ++ lit " " ++ x ++ lit " " ++ y ++ lit ")".
Definition free_uop (m : str) (x : str) : str := lit "(" ++ m ++ lit " " ++ x ++ lit ")".
Definition free_ident (m : str) (ty : N) : str := lit "(" ++ m ++ lit " T" ++ [48 + ty] ++ lit ")".

Definition show_val (x : ctor * list str) : str :=
  match fst x with
  | CStruct => join (lit "|") (snd x)
  | CVariant v => v ++ lit ":" ++ join (lit "|") (snd x)
  end.

Definition show_res (r : option (res (ctor * list str))) : str :=
  match r with
  | None => lit "STUCK"
  | Some (RVal x) => show_val x
  | Some (ROkV x) => lit "Ok " ++ show_val x
  | Some (RErrV EBinUnit o) => lit "Err Unit " ++ unit_error_display o
  | Some (RErrV EBinMismatch o) => lit "Err Mismatch " ++ wrong_variant_display o
  | Some (RErrV EUnit o) => lit "Err UnitOnly " ++ unit_error_display o
  end.

Definition show_outcome {A} (o : outcome A) (f : A -> str) : str :=
  match o with
  | Expanded x => f x
  | Rejected m => lit "REJECTED " ++ m
  | Panicked m => lit "PANICKED " ++ m
  end.

Definition no_self_op : str -> list str -> list str -> list str := fun _ a _ => a.

(** [self op rhs] / [self op scalar] / [op self] with the derive of [t] *)
Definition free_run (t : trait) (inp : input) (x : ctor * list str) (y : option (ctor * list str))
           (sc : option str) : str :=
  show_outcome (derive ascii_lower t inp)
    (fun im => show_res (run_body str free_op free_uop free_ident (ctx_of inp) (im_body im) x y sc)).

Definition free_assign (t : trait) (inp : input) (x : ctor * list str) (y : option (ctor * list str))
           (sc : option str) : str :=
  show_outcome (derive ascii_lower t inp)
    (fun im => match run_assign str free_op free_uop free_ident (ctx_of inp) (im_body im) x y sc with
               | Some v => show_val v
               | None => lit "STUCK"
               end).

(** the struct's own [Add]/[Mul]: either the one the derive of [opt] generates (when [custom] is
    false), or a hand-written field-wise one recording the upper-case method name *)
Definition free_self_op (custom : bool) (opt : trait) (inp : input) (m : str) (a b : list str) : list str :=
  if custom then map2 (fun x y => lit "(" ++ map (fun c => if (97 <=? c) && (c <=? 122) then c - 32 else c) m
                                   ++ lit " " ++ x ++ lit " " ++ y ++ lit ")") a b
  else
    match derive ascii_lower opt inp with
    | Expanded im =>
        match run_body str free_op free_uop free_ident (ctx_of inp) (im_body im) (CStruct, a) (Some (CStruct, b)) None with
        | Some (RVal v) => snd v
        | _ => [lit "STUCK"]
        end
    | _ => [lit "NOIMPL"]
    end.

Definition free_fold (t : trait) (custom : bool) (inp : input) (xs : list (list str)) : str :=
  show_outcome (derive ascii_lower t inp)
    (fun im => match run_fold str free_op free_uop free_ident
                              (free_self_op custom (match t with TSum => TAdd | _ => TMul end) inp)
                              (ctx_of inp) (im_body im) (map (fun a => (CStruct, a)) xs) with
               | Some v => show_val v
               | None => lit "STUCK"
               end).
