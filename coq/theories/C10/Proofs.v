(** C10 - proofs about the model of the operator expanders (Model.v). *)
From Coq Require Import String Ascii.
From Verif Require Import Base.Chars C10.Model.
From Coq Require Import Arith Lia.
Import ListNotations.
Open Scope N_scope.

(* ================================================================== strings *)

Lemma str_eqb_refl s : str_eqb s s = true.
Proof. apply str_eqb_eq. reflexivity. Qed.

Lemma str_eqb_neq a b : a <> b -> str_eqb a b = false.
Proof.
  intros H. destruct (str_eqb a b) eqn:E; [|reflexivity].
  apply str_eqb_eq in E. contradiction.
Qed.

Lemma strip_prefix_length p s s' :
  strip_prefix p s = Some s' -> List.length s = (List.length p + List.length s')%nat.
Proof.
  revert s; induction p as [|x p IH]; intros s H; cbn in *.
  - inversion H; reflexivity.
  - destruct s as [|y s]; [discriminate|].
    destruct (N.eqb x y); [|discriminate]. apply IH in H. cbn. lia.
Qed.

(** the fuel [length s] given to [trim_start_fuel] by [trim_end_matches] is enough: the result no
    longer starts with the pattern *)
Lemma trim_start_fuel_enough f p s :
  p <> [] -> (List.length s <= f)%nat -> strip_prefix p (trim_start_fuel f p s) = None.
Proof.
  intros Hp. revert s. induction f as [|f IH]; intros s Hl; cbn.
  - destruct s; [|cbn in Hl; lia]. destruct p; [contradiction|reflexivity].
  - destruct (strip_prefix p s) as [s'|] eqn:E; [|exact E].
    apply IH. apply strip_prefix_length in E.
    destruct p; [contradiction|]. cbn in E. lia.
Qed.

(* ================================================================== to_lowercase and the method names *)

(** what the theorems need from [str::to_lowercase]: on ASCII input it is ASCII lowering *)
Definition lower_ok (lower : str -> str) : Prop :=
  forall s, is_ascii s = true -> lower s = ascii_lower s.

Example lower_ok_satisfiable : lower_ok ascii_lower.
Proof. intros s _. reflexivity. Qed.

(** every method name some path of the expander of [t] can produce *)
Definition method_candidates (lower : str -> str) (t : trait) : list str :=
  match expander_of t with
  | XAddLike => [lower (trim_end_matches (lit "Self") (trait_name t))]
  | XAddAssignLike => [lower (trim_end_matches (lit "Assign") (trait_name t)) ++ lit "_assign"]
  | XMulLike => [lower (trait_name t); lower (trim_end_matches (lit "Self") (trait_name t))]
  | XMulAssignLike =>
      [trim_end_matches (lit "assign") (lower (trait_name t)) ++ lit "_assign";
       lower (trim_end_matches (lit "Assign") (trait_name t)) ++ lit "_assign"]
  | XNotLike => [lower (trait_name t)]
  | XSumLike => [lower (trait_name t)]
  end.

Lemma add_like_method lower inp tn im :
  add_like_expand lower inp tn = Expanded im ->
  im_method im = lower (trim_end_matches (lit "Self") tn).
Proof.
  unfold add_like_expand. destruct (i_data inp) as [[fs|fs|]|vs|]; intros H; inversion H; reflexivity.
Qed.

Lemma add_assign_like_method lower inp tn im :
  add_assign_like_expand lower inp tn = Expanded im ->
  im_method im = lower (trim_end_matches (lit "Assign") tn) ++ lit "_assign".
Proof.
  unfold add_assign_like_expand. destruct (i_data inp) as [[fs|fs|]|vs|]; intros H; inversion H; reflexivity.
Qed.

Lemma derive_method_in lower t inp im :
  derive lower t inp = Expanded im -> In (im_method im) (method_candidates lower t).
Proof.
  unfold derive, method_candidates. destruct (expander_of t); intros H.
  - left. symmetry. eapply add_like_method; eauto.
  - left. symmetry. eapply add_assign_like_method; eauto.
  - unfold mul_like_expand in H.
    destruct (state_new _ _ _ _) as [st| |]; try discriminate.
    destruct (st_forward st).
    + right; left. symmetry. eapply add_like_method; eauto.
    + destruct (st_dtype st); inversion H; left; reflexivity.
  - unfold mul_assign_like_expand in H.
    destruct (state_new _ _ _ _) as [st| |]; try discriminate.
    destruct (st_forward st).
    + right; left. symmetry. eapply add_assign_like_method; eauto.
    + destruct (st_dtype st); inversion H; left; reflexivity.
  - unfold not_like_expand in H.
    destruct (i_data inp) as [[fs|fs|]|vs|]; inversion H; left; reflexivity.
  - unfold sum_like_expand in H.
    destruct (state_new _ _ _ _) as [st| |]; try discriminate.
    destruct (st_dtype st); inversion H; left; reflexivity.
Qed.

Lemma candidates_lower lower t :
  lower_ok lower -> method_candidates lower t = method_candidates ascii_lower t.
Proof.
  intros Hl. destruct t; unfold method_candidates; cbn [expander_of trait_name];
    rewrite !Hl by (vm_compute; reflexivity); reflexivity.
Qed.

(** finite check: every candidate name of every one of the 24 traits is std's method name *)
Lemma names_table :
  forallb (fun t => forallb (str_eqb (std_method t)) (method_candidates ascii_lower t)) all_traits = true.
Proof. vm_compute. reflexivity. Qed.

Lemma all_traits_complete t : In t all_traits.
Proof. destruct t; cbn; tauto. Qed.

Lemma candidates_std lower t m :
  lower_ok lower -> In m (method_candidates lower t) -> m = std_method t.
Proof.
  intros Hl Hin. rewrite (candidates_lower lower t Hl) in Hin.
  pose proof names_table as T. rewrite forallb_forall in T.
  specialize (T t (all_traits_complete t)). rewrite forallb_forall in T.
  specialize (T m Hin). apply str_eqb_eq in T. congruence.
Qed.

Theorem method_names lower :
  lower_ok lower ->
  forall t inp im, derive lower t inp = Expanded im -> im_method im = std_method t.
Proof.
  intros Hl t inp im H. eapply candidates_std; eauto. eapply derive_method_in; eauto.
Qed.

(** the individual name computations, for rewriting inside the semantic theorems *)
Lemma name_self lower t :
  lower_ok lower -> expander_of t = XAddLike \/ expander_of t = XMulLike ->
  lower (trim_end_matches (lit "Self") (trait_name t)) = std_method t.
Proof.
  intros Hl H. apply (candidates_std lower t _ Hl). unfold method_candidates.
  destruct H as [H|H]; rewrite H; cbn; tauto.
Qed.

Lemma name_assign lower t :
  lower_ok lower -> expander_of t = XAddAssignLike \/ expander_of t = XMulAssignLike ->
  lower (trim_end_matches (lit "Assign") (trait_name t)) ++ lit "_assign" = std_method t.
Proof.
  intros Hl H. apply (candidates_std lower t _ Hl). unfold method_candidates.
  destruct H as [H|H]; rewrite H; cbn; tauto.
Qed.

Lemma name_plain lower t :
  lower_ok lower ->
  expander_of t = XMulLike \/ expander_of t = XNotLike \/ expander_of t = XSumLike ->
  lower (trait_name t) = std_method t.
Proof.
  intros Hl H. apply (candidates_std lower t _ Hl). unfold method_candidates.
  destruct H as [H|[H|H]]; rewrite H; cbn; tauto.
Qed.

Lemma name_mul_assign lower t :
  lower_ok lower -> expander_of t = XMulAssignLike ->
  trim_end_matches (lit "assign") (lower (trait_name t)) ++ lit "_assign" = std_method t.
Proof.
  intros Hl H. apply (candidates_std lower t _ Hl). unfold method_candidates.
  rewrite H; cbn; tauto.
Qed.

Lemma name_fold_op lower t :
  lower_ok lower -> expander_of t = XSumLike ->
  lower (if str_eqb (trait_name t) (lit "Sum") then lit "Add" else lit "Mul")
  = std_method (match t with TSum => TAdd | _ => TMul end).
Proof.
  intros Hl H. destruct t; try discriminate; cbn [trait_name];
    match goal with |- context [str_eqb ?a ?b] =>
      let v := eval vm_compute in (str_eqb a b) in change (str_eqb a b) with v end;
    cbv iota; rewrite Hl by (vm_compute; reflexivity); vm_compute; reflexivity.
Qed.

(* ================================================================== lists, members *)

Lemma member_eqb_eq a b : member_eqb a b = true <-> a = b.
Proof.
  destruct a as [i|s], b as [j|t]; cbn; split; intros H; try discriminate; try congruence.
  - apply Nat.eqb_eq in H. congruence.
  - inversion H. apply Nat.eqb_refl.
  - apply str_eqb_eq in H. congruence.
  - inversion H. apply str_eqb_refl.
Qed.

Lemma member_eqb_refl m : member_eqb m m = true.
Proof. apply member_eqb_eq. reflexivity. Qed.

Lemma member_eqb_neq a b : a <> b -> member_eqb a b = false.
Proof.
  intros H. destruct (member_eqb a b) eqn:E; [|reflexivity].
  apply member_eqb_eq in E. contradiction.
Qed.

Lemma mapM_ext_in {A B} (f g : A -> option B) l :
  (forall x, In x l -> f x = g x) -> mapM f l = mapM g l.
Proof.
  induction l as [|x l IH]; intros H; cbn; [reflexivity|].
  rewrite (H x) by (left; reflexivity). rewrite IH; [reflexivity|].
  intros y Hy. apply H. right. exact Hy.
Qed.

Lemma mapM_map {A B C} (f : B -> option C) (g : A -> B) l :
  mapM f (map g l) = mapM (fun x => f (g x)) l.
Proof. induction l as [|x l IH]; cbn; [reflexivity|]. rewrite IH. reflexivity. Qed.

Lemma mapM_some {A B} (f : A -> B) l : mapM (fun x => Some (f x)) l = Some (map f l).
Proof. induction l as [|x l IH]; cbn; [reflexivity|]. rewrite IH. reflexivity. Qed.

Lemma mapM_combine_fst {A B C} (g : A -> option C) (l : list A) (l' : list B) :
  List.length l' = List.length l ->
  mapM (fun p => g (fst p)) (combine l l') = mapM g l.
Proof.
  revert l'; induction l as [|x l IH]; intros [|y l'] H; cbn in *; try reflexivity; try discriminate.
  rewrite IH by lia. reflexivity.
Qed.

Lemma NoDup_map_inj {A B} (f : A -> B) l :
  (forall x y, f x = f y -> x = y) -> NoDup l -> NoDup (map f l).
Proof.
  intros Hinj H. induction H as [|x l Hx Hl IH]; cbn; constructor; [|exact IH].
  intros Hin. apply in_map_iff in Hin as [y [Hy Hin]]. apply Hinj in Hy. subst. contradiction.
Qed.

Lemma members_unnamed_nodup l : NoDup (members_of (FUnnamed l)).
Proof.
  cbn. apply NoDup_map_inj; [intros x y H; congruence|apply seq_NoDup].
Qed.

Lemma members_length fs : List.length (members_of fs) = List.length (field_list fs).
Proof.
  destruct fs as [l|l|]; cbn; [unfold field_names; rewrite !map_length; reflexivity|rewrite map_length, seq_length; reflexivity|reflexivity].
Qed.

Section SemProofs.
  Variable V : Type.
  Variable op : str -> V -> V -> V.
  Variable uop : str -> V -> V.
  Variable ident : str -> N -> V.

  Notation eval := (eval V op uop ident).
  Notation env_struct := (env_struct V).
  Notation env_vars := (env_vars V).
  Notation eval_build := (eval_build V op uop ident).
  Notation run_body := (run_body V op uop ident).
  Notation run_assign := (run_assign V op uop ident).
  Notation exec_stmts := (exec_stmts V op uop ident).
  Notation exec_stmt := (exec_stmt V op uop ident).

  Lemma sel_head k ms (x : V) a : sel (k :: ms) (x :: a) k = Some x.
  Proof. cbn. rewrite member_eqb_refl. reflexivity. Qed.

  Lemma sel_tail k ms (x : V) a m : member_eqb m k = false -> sel (k :: ms) (x :: a) m = sel ms a m.
  Proof. intros H. cbn. rewrite H. reflexivity. Qed.

  Lemma nodup_tail_neq (k : member) ms m : NoDup (k :: ms) -> In m ms -> member_eqb m k = false.
  Proof.
    intros H Hin. apply member_eqb_neq. intros ->. inversion H; contradiction.
  Qed.

  (** selecting every declared member, in order, pairs the operands up field by field *)
  Lemma mapM_sel2 (h : V -> V -> V) ms : forall a b,
    NoDup ms -> List.length a = List.length ms -> List.length b = List.length ms ->
    mapM (fun m => match sel ms a m, sel ms b m with
                   | Some x, Some y => Some (h x y)
                   | _, _ => None
                   end) ms = Some (map2 h a b).
  Proof.
    induction ms as [|k ms IH]; intros a b Hnd Ha Hb.
    - destruct a, b; try discriminate. reflexivity.
    - destruct a as [|x a], b as [|y b]; try discriminate.
      cbn [mapM]. rewrite !sel_head.
      rewrite (mapM_ext_in _ (fun m => match sel ms a m, sel ms b m with
                                       | Some x, Some y => Some (h x y)
                                       | _, _ => None
                                       end)).
      2:{ intros m Hm. rewrite !sel_tail by (eapply nodup_tail_neq; eauto). reflexivity. }
      rewrite IH; [reflexivity| |cbn in *; lia|cbn in *; lia].
      inversion Hnd; assumption.
  Qed.

  Lemma map2_const (f : V -> V -> V) a : map2 (fun x _ => f x x) a a = map (fun x => f x x) a.
  Proof. induction a as [|x a IH]; cbn; [reflexivity|]. rewrite IH. reflexivity. Qed.

  Lemma mapM_sel1 (h : V -> V) ms a :
    NoDup ms -> List.length a = List.length ms ->
    mapM (fun m => option_map h (sel ms a m)) ms = Some (map h a).
  Proof.
    intros Hnd Ha.
    rewrite (mapM_ext_in _ (fun m => match sel ms a m, sel ms a m with
                                     | Some x, Some _ => Some (h x)
                                     | _, _ => None
                                     end)).
    2:{ intros m _. destruct (sel ms a m); reflexivity. }
    rewrite (mapM_sel2 (fun x _ => h x)) by assumption.
    f_equal. clear. induction a as [|x a IH]; cbn; [reflexivity|]. rewrite IH. reflexivity.
  Qed.

  Lemma mapM_sel_id ms (a : list V) :
    NoDup ms -> List.length a = List.length ms -> mapM (sel ms a) ms = Some a.
  Proof.
    intros Hnd Ha.
    rewrite (mapM_ext_in _ (fun m => option_map (fun x => x) (sel ms a m))).
    2:{ intros m _. destruct (sel ms a m); reflexivity. }
    rewrite mapM_sel1 by assumption. rewrite map_id. reflexivity.
  Qed.

  (** a struct literal with named initialisers, when the initialisers are aligned with the
      (duplicate-free) declared names: evaluates them in declaration order *)
  Lemma build_named_aligned (F : expr -> option V) names : forall es,
    NoDup names -> List.length es = List.length names ->
    mapM (fun m => match m with
                   | MName x => match assoc x (combine names es) with Some e => F e | None => None end
                   | MIdx _ => None
                   end) (map MName names) = mapM F es.
  Proof.
    induction names as [|x names IH]; intros es Hnd Hl.
    - destruct es; [reflexivity|discriminate].
    - destruct es as [|e es]; [discriminate|].
      cbn [map mapM combine assoc]. rewrite str_eqb_refl.
      rewrite (mapM_ext_in _ (fun m => match m with
                                       | MName x => match assoc x (combine names es) with Some e => F e | None => None end
                                       | MIdx _ => None
                                       end)).
      2:{ intros m Hm. apply in_map_iff in Hm as [y [<- Hy]].
          cbn [assoc]. rewrite str_eqb_neq; [reflexivity|].
          intros ->. inversion Hnd; contradiction. }
      rewrite IH; [reflexivity| |cbn in Hl; lia].
      inversion Hnd; assumption.
  Qed.

  Lemma combine_map_self {A B} (f : A -> B) l : combine l (map f l) = map (fun x => (x, f x)) l.
  Proof. induction l as [|x l IH]; cbn; [reflexivity|]. rewrite IH. reflexivity. Qed.

  (** pattern variables, positionally *)
  Lemma mapM_vars2 (h : V -> V -> V) : forall l r,
    List.length r = List.length l ->
    mapM (fun i => match nth_error l i, nth_error r i with
                   | Some x, Some y => Some (h x y)
                   | _, _ => None
                   end) (seq 0 (List.length l)) = Some (map2 h l r).
  Proof.
    induction l as [|x l IH]; intros r Hr.
    - destruct r; [reflexivity|discriminate].
    - destruct r as [|y r]; [discriminate|].
      cbn [List.length seq mapM nth_error]. rewrite <- seq_shift, mapM_map. cbn [nth_error].
      rewrite IH by (cbn in Hr; lia). reflexivity.
  Qed.

  Lemma mapM_vars1 (h : V -> V) : forall l,
    mapM (fun i => option_map h (nth_error l i)) (seq 0 (List.length l)) = Some (map h l).
  Proof.
    induction l as [|x l IH]; [reflexivity|].
    cbn [List.length seq mapM nth_error option_map]. rewrite <- seq_shift, mapM_map. cbn [nth_error].
    rewrite IH. reflexivity.
  Qed.

  (* ---------------------------------------------------------------- struct bodies *)

  (** the three per-member expression families of the struct expanders *)
  Lemma eval_members_bin ms a b sc meth (st : member -> callstyle) :
    NoDup ms -> List.length a = List.length ms -> List.length b = List.length ms ->
    mapM (fun m => eval (env_struct ms a (Some b) sc) (ECall (st m) meth (ESel Lhs m) (ESel Rhs m))) ms
    = Some (map2 (op meth) a b).
  Proof. intros. cbn [Model.eval env_struct en_self en_rhs]. apply mapM_sel2; assumption. Qed.

  Lemma eval_members_scalar ms a r meth (st : member -> callstyle) :
    NoDup ms -> List.length a = List.length ms ->
    mapM (fun m => eval (env_struct ms a None (Some r)) (ECall (st m) meth (ESel Lhs m) EScalar)) ms
    = Some (map (fun x => op meth x r) a).
  Proof.
    intros. cbn [Model.eval env_struct en_self en_scalar].
    rewrite <- (mapM_sel1 (fun x => op meth x r) ms a) by assumption.
    apply mapM_ext_in. intros m _. destruct (sel ms a m); reflexivity.
  Qed.

  Lemma eval_members_unary ms a meth :
    NoDup ms -> List.length a = List.length ms ->
    mapM (fun m => eval (env_struct ms a None None) (ECall1 meth (ESel Lhs m))) ms
    = Some (map (uop meth) a).
  Proof. intros. cbn [Model.eval env_struct en_self]. apply mapM_sel1; assumption. Qed.

  (** a struct constructor whose initialisers are a per-member family [e], tuple or named *)
  Definition family_build (fs : fields) (e : member -> expr) : build :=
    match fs with
    | FUnnamed l => BTuple CStruct (map (fun i => e (MIdx i)) (seq 0 (List.length l)))
    | FNamed l => BNamed CStruct (combine (field_names l) (map (fun x => e (MName x)) (field_names l)))
    | FUnit => BNamed CStruct []
    end.

  Lemma eval_family_build ctx en fs e :
    ctx CStruct = Some (members_of fs) -> NoDup (members_of fs) ->
    eval_build ctx en (family_build fs e)
    = option_map (fun vs => (CStruct, vs)) (mapM (fun m => eval en (e m)) (members_of fs)).
  Proof.
    intros Hctx Hnd. destruct fs as [l|l|]; cbn [family_build Model.eval_build members_of].
    - rewrite Hctx.
      rewrite build_named_aligned.
      + rewrite !mapM_map. reflexivity.
      + cbn [members_of] in Hnd. eapply NoDup_map_inv; eauto.
      + rewrite map_length. reflexivity.
    - rewrite !mapM_map. reflexivity.
    - rewrite Hctx. reflexivity.
  Qed.

  (* ---------------------------------------------------------------- assignment bodies *)

  Lemma exec_skip (st : member -> callstyle) meth (arg : member -> expr) sc k ms' bo bo' (x : V) ks :
    (forall m, In m ks -> member_eqb m k = false) ->
    (forall m a1 a2, In m ks ->
       eval (env_struct (k :: ms') a1 bo sc) (arg m) = eval (env_struct ms' a2 bo' sc) (arg m)) ->
    forall a',
      exec_stmts (k :: ms') bo sc (x :: a') (map (fun m => ECall (st m) meth (ESel Lhs m) (arg m)) ks)
      = option_map (cons x) (exec_stmts ms' bo' sc a' (map (fun m => ECall (st m) meth (ESel Lhs m) (arg m)) ks)).
  Proof.
    induction ks as [|m ks IH]; intros Hne Harg a'; [reflexivity|].
    cbn [map Model.exec_stmts Model.exec_stmt].
    rewrite sel_tail by (apply Hne; left; reflexivity).
    rewrite (Harg m (x :: a') a') by (left; reflexivity).
    destruct (sel ms' a' m) as [v|]; [|reflexivity].
    destruct (eval (env_struct ms' a' bo' sc) (arg m)) as [w|]; [|reflexivity].
    cbn [upd]. rewrite (Hne m) by (left; reflexivity).
    apply IH.
    - intros m' Hm'. apply Hne. right. exact Hm'.
    - intros m' a1 a2 Hm'. apply Harg. right. exact Hm'.
  Qed.

  Lemma exec_members_bin meth (st : member -> callstyle) ms : forall a b,
    NoDup ms -> List.length a = List.length ms -> List.length b = List.length ms ->
    exec_stmts ms (Some b) None a (map (fun m => ECall (st m) meth (ESel Lhs m) (ESel Rhs m)) ms)
    = Some (map2 (op meth) a b).
  Proof.
    induction ms as [|k ms IH]; intros a b Hnd Ha Hb.
    - destruct a, b; try discriminate. reflexivity.
    - destruct a as [|x a], b as [|y b]; try discriminate.
      cbn [map Model.exec_stmts Model.exec_stmt]. rewrite sel_head.
      cbn [Model.eval env_struct en_rhs]. rewrite sel_head. cbn [upd]. rewrite member_eqb_refl.
      rewrite (exec_skip st meth (fun m => ESel Rhs m) None k ms (Some (y :: b)) (Some b)).
      + rewrite IH; [reflexivity| |cbn in *; lia|cbn in *; lia]. inversion Hnd; assumption.
      + intros m Hm. eapply nodup_tail_neq; eauto.
      + intros m a1 a2 Hm. cbn [Model.eval env_struct en_rhs]. apply sel_tail. eapply nodup_tail_neq; eauto.
  Qed.

  Lemma exec_members_scalar meth (st : member -> callstyle) r ms : forall a,
    NoDup ms -> List.length a = List.length ms ->
    exec_stmts ms None (Some r) a (map (fun m => ECall (st m) meth (ESel Lhs m) EScalar) ms)
    = Some (map (fun x => op meth x r) a).
  Proof.
    induction ms as [|k ms IH]; intros a Hnd Ha.
    - destruct a; try discriminate. reflexivity.
    - destruct a as [|x a]; try discriminate.
      cbn [map Model.exec_stmts Model.exec_stmt]. rewrite sel_head.
      cbn [Model.eval env_struct en_scalar]. cbn [upd]. rewrite member_eqb_refl.
      rewrite (exec_skip st meth (fun _ => EScalar) (Some r) k ms None None).
      + rewrite IH; [reflexivity| |cbn in *; lia]. inversion Hnd; assumption.
      + intros m Hm. eapply nodup_tail_neq; eauto.
      + intros m a1 a2 Hm. reflexivity.
  Qed.

End SemProofs.

(* ================================================================== hypotheses of the theorems *)

Definition struct_input (attrs : list attr) (fs : fields) : input :=
  {| i_attrs := attrs; i_data := DStruct fs |}.
Definition enum_input (attrs : list attr) (vs : list variant) : input :=
  {| i_attrs := attrs; i_data := DEnum vs |}.

(** no attribute whose first path segment is [name] *)
Definition no_attr (name : str) (attrs : list attr) : Prop :=
  filter (fun a => str_eqb (at_name a) name) attrs = [].
Definition fields_clean (name : str) (fs : fields) : Prop :=
  Forall (fun f => no_attr name (f_attrs f)) (field_list fs).

(** [#[mul(forward)]] (or an equivalent spelling) is present / absent on the container; the
    attribute is named like the method ([mul], [shr_assign], ...) *)
Definition forward_on (t : trait) (attrs : list attr) : Prop :=
  get_meta_info (std_method t) attrs [lit "forward"] = inr (Some true).
Definition forward_off (t : trait) (attrs : list attr) : Prop :=
  exists fw, get_meta_info (std_method t) attrs [lit "forward"] = inr fw /\ fw <> Some true.

Example forward_on_satisfiable :
  forward_on TMul [{| at_name := lit "mul"; at_meta := MetaList [AWord (lit "forward")] |}].
Proof. vm_compute. reflexivity. Qed.

Example forward_off_satisfiable_no_attribute : forward_off TShr [].
Proof. exists None. split; [reflexivity|discriminate]. Qed.

Example forward_off_satisfiable_not_forward :
  forward_off TMul [{| at_name := lit "mul"; at_meta := MetaList [ANot [IWord (lit "forward")]] |}].
Proof. exists (Some false). split; [vm_compute; reflexivity|discriminate]. Qed.

Lemma first_meta_error_clean name allowed fl :
  Forall (fun f => no_attr name (f_attrs f)) fl ->
  first_meta_error name (map f_attrs fl) allowed = None.
Proof.
  induction 1 as [|f fl Hf _ IH]; cbn; [reflexivity|].
  unfold get_meta_info. unfold no_attr in Hf. rewrite Hf. exact IH.
Qed.

Definition st_of (fw : option bool) (fs : fields) : state :=
  {| st_forward := match fw with Some b => b | None => false end;
     st_dtype := match fs with FUnnamed _ => DtUnnamed | _ => DtNamed end;
     st_fields := fs |}.

Lemma state_new_struct tn name ap attrs fs fw :
  get_meta_info name attrs (ap_struct ap) = inr fw -> fields_clean name fs ->
  state_new tn name ap (struct_input attrs fs) = Expanded (st_of fw fs).
Proof.
  intros Hm Hc. unfold state_new, struct_input; cbn [i_data i_attrs]. rewrite Hm.
  unfold field_attrs. rewrite first_meta_error_clean by exact Hc. reflexivity.
Qed.

(** no variant and no field of a variant carries an attribute named [name] *)
Definition variants_clean (name : str) (vs : list variant) : Prop :=
  Forall (fun v => no_attr name (v_attrs v)) vs /\
  Forall (fun v => fields_clean name (v_fields v)) vs.

Lemma first_meta_error_none name allowed (l : list (list attr)) :
  Forall (no_attr name) l -> first_meta_error name l allowed = None.
Proof.
  induction 1 as [|a l Ha _ IH]; cbn; [reflexivity|].
  unfold get_meta_info. unfold no_attr in Ha. rewrite Ha. exact IH.
Qed.

Lemma state_new_enum tn name ap attrs vs fw :
  get_meta_info name attrs (ap_enum ap) = inr fw -> variants_clean name vs ->
  state_new tn name ap (enum_input attrs vs)
  = Expanded {| st_forward := match fw with Some b => b | None => false end;
                st_dtype := DtEnum; st_fields := FUnit |}.
Proof.
  intros Hm [Hv Hf]. unfold state_new, enum_input; cbn [i_data i_attrs]. rewrite Hm.
  rewrite first_meta_error_none.
  2:{ apply Forall_map. exact Hv. }
  rewrite first_meta_error_none; [reflexivity|].
  apply Forall_forall. intros a Ha. apply in_flat_map in Ha as [v [Hin Ha]].
  unfold field_attrs in Ha. apply in_map_iff in Ha as [f [<- Hf']].
  rewrite Forall_forall in Hf. specialize (Hf v Hin). unfold fields_clean in Hf.
  rewrite Forall_forall in Hf. apply Hf. exact Hf'.
Qed.

Section Theorems.
  Variable lower : str -> str.
  Hypothesis Hlower : lower_ok lower.
  Variable V : Type.
  Variable op : str -> V -> V -> V.
  Variable uop : str -> V -> V.
  Variable ident : str -> N -> V.

  Notation eval := (eval V op uop ident).
  Notation env_struct := (env_struct V).
  Notation eval_build := (eval_build V op uop ident).
  Notation run_body := (run_body V op uop ident).
  Notation run_assign := (run_assign V op uop ident).
  Notation exec_stmts := (exec_stmts V op uop ident).

  Lemma ctx_struct attrs fs : ctx_of (struct_input attrs fs) CStruct = Some (members_of fs).
  Proof. reflexivity. Qed.

  (** running a body that builds the struct from a per-member family *)
  Lemma run_family attrs fs e x y sc :
    NoDup (members_of fs) ->
    run_body (ctx_of (struct_input attrs fs)) (BodyBuild (family_build fs e)) (CStruct, x) y sc
    = option_map (fun vs => RVal (CStruct, vs))
        (mapM (fun m => eval (env_struct (members_of fs) x (option_map snd y) sc) (e m)) (members_of fs)).
  Proof.
    intros Hnd. unfold Model.run_body. cbn [fst snd]. rewrite ctx_struct.
    rewrite eval_family_build by (auto using ctx_struct).
    destruct (mapM _ _); reflexivity.
  Qed.

  (* ---------------------------------------------------------------- field-wise binary operators *)

  Lemma add_like_struct_run tn attrs fs a b :
    fs <> FUnit -> NoDup (members_of fs) ->
    List.length a = List.length (members_of fs) -> List.length b = List.length (members_of fs) ->
    exists im,
      add_like_expand lower (struct_input attrs fs) tn = Expanded im /\
      run_body (ctx_of (struct_input attrs fs)) (im_body im) (CStruct, a) (Some (CStruct, b)) None
      = Some (RVal (CStruct, map2 (op (lower (trim_end_matches (lit "Self") tn))) a b)).
  Proof.
    intros Hu Hnd Ha Hb.
    set (meth := lower (trim_end_matches (lit "Self") tn)).
    assert (Hrun : run_body (ctx_of (struct_input attrs fs))
                     (BodyBuild (family_build fs (fun m => ECall (CPath (receiver meth)) meth (ESel Lhs m) (ESel Rhs m))))
                     (CStruct, a) (Some (CStruct, b)) None
                   = Some (RVal (CStruct, map2 (op meth) a b))).
    { rewrite run_family by assumption. cbn [option_map snd].
      rewrite (eval_members_bin V op uop ident _ a b None meth (fun _ => CPath (receiver meth))) by assumption.
      reflexivity. }
    destruct fs as [l|l|]; [| |contradiction]; eexists; (split; [reflexivity|exact Hrun]).
  Qed.

  Theorem struct_binary t attrs fs a b :
    fs <> FUnit -> NoDup (members_of fs) ->
    (expander_of t = XAddLike \/
     (expander_of t = XMulLike /\ forward_on t attrs /\ fields_clean (std_method t) fs)) ->
    List.length a = List.length (members_of fs) -> List.length b = List.length (members_of fs) ->
    exists im,
      derive lower t (struct_input attrs fs) = Expanded im /\
      run_body (ctx_of (struct_input attrs fs)) (im_body im) (CStruct, a) (Some (CStruct, b)) None
      = Some (RVal (CStruct, map2 (op (std_method t)) a b)).
  Proof.
    intros Hu Hnd Hmode Ha Hb.
    destruct (add_like_struct_run (trait_name t) attrs fs a b Hu Hnd Ha Hb) as [im [He Hr]].
    exists im. unfold derive. destruct Hmode as [Hx|[Hx [Hf Hc]]]; rewrite Hx.
    - split; [exact He|]. rewrite Hr. rewrite name_self by auto. reflexivity.
    - unfold mul_like_expand. rewrite (name_plain lower t Hlower) by auto.
      rewrite (state_new_struct _ _ params_mul_like attrs fs (Some true)) by assumption.
      cbn [st_of st_forward]. split; [exact He|]. rewrite Hr. rewrite name_self by auto. reflexivity.
  Qed.

  (* ---------------------------------------------------------------- scalar right-hand side *)

  Lemma eval_initializer attrs fw fs en es :
    NoDup (members_of fs) -> List.length es = List.length (members_of fs) ->
    eval_build (ctx_of (struct_input attrs fs)) en (initializer (st_of fw fs) es)
    = option_map (fun vs => (CStruct, vs)) (mapM (eval en) es).
  Proof.
    intros Hnd Hl. unfold initializer, st_of; cbn [st_dtype st_fields].
    destruct fs as [l|l|]; cbn [Model.eval_build].
    - rewrite ctx_struct. cbn [members_of]. rewrite build_named_aligned; [reflexivity| |].
      + cbn [members_of] in Hnd. eapply NoDup_map_inv; eauto.
      + cbn [members_of] in Hl. rewrite map_length in Hl. exact Hl.
    - reflexivity.
    - rewrite ctx_struct. cbn [members_of] in *. destruct es; [reflexivity|discriminate].
  Qed.

  Lemma scalar_exprs_length fs meth r : List.length (scalar_exprs fs meth r) = List.length (members_of fs).
  Proof.
    unfold scalar_exprs. rewrite map_length, combine_length, members_length. apply Nat.min_id.
  Qed.

  Lemma forward_off_state t attrs fs tn ap :
    ap_struct ap = [lit "forward"] -> forward_off t attrs -> fields_clean (std_method t) fs ->
    exists fw, state_new tn (std_method t) ap (struct_input attrs fs) = Expanded (st_of fw fs) /\
               st_forward (st_of fw fs) = false.
  Proof.
    intros Hap [fw [Hm Hne]] Hc. exists fw. split.
    - apply state_new_struct; [rewrite Hap; exact Hm|exact Hc].
    - destruct fw as [[|]|]; cbn; congruence.
  Qed.

  Lemma st_of_dtype fw fs : st_dtype (st_of fw fs) <> DtEnum.
  Proof. destruct fs; cbn; discriminate. Qed.

  Theorem struct_scalar t attrs fs a r :
    expander_of t = XMulLike -> forward_off t attrs -> fields_clean (std_method t) fs ->
    NoDup (members_of fs) -> List.length a = List.length (members_of fs) ->
    exists im,
      derive lower t (struct_input attrs fs) = Expanded im /\
      im_scalar im = Some (Nat.ltb 1 (List.length a)) /\
      run_body (ctx_of (struct_input attrs fs)) (im_body im) (CStruct, a) None (Some r)
      = Some (RVal (CStruct, map (fun x => op (std_method t) x r) a)).
  Proof.
    intros Hx Hoff Hc Hnd Ha.
    destruct (forward_off_state t attrs fs (trait_name t) params_mul_like eq_refl Hoff Hc) as [fw [Hst Hfw]].
    unfold derive. rewrite Hx. unfold mul_like_expand.
    rewrite (name_plain lower t Hlower) by auto. rewrite Hst, Hfw.
    destruct (st_dtype (st_of fw fs)) eqn:Hd; [| |exfalso; eapply st_of_dtype; eauto];
      (eexists; split; [reflexivity|]; cbn [im_scalar im_body st_fields st_of]; split;
       [unfold scalar_needs_copy; rewrite Ha, members_length; reflexivity|]).
    all: unfold Model.run_body; cbn [fst snd option_map]; rewrite ctx_struct;
      rewrite eval_initializer by (auto using scalar_exprs_length);
      unfold scalar_exprs; rewrite mapM_map;
      rewrite (mapM_ext_in _ (fun p => eval (env_struct (members_of fs) a None (Some r))
                                         (ECall (CPath RefNo) (std_method t) (ESel Lhs (fst p)) EScalar)))
        by (intros; reflexivity);
      rewrite (mapM_combine_fst (fun m => eval (env_struct (members_of fs) a None (Some r))
                                            (ECall (CPath RefNo) (std_method t) (ESel Lhs m) EScalar)))
        by (symmetry; apply members_length);
      rewrite (eval_members_scalar V op uop ident _ a r (std_method t) (fun _ => (CPath RefNo))) by assumption;
      reflexivity.
  Qed.

  (* ---------------------------------------------------------------- unary *)

  Theorem struct_unary t attrs fs a :
    expander_of t = XNotLike -> fs <> FUnit -> NoDup (members_of fs) ->
    List.length a = List.length (members_of fs) ->
    exists im,
      derive lower t (struct_input attrs fs) = Expanded im /\
      run_body (ctx_of (struct_input attrs fs)) (im_body im) (CStruct, a) None None
      = Some (RVal (CStruct, map (uop (std_method t)) a)).
  Proof.
    intros Hx Hu Hnd Ha. unfold derive. rewrite Hx. unfold not_like_expand.
    rewrite (name_plain lower t Hlower) by auto.
    assert (Hrun : run_body (ctx_of (struct_input attrs fs))
                     (BodyBuild (family_build fs (fun m => ECall1 (std_method t) (ESel Lhs m))))
                     (CStruct, a) None None
                   = Some (RVal (CStruct, map (uop (std_method t)) a))).
    { rewrite run_family by assumption. cbn [option_map].
      rewrite eval_members_unary by assumption. reflexivity. }
    destruct fs as [l|l|]; [| |contradiction]; cbn [struct_input i_data]; eexists; (split; [reflexivity|]);
      cbn [im_body].
    - unfold not_struct_content. rewrite <- (combine_map_self (fun x => ECall1 (std_method t) (ESel Lhs (MName x)))).
      exact Hrun.
    - exact Hrun.
  Qed.

End Theorems.

(* ================================================================== assignment, fold, enums *)

Lemma map2_ext {V} (f g : V -> V -> V) a b : (forall x y, f x y = g x y) -> map2 f a b = map2 g a b.
Proof.
  intros H. revert b; induction a as [|x a IH]; intros [|y b]; cbn; try reflexivity.
  rewrite H, IH. reflexivity.
Qed.

Lemma tuple_exprs_members l meth :
  tuple_exprs (List.length l) meth
  = map (fun m => ECall (CPath (receiver meth)) meth (ESel Lhs m) (ESel Rhs m)) (members_of (FUnnamed l)).
Proof. unfold tuple_exprs. cbn [members_of]. rewrite map_map. reflexivity. Qed.

Lemma struct_exprs_members l meth :
  struct_exprs (field_names l) meth
  = map (fun m => ECall (CPath (receiver meth)) meth (ESel Lhs m) (ESel Rhs m)) (members_of (FNamed l)).
Proof. unfold struct_exprs. cbn [members_of]. rewrite map_map. reflexivity. Qed.

Lemma base_of_add_assign t : expander_of t = XAddAssignLike -> expander_of (base_of t) = XAddLike.
Proof. destruct t; cbn; congruence. Qed.

Lemma base_of_mul_assign t : expander_of t = XMulAssignLike -> expander_of (base_of t) = XMulLike.
Proof. destruct t; cbn; congruence. Qed.

Lemma two_in_length {A} (x y : A) l : In x l -> In y l -> x <> y -> (1 <? List.length l)%nat = true.
Proof.
  destruct l as [|p [|q l]]; cbn; intros Hx Hy Hne; try tauto.
  destruct Hx as [<-|[]], Hy as [<-|[]]. contradiction.
Qed.

Section Theorems2.
  Variable lower : str -> str.
  Hypothesis Hlower : lower_ok lower.
  Variable V : Type.
  Variable op : str -> V -> V -> V.
  Variable uop : str -> V -> V.
  Variable ident : str -> N -> V.

  Notation eval := (eval V op uop ident).
  Notation env_struct := (env_struct V).
  Notation env_vars := (env_vars V).
  Notation eval_build := (eval_build V op uop ident).
  Notation eval_rexpr := (eval_rexpr V op uop ident).
  Notation run_body := (run_body V op uop ident).
  Notation run_assign := (run_assign V op uop ident).
  Notation run_fold := (run_fold V op uop ident).
  Notation exec_stmts := (exec_stmts V op uop ident).
  Notation match2 := (match2 V op uop ident).
  Notation match1 := (match1 V op uop ident).
  Notation bind_pat := (bind_pat V).

  (* ---------------------------------------------------------------- *Assign *)

  Lemma exec_combine_fst {B} (sty : member * B -> callstyle) meth (arg : member -> expr) ms0 bo sc :
    forall ms (fl : list B) a, List.length fl = List.length ms ->
      exec_stmts ms0 bo sc a (map (fun p => ECall (sty p) meth (ESel Lhs (fst p)) (arg (fst p))) (combine ms fl))
      = exec_stmts ms0 bo sc a (map (fun m => ECall (CPath RefNo) meth (ESel Lhs m) (arg m)) ms).
  Proof.
    induction ms as [|k ms IH]; intros [|y fl] a Hl; cbn in Hl; try discriminate; [reflexivity|].
    cbn [combine map Model.exec_stmts Model.exec_stmt fst].
    destruct (sel ms0 a k); [|reflexivity].
    destruct (eval _ (arg k)); [|reflexivity].
    apply IH. lia.
  Qed.

  Lemma add_assign_like_struct_run tn attrs fs a b :
    fs <> FUnit -> NoDup (members_of fs) ->
    List.length a = List.length (members_of fs) -> List.length b = List.length (members_of fs) ->
    exists im,
      add_assign_like_expand lower (struct_input attrs fs) tn = Expanded im /\
      run_assign (ctx_of (struct_input attrs fs)) (im_body im) (CStruct, a) (Some (CStruct, b)) None
      = Some (CStruct, map2 (op (lower (trim_end_matches (lit "Assign") tn) ++ lit "_assign")) a b).
  Proof.
    intros Hu Hnd Ha Hb.
    destruct fs as [l|l|]; [| |contradiction]; eexists; (split; [reflexivity|]);
      unfold Model.run_assign; cbn [im_body fst snd option_map]; rewrite ctx_struct;
      [rewrite struct_exprs_members|rewrite tuple_exprs_members];
      rewrite (exec_members_bin V op uop ident _ (fun _ => CPath (receiver _))) by assumption; reflexivity.
  Qed.

  Theorem struct_assign_fieldwise t attrs fs a b :
    fs <> FUnit -> NoDup (members_of fs) ->
    (expander_of t = XAddAssignLike \/
     (expander_of t = XMulAssignLike /\ forward_on t attrs /\ fields_clean (std_method t) fs)) ->
    List.length a = List.length (members_of fs) -> List.length b = List.length (members_of fs) ->
    exists im,
      derive lower t (struct_input attrs fs) = Expanded im /\
      run_assign (ctx_of (struct_input attrs fs)) (im_body im) (CStruct, a) (Some (CStruct, b)) None
      = Some (CStruct, map2 (op (std_method t)) a b).
  Proof.
    intros Hu Hnd Hmode Ha Hb.
    destruct (add_assign_like_struct_run (trait_name t) attrs fs a b Hu Hnd Ha Hb) as [im [He Hr]].
    exists im. unfold derive. destruct Hmode as [Hx|[Hx [Hf Hc]]]; rewrite Hx.
    - split; [exact He|]. rewrite Hr. rewrite name_assign by auto. reflexivity.
    - unfold mul_assign_like_expand. rewrite (name_mul_assign lower t Hlower) by auto.
      rewrite (state_new_struct _ _ params_mul_assign_like attrs fs (Some true)) by assumption.
      cbn [st_of st_forward]. split; [exact He|]. rewrite Hr. rewrite name_assign by auto. reflexivity.
  Qed.

  Theorem struct_assign_scalar t attrs fs a r :
    expander_of t = XMulAssignLike -> forward_off t attrs -> fields_clean (std_method t) fs ->
    NoDup (members_of fs) -> List.length a = List.length (members_of fs) ->
    exists im,
      derive lower t (struct_input attrs fs) = Expanded im /\
      im_scalar im = Some (Nat.ltb 1 (List.length a)) /\
      run_assign (ctx_of (struct_input attrs fs)) (im_body im) (CStruct, a) None (Some r)
      = Some (CStruct, map (fun x => op (std_method t) x r) a).
  Proof.
    intros Hx Hoff Hc Hnd Ha.
    destruct (forward_off_state t attrs fs (trait_name t) params_mul_assign_like eq_refl Hoff Hc) as [fw [Hst Hfw]].
    unfold derive. rewrite Hx. unfold mul_assign_like_expand.
    rewrite (name_mul_assign lower t Hlower) by auto. rewrite Hst, Hfw.
    destruct (st_dtype (st_of fw fs)) eqn:Hd; [| |exfalso; eapply st_of_dtype; eauto];
      (eexists; split; [reflexivity|]; cbn [im_scalar im_body st_fields st_of]; split;
       [unfold scalar_needs_copy; rewrite Ha, members_length; reflexivity|]).
    all: unfold Model.run_assign; cbn [fst snd option_map]; rewrite ctx_struct;
      unfold scalar_exprs;
      rewrite (exec_combine_fst (fun p => CUfcs (f_ty (snd p)) RefMut) (std_method t) (fun _ => EScalar))
        by (symmetry; apply members_length);
      rewrite (exec_members_scalar V op uop ident _ (fun _ => (CPath RefNo))) by assumption; reflexivity.
  Qed.

  (** [a op= b] leaves [a] equal to what [a op b] returns, provided the same is true of the operand
      type ([Hleaf]): both derives succeed and yield the same value *)
  Theorem assign_agrees_fieldwise t attrs fs a b :
    (forall x y, op (std_method t) x y = op (std_method (base_of t)) x y) ->
    fs <> FUnit -> NoDup (members_of fs) ->
    (expander_of t = XAddAssignLike \/
     (expander_of t = XMulAssignLike /\ forward_on t attrs /\ fields_clean (std_method t) fs /\
      forward_on (base_of t) attrs /\ fields_clean (std_method (base_of t)) fs)) ->
    List.length a = List.length (members_of fs) -> List.length b = List.length (members_of fs) ->
    exists im_assign im_binary v,
      derive lower t (struct_input attrs fs) = Expanded im_assign /\
      derive lower (base_of t) (struct_input attrs fs) = Expanded im_binary /\
      run_assign (ctx_of (struct_input attrs fs)) (im_body im_assign) (CStruct, a) (Some (CStruct, b)) None = Some v /\
      run_body (ctx_of (struct_input attrs fs)) (im_body im_binary) (CStruct, a) (Some (CStruct, b)) None
      = Some (RVal v) /\
      v = (CStruct, map2 (op (std_method (base_of t))) a b).
  Proof.
    intros Hleaf Hu Hnd Hmode Ha Hb.
    assert (Hma : expander_of t = XAddAssignLike \/
                  (expander_of t = XMulAssignLike /\ forward_on t attrs /\ fields_clean (std_method t) fs))
      by (destruct Hmode as [H|[H1 [H2 [H3 _]]]]; auto).
    assert (Hmb : expander_of (base_of t) = XAddLike \/
                  (expander_of (base_of t) = XMulLike /\ forward_on (base_of t) attrs /\
                   fields_clean (std_method (base_of t)) fs)).
    { destruct Hmode as [H|[H1 [_ [_ [H4 H5]]]]]; [left; apply base_of_add_assign; exact H|].
      right. split; [apply base_of_mul_assign; exact H1|]. split; assumption. }
    destruct (struct_assign_fieldwise t attrs fs a b Hu Hnd Hma Ha Hb) as [ima [Hea Hra]].
    destruct (struct_binary lower Hlower V op uop ident (base_of t) attrs fs a b Hu Hnd Hmb Ha Hb) as [imb [Heb Hrb]].
    exists ima, imb, (CStruct, map2 (op (std_method (base_of t))) a b).
    split; [exact Hea|]. split; [exact Heb|]. split; [|split; [exact Hrb|reflexivity]].
    rewrite Hra. rewrite (map2_ext _ _ a b Hleaf). reflexivity.
  Qed.

  Theorem assign_agrees_scalar t attrs fs a r :
    (forall x y, op (std_method t) x y = op (std_method (base_of t)) x y) ->
    expander_of t = XMulAssignLike ->
    forward_off t attrs -> fields_clean (std_method t) fs ->
    forward_off (base_of t) attrs -> fields_clean (std_method (base_of t)) fs ->
    NoDup (members_of fs) -> List.length a = List.length (members_of fs) ->
    exists im_assign im_binary v,
      derive lower t (struct_input attrs fs) = Expanded im_assign /\
      derive lower (base_of t) (struct_input attrs fs) = Expanded im_binary /\
      run_assign (ctx_of (struct_input attrs fs)) (im_body im_assign) (CStruct, a) None (Some r) = Some v /\
      run_body (ctx_of (struct_input attrs fs)) (im_body im_binary) (CStruct, a) None (Some r) = Some (RVal v) /\
      v = (CStruct, map (fun x => op (std_method (base_of t)) x r) a).
  Proof.
    intros Hleaf Hx Hoff Hc Hoffb Hcb Hnd Ha.
    destruct (struct_assign_scalar t attrs fs a r Hx Hoff Hc Hnd Ha) as [ima [Hea [_ Hra]]].
    destruct (struct_scalar lower Hlower V op uop ident (base_of t) attrs fs a r
                (base_of_mul_assign t Hx) Hoffb Hcb Hnd Ha) as [imb [Heb [_ Hrb]]].
    exists ima, imb, (CStruct, map (fun x => op (std_method (base_of t)) x r) a).
    split; [exact Hea|]. split; [exact Heb|]. split; [|split; [exact Hrb|reflexivity]].
    rewrite Hra. do 2 f_equal. apply map_ext. intros x. apply Hleaf.
  Qed.

  (* ---------------------------------------------------------------- Sum / Product *)

  Definition fold_op (t : trait) : trait := match t with TSum => TAdd | _ => TMul end.

  Lemma fold_pair (g : list V -> list V -> list V) xs : forall i,
    fold_left (fun acc x => (CStruct, g (snd acc) (snd x))) xs (CStruct, i)
    = (CStruct, fold_left g (map (@snd ctor (list V)) xs) i).
  Proof. induction xs as [|x xs IH]; intros i; cbn; [reflexivity|]. apply IH. Qed.

  Theorem struct_sum (self_op : str -> list V -> list V -> list V) t attrs fs xs :
    expander_of t = XSumLike -> no_attr (std_method t) attrs -> fields_clean (std_method t) fs ->
    NoDup (members_of fs) ->
    exists im,
      derive lower t (struct_input attrs fs) = Expanded im /\
      run_fold self_op (ctx_of (struct_input attrs fs)) (im_body im) xs
      = Some (CStruct, fold_left (self_op (std_method (fold_op t))) (map snd xs)
                                 (map (fun f => ident (std_method t) (f_ty f)) (field_list fs))).
  Proof.
    intros Hx Hna Hc Hnd. unfold derive. rewrite Hx. unfold sum_like_expand.
    rewrite (name_plain lower t Hlower) by auto.
    rewrite (state_new_struct _ _ params_none attrs fs None).
    2:{ unfold get_meta_info. unfold no_attr in Hna. rewrite Hna. reflexivity. }
    2:{ exact Hc. }
    rewrite (name_fold_op lower t Hlower Hx). fold (fold_op t).
    destruct (st_dtype (st_of None fs)) eqn:Hd; [| |exfalso; eapply st_of_dtype; eauto];
      (eexists; split; [reflexivity|]); cbn [im_body st_fields st_of];
      unfold Model.run_fold;
      rewrite eval_initializer by (auto; rewrite map_length; symmetry; apply members_length);
      rewrite mapM_map; cbn [Model.eval]; rewrite mapM_some; cbn [option_map];
      rewrite fold_pair; reflexivity.
  Qed.

  (** with the field-wise [Add]/[Mul] that [struct_binary] shows the derives generate *)
  Corollary struct_sum_fieldwise t attrs fs xs :
    expander_of t = XSumLike -> no_attr (std_method t) attrs -> fields_clean (std_method t) fs ->
    NoDup (members_of fs) ->
    exists im,
      derive lower t (struct_input attrs fs) = Expanded im /\
      run_fold (fun m => map2 (op m)) (ctx_of (struct_input attrs fs)) (im_body im) xs
      = Some (CStruct, fold_left (map2 (op (std_method (fold_op t)))) (map snd xs)
                                 (map (fun f => ident (std_method t) (f_ty f)) (field_list fs))).
  Proof. intros. apply (struct_sum (fun m => map2 (op m))); assumption. Qed.

  (* ---------------------------------------------------------------- enums *)

  Definition arity (vr : variant) : nat := List.length (members_of (v_fields vr)).

  Lemma find_variant vs vr :
    NoDup (map v_name vs) -> In vr vs ->
    find (fun v => str_eqb (v_name v) (v_name vr)) vs = Some vr.
  Proof.
    induction vs as [|v0 vs IH]; intros Hnd Hin; [contradiction|].
    cbn [find]. inversion Hnd as [|? ? Hn0 Hnd']; subst.
    destruct Hin as [->|Hin]; [rewrite str_eqb_refl; reflexivity|].
    rewrite str_eqb_neq; [apply IH; assumption|].
    intros E. apply Hn0. rewrite E. apply in_map. exact Hin.
  Qed.

  Lemma ctx_enum attrs vs vr :
    NoDup (map v_name vs) -> In vr vs ->
    ctx_of (enum_input attrs vs) (CVariant (v_name vr)) = Some (members_of (v_fields vr)).
  Proof. intros. unfold ctx_of, enum_input; cbn [i_data]. rewrite find_variant by assumption. reflexivity. Qed.

  Lemma bind_pat_other ctx p v (a : list V) :
    str_eqb v (pat_variant p) = false -> bind_pat ctx p (CVariant v, a) = None.
  Proof. intros H. unfold Model.bind_pat. cbn [fst ctor_eqb]. rewrite H. reflexivity. Qed.

  Lemma var_calls_eval meth (a b : list V) n :
    n = List.length a -> List.length b = List.length a ->
    mapM (eval (env_vars a b)) (var_calls n meth) = Some (map2 (op meth) a b).
  Proof.
    intros -> Hb. unfold var_calls. rewrite mapM_map. cbn [Model.eval Model.env_vars en_l en_r].
    apply mapM_vars2. exact Hb.
  Qed.

  Lemma var_calls1_eval meth (a : list V) n :
    n = List.length a ->
    mapM (eval (env_vars a [])) (var_calls1 n meth) = Some (map (uop meth) a).
  Proof.
    intros ->. unfold var_calls1. rewrite mapM_map. cbn [Model.eval Model.env_vars en_l].
    apply mapM_vars1.
  Qed.

  Lemma bind_named ctx v l (a : list V) :
    ctx (CVariant v) = Some (members_of (FNamed l)) -> NoDup (members_of (FNamed l)) ->
    List.length a = List.length (members_of (FNamed l)) ->
    bind_pat ctx (PNamed v (field_names l)) (CVariant v, a) = Some a.
  Proof.
    intros Hctx Hnd Ha. unfold Model.bind_pat. cbn [fst snd pat_variant ctor_eqb].
    rewrite str_eqb_refl, Hctx.
    rewrite <- (mapM_map (sel (members_of (FNamed l)) a) MName).
    apply mapM_sel_id; assumption.
  Qed.

  Lemma named_length l : List.length (members_of (FNamed l)) = List.length l.
  Proof. cbn. unfold field_names. rewrite !map_length. reflexivity. Qed.

  Lemma unnamed_length l : List.length (members_of (FUnnamed l)) = List.length l.
  Proof. cbn. rewrite map_length, seq_length. reflexivity. Qed.

  Definition binary_result (meth : str) (vr : variant) (a b : list V) : res (val V) :=
    if is_unit (v_fields vr) then RErrV EBinUnit meth
    else ROkV (CVariant (v_name vr), map2 (op meth) a b).

  Lemma add_arm_eval ctx meth vr a b rest wild :
    ctx (CVariant (v_name vr)) = Some (members_of (v_fields vr)) ->
    NoDup (members_of (v_fields vr)) -> List.length a = arity vr -> List.length b = arity vr ->
    match2 ctx (add_enum_arm meth vr :: rest) wild (CVariant (v_name vr), a) (CVariant (v_name vr), b)
    = Some (binary_result meth vr a b).
  Proof.
    unfold arity, binary_result, add_enum_arm. intros Hctx Hnd Ha Hb.
    destruct (v_fields vr) as [l|l|]; cbn [Model.match2 is_unit].
    - rewrite !bind_named by assumption.
      cbn [Model.eval_rexpr Model.eval_build]. rewrite Hctx. cbn [members_of].
      rewrite build_named_aligned.
      + rewrite var_calls_eval; [reflexivity|rewrite Ha, named_length; reflexivity|congruence].
      + cbn [members_of] in Hnd. eapply NoDup_map_inv; eauto.
      + unfold var_calls, field_names. rewrite !map_length, seq_length. reflexivity.
    - unfold Model.bind_pat. cbn [fst snd pat_variant ctor_eqb]. rewrite str_eqb_refl.
      cbn [Model.eval_rexpr Model.eval_build].
      rewrite var_calls_eval; [reflexivity|rewrite Ha, unnamed_length; reflexivity|congruence].
    - unfold Model.bind_pat. cbn [fst snd pat_variant ctor_eqb]. rewrite str_eqb_refl. reflexivity.
  Qed.

  Lemma add_arm_variant meth vr :
    pat_variant (fst (fst (add_enum_arm meth vr))) = v_name vr /\
    pat_variant (snd (fst (add_enum_arm meth vr))) = v_name vr.
  Proof. unfold add_enum_arm. destruct (v_fields vr); cbn; auto. Qed.

  Lemma match2_same ctx meth wild vr a b :
    ctx (CVariant (v_name vr)) = Some (members_of (v_fields vr)) ->
    NoDup (members_of (v_fields vr)) -> List.length a = arity vr -> List.length b = arity vr ->
    forall vs, NoDup (map v_name vs) -> In vr vs ->
      match2 ctx (map (add_enum_arm meth) vs) wild (CVariant (v_name vr), a) (CVariant (v_name vr), b)
      = Some (binary_result meth vr a b).
  Proof.
    intros Hctx Hnd Ha Hb. induction vs as [|v0 vs IH]; intros Hnv Hin; [contradiction|].
    cbn [map]. inversion Hnv as [|? ? Hn0 Hnv']; subst.
    destruct Hin as [->|Hin]; [apply add_arm_eval; assumption|].
    destruct (add_arm_variant meth v0) as [Hpl _].
    destruct (add_enum_arm meth v0) as [[pl pr] r]. cbn [fst snd] in Hpl. cbn [Model.match2].
    rewrite bind_pat_other.
    - apply IH; assumption.
    - rewrite Hpl. apply str_eqb_neq. intros E. apply Hn0. rewrite <- E. apply in_map. exact Hin.
  Qed.

  Lemma match2_mismatch ctx meth wild v1 v2 (a b : list V) :
    v1 <> v2 -> forall vs,
      match2 ctx (map (add_enum_arm meth) vs) wild (CVariant v1, a) (CVariant v2, b)
      = match wild with Some r => eval_rexpr ctx (env_vars [] []) r | None => None end.
  Proof.
    intros Hne. induction vs as [|v0 vs IH]; [reflexivity|].
    cbn [map]. destruct (add_arm_variant meth v0) as [Hpl Hpr].
    destruct (add_enum_arm meth v0) as [[pl pr] r]. cbn [fst snd] in Hpl, Hpr. cbn [Model.match2].
    destruct (str_eqb v1 (v_name v0)) eqn:E1.
    - apply str_eqb_eq in E1. subst v1.
      rewrite (bind_pat_other ctx pr v2).
      + destruct (bind_pat ctx pl _); exact IH.
      + rewrite Hpr. apply str_eqb_neq. congruence.
    - rewrite (bind_pat_other ctx pl v1) by (rewrite Hpl; exact E1). exact IH.
  Qed.

  Definition wf_variants (vs : list variant) : Prop :=
    NoDup (map v_name vs) /\ Forall (fun vr => NoDup (members_of (v_fields vr))) vs.

  Theorem enum_binary t attrs vs :
    (expander_of t = XAddLike \/
     (expander_of t = XMulLike /\ forward_on t attrs /\ variants_clean (std_method t) vs)) ->
    wf_variants vs ->
    exists im,
      derive lower t (enum_input attrs vs) = Expanded im /\
      im_output im = OutResultBinary /\
      (forall vr a b, In vr vs -> List.length a = arity vr -> List.length b = arity vr ->
         run_body (ctx_of (enum_input attrs vs)) (im_body im)
                  (CVariant (v_name vr), a) (Some (CVariant (v_name vr), b)) None
         = Some (if is_unit (v_fields vr) then RErrV EBinUnit (std_method t)
                 else ROkV (CVariant (v_name vr), map2 (op (std_method t)) a b))) /\
      (forall vr1 vr2 a b, In vr1 vs -> In vr2 vs -> v_name vr1 <> v_name vr2 ->
         run_body (ctx_of (enum_input attrs vs)) (im_body im)
                  (CVariant (v_name vr1), a) (Some (CVariant (v_name vr2), b)) None
         = Some (RErrV EBinMismatch (std_method t))).
  Proof.
    intros Hmode [Hnv Hwf].
    assert (Hd : derive lower t (enum_input attrs vs) = add_like_expand lower (enum_input attrs vs) (trait_name t)).
    { unfold derive. destruct Hmode as [Hx|[Hx [Hf Hc]]]; rewrite Hx; [reflexivity|].
      unfold mul_like_expand. rewrite (name_plain lower t Hlower) by auto.
      rewrite (state_new_enum _ _ params_mul_like attrs vs (Some true)) by assumption.
      reflexivity. }
    rewrite Hd. unfold add_like_expand, enum_input; cbn [i_data].
    rewrite name_self by (destruct Hmode as [Hx|[Hx _]]; auto).
    eexists. split; [reflexivity|]. split; [reflexivity|]. cbn [im_body]. split.
    - intros vr a b Hin Ha Hb. unfold Model.run_body, add_enum_content.
      apply match2_same; try assumption.
      + apply (ctx_enum attrs); assumption.
      + rewrite Forall_forall in Hwf. apply Hwf. exact Hin.
    - intros vr1 vr2 a b H1 H2 Hne. unfold Model.run_body, add_enum_content.
      rewrite match2_mismatch by exact Hne.
      rewrite (two_in_length vr1 vr2 vs H1 H2) by congruence. reflexivity.
  Qed.

  (* unary on enums *)

  Definition unary_result (meth : str) (hu : bool) (vr : variant) (a : list V) : res (val V) :=
    if is_unit (v_fields vr) then RErrV EUnit meth
    else if hu then ROkV (CVariant (v_name vr), map (uop meth) a)
         else RVal (CVariant (v_name vr), map (uop meth) a).

  Lemma not_arm_eval ctx meth hu vr a rest :
    ctx (CVariant (v_name vr)) = Some (members_of (v_fields vr)) ->
    NoDup (members_of (v_fields vr)) -> List.length a = arity vr ->
    match1 ctx (not_enum_arm meth hu vr :: rest) (CVariant (v_name vr), a)
    = Some (unary_result meth hu vr a).
  Proof.
    unfold arity, unary_result, not_enum_arm. intros Hctx Hnd Ha.
    destruct (v_fields vr) as [l|l|]; cbn [Model.match1 is_unit].
    - rewrite bind_named by assumption.
      destruct hu; cbn [Model.eval_rexpr Model.eval_build]; rewrite Hctx; cbn [members_of];
        (rewrite build_named_aligned;
         [rewrite var_calls1_eval; [reflexivity|rewrite Ha, named_length; reflexivity]
         |cbn [members_of] in Hnd; eapply NoDup_map_inv; eauto
         |unfold var_calls1, field_names; rewrite !map_length, seq_length; reflexivity]).
    - unfold Model.bind_pat. cbn [fst snd pat_variant ctor_eqb]. rewrite str_eqb_refl.
      destruct hu; cbn [Model.eval_rexpr Model.eval_build];
        (rewrite var_calls1_eval; [reflexivity|rewrite Ha, unnamed_length; reflexivity]).
    - unfold Model.bind_pat. cbn [fst snd pat_variant ctor_eqb]. rewrite str_eqb_refl. reflexivity.
  Qed.

  Lemma not_arm_variant meth hu vr : pat_variant (fst (not_enum_arm meth hu vr)) = v_name vr.
  Proof. unfold not_enum_arm. destruct (v_fields vr); reflexivity. Qed.

  Lemma match1_same ctx meth hu vr a :
    ctx (CVariant (v_name vr)) = Some (members_of (v_fields vr)) ->
    NoDup (members_of (v_fields vr)) -> List.length a = arity vr ->
    forall vs, NoDup (map v_name vs) -> In vr vs ->
      match1 ctx (map (not_enum_arm meth hu) vs) (CVariant (v_name vr), a)
      = Some (unary_result meth hu vr a).
  Proof.
    intros Hctx Hnd Ha. induction vs as [|v0 vs IH]; intros Hnv Hin; [contradiction|].
    cbn [map]. inversion Hnv as [|? ? Hn0 Hnv']; subst.
    destruct Hin as [->|Hin]; [apply not_arm_eval; assumption|].
    pose proof (not_arm_variant meth hu v0) as Hp.
    destruct (not_enum_arm meth hu v0) as [p r]. cbn [fst] in Hp. cbn [Model.match1].
    rewrite bind_pat_other.
    - apply IH; assumption.
    - rewrite Hp. apply str_eqb_neq. intros E. apply Hn0. rewrite <- E. apply in_map. exact Hin.
  Qed.

  Theorem enum_unary t attrs vs :
    expander_of t = XNotLike -> wf_variants vs ->
    exists im,
      derive lower t (enum_input attrs vs) = Expanded im /\
      im_output im = (if has_unit_type vs then OutResultUnit else OutSelf) /\
      (forall vr a, In vr vs -> List.length a = arity vr ->
         run_body (ctx_of (enum_input attrs vs)) (im_body im) (CVariant (v_name vr), a) None None
         = Some (if is_unit (v_fields vr) then RErrV EUnit (std_method t)
                 else if has_unit_type vs
                      then ROkV (CVariant (v_name vr), map (uop (std_method t)) a)
                      else RVal (CVariant (v_name vr), map (uop (std_method t)) a))).
  Proof.
    intros Hx [Hnv Hwf]. unfold derive. rewrite Hx. unfold not_like_expand, enum_input; cbn [i_data].
    rewrite (name_plain lower t Hlower) by auto.
    eexists. split; [reflexivity|]. split; [reflexivity|]. cbn [im_body].
    intros vr a Hin Ha. unfold Model.run_body.
    apply match1_same; try assumption.
    - apply (ctx_enum attrs); assumption.
    - rewrite Forall_forall in Hwf. apply Hwf. exact Hin.
  Qed.

End Theorems2.

(* ================================================================== growth round: pointwise, total, negative space *)

Lemma nth_error_map2 {V} (f : V -> V -> V) : forall a b i,
  nth_error (map2 f a b) i
  = match nth_error a i, nth_error b i with
    | Some x, Some y => Some (f x y)
    | _, _ => None
    end.
Proof.
  induction a as [|x a IH]; intros [|y b] [|i]; cbn; try reflexivity.
  - destruct (nth_error a i); reflexivity.
  - apply IH.
Qed.

Lemma map2_length {V} (f : V -> V -> V) : forall a b,
  List.length b = List.length a -> List.length (map2 f a b) = List.length a.
Proof.
  induction a as [|x a IH]; intros [|y b] H; cbn in *; try reflexivity; try discriminate.
  rewrite IH by lia. reflexivity.
Qed.

(** a genuinely free term algebra (constructors are injective, so nothing is identified) *)
Inductive term :=
| Leaf (n : N)
| App2 (m : str) (l r : term)
| App1 (m : str) (x : term)
| Ident (m : str) (ty : N).

Section Theorems3.
  Variable lower : str -> str.
  Hypothesis Hlower : lower_ok lower.
  Variable V : Type.
  Variable op : str -> V -> V -> V.
  Variable uop : str -> V -> V.
  Variable ident : str -> N -> V.

  Notation run_body := (run_body V op uop ident).
  Notation run_fold := (run_fold V op uop ident).

  (** clause 1, literally: "the value whose i-th field is lhs.i op rhs.i" *)
  Theorem struct_binary_pointwise t attrs fs a b :
    fs <> FUnit -> NoDup (members_of fs) ->
    (expander_of t = XAddLike \/
     (expander_of t = XMulLike /\ forward_on t attrs /\ fields_clean (std_method t) fs)) ->
    List.length a = List.length (members_of fs) -> List.length b = List.length (members_of fs) ->
    exists im r,
      derive lower t (struct_input attrs fs) = Expanded im /\
      run_body (ctx_of (struct_input attrs fs)) (im_body im) (CStruct, a) (Some (CStruct, b)) None
      = Some (RVal (CStruct, r)) /\
      List.length r = List.length a /\
      forall i x y, nth_error a i = Some x -> nth_error b i = Some y ->
                    nth_error r i = Some (op (std_method t) x y).
  Proof.
    intros Hu Hnd Hmode Ha Hb.
    destruct (struct_binary lower Hlower V op uop ident t attrs fs a b Hu Hnd Hmode Ha Hb) as [im [He Hr]].
    exists im, (map2 (op (std_method t)) a b). split; [exact He|]. split; [exact Hr|]. split.
    - apply map2_length. congruence.
    - intros i x y Hx Hy. rewrite nth_error_map2, Hx, Hy. reflexivity.
  Qed.

  (* ---------------------------------------------------------------- enums: every pair of values *)

  (** [x] is a value of the enum: some declared variant, with that variant's number of fields *)
  Definition enum_value (vs : list variant) (x : val V) : Prop :=
    exists vr, In vr vs /\ fst x = CVariant (v_name vr) /\ List.length (snd x) = arity vr.

  (** what the property says [x op y] is, as a function of the two values alone *)
  Definition enum_binary_spec (m : str) (vs : list variant) (x y : val V) : option (res (val V)) :=
    match fst x, fst y with
    | CVariant v1, CVariant v2 =>
        if str_eqb v1 v2 then
          match find (fun v => str_eqb (v_name v) v1) vs with
          | Some vr => Some (if is_unit (v_fields vr) then RErrV EBinUnit m
                             else ROkV (CVariant v1, map2 (op m) (snd x) (snd y)))
          | None => None
          end
        else Some (RErrV EBinMismatch m)
    | _, _ => None
    end.

  Lemma same_name_same_variant vs vr1 vr2 :
    NoDup (map v_name vs) -> In vr1 vs -> In vr2 vs -> v_name vr1 = v_name vr2 -> vr1 = vr2.
  Proof.
    intros Hnd H1 H2 E.
    pose proof (find_variant vs vr1 Hnd H1) as F1. pose proof (find_variant vs vr2 Hnd H2) as F2.
    rewrite E in F1. congruence.
  Qed.

  Theorem enum_total t attrs vs :
    (expander_of t = XAddLike \/
     (expander_of t = XMulLike /\ forward_on t attrs /\ variants_clean (std_method t) vs)) ->
    wf_variants vs ->
    exists im,
      derive lower t (enum_input attrs vs) = Expanded im /\
      forall x y, enum_value vs x -> enum_value vs y ->
        run_body (ctx_of (enum_input attrs vs)) (im_body im) x (Some y) None
        = enum_binary_spec (std_method t) vs x y /\
        enum_binary_spec (std_method t) vs x y <> None.
  Proof.
    intros Hmode Hwf.
    destruct (enum_binary lower Hlower V op uop ident t attrs vs Hmode Hwf) as [im [He [_ [Hsame Hdiff]]]].
    exists im. split; [exact He|].
    intros [cx a] [cy b] [vr1 [H1 [Ex La]]] [vr2 [H2 [Ey Lb]]]. cbn [fst snd] in *. subst cx cy.
    unfold enum_binary_spec. cbn [fst snd].
    destruct (str_eqb (v_name vr1) (v_name vr2)) eqn:E.
    - apply str_eqb_eq in E. destruct Hwf as [Hnd Hw].
      pose proof (same_name_same_variant vs vr1 vr2 Hnd H1 H2 E) as <-.
      rewrite (find_variant vs vr1 Hnd H1). split; [|discriminate].
      apply Hsame; assumption.
    - split; [|discriminate]. apply Hdiff; try assumption.
      intros E'. rewrite E', str_eqb_refl in E. discriminate.
  Qed.

  (* ---------------------------------------------------------------- Sum / Product of 0 and 1 elements *)

  Corollary struct_sum_small (self_op : str -> list V -> list V -> list V) t attrs fs :
    expander_of t = XSumLike -> no_attr (std_method t) attrs -> fields_clean (std_method t) fs ->
    NoDup (members_of fs) ->
    exists im,
      derive lower t (struct_input attrs fs) = Expanded im /\
      let zero := map (fun f => ident (std_method t) (f_ty f)) (field_list fs) in
      run_fold self_op (ctx_of (struct_input attrs fs)) (im_body im) [] = Some (CStruct, zero) /\
      forall x, run_fold self_op (ctx_of (struct_input attrs fs)) (im_body im) [(CStruct, x)]
                = Some (CStruct, self_op (std_method (fold_op t)) zero x).
  Proof.
    intros Hx Hna Hc Hnd.
    destruct (struct_sum lower Hlower V op uop ident self_op t attrs fs [] Hx Hna Hc Hnd) as [im [He H0]].
    exists im. split; [exact He|]. split; [exact H0|].
    intros x.
    destruct (struct_sum lower Hlower V op uop ident self_op t attrs fs [(CStruct, x)] Hx Hna Hc Hnd)
      as [im' [He' H1]].
    rewrite He in He'. inversion He'; subst im'. exact H1.
  Qed.

  (* ---------------------------------------------------------------- no implementation outside the supported shapes *)

  (** which declarations get an implementation at all; everything else is a diagnostic or a
      macro panic (compile error), never a silently different impl *)
  Definition supported_shape (t : trait) (inp : input) (im : impl) : Prop :=
    match expander_of t, i_data inp with
    | XAddLike, DStruct (FNamed _ | FUnnamed _) => im_output im = OutSelf
    | XAddLike, DEnum _ => im_output im = OutResultBinary
    | XNotLike, DStruct (FNamed _ | FUnnamed _) => im_output im = OutSelf
    | XNotLike, DEnum vs => im_output im = (if has_unit_type vs then OutResultUnit else OutSelf)
    | XAddAssignLike, DStruct (FNamed _ | FUnnamed _) => im_output im = OutNone
    | XMulLike, DStruct (FNamed _ | FUnnamed _) => im_output im = OutSelf
    | XMulLike, DStruct FUnit => im_scalar im = Some false          (* scalar form only *)
    | XMulLike, DEnum _ => im_output im = OutResultBinary /\ im_scalar im = None   (* forwarded only *)
    | XMulAssignLike, DStruct (FNamed _ | FUnnamed _) => im_output im = OutNone
    | XMulAssignLike, DStruct FUnit => im_scalar im = Some false
    | XSumLike, DStruct _ => im_output im = OutSelfKw
    | _, _ => False
    end.

  Theorem expanded_only_if_supported t inp im :
    derive lower t inp = Expanded im -> supported_shape t inp im.
  Proof.
    unfold derive, supported_shape. destruct (expander_of t) eqn:Hx.
    - unfold add_like_expand. destruct (i_data inp) as [[l|l|]|vs|]; intros H; inversion H; reflexivity.
    - unfold add_assign_like_expand. destruct (i_data inp) as [[l|l|]|vs|]; intros H; inversion H; reflexivity.
    - unfold mul_like_expand, state_new.
      destruct (i_data inp) as [fs|vs|] eqn:Hd; [| |discriminate].
      + destruct (get_meta_info _ _ _) as [e|fw]; [discriminate|].
        destruct (first_meta_error _ _ _); [discriminate|]. cbn [st_forward st_dtype st_fields].
        destruct (match fw with Some b => b | None => false end).
        * unfold add_like_expand. rewrite Hd. destruct fs as [l|l|]; intros H; inversion H; reflexivity.
        * destruct fs as [l|l|]; intros H; inversion H; reflexivity.
      + destruct (get_meta_info _ _ _) as [e|fw]; [discriminate|].
        destruct (first_meta_error _ _ _); [discriminate|].
        destruct (first_meta_error _ _ _); [discriminate|]. cbn [st_forward st_dtype].
        destruct (match fw with Some b => b | None => false end); [|discriminate].
        unfold add_like_expand. rewrite Hd. intros H; inversion H. split; reflexivity.
    - unfold mul_assign_like_expand, state_new.
      destruct (i_data inp) as [fs|vs|] eqn:Hd; [| |discriminate].
      + destruct (get_meta_info _ _ _) as [e|fw]; [discriminate|].
        destruct (first_meta_error _ _ _); [discriminate|]. cbn [st_forward st_dtype st_fields].
        destruct (match fw with Some b => b | None => false end).
        * unfold add_assign_like_expand. rewrite Hd. destruct fs as [l|l|]; intros H; inversion H; reflexivity.
        * destruct fs as [l|l|]; intros H; inversion H; reflexivity.
      + destruct (get_meta_info _ _ _) as [e|fw]; [discriminate|].
        destruct (first_meta_error _ _ _); [discriminate|].
        destruct (first_meta_error _ _ _); [discriminate|]. cbn [st_forward st_dtype].
        destruct (match fw with Some b => b | None => false end); [|discriminate].
        unfold add_assign_like_expand. rewrite Hd. discriminate.
    - unfold not_like_expand. destruct (i_data inp) as [[l|l|]|vs|]; intros H; inversion H; reflexivity.
    - unfold sum_like_expand, state_new.
      destruct (i_data inp) as [fs|vs|] eqn:Hd; [| |discriminate].
      + destruct (get_meta_info _ _ _) as [e|fw]; [discriminate|].
        destruct (first_meta_error _ _ _); [discriminate|]. cbn [st_dtype st_fields].
        destruct fs as [l|l|]; intros H; inversion H; reflexivity.
      + destruct (get_meta_info _ _ _) as [e|fw]; [discriminate|].
        destruct (first_meta_error _ _ _); [discriminate|].
        destruct (first_meta_error _ _ _); [discriminate|]. discriminate.
  Qed.

End Theorems3.

(** operand order is observable: over the free term algebra the derived result differs from the
    operand-swapped one as soon as one pair of corresponding fields differs *)
Theorem order_sensitive lower :
  lower_ok lower ->
  forall t attrs fs (a b : list term),
    fs <> FUnit -> NoDup (members_of fs) ->
    (expander_of t = XAddLike \/
     (expander_of t = XMulLike /\ forward_on t attrs /\ fields_clean (std_method t) fs)) ->
    List.length a = List.length (members_of fs) -> List.length b = List.length (members_of fs) ->
    (exists i x y, nth_error a i = Some x /\ nth_error b i = Some y /\ x <> y) ->
    exists im r r',
      derive lower t (struct_input attrs fs) = Expanded im /\
      run_body term App2 App1 Ident (ctx_of (struct_input attrs fs)) (im_body im) (CStruct, a) (Some (CStruct, b)) None
      = Some (RVal (CStruct, r)) /\
      run_body term App2 App1 Ident (ctx_of (struct_input attrs fs)) (im_body im) (CStruct, b) (Some (CStruct, a)) None
      = Some (RVal (CStruct, r')) /\
      r <> r'.
Proof.
  intros Hl t attrs fs a b Hu Hnd Hmode Ha Hb [i [x [y [Hx [Hy Hne]]]]].
  destruct (struct_binary_pointwise lower Hl term App2 App1 Ident t attrs fs a b Hu Hnd Hmode Ha Hb)
    as [im [r [He [Hr [_ Hp]]]]].
  destruct (struct_binary_pointwise lower Hl term App2 App1 Ident t attrs fs b a Hu Hnd Hmode Hb Ha)
    as [im' [r' [He' [Hr' [_ Hp']]]]].
  rewrite He in He'. inversion He'; subst im'.
  exists im, r, r'. split; [exact He|]. split; [exact Hr|]. split; [exact Hr'|].
  intros E. specialize (Hp i x y Hx Hy). specialize (Hp' i y x Hy Hx). rewrite E in Hp.
  rewrite Hp' in Hp. inversion Hp. congruence.
Qed.

(* ================================================================== the impl header *)

Lemma dedup_in x l : In x (dedup l) <-> In x l.
Proof.
  induction l as [|y l IH]; cbn; [tauto|]. rewrite filter_In, IH.
  destruct (N.eqb_spec y x); cbn; intuition congruence.
Qed.

Lemma dedup_nodup l : NoDup (dedup l).
Proof.
  induction l as [|y l IH]; cbn; constructor.
  - rewrite filter_In. rewrite N.eqb_refl. cbn. intuition discriminate.
  - apply NoDup_filter. exact IH.
Qed.

Section HeaderTheorems.
  Variable lower : str -> str.
  Hypothesis Hlower : lower_ok lower.

  (** the shape of a scalar expansion (needed to read the header off it) *)
  Lemma scalar_impl_shape t attrs fs :
    (expander_of t = XMulLike \/ expander_of t = XMulAssignLike) ->
    forward_off t attrs -> fields_clean (std_method t) fs ->
    exists im, derive lower t (struct_input attrs fs) = Expanded im /\
               im_scalar im = Some (Nat.ltb 1 (List.length (field_list fs))) /\
               im_trait im = trait_name t.
  Proof.
    intros [Hx|Hx] Hoff Hc; unfold derive; rewrite Hx.
    - destruct (forward_off_state t attrs fs (trait_name t) params_mul_like eq_refl Hoff Hc) as [fw [Hst Hfw]].
      unfold mul_like_expand. rewrite (name_plain lower t Hlower) by auto. rewrite Hst, Hfw.
      destruct (st_dtype (st_of fw fs)) eqn:Hd; [| |exfalso; eapply st_of_dtype; eauto];
        (eexists; split; [reflexivity|split; reflexivity]).
    - destruct (forward_off_state t attrs fs (trait_name t) params_mul_assign_like eq_refl Hoff Hc) as [fw [Hst Hfw]].
      unfold mul_assign_like_expand. rewrite (name_mul_assign lower t Hlower) by auto. rewrite Hst, Hfw.
      destruct (st_dtype (st_of fw fs)) eqn:Hd; [| |exfalso; eapply st_of_dtype; eauto];
        (eexists; split; [reflexivity|split; reflexivity]).
  Qed.

  Definition scalar_pred (t : trait) (ty : N) : wpred :=
    match expander_of t with
    | XMulAssignLike => WScalar ty (trait_name t)
    | _ => WScalarOut ty (trait_name t)
    end.

  (** scalar Mul-like / MulAssign-like derives: [__RhsT] comes after the lifetimes and type
      parameters and before the const parameters, is [Copy] iff there is more than one field, no
      declared parameter is changed; the where-clause gets exactly one predicate per distinct
      field type - every field's type is covered, none twice - in front of the declaration's own *)
  Theorem scalar_header t attrs fs g :
    (expander_of t = XMulLike \/ expander_of t = XMulAssignLike) ->
    forward_off t attrs -> fields_clean (std_method t) fs ->
    exists h new,
      derive_header lower t g (struct_input attrs fs) = Expanded h /\
      h_params h = filter is_lifetime (map orig_param (g_params g))
                   ++ filter is_type_param (map orig_param (g_params g))
                   ++ [ORhs (Nat.ltb 1 (List.length (field_list fs)))]
                   ++ filter is_const_param (map orig_param (g_params g)) /\
      h_where h = new ++ map WOrig (g_where g) /\
      NoDup new /\
      (forall f, In f (field_list fs) -> In (scalar_pred t (f_ty f)) new) /\
      (forall w, In w new -> exists f, In f (field_list fs) /\ w = scalar_pred t (f_ty f)).
  Proof.
    intros Hx Hoff Hc.
    destruct (scalar_impl_shape t attrs fs Hx Hoff Hc) as [im [He [Hs Ht]]].
    unfold derive_header. rewrite He. cbn [omap].
    exists (header_of t g (struct_input attrs fs) im),
           (map (scalar_pred t) (dedup (map f_ty (field_list fs)))).
    split; [reflexivity|].
    assert (Hh : header_of t g (struct_input attrs fs) im
                 = add_where_clauses_for_new_ident g (List.length (field_list fs))
                     (map (scalar_pred t) (dedup (map f_ty (field_list fs))))).
    { unfold header_of, scalar_pred. cbn [struct_input i_data]. rewrite Hs, Ht, map_length.
      destruct Hx as [Hx|Hx]; rewrite Hx; reflexivity. }
    rewrite Hh. split; [reflexivity|]. split; [reflexivity|]. split; [|split].
    - apply NoDup_map_inj; [|apply dedup_nodup].
      intros x y. unfold scalar_pred. destruct (expander_of t); congruence.
    - intros f Hf. apply in_map. apply (proj2 (dedup_in _ _)). apply in_map. exact Hf.
    - intros w Hw. apply in_map_iff in Hw as [ty [<- Hty]]. apply (proj1 (dedup_in _ _)) in Hty.
      apply in_map_iff in Hty as [f [<- Hf]]. exists f. split; [exact Hf|reflexivity].
  Qed.

  (** field-wise derives (Add-like, Not-like, forwarded Mul-like; AddAssign-like, forwarded
      MulAssign-like): nothing but one more bound on every type parameter *)
  Theorem fieldwise_header t g inp im :
    derive lower t inp = Expanded im ->
    (expander_of t = XAddLike \/ expander_of t = XNotLike \/ (expander_of t = XMulLike /\ im_scalar im = None)) ->
    derive_header lower t g inp
    = Expanded {| h_params := map (fun p => push_bound (fun n => BOpOutput (im_trait im) n) (orig_param p)) (g_params g);
                  h_where := map WOrig (g_where g) |}.
  Proof.
    intros He Hx. unfold derive_header. rewrite He. cbn [omap]. f_equal.
    unfold header_of, add_extra_type_param_bound_op_output. rewrite map_map.
    destruct Hx as [Hx|[Hx|[Hx Hs]]]; rewrite Hx; [| |rewrite Hs]; try reflexivity;
      destruct (im_scalar im); reflexivity.
  Qed.

  Theorem assign_header t g inp im :
    derive lower t inp = Expanded im ->
    (expander_of t = XAddAssignLike \/ (expander_of t = XMulAssignLike /\ im_scalar im = None)) ->
    derive_header lower t g inp
    = Expanded {| h_params := map (fun p => push_bound (fun _ => BOp (im_trait im)) (orig_param p)) (g_params g);
                  h_where := map WOrig (g_where g) |}.
  Proof.
    intros He Hx. unfold derive_header. rewrite He. cbn [omap]. f_equal.
    unfold header_of, add_extra_ty_param_bound. rewrite map_map.
    destruct Hx as [Hx|[Hx Hs]]; rewrite Hx; [|rewrite Hs]; try reflexivity;
      destruct (im_scalar im); reflexivity.
  Qed.

  (** Sum / Product: untouched without type parameters; otherwise every type parameter must
      implement the iterator trait and the type itself the operator the fold uses *)
  Theorem sum_header t attrs fs g :
    expander_of t = XSumLike -> no_attr (std_method t) attrs -> fields_clean (std_method t) fs ->
    exists h,
      derive_header lower t g (struct_input attrs fs) = Expanded h /\
      (has_type_param g = false ->
         h = {| h_params := map orig_param (g_params g); h_where := map WOrig (g_where g) |}) /\
      (has_type_param g = true ->
         h = {| h_params := map (fun p => push_bound (fun _ => BWith (trait_name t)) (orig_param p)) (g_params g);
                h_where := WSelfOp (trait_name (fold_op t)) :: map WOrig (g_where g) |}).
  Proof.
    intros Hx Hna Hc.
    assert (He : exists im, derive lower t (struct_input attrs fs) = Expanded im /\ im_trait im = trait_name t).
    { unfold derive. rewrite Hx. unfold sum_like_expand.
      rewrite (name_plain lower t Hlower) by auto.
      rewrite (state_new_struct _ _ params_none attrs fs None).
      2:{ unfold get_meta_info. unfold no_attr in Hna. rewrite Hna. reflexivity. }
      2:{ exact Hc. }
      destruct (st_dtype (st_of None fs)) eqn:Hd; [| |exfalso; eapply st_of_dtype; eauto];
        (eexists; split; reflexivity). }
    destruct He as [im [He Ht]]. unfold derive_header. rewrite He. cbn [omap].
    eexists. split; [reflexivity|]. unfold header_of. rewrite Hx, Ht.
    split; intros Hg; rewrite Hg; [reflexivity|].
    unfold add_extra_ty_param_bound, add_extra_where_clauses. rewrite map_map. cbn [app].
    destruct t; try discriminate; vm_compute (str_eqb _ _); reflexivity.
  Qed.

End HeaderTheorems.

(* ================================================================== example declarations *)

Definition ex_enum : list variant :=
  [ {| v_name := lit "A"; v_fields := FUnnamed [{| f_ty := 0; f_attrs := [] |}]; v_attrs := [] |};
    {| v_name := lit "U"; v_fields := FUnit; v_attrs := [] |} ].
Definition ex_mul_forward : list attr :=
  [{| at_name := lit "mul"; at_meta := MetaList [AWord (lit "forward")] |}].

(* ================================================================== non-vacuity *)

Definition ex_field (t : N) : field := {| f_ty := t; f_attrs := [] |}.
Definition ex_named : fields := FNamed [(lit "x", ex_field 0); (lit "y", ex_field 1)].
Definition ex_tuple : fields := FUnnamed [ex_field 0; ex_field 1; ex_field 2].

Example ex_named_wf : ex_named <> FUnit /\ NoDup (members_of ex_named).
Proof. split; [discriminate|]. cbn. repeat constructor; cbn; intuition discriminate. Qed.

(** the operand order is visible: [sub] is applied lhs-first, field by field *)
Example ex_sub_named :
  free_run TSub (struct_input [] ex_named) (CStruct, [lit "a0"; lit "a1"]) (Some (CStruct, [lit "b0"; lit "b1"])) None
  = lit "(sub a0 b0)|(sub a1 b1)".
Proof. vm_compute. reflexivity. Qed.

Example ex_sub_not_commutative : free_op (lit "sub") (lit "a0") (lit "b0") <> free_op (lit "sub") (lit "b0") (lit "a0").
Proof. vm_compute. discriminate. Qed.

Example ex_shl_scalar :
  free_run TShl (struct_input [] ex_tuple) (CStruct, [lit "a0"; lit "a1"; lit "a2"]) None (Some (lit "s7"))
  = lit "(shl a0 s7)|(shl a1 s7)|(shl a2 s7)".
Proof. vm_compute. reflexivity. Qed.

Example ex_div_forward :
  free_run TDiv (struct_input [{| at_name := lit "div"; at_meta := MetaList [AWord (lit "forward")] |}] ex_named)
           (CStruct, [lit "a0"; lit "a1"]) (Some (CStruct, [lit "b0"; lit "b1"])) None
  = lit "(div a0 b0)|(div a1 b1)".
Proof. vm_compute. reflexivity. Qed.

Example ex_sum :
  free_fold TSum false (struct_input [] ex_named) [[lit "a0"; lit "a1"]; [lit "b0"; lit "b1"]]
  = lit "(add (add (sum T0) a0) b0)|(add (add (sum T1) a1) b1)".
Proof. vm_compute. reflexivity. Qed.

(** the hypothesis of [assign_agrees_*] holds of the free term algebra (and of any operand type
    whose [op=] is consistent with its [op]) *)
Example ex_assign_leaf_hypothesis t :
  forall x y, free_op (std_method t) x y = free_op (std_method (base_of t)) x y.
Proof. intros x y. destruct t; vm_compute; reflexivity. Qed.

Example ex_enum_wf : wf_variants ex_enum.
Proof.
  split; cbn.
  - repeat constructor; cbn; intuition discriminate.
  - repeat constructor. intros [].
Qed.

Example ex_enum_add :
  let inp := enum_input [] ex_enum in
  free_run TAdd inp (CVariant (lit "A"), [lit "a0"]) (Some (CVariant (lit "A"), [lit "b0"])) None = lit "Ok A:(add a0 b0)" /\
  free_run TAdd inp (CVariant (lit "U"), []) (Some (CVariant (lit "U"), [])) None = lit "Err Unit Cannot add() unit variants" /\
  free_run TAdd inp (CVariant (lit "A"), [lit "a0"]) (Some (CVariant (lit "U"), [])) None
    = lit "Err Mismatch Trying to add() mismatched enum variants" /\
  free_run TNeg inp (CVariant (lit "A"), [lit "a0"]) None None = lit "Ok A:(neg a0)".
Proof. vm_compute. repeat split. Qed.

(** [#[mul(forward)]] on an enum (mul_like.rs:14-20): the hypotheses of [enum_binary]'s second mode
    are satisfiable, and the derive then behaves like the Add-like ones *)
Example ex_enum_mul_forward_hypotheses :
  forward_on TMul ex_mul_forward /\ variants_clean (std_method TMul) ex_enum.
Proof. split; [vm_compute; reflexivity|]. split; repeat constructor. Qed.

Example ex_enum_mul_forward :
  let inp := enum_input ex_mul_forward ex_enum in
  free_run TMul inp (CVariant (lit "A"), [lit "a0"]) (Some (CVariant (lit "A"), [lit "b0"])) None = lit "Ok A:(mul a0 b0)" /\
  free_run TMul inp (CVariant (lit "U"), []) (Some (CVariant (lit "U"), [])) None = lit "Err Unit Cannot mul() unit variants" /\
  free_run TMul inp (CVariant (lit "U"), []) (Some (CVariant (lit "A"), [lit "b0"])) None
    = lit "Err Mismatch Trying to mul() mismatched enum variants" /\
  free_run TMul (enum_input [] ex_enum) (CVariant (lit "A"), [lit "a0"]) None (Some (lit "s7"))
    = lit "PANICKED cannot derive(Mul) for enum".
Proof. vm_compute. repeat split. Qed.

(* ================================================================== non-vacuity of the growth-round theorems *)

(** zero-field variants [Z()] and [W{}] are not unit variants: same-variant pairs give [Ok] *)
Definition ex_enum0 : list variant :=
  [ {| v_name := lit "Z"; v_fields := FUnnamed []; v_attrs := [] |};
    {| v_name := lit "W"; v_fields := FNamed []; v_attrs := [] |};
    {| v_name := lit "U"; v_fields := FUnit; v_attrs := [] |};
    {| v_name := lit "P"; v_fields := FNamed [(lit "x", ex_field 0); (lit "y", ex_field 1)]; v_attrs := [] |} ].

Example ex_enum0_wf : wf_variants ex_enum0.
Proof.
  split; cbn.
  - repeat constructor; cbn; intuition discriminate.
  - repeat constructor; cbn; intuition discriminate.
Qed.

Example ex_enum0_values :
  enum_value str ex_enum0 (CVariant (lit "Z"), []) /\
  enum_value str ex_enum0 (CVariant (lit "P"), [lit "a0"; lit "a1"]).
Proof.
  split.
  - exists {| v_name := lit "Z"; v_fields := FUnnamed []; v_attrs := [] |}. cbn. intuition.
  - exists {| v_name := lit "P"; v_fields := FNamed [(lit "x", ex_field 0); (lit "y", ex_field 1)]; v_attrs := [] |}.
    cbn. intuition.
Qed.

Example ex_enum0_runs :
  let inp := enum_input [] ex_enum0 in
  free_run TBitXor inp (CVariant (lit "Z"), []) (Some (CVariant (lit "Z"), [])) None = lit "Ok Z:" /\
  free_run TBitXor inp (CVariant (lit "W"), []) (Some (CVariant (lit "W"), [])) None = lit "Ok W:" /\
  free_run TBitXor inp (CVariant (lit "U"), []) (Some (CVariant (lit "U"), [])) None
    = lit "Err Unit Cannot bitxor() unit variants" /\
  free_run TBitXor inp (CVariant (lit "Z"), []) (Some (CVariant (lit "W"), [])) None
    = lit "Err Mismatch Trying to bitxor() mismatched enum variants" /\
  free_run TBitXor inp (CVariant (lit "P"), [lit "a0"; lit "a1"]) (Some (CVariant (lit "P"), [lit "b0"; lit "b1"])) None
    = lit "Ok P:(bitxor a0 b0)|(bitxor a1 b1)" /\
  free_run TNot inp (CVariant (lit "Z"), []) None None = lit "Ok Z:" /\
  free_run TNot inp (CVariant (lit "U"), []) None None = lit "Err UnitOnly Cannot not() unit variants".
Proof. vm_compute. repeat split. Qed.

(** the hypothesis of [order_sensitive] *)
Example ex_order_hypothesis :
  exists i x y, nth_error [Leaf 1; Leaf 2] i = Some x /\ nth_error [Leaf 1; Leaf 3] i = Some y /\ x <> y.
Proof. exists 1%nat, (Leaf 2), (Leaf 3). repeat split; discriminate. Qed.

(** a header with every kind of parameter: [impl<'a, A: Clone + Mul.., B, __RhsT: Copy, const N: usize>] *)
Definition ex_generics : generics :=
  {| g_params := [GLifetime (lit "'a"); GType (lit "A") [lit "Clone"]; GConst (lit "const N: usize"); GType (lit "B") []];
     g_where := [lit "A: Default"] |}.

Example ex_scalar_header :
  derive_header ascii_lower TShr ex_generics (struct_input [] (FUnnamed [ex_field 5; ex_field 7; ex_field 5]))
  = Expanded {| h_params := [OLifetime (lit "'a"); OType (lit "A") [BOrig (lit "Clone")]; OType (lit "B") [];
                             ORhs true; OConst (lit "const N: usize")];
                h_where := [WScalarOut 5 (lit "Shr"); WScalarOut 7 (lit "Shr"); WOrig (lit "A: Default")] |}.
Proof. vm_compute. reflexivity. Qed.

Example ex_fieldwise_header :
  derive_header ascii_lower TSub ex_generics (struct_input [] ex_named)
  = Expanded {| h_params := [OLifetime (lit "'a"); OType (lit "A") [BOrig (lit "Clone"); BOpOutput (lit "Sub") (lit "A")];
                             OConst (lit "const N: usize"); OType (lit "B") [BOpOutput (lit "Sub") (lit "B")]];
                h_where := [WOrig (lit "A: Default")] |}.
Proof. vm_compute. reflexivity. Qed.

Example ex_sum_header :
  derive_header ascii_lower TProduct ex_generics (struct_input [] ex_named)
  = Expanded {| h_params := [OLifetime (lit "'a"); OType (lit "A") [BOrig (lit "Clone"); BWith (lit "Product")];
                             OConst (lit "const N: usize"); OType (lit "B") [BWith (lit "Product")]];
                h_where := [WSelfOp (lit "Mul"); WOrig (lit "A: Default")] |}.
Proof. vm_compute. reflexivity. Qed.
