From Coq Require Import String Ascii.
From Verif Require Import Base.Chars C10.Model C10.Proofs.
Import ListNotations.
Open Scope N_scope.

Theorem C10_method_names :
  forall lower : str -> str, lower_ok lower ->
  forall (t : trait) (inp : input) (im : impl),
    derive lower t inp = Expanded im -> im_method im = std_method t.
Proof. exact Proofs.method_names. Qed.
Print Assumptions C10_method_names.

Theorem C10_method_names_table :
  forallb (fun t => forallb (str_eqb (std_method t)) (method_candidates ascii_lower t)) all_traits = true.
Proof. exact Proofs.names_table. Qed.
Print Assumptions C10_method_names_table.

Theorem C10_struct_binary :
  forall lower : str -> str, lower_ok lower ->
  forall (V : Type) (op : str -> V -> V -> V) (uop : str -> V -> V) (ident : str -> N -> V)
         (t : trait) (attrs : list attr) (fs : fields) (a b : list V),
    fs <> FUnit -> NoDup (members_of fs) ->
    (expander_of t = XAddLike \/
     (expander_of t = XMulLike /\ forward_on t attrs /\ fields_clean (std_method t) fs)) ->
    List.length a = List.length (members_of fs) -> List.length b = List.length (members_of fs) ->
    exists im : impl,
      derive lower t (struct_input attrs fs) = Expanded im /\
      run_body V op uop ident (ctx_of (struct_input attrs fs)) (im_body im) (CStruct, a) (Some (CStruct, b)) None
      = Some (RVal (CStruct, map2 (op (std_method t)) a b)).
Proof. exact Proofs.struct_binary. Qed.
Print Assumptions C10_struct_binary.

Theorem C10_scalar :
  forall lower : str -> str, lower_ok lower ->
  forall (V : Type) (op : str -> V -> V -> V) (uop : str -> V -> V) (ident : str -> N -> V)
         (t : trait) (attrs : list attr) (fs : fields) (a : list V) (r : V),
    expander_of t = XMulLike -> forward_off t attrs -> fields_clean (std_method t) fs ->
    NoDup (members_of fs) -> List.length a = List.length (members_of fs) ->
    exists im : impl,
      derive lower t (struct_input attrs fs) = Expanded im /\
      im_scalar im = Some (Nat.ltb 1 (List.length a)) /\
      run_body V op uop ident (ctx_of (struct_input attrs fs)) (im_body im) (CStruct, a) None (Some r)
      = Some (RVal (CStruct, map (fun x => op (std_method t) x r) a)).
Proof. exact Proofs.struct_scalar. Qed.
Print Assumptions C10_scalar.

Theorem C10_unary :
  forall lower : str -> str, lower_ok lower ->
  forall (V : Type) (op : str -> V -> V -> V) (uop : str -> V -> V) (ident : str -> N -> V)
         (t : trait) (attrs : list attr) (fs : fields) (a : list V),
    expander_of t = XNotLike -> fs <> FUnit -> NoDup (members_of fs) ->
    List.length a = List.length (members_of fs) ->
    exists im : impl,
      derive lower t (struct_input attrs fs) = Expanded im /\
      run_body V op uop ident (ctx_of (struct_input attrs fs)) (im_body im) (CStruct, a) None None
      = Some (RVal (CStruct, map (uop (std_method t)) a)).
Proof. exact Proofs.struct_unary. Qed.
Print Assumptions C10_unary.

Theorem C10_assign_fieldwise :
  forall lower : str -> str, lower_ok lower ->
  forall (V : Type) (op : str -> V -> V -> V) (uop : str -> V -> V) (ident : str -> N -> V)
         (t : trait) (attrs : list attr) (fs : fields) (a b : list V),
    (forall x y : V, op (std_method t) x y = op (std_method (base_of t)) x y) ->
    fs <> FUnit -> NoDup (members_of fs) ->
    (expander_of t = XAddAssignLike \/
     (expander_of t = XMulAssignLike /\ forward_on t attrs /\ fields_clean (std_method t) fs /\
      forward_on (base_of t) attrs /\ fields_clean (std_method (base_of t)) fs)) ->
    List.length a = List.length (members_of fs) -> List.length b = List.length (members_of fs) ->
    exists (im_assign im_binary : impl) (v : val V),
      derive lower t (struct_input attrs fs) = Expanded im_assign /\
      derive lower (base_of t) (struct_input attrs fs) = Expanded im_binary /\
      run_assign V op uop ident (ctx_of (struct_input attrs fs)) (im_body im_assign)
                 (CStruct, a) (Some (CStruct, b)) None = Some v /\
      run_body V op uop ident (ctx_of (struct_input attrs fs)) (im_body im_binary)
               (CStruct, a) (Some (CStruct, b)) None = Some (RVal v) /\
      v = (CStruct, map2 (op (std_method (base_of t))) a b).
Proof. exact Proofs.assign_agrees_fieldwise. Qed.
Print Assumptions C10_assign_fieldwise.

Theorem C10_assign_scalar :
  forall lower : str -> str, lower_ok lower ->
  forall (V : Type) (op : str -> V -> V -> V) (uop : str -> V -> V) (ident : str -> N -> V)
         (t : trait) (attrs : list attr) (fs : fields) (a : list V) (r : V),
    (forall x y : V, op (std_method t) x y = op (std_method (base_of t)) x y) ->
    expander_of t = XMulAssignLike ->
    forward_off t attrs -> fields_clean (std_method t) fs ->
    forward_off (base_of t) attrs -> fields_clean (std_method (base_of t)) fs ->
    NoDup (members_of fs) -> List.length a = List.length (members_of fs) ->
    exists (im_assign im_binary : impl) (v : val V),
      derive lower t (struct_input attrs fs) = Expanded im_assign /\
      derive lower (base_of t) (struct_input attrs fs) = Expanded im_binary /\
      run_assign V op uop ident (ctx_of (struct_input attrs fs)) (im_body im_assign)
                 (CStruct, a) None (Some r) = Some v /\
      run_body V op uop ident (ctx_of (struct_input attrs fs)) (im_body im_binary)
               (CStruct, a) None (Some r) = Some (RVal v) /\
      v = (CStruct, map (fun x => op (std_method (base_of t)) x r) a).
Proof. exact Proofs.assign_agrees_scalar. Qed.
Print Assumptions C10_assign_scalar.

Theorem C10_assign_result :
  forall lower : str -> str, lower_ok lower ->
  forall (V : Type) (op : str -> V -> V -> V) (uop : str -> V -> V) (ident : str -> N -> V)
         (t : trait) (attrs : list attr) (fs : fields) (a b : list V),
    fs <> FUnit -> NoDup (members_of fs) ->
    (expander_of t = XAddAssignLike \/
     (expander_of t = XMulAssignLike /\ forward_on t attrs /\ fields_clean (std_method t) fs)) ->
    List.length a = List.length (members_of fs) -> List.length b = List.length (members_of fs) ->
    exists im : impl,
      derive lower t (struct_input attrs fs) = Expanded im /\
      run_assign V op uop ident (ctx_of (struct_input attrs fs)) (im_body im) (CStruct, a) (Some (CStruct, b)) None
      = Some (CStruct, map2 (op (std_method t)) a b).
Proof. exact Proofs.struct_assign_fieldwise. Qed.
Print Assumptions C10_assign_result.

Theorem C10_assign_scalar_result :
  forall lower : str -> str, lower_ok lower ->
  forall (V : Type) (op : str -> V -> V -> V) (uop : str -> V -> V) (ident : str -> N -> V)
         (t : trait) (attrs : list attr) (fs : fields) (a : list V) (r : V),
    expander_of t = XMulAssignLike -> forward_off t attrs -> fields_clean (std_method t) fs ->
    NoDup (members_of fs) -> List.length a = List.length (members_of fs) ->
    exists im : impl,
      derive lower t (struct_input attrs fs) = Expanded im /\
      im_scalar im = Some (Nat.ltb 1 (List.length a)) /\
      run_assign V op uop ident (ctx_of (struct_input attrs fs)) (im_body im) (CStruct, a) None (Some r)
      = Some (CStruct, map (fun x => op (std_method t) x r) a).
Proof. exact Proofs.struct_assign_scalar. Qed.
Print Assumptions C10_assign_scalar_result.

Theorem C10_sum :
  forall lower : str -> str, lower_ok lower ->
  forall (V : Type) (op : str -> V -> V -> V) (uop : str -> V -> V) (ident : str -> N -> V)
         (self_op : str -> list V -> list V -> list V)
         (t : trait) (attrs : list attr) (fs : fields) (xs : list (val V)),
    expander_of t = XSumLike -> no_attr (std_method t) attrs -> fields_clean (std_method t) fs ->
    NoDup (members_of fs) ->
    exists im : impl,
      derive lower t (struct_input attrs fs) = Expanded im /\
      run_fold V op uop ident self_op (ctx_of (struct_input attrs fs)) (im_body im) xs
      = Some (CStruct,
              fold_left (self_op (std_method (fold_op t))) (map snd xs)
                        (map (fun f : field => ident (std_method t) (f_ty f)) (field_list fs))).
Proof. exact Proofs.struct_sum. Qed.
Print Assumptions C10_sum.

Theorem C10_sum_fieldwise :
  forall lower : str -> str, lower_ok lower ->
  forall (V : Type) (op : str -> V -> V -> V) (uop : str -> V -> V) (ident : str -> N -> V)
         (t : trait) (attrs : list attr) (fs : fields) (xs : list (val V)),
    expander_of t = XSumLike -> no_attr (std_method t) attrs -> fields_clean (std_method t) fs ->
    NoDup (members_of fs) ->
    exists im : impl,
      derive lower t (struct_input attrs fs) = Expanded im /\
      run_fold V op uop ident (fun m => map2 (op m)) (ctx_of (struct_input attrs fs)) (im_body im) xs
      = Some (CStruct,
              fold_left (map2 (op (std_method (fold_op t)))) (map snd xs)
                        (map (fun f : field => ident (std_method t) (f_ty f)) (field_list fs))).
Proof. exact Proofs.struct_sum_fieldwise. Qed.
Print Assumptions C10_sum_fieldwise.

Theorem C10_enum :
  forall lower : str -> str, lower_ok lower ->
  forall (V : Type) (op : str -> V -> V -> V) (uop : str -> V -> V) (ident : str -> N -> V)
         (t : trait) (attrs : list attr) (vs : list variant),
    (expander_of t = XAddLike \/
     (expander_of t = XMulLike /\ forward_on t attrs /\ variants_clean (std_method t) vs)) ->
    wf_variants vs ->
    exists im : impl,
      derive lower t (enum_input attrs vs) = Expanded im /\
      im_output im = OutResultBinary /\
      (forall (vr : variant) (a b : list V),
          In vr vs -> List.length a = arity vr -> List.length b = arity vr ->
          run_body V op uop ident (ctx_of (enum_input attrs vs)) (im_body im)
                   (CVariant (v_name vr), a) (Some (CVariant (v_name vr), b)) None
          = Some (if is_unit (v_fields vr) then RErrV EBinUnit (std_method t)
                  else ROkV (CVariant (v_name vr), map2 (op (std_method t)) a b))) /\
      (forall (vr1 vr2 : variant) (a b : list V),
          In vr1 vs -> In vr2 vs -> v_name vr1 <> v_name vr2 ->
          run_body V op uop ident (ctx_of (enum_input attrs vs)) (im_body im)
                   (CVariant (v_name vr1), a) (Some (CVariant (v_name vr2), b)) None
          = Some (RErrV EBinMismatch (std_method t))).
Proof. exact Proofs.enum_binary. Qed.
Print Assumptions C10_enum.

Theorem C10_enum_unary :
  forall lower : str -> str, lower_ok lower ->
  forall (V : Type) (op : str -> V -> V -> V) (uop : str -> V -> V) (ident : str -> N -> V)
         (t : trait) (attrs : list attr) (vs : list variant),
    expander_of t = XNotLike -> wf_variants vs ->
    exists im : impl,
      derive lower t (enum_input attrs vs) = Expanded im /\
      im_output im = (if has_unit_type vs then OutResultUnit else OutSelf) /\
      (forall (vr : variant) (a : list V),
          In vr vs -> List.length a = arity vr ->
          run_body V op uop ident (ctx_of (enum_input attrs vs)) (im_body im) (CVariant (v_name vr), a) None None
          = Some (if is_unit (v_fields vr) then RErrV EUnit (std_method t)
                  else if has_unit_type vs
                       then ROkV (CVariant (v_name vr), map (uop (std_method t)) a)
                       else RVal (CVariant (v_name vr), map (uop (std_method t)) a))).
Proof. exact Proofs.enum_unary. Qed.
Print Assumptions C10_enum_unary.

Theorem C10_struct_binary_pointwise :
  forall lower : str -> str, lower_ok lower ->
  forall (V : Type) (op : str -> V -> V -> V) (uop : str -> V -> V) (ident : str -> N -> V)
         (t : trait) (attrs : list attr) (fs : fields) (a b : list V),
    fs <> FUnit -> NoDup (members_of fs) ->
    (expander_of t = XAddLike \/
     (expander_of t = XMulLike /\ forward_on t attrs /\ fields_clean (std_method t) fs)) ->
    List.length a = List.length (members_of fs) -> List.length b = List.length (members_of fs) ->
    exists (im : impl) (r : list V),
      derive lower t (struct_input attrs fs) = Expanded im /\
      run_body V op uop ident (ctx_of (struct_input attrs fs)) (im_body im) (CStruct, a) (Some (CStruct, b)) None
      = Some (RVal (CStruct, r)) /\
      List.length r = List.length a /\
      forall (i : nat) (x y : V), nth_error a i = Some x -> nth_error b i = Some y ->
                                  nth_error r i = Some (op (std_method t) x y).
Proof. exact Proofs.struct_binary_pointwise. Qed.
Print Assumptions C10_struct_binary_pointwise.

Theorem C10_order_sensitive :
  forall lower : str -> str, lower_ok lower ->
  forall (t : trait) (attrs : list attr) (fs : fields) (a b : list term),
    fs <> FUnit -> NoDup (members_of fs) ->
    (expander_of t = XAddLike \/
     (expander_of t = XMulLike /\ forward_on t attrs /\ fields_clean (std_method t) fs)) ->
    List.length a = List.length (members_of fs) -> List.length b = List.length (members_of fs) ->
    (exists (i : nat) (x y : term), nth_error a i = Some x /\ nth_error b i = Some y /\ x <> y) ->
    exists (im : impl) (r r' : list term),
      derive lower t (struct_input attrs fs) = Expanded im /\
      run_body term App2 App1 Ident (ctx_of (struct_input attrs fs)) (im_body im) (CStruct, a) (Some (CStruct, b)) None
      = Some (RVal (CStruct, r)) /\
      run_body term App2 App1 Ident (ctx_of (struct_input attrs fs)) (im_body im) (CStruct, b) (Some (CStruct, a)) None
      = Some (RVal (CStruct, r')) /\
      r <> r'.
Proof. exact Proofs.order_sensitive. Qed.
Print Assumptions C10_order_sensitive.

Theorem C10_enum_total :
  forall lower : str -> str, lower_ok lower ->
  forall (V : Type) (op : str -> V -> V -> V) (uop : str -> V -> V) (ident : str -> N -> V)
         (t : trait) (attrs : list attr) (vs : list variant),
    (expander_of t = XAddLike \/
     (expander_of t = XMulLike /\ forward_on t attrs /\ variants_clean (std_method t) vs)) ->
    wf_variants vs ->
    exists im : impl,
      derive lower t (enum_input attrs vs) = Expanded im /\
      forall x y : val V, enum_value V vs x -> enum_value V vs y ->
        run_body V op uop ident (ctx_of (enum_input attrs vs)) (im_body im) x (Some y) None
        = enum_binary_spec V op (std_method t) vs x y /\
        enum_binary_spec V op (std_method t) vs x y <> None.
Proof. exact Proofs.enum_total. Qed.
Print Assumptions C10_enum_total.

Theorem C10_sum_small :
  forall lower : str -> str, lower_ok lower ->
  forall (V : Type) (op : str -> V -> V -> V) (uop : str -> V -> V) (ident : str -> N -> V)
         (self_op : str -> list V -> list V -> list V)
         (t : trait) (attrs : list attr) (fs : fields),
    expander_of t = XSumLike -> no_attr (std_method t) attrs -> fields_clean (std_method t) fs ->
    NoDup (members_of fs) ->
    exists im : impl,
      derive lower t (struct_input attrs fs) = Expanded im /\
      let zero := map (fun f : field => ident (std_method t) (f_ty f)) (field_list fs) in
      run_fold V op uop ident self_op (ctx_of (struct_input attrs fs)) (im_body im) [] = Some (CStruct, zero) /\
      forall x : list V,
        run_fold V op uop ident self_op (ctx_of (struct_input attrs fs)) (im_body im) [(CStruct, x)]
        = Some (CStruct, self_op (std_method (fold_op t)) zero x).
Proof. exact Proofs.struct_sum_small. Qed.
Print Assumptions C10_sum_small.

Theorem C10_expanded_only_if_supported :
  forall (lower : str -> str) (t : trait) (inp : input) (im : impl),
    derive lower t inp = Expanded im -> supported_shape t inp im.
Proof. exact Proofs.expanded_only_if_supported. Qed.
Print Assumptions C10_expanded_only_if_supported.

Theorem C10_scalar_header :
  forall lower : str -> str, lower_ok lower ->
  forall (t : trait) (attrs : list attr) (fs : fields) (g : generics),
    (expander_of t = XMulLike \/ expander_of t = XMulAssignLike) ->
    forward_off t attrs -> fields_clean (std_method t) fs ->
    exists (h : header) (new : list wpred),
      derive_header lower t g (struct_input attrs fs) = Expanded h /\
      h_params h = filter is_lifetime (map orig_param (g_params g))
                   ++ filter is_type_param (map orig_param (g_params g))
                   ++ [ORhs (Nat.ltb 1 (List.length (field_list fs)))]
                   ++ filter is_const_param (map orig_param (g_params g)) /\
      h_where h = new ++ map WOrig (g_where g) /\
      NoDup new /\
      (forall f : field, In f (field_list fs) -> In (scalar_pred t (f_ty f)) new) /\
      (forall w : wpred, In w new -> exists f : field, In f (field_list fs) /\ w = scalar_pred t (f_ty f)).
Proof. exact Proofs.scalar_header. Qed.
Print Assumptions C10_scalar_header.

Theorem C10_fieldwise_header :
  forall (lower : str -> str) (t : trait) (g : generics) (inp : input) (im : impl),
    derive lower t inp = Expanded im ->
    (expander_of t = XAddLike \/ expander_of t = XNotLike \/ (expander_of t = XMulLike /\ im_scalar im = None)) ->
    derive_header lower t g inp
    = Expanded {| h_params := map (fun p => push_bound (fun n => BOpOutput (im_trait im) n) (orig_param p)) (g_params g);
                  h_where := map WOrig (g_where g) |}.
Proof. exact Proofs.fieldwise_header. Qed.
Print Assumptions C10_fieldwise_header.

Theorem C10_assign_header :
  forall (lower : str -> str) (t : trait) (g : generics) (inp : input) (im : impl),
    derive lower t inp = Expanded im ->
    (expander_of t = XAddAssignLike \/ (expander_of t = XMulAssignLike /\ im_scalar im = None)) ->
    derive_header lower t g inp
    = Expanded {| h_params := map (fun p => push_bound (fun _ => BOp (im_trait im)) (orig_param p)) (g_params g);
                  h_where := map WOrig (g_where g) |}.
Proof. exact Proofs.assign_header. Qed.
Print Assumptions C10_assign_header.

Theorem C10_sum_header :
  forall lower : str -> str, lower_ok lower ->
  forall (t : trait) (attrs : list attr) (fs : fields) (g : generics),
    expander_of t = XSumLike -> no_attr (std_method t) attrs -> fields_clean (std_method t) fs ->
    exists h : header,
      derive_header lower t g (struct_input attrs fs) = Expanded h /\
      (has_type_param g = false ->
         h = {| h_params := map orig_param (g_params g); h_where := map WOrig (g_where g) |}) /\
      (has_type_param g = true ->
         h = {| h_params := map (fun p => push_bound (fun _ => BWith (trait_name t)) (orig_param p)) (g_params g);
                h_where := WSelfOp (trait_name (fold_op t)) :: map WOrig (g_where g) |}).
Proof. exact Proofs.sum_header. Qed.
Print Assumptions C10_sum_header.
