(** C04 - body / bounds consistency: the (field, trait) pairs the generated body formats are exactly the pairs
    [generate_bounds] bounds (for fields whose type mentions a type parameter), plus the user's predicates -
    for every combination of struct-/variant-level and enum-level attributes, and for Debug. *)
From Verif Require Import Fmt.Model C05.Proofs C05.Single C04.Proofs.
From Coq Require Import Lia.

Section Cons.
Variable cc : CharClass.
Hypothesis Hok : CC_ok cc.

(** ** What a body formats (read off the body alone) *)

(** an attribute handed to [write!] / [format_args!]: one (field, trait) per placeholder that denotes a field *)
Definition attr_formats (a : fmt_attr) (fs : fields) (f : field) (tr : trait) : Prop :=
  exists p, In p (placeholders cc (lit a)) /\ ph_trait p = tr /\ denotes a fs p f.

(** [Trait::fmt(expr, f)]: the field the expression is a binding of ([field] or [&(field)]) *)
Definition texpr_name (e : texpr) : option ident :=
  match e with
  | TField i => Some (unraw i)
  | TRef (EIdent i) => Some (unraw i)
  | TRef (EOther _) => None
  end.

Definition delegate_formats (fs : fields) (e : texpr) (f : field) : Prop :=
  exists n, texpr_name e = Some n /\ field_by_name fs n = Some f.

Inductive body_formats (fs : fields) : body -> field -> trait -> Prop :=
| BF_delegate tr e f : delegate_formats fs e f -> body_formats fs (BDelegate tr e) f tr
| BF_write a dd f tr : attr_formats a fs f tr -> body_formats fs (BWrite a dd) f tr
| BF_variant_attr a dd outer f tr :
    attr_formats a fs f tr -> body_formats fs (BMatchVariant (VFormatArgs a dd) outer) f tr
| BF_variant_field tr i outer f :
    field_by_name fs (unraw i) = Some f -> body_formats fs (BMatchVariant (VFieldFormatArgs tr i) outer) f tr
| BF_outer v outer f tr : body_formats fs outer f tr -> body_formats fs (BMatchVariant v outer) f tr.

Lemma bf_delegate_inv fs tr e f tr' :
  body_formats fs (BDelegate tr e) f tr' -> tr' = tr /\ delegate_formats fs e f.
Proof. intros H. inversion H; subst. split; [reflexivity|assumption]. Qed.

Lemma bf_write_inv fs a dd f tr : body_formats fs (BWrite a dd) f tr -> attr_formats a fs f tr.
Proof. intros H. inversion H; subst. assumption. Qed.

Lemma bf_str_inv fs s f tr : ~ body_formats fs (BWriteStr s) f tr.
Proof. intros H. inversion H. Qed.

Lemma bf_match_inv fs v outer f tr :
  body_formats fs (BMatchVariant v outer) f tr ->
  match v with
  | VFormatArgs a _ => attr_formats a fs f tr
  | VFieldFormatArgs tr0 i => tr = tr0 /\ field_by_name fs (unraw i) = Some f
  | VName _ => False
  end \/ body_formats fs outer f tr.
Proof. intros H. inversion H; subst; [left; assumption|left; split; [reflexivity|assumption]|right; assumption]. Qed.

(** well-formedness of the input: no identifier is doubly raw; the kind of the field list agrees with the fields *)
Definition idents_wf (fs : fields) : Prop :=
  forall i, In i (fmt_args_idents fs) -> unraw (unraw i) = unraw i.

Definition fields_wf (fs : fields) : Prop :=
  match fk fs with
  | Named => forall f, In f (fl fs) -> fname f <> None
  | Unnamed => forall f, In f (fl fs) -> fname f = None
  | Unit => fl fs = []
  end.

Lemma In_inferred ps a fs id tr :
  In (BTy id tr) (inferred ps (bounded_types cc a fs)) <->
  exists f, attr_formats a fs f tr /\ ftid f = id /\ contains_generics ps (fty f) = true.
Proof.
  rewrite inferred_spec. split.
  - intros (f & Hin & Hid & Hc). exists f. split; [|split; assumption].
    apply bounded_types_spec in Hin. exact Hin.
  - intros (f & Hf & Hid & Hc). exists f. split; [|split; assumption].
    apply bounded_types_spec. exact Hf.
Qed.

Lemma In_BTy_users id tr l : ~ In (BTy id tr) (map BUser l).
Proof. intros H. apply in_map_iff in H as (x & Hx & _). discriminate. Qed.

(** ** a delegation formats what [bounded_types] sees in the delegating attribute *)
Lemma find_In_pred {A} (p : A -> bool) l x : find p l = Some x -> In x l /\ p x = true.
Proof. apply find_some. Qed.

Lemma transparent_name a fs e tr :
  idents_wf fs -> transparent_call_on_fields cc a fs = Some (e, tr) ->
  exists p0, placeholders cc (lit a) = [p0] /\ ph_trait p0 = tr /\ placeholder_name a p0 = texpr_name e.
Proof.
  intros Hwf H. unfold transparent_call_on_fields in H.
  destruct (transparent_call cc a) as [[e0 tr0]|] eqn:Ht; [|discriminate].
  destruct (transparent_placeholders cc Hok a e0 tr0 Ht) as (f & Hf & Hm & Htr & Hph).
  pose proof (transparent_call_sound cc a e0 tr0 Ht) as (f' & Hf' & _ & _ & Hcase).
  rewrite Hf in Hf'. inversion Hf'; subst f'. clear Hf'.
  eexists. split; [exact Hph|]. cbn [ph_trait ph_arg].
  set (hit := find (fun f0 => match e0 with
                               | EIdent i => ident_eqb i f0 || ident_eqb i (unraw f0)
                               | EOther _ => false end) (fmt_args_idents fs)) in H.
  set (hit' := match args a with [] => hit | _ => if trait_eqb tr0 TrPointer then None else hit end) in H.
  inversion H; subst tr. split; [reflexivity|]. clear H.
  (* the name [bounded_types] resolves the placeholder to *)
  assert (Hname : placeholder_name a
            {| ph_arg := match f_arg f with Some x => param_of_arg x | None => Positional 0 end;
               ph_mods := false; ph_trait := tr0 |}
          = match f_arg f with
            | Some (AIdent n) => match args a with [] => Some n | _ => option_map unraw (expr_ident e0) end
            | _ => option_map unraw (expr_ident e0)
            end).
  { unfold placeholder_name, placeholder_name_with. cbn [ph_arg].
    destruct Hcase as [[Harg (x & Hargs & He)] | [(n & Harg & Hargs & He) | (n & x & Harg & Hargs & Hal & He)]].
    - assert (Hp : match f_arg f with Some x => param_of_arg x | None => Positional 0 end = Positional 0)
        by (destruct Harg as [-> | ->]; reflexivity).
      rewrite Hp, Hargs. cbn [N.to_nat nth_error]. subst e0.
      destruct Harg as [-> | ->]; destruct (alias x); reflexivity.
    - rewrite Harg, Hargs. reflexivity.
    - rewrite Harg, Hargs. cbn [param_of_arg find]. rewrite Hal, ident_eqb_refl. subst e0. reflexivity. }
  assert (K : forall n, f_arg f = Some (AIdent n) -> args a = [] -> e0 = EIdent n /\ unraw n = n).
  { intros n Ha Hargs. split; [|eapply format_arg_not_raw; eassumption].
    destruct Hcase as [[[Hx|Hx] _] | [(n' & Harg & _ & He) | (n' & x & _ & Hargs' & _)]]; congruence. }
  rewrite Hname. clear Hname Hcase.
  assert (Hlhs : match f_arg f with
                 | Some (AIdent n) => match args a with [] => Some n | _ => option_map unraw (expr_ident e0) end
                 | _ => option_map unraw (expr_ident e0)
                 end = option_map unraw (expr_ident e0)).
  { destruct (f_arg f) as [[m|n]|] eqn:Ha; try reflexivity. destruct (args a) eqn:Hargs; [|reflexivity].
    destruct (K n eq_refl eq_refl) as [-> Hn]. cbn [expr_ident option_map]. rewrite Hn. reflexivity. }
  rewrite Hlhs. clear Hlhs K.
  (* the name the delegation's expression stands for *)
  destruct hit' as [f0|] eqn:Hh.
  - assert (Hhit : hit = Some f0).
    { unfold hit' in Hh. destruct (args a); [exact Hh|]. destruct (trait_eqb tr0 TrPointer); [discriminate|exact Hh]. }
    unfold hit in Hhit. apply find_In_pred in Hhit as [Hin Hp].
    destruct e0 as [i|o]; [|discriminate]. cbn [expr_ident option_map texpr_name].
    apply orb_true_iff in Hp as [Hp|Hp]; apply str_eqb_eq in Hp; subst i; [reflexivity|].
    rewrite (Hwf f0 Hin). reflexivity.
  - cbn [texpr_name]. destruct e0 as [i|o]; reflexivity.
Qed.

(** the body an attribute turns into when it is not wrapped *)
Definition attr_body (a : fmt_attr) (fs : fields) : body :=
  match transparent_call_on_fields cc a fs with
  | Some (e, tr) => BDelegate tr e
  | None => BWrite a (additional_deref_args cc a fs)
  end.

Lemma attr_body_formats a fs f tr :
  idents_wf fs -> (body_formats fs (attr_body a fs) f tr <-> attr_formats a fs f tr).
Proof.
  intros Hwf. unfold attr_body.
  destruct (transparent_call_on_fields cc a fs) as [[e tr0]|] eqn:Ht.
  - destruct (transparent_name a fs e tr0 Hwf Ht) as (p0 & Hph & Htr & Hname).
    unfold attr_formats, denotes. rewrite Hph. split.
    + intros H. apply bf_delegate_inv in H as [-> (n & Hn & Hfld)].
      exists p0. split; [left; reflexivity|]. split; [exact Htr|].
      exists n. split; [congruence|exact Hfld].
    + intros (p & [<-|[]] & Hp & n & Hn & Hfld). rewrite Htr in Hp. subst tr.
      constructor. exists n. split; [congruence|exact Hfld].
  - split.
    + apply bf_write_inv.
    + intros H. constructor. exact H.
Qed.

(** [generate_body] restated with [attr_body] *)
Lemma d_generate_body_eq d :
  d_generate_body cc d =
  let '(has_shared, wrapping) := shared_attr_info cc d in
  match d_fmt d with
  | Some fmt =>
    if wrapping then
      match d_shared d with
      | Some sa => ROk (BMatchVariant (VFormatArgs fmt (additional_deref_args cc fmt (d_fields d)))
                                      (attr_body sa (d_fields d)))
      | None => ROk BEmpty
      end
    else ROk (attr_body fmt (d_fields d))
  | None =>
    let inner : result (option (body * vexpr)) :=
      if wrapping || negb has_shared then
        match fl (d_fields d) with
        | [] => ROk (Some (BWriteStr (d_name d), VName (d_name d)))
        | [f] => let i := match fname f with Some n => n | None => positional_ident 0 end in
                 ROk (Some (BDelegate (d_trait d) (TField i), VFieldFormatArgs (d_trait d) i))
        | _ => RErr E_multi_field_no_attr
        end
      else ROk None in
    match inner with
    | RErr c => RErr c
    | ROk inner =>
      if has_shared then
        match d_shared d, inner with
        | Some sa, None => ROk (attr_body sa (d_fields d))
        | Some sa, Some (_, v) => ROk (BMatchVariant v (attr_body sa (d_fields d)))
        | None, _ => ROk BEmpty
        end
      else match inner with Some (b, _) => ROk b | None => ROk BEmpty end
    end
  end.
Proof.
  unfold d_generate_body, attr_body. destruct (shared_attr_info cc d) as [hs wr].
  destruct (d_fmt d) as [fmt|].
  - destruct wr; [reflexivity|].
    destruct (transparent_call_on_fields cc fmt (d_fields d)) as [[e tr]|]; reflexivity.
  - reflexivity.
Qed.

Lemma info_facts d hs wr :
  shared_attr_info cc d = (hs, wr) ->
  (wr = true -> hs = true) /\ (hs = true -> exists sa, d_shared d = Some sa).
Proof.
  unfold shared_attr_info. destruct (d_shared d) as [sa|].
  - intros H. inversion H; subst. split.
    + intros Hw. apply andb_true_iff in Hw. apply Hw.
    + intros _. exists sa. reflexivity.
  - intros H. inversion H; subst. split; intros; discriminate.
Qed.

(** a single field is found under its own binding's name *)
Lemma single_field_by_name fs f :
  fields_wf fs -> fl fs = [f] ->
  field_by_name fs (unraw (match fname f with Some n => n | None => positional_ident 0 end)) = Some f.
Proof.
  unfold fields_wf, field_by_name. intros Hwf Hfl. destruct (fk fs) eqn:Hk.
  - rewrite Hfl in *. destruct (fname f) as [n|] eqn:Hn; [|exfalso; apply (Hwf f); [left; reflexivity|exact Hn]].
    assert (Hfind : find (fun f0 => match fname f0 with Some n0 => ident_eqb (unraw n0) (unraw n) | None => false end) [f] = Some f).
    { cbn [find]. rewrite Hn, ident_eqb_refl. reflexivity. }
    destruct (unnamed_index (unraw n)); exact Hfind.
  - rewrite Hfl in *. rewrite (Hwf f) by (left; reflexivity). reflexivity.
  - rewrite Hfl in Hwf. discriminate.
Qed.

(** ** Display-like derives: every combination of own and enum-level attribute *)
Theorem display_body_bounds_consistent d b :
  fields_wf (d_fields d) -> idents_wf (d_fields d) ->
  d_generate_body cc d = ROk b ->
  forall id tr,
    In (BTy id tr) (d_generate_bounds cc d) <->
    exists f, body_formats (d_fields d) b f tr /\ ftid f = id /\ contains_generics (d_params d) (fty f) = true.
Proof.
  intros Hfw Hiw Hb id tr. rewrite d_generate_body_eq in Hb. unfold d_generate_bounds.
  destruct (shared_attr_info cc d) as [hs wr] eqn:Hi.
  destruct (info_facts d hs wr Hi) as [Hwr Hhs].
  set (fs := d_fields d) in *. set (ps := d_params d) in *.
  destruct (d_fmt d) as [fmt|] eqn:Hfmt.
  - (* own attribute *)
    destruct wr.
    + destruct (Hhs (Hwr eq_refl)) as [sa Hsa]. rewrite Hsa in Hb |- *. inversion Hb; subst b. clear Hb.
      rewrite !in_app_iff, !In_inferred. split.
      * intros [[(f & Hf & Hid & Hc) | Hu] | (f & Hf & Hid & Hc)].
        -- exists f. split; [apply BF_variant_attr; exact Hf|split; assumption].
        -- exfalso. eapply In_BTy_users. exact Hu.
        -- exists f. split; [apply BF_outer; apply attr_body_formats; assumption|split; assumption].
      * intros (f & Hf & Hid & Hc). apply bf_match_inv in Hf as [Hf|Hf].
        -- left. left. exists f. split; [assumption|split; assumption].
        -- right. exists f. split; [apply (attr_body_formats sa fs f tr Hiw); assumption|split; assumption].
    + inversion Hb; subst b. clear Hb. rewrite app_nil_r, in_app_iff, In_inferred. split.
      * intros [(f & Hf & Hid & Hc) | Hu]; [|exfalso; eapply In_BTy_users; exact Hu].
        exists f. split; [apply attr_body_formats; assumption|split; assumption].
      * intros (f & Hf & Hid & Hc). left. exists f.
        split; [apply (attr_body_formats fmt fs f tr Hiw); assumption|split; assumption].
  - (* no own attribute *)
    destruct (wr || negb hs) eqn:Himp.
    + destruct (fl fs) as [|f0 [|f1 l]] eqn:Hfl; [| |discriminate].
      * (* unit *)
        destruct hs.
        -- destruct (Hhs eq_refl) as [sa Hsa]. rewrite Hsa in Hb |- *. inversion Hb; subst b. clear Hb.
           rewrite !in_app_iff, In_inferred. cbn [app]. split.
           ++ intros [[[]|Hu] | (f & Hf & Hid & Hc)]; [exfalso; eapply In_BTy_users; exact Hu|].
              exists f. split; [apply BF_outer; apply attr_body_formats; assumption|split; assumption].
           ++ intros (f & Hf & Hid & Hc). apply bf_match_inv in Hf as [[]|Hf].
              right. exists f. split; [apply (attr_body_formats sa fs f tr Hiw); assumption|split; assumption].
        -- inversion Hb; subst b. clear Hb. rewrite app_nil_r. cbn [app]. split.
           ++ intros Hu. exfalso. eapply In_BTy_users. exact Hu.
           ++ intros (f & Hf & _). exfalso. eapply bf_str_inv. exact Hf.
      * (* single field *)
        pose proof (single_field_by_name fs f0 Hfw Hfl) as Hsf.
        set (i0 := match fname f0 with Some n => n | None => positional_ident 0 end) in *.
        destruct hs.
        -- destruct (Hhs eq_refl) as [sa Hsa]. rewrite Hsa in Hb |- *. inversion Hb; subst b. clear Hb.
           rewrite !in_app_iff, In_inferred. split.
           ++ intros [[H0|Hu] | (f & Hf & Hid & Hc)].
              ** destruct (contains_generics ps (fty f0)) eqn:Hc0; [|destruct H0].
                 destruct H0 as [H0|[]]. inversion H0; subst.
                 exists f0. split; [apply BF_variant_field; exact Hsf|split; [reflexivity|exact Hc0]].
              ** exfalso. eapply In_BTy_users. exact Hu.
              ** exists f. split; [apply BF_outer; apply attr_body_formats; assumption|split; assumption].
           ++ intros (f & Hf & Hid & Hc). apply bf_match_inv in Hf as [[Ht Hf]|Hf].
              ** left. left. rewrite Hsf in Hf. inversion Hf; subst f tr id. rewrite Hc. left. reflexivity.
              ** right. exists f. split; [apply (attr_body_formats sa fs f tr Hiw); assumption|split; assumption].
        -- inversion Hb; subst b. clear Hb. rewrite app_nil_r, in_app_iff. split.
           ++ intros [H0|Hu]; [|exfalso; eapply In_BTy_users; exact Hu].
              destruct (contains_generics ps (fty f0)) eqn:Hc0; [|destruct H0].
              destruct H0 as [H0|[]]. inversion H0; subst.
              exists f0. split; [|split; [reflexivity|exact Hc0]].
              constructor. exists (unraw i0). split; [reflexivity|exact Hsf].
           ++ intros (f & Hf & Hid & Hc). apply bf_delegate_inv in Hf as [-> (n & Hn & Hfld)].
              cbn [texpr_name] in Hn. inversion Hn; subst n. rewrite Hsf in Hfld. inversion Hfld; subst f id.
              left. rewrite Hc. left. reflexivity.
    + (* the enum-level format is the default for this variant *)
      apply orb_false_iff in Himp as [Hw Hh]. apply negb_false_iff in Hh. subst wr hs.
      destruct (Hhs eq_refl) as [sa Hsa]. rewrite Hsa in Hb |- *. inversion Hb; subst b. clear Hb.
      cbn [app]. rewrite in_app_iff, In_inferred. split.
      * intros [Hu | (f & Hf & Hid & Hc)]; [exfalso; eapply In_BTy_users; exact Hu|].
        exists f. split; [apply attr_body_formats; assumption|split; assumption].
      * intros (f & Hf & Hid & Hc). right. exists f.
        split; [apply (attr_body_formats sa fs f tr Hiw); assumption|split; assumption].
Qed.

(** ... and the user's [bound(...)] predicates are all there, and nothing else is *)
Theorem display_user_bounds_any d id :
  In (BUser id) (d_generate_bounds cc d) <-> In id (d_user_bounds d).
Proof.
  unfold d_generate_bounds. destruct (shared_attr_info cc d) as [hs wr].
  assert (Hmap : In (BUser id) (map BUser (d_user_bounds d)) <-> In id (d_user_bounds d)).
  { rewrite in_map_iff. split; [intros (x & Hx & Hin); inversion Hx; subst; exact Hin|].
    intros H. exists id. split; [reflexivity|exact H]. }
  assert (Hno : ~ In (BUser id) (match d_shared d with
                                           | Some sa => inferred (d_params d) (bounded_types cc sa (d_fields d))
                                           | None => [] end)).
  { destruct (d_shared d); [apply inferred_no_user|intros []]. }
  destruct (d_fmt d) as [fmt|].
  - rewrite !in_app_iff, Hmap. split.
    + intros [[H|H]|H]; [exfalso; eapply inferred_no_user; exact H|exact H|].
      destruct wr; [exfalso; apply Hno; exact H|destruct H].
    + intros H. left. right. exact H.
  - rewrite !in_app_iff, Hmap. split.
    + intros [[H|H]|H]; [|exact H|].
      * exfalso. destruct (wr || negb hs); [|destruct H].
        destruct (fl (d_fields d)) as [|f l]; [destruct H|].
        destruct (contains_generics (d_params d) (fty f)); [destruct H as [H|[]]; discriminate|destruct H].
      * destruct hs; [exfalso; apply Hno; exact H|destruct H].
    + intros H. left. right. exact H.
Qed.

End Cons.
