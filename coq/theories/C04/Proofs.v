(** C04 - inferred formatting bounds on generics are sufficient and not excessive. *)
From Verif Require Import Fmt.Model C05.Proofs.
From Verif Require C03.StdParse C03.Props.

Section C04.
Variable cc : CharClass.

(** a placeholder of the literal denotes field [f]: by name, by position, or through a bare-identifier argument *)
Definition denotes (a : fmt_attr) (fs : fields) (p : placeholder) (f : field) : Prop :=
  exists name, placeholder_name a p = Some name /\ field_by_name fs name = Some f.

(** [bounded_types] lists exactly (field, trait) for every placeholder that denotes a field *)
Theorem bounded_types_spec a fs f tr :
  In (f, tr) (bounded_types cc a fs) <->
  exists p, In p (placeholders cc (lit a)) /\ ph_trait p = tr /\ denotes a fs p f.
Proof.
  unfold bounded_types, denotes. rewrite in_flat_map. split.
  - intros (p & Hp & Hin). exists p. split; [exact Hp|].
    destruct (placeholder_name a p) as [name|] eqn:Hn; [|destruct Hin].
    destruct (field_by_name fs name) as [f'|] eqn:Hf; [|destruct Hin].
    destruct Hin as [Hin|[]]. inversion Hin; subst. split; [reflexivity|]. exists name. split; [reflexivity|exact Hf].
  - intros (p & Hp & Ht & name & Hn & Hf). exists p. split; [exact Hp|].
    rewrite Hn, Hf. left. subst tr. reflexivity.
Qed.

(** of those, only the ones whose type mentions a type parameter become bounds *)
Theorem inferred_spec ps l id tr :
  In (BTy id tr) (inferred ps l) <->
  exists f, In (f, tr) l /\ ftid f = id /\ contains_generics ps (fty f) = true.
Proof.
  unfold inferred. rewrite in_flat_map. split.
  - intros ([f tr'] & Hin & H). destruct (contains_generics ps (fty f)) eqn:Hc; [|destruct H].
    destruct H as [H|[]]. inversion H; subst. exists f. repeat split; assumption.
  - intros (f & Hin & Hid & Hc). exists (f, tr). split; [exact Hin|]. rewrite Hc. left. subst id. reflexivity.
Qed.

Lemma inferred_no_user ps l id : ~ In (BUser id) (inferred ps l).
Proof.
  unfold inferred. rewrite in_flat_map. intros ([f tr] & _ & H).
  destruct (contains_generics ps (fty f)); [destruct H as [H|[]]; discriminate | destruct H].
Qed.

(** ** struct / variant without enum-level attribute *)

Theorem bounds_with_attr d a :
  plain d -> d_fmt d = Some a ->
  d_generate_bounds cc d =
    inferred (d_params d) (bounded_types cc a (d_fields d)) ++ map BUser (d_user_bounds d).
Proof.
  intros Hp Ha. unfold d_generate_bounds. rewrite (shared_info_plain cc d Hp), Ha.
  cbn. rewrite app_nil_r. reflexivity.
Qed.

Theorem bounds_implicit d :
  plain d -> d_fmt d = None ->
  d_generate_bounds cc d =
    match fl (d_fields d) with
    | f :: _ => if contains_generics (d_params d) (fty f) then [BTy (ftid f) (d_trait d)] else []
    | [] => []
    end ++ map BUser (d_user_bounds d).
Proof.
  intros Hp Ha. unfold d_generate_bounds. rewrite (shared_info_plain cc d Hp), Ha.
  cbn. rewrite app_nil_r. reflexivity.
Qed.

(** exactness for an attribute-carrying struct/variant: a bound [ty: Tr] is emitted iff some placeholder
    under [Tr] denotes a field of that (generic) type; the user's predicates are appended unchanged *)
Theorem bounds_exact d a id tr :
  plain d -> d_fmt d = Some a ->
  (In (BTy id tr) (d_generate_bounds cc d) <->
   exists p f, In p (placeholders cc (lit a)) /\ ph_trait p = tr /\ denotes a (d_fields d) p f /\
               ftid f = id /\ contains_generics (d_params d) (fty f) = true).
Proof.
  intros Hp Ha. rewrite (bounds_with_attr d a Hp Ha). rewrite in_app_iff. split.
  - intros [H|H].
    + apply inferred_spec in H as (f & Hin & Hid & Hc).
      apply bounded_types_spec in Hin as (p & Hp' & Ht & Hd).
      exists p, f. repeat split; assumption.
    + apply in_map_iff in H as (x & Hx & _). discriminate.
  - intros (p & f & Hp' & Ht & Hd & Hid & Hc). left.
    apply inferred_spec. exists f. split; [|split; assumption].
    apply bounded_types_spec. exists p. repeat split; assumption.
Qed.

Theorem user_bounds_kept d a id :
  plain d -> d_fmt d = Some a ->
  (In (BUser id) (d_generate_bounds cc d) <-> In id (d_user_bounds d)).
Proof.
  intros Hp Ha. rewrite (bounds_with_attr d a Hp Ha). rewrite in_app_iff. split.
  - intros [H|H]; [exfalso; eapply inferred_no_user; exact H|].
    apply in_map_iff in H as (x & Hx & Hin). inversion Hx; subst. exact Hin.
  - intros H. right. apply in_map_iff. exists id. split; [reflexivity|exact H].
Qed.

(** not excessive: a type parameter that no formatted field's type mentions is never bounded *)
Theorem unformatted_param_unbounded d a :
  plain d -> d_fmt d = Some a ->
  forall id tr, In (BTy id tr) (d_generate_bounds cc d) ->
  exists f, In f (fl (d_fields d)) /\ ftid f = id /\ contains_generics (d_params d) (fty f) = true /\
            In (f, tr) (bounded_types cc a (d_fields d)).
Proof.
  intros Hp Ha id tr H. rewrite (bounds_with_attr d a Hp Ha) in H. apply in_app_iff in H as [H|H].
  - apply inferred_spec in H as (f & Hin & Hid & Hc). exists f. split; [|repeat split; assumption].
    apply bounded_types_spec in Hin as (p & _ & _ & name & _ & Hf).
    unfold field_by_name in Hf.
    destruct (fk (d_fields d)); destruct (unnamed_index name); try discriminate.
    + apply find_some in Hf. apply Hf.
    + apply find_some in Hf. apply Hf.
    + apply nth_error_In in Hf. exact Hf.
  - apply in_map_iff in H as (x & Hx & _). discriminate.
Qed.

(** link to std: the placeholders the bounds are inferred from are exactly those [format_args!] sees *)
Theorem bounded_types_std (Hcc : CC_ok cc) a fs l f tr :
  StdParse.std_parse cc (lit a) = Some l -> Props.no_empty_dot l ->
  (In (f, tr) (bounded_types cc a fs) <->
   exists sa, In sa l /\ trait_name (sp_ty (StdParse.sa_spec sa)) = tr /\
              denotes a fs (StdParse.std_placeholder sa) f).
Proof.
  intros Hs Hd. rewrite bounded_types_spec.
  rewrite (Props.C03_placeholders cc Hcc (lit a) l Hs Hd). split.
  - intros (p & Hp & Ht & Hden). apply in_map_iff in Hp as (sa & Hsa & Hin). subst p.
    exists sa. repeat split; assumption.
  - intros (sa & Hin & Ht & Hden). exists (StdParse.std_placeholder sa).
    split; [apply in_map; exact Hin|]. split; assumption.
Qed.

(** ** Debug *)
Theorem debug_bounds_with_attr g a :
  g_fmt g = Some a ->
  g_generate_bounds cc g =
    map BUser (g_user_bounds g) ++ inferred (g_params g) (bounded_types cc a (g_fields g)).
Proof. intros Ha. unfold g_generate_bounds. rewrite Ha. reflexivity. Qed.

(** without a struct-level format: a non-skipped generic field needs Debug, a skipped one nothing, a field-level
    format what the fields it refers to need *)
Theorem debug_bounds_default g id tr :
  g_fmt g = None ->
  (In (BTy id tr) (g_generate_bounds cc g) <->
   exists f, In f (fl (g_fields g)) /\
     match fattr f with
     | FNone => ftid f = id /\ tr = TrDebug /\ contains_generics (g_params g) (fty f) = true
     | FSkip => False
     | FFmt a => In (BTy id tr) (inferred (g_params g) (bounded_types cc a (g_fields g)))
     end).
Proof.
  intros Hg. unfold g_generate_bounds. rewrite Hg. rewrite in_app_iff. split.
  - intros [H|H]; [apply in_map_iff in H as (x & Hx & _); discriminate|].
    apply in_flat_map in H as (f & Hf & H). exists f. split; [exact Hf|].
    destruct (fattr f) as [| |a].
    + destruct (contains_generics (g_params g) (fty f)) eqn:Hc; [|destruct H].
      destruct H as [H|[]]. inversion H; subst. repeat split; reflexivity || assumption.
    + destruct H.
    + exact H.
  - intros (f & Hf & H). right. apply in_flat_map. exists f. split; [exact Hf|].
    destruct (fattr f) as [| |a].
    + destruct H as (Hid & Ht & Hc). rewrite Hc. left. subst. reflexivity.
    + destruct H.
    + exact H.
Qed.

End C04.

(** non-vacuity: `#[display("{a} {}", b)] struct S<T> { a: T, b: Vec<T>, c: i32 }` bounds a's and b's types *)
Definition tyT : ty := TyPath None [Seg [84] PNone].
Definition tyVecT : ty := TyPath None [Seg [86; 101; 99] (PAngle [Some tyT])].
Definition tyI32 : ty := TyPath None [Seg [105; 51; 50] PNone].
Example ex_bounds :
  d_generate_bounds ascii_cc
    {| d_shared := None;
       d_fmt := Some {| lit := [123; 97; 125; 32; 123; 125]; args := [ {| alias := None; aexpr := EIdent [98] |} ] |};
       d_user_bounds := [7]; d_name := [83];
       d_fields := {| fk := Named; fl := [ {| fname := Some [97]; fty := tyT; ftid := 1; fattr := FNone |};
                                            {| fname := Some [98]; fty := tyVecT; ftid := 2; fattr := FNone |};
                                            {| fname := Some [99]; fty := tyI32; ftid := 3; fattr := FNone |} ] |};
       d_params := [[84]]; d_trait := TrDisplay |}
  = [BTy 1 TrDisplay; BTy 2 TrDisplay; BUser 7].
Proof. vm_compute. reflexivity. Qed.
