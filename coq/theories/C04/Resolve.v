(** C04 - how a name is resolved to a field ([bounded_types], the [unnamed]/[named] match of [fmt/mod.rs:266-278])
    against the bindings the expansion actually introduces ([fmt_args_idents]: the field's identifier, or [_i]);
    and the body / bounds consistency of the Debug derive. *)
From Verif Require Import Fmt.Model C05.Proofs C05.Single C04.Proofs C04.Consistency.
From Coq Require Import Lia.

(** ** [_<decimal>] round trip *)
Definition dstep (acc d : N) : N := acc * 10 + digit_val d.

Lemma digits_value_fold ds : digits_value ds = fold_left dstep ds 0.
Proof. reflexivity. Qed.

Lemma decimal_digits_value : forall fuel n acc,
  n < 10 ^ N.of_nat fuel ->
  fold_left dstep (decimal_digits fuel n acc) 0 = fold_left dstep acc n.
Proof.
  induction fuel as [|fuel IH]; intros n acc Hn.
  - cbn in Hn. assert (n = 0) by lia. subst. reflexivity.
  - cbn [decimal_digits]. destruct (N.ltb_spec n 10) as [Hlt|Hge].
    + cbn [fold_left]. f_equal. unfold dstep, digit_val, c_zero.
      rewrite N.mod_small by exact Hlt. lia.
    + rewrite IH.
      * cbn [fold_left]. f_equal. unfold dstep, digit_val, c_zero.
        assert (H10 : 10 <> 0) by discriminate. pose proof (N.div_mod n 10 H10) as Hdm.
        generalize dependent (n / 10). generalize dependent (n mod 10). intros r q Hdm. lia.
      * rewrite Nat2N.inj_succ, N.pow_succ_r' in Hn.
        apply N.div_lt_upper_bound; lia.
Qed.

Lemma decimal_digits_all_digits : forall fuel n acc,
  forallb is_digit acc = true -> forallb is_digit (decimal_digits fuel n acc) = true.
Proof.
  induction fuel as [|fuel IH]; intros n acc Hacc; [exact Hacc|].
  cbn [decimal_digits].
  assert (Hd : is_digit (48 + n mod 10) = true).
  { unfold is_digit, c_zero, c_nine. assert (H10 : 10 <> 0) by discriminate.
    pose proof (N.mod_upper_bound n 10 H10) as Hub. generalize dependent (n mod 10). intros r Hub.
    apply andb_true_iff. split; apply N.leb_le; lia. }
  destruct (n <? 10).
  - cbn [forallb]. rewrite Hd. exact Hacc.
  - apply IH. cbn [forallb]. rewrite Hd. exact Hacc.
Qed.

Lemma decimal_digits_nonempty : forall fuel n acc, decimal_digits (S fuel) n acc <> [].
Proof.
  induction fuel as [|fuel IH]; intros n acc.
  - cbn. destruct (n <? 10); discriminate.
  - cbn [decimal_digits]. destruct (n <? 10); [discriminate|]. apply IH.
Qed.

Lemma usize_max_lt : usize_max < 10 ^ N.of_nat 40.
Proof. vm_compute. reflexivity. Qed.

Lemma strip_plus_other (s : str) c r :
  s = c :: r -> c <> 43 -> match s with 43 :: r0 => r0 | _ => s end = s.
Proof.
  intros -> Hc. destruct c as [|p]; [reflexivity|].
  do 6 (try (destruct p as [p|p|]; try reflexivity)). exfalso. apply Hc. reflexivity.
Qed.

Theorem parse_usize_decimal n : n <= usize_max -> parse_usize (decimal n) = Some n.
Proof.
  intros Hn. unfold parse_usize, decimal.
  pose proof (decimal_digits_all_digits 40 n [] eq_refl) as Hall.
  pose proof (decimal_digits_nonempty 39 n []) as Hne.
  assert (Hv : digits_value (decimal_digits 40 n []) = n).
  { rewrite digits_value_fold, decimal_digits_value; [reflexivity|]. pose proof usize_max_lt. lia. }
  remember (decimal_digits 40 n []) as s eqn:Es. clear Es.
  destruct s as [|c r]; [exfalso; apply Hne; reflexivity|].
  assert (Hc : is_digit c = true) by (cbn [forallb] in Hall; apply andb_true_iff in Hall; apply Hall).
  assert (Hplus : c <> 43) by (intros ->; discriminate).
  rewrite (strip_plus_other (c :: r) c r eq_refl Hplus).
  rewrite Hall, Hv. apply N.leb_le in Hn. rewrite Hn. reflexivity.
Qed.

Lemma positional_ident_unraw k : unraw (positional_ident k) = positional_ident k.
Proof. unfold positional_ident. apply unraw_neq1. discriminate. Qed.

Theorem unnamed_index_positional k : k <= usize_max -> unnamed_index (positional_ident k) = Some k.
Proof.
  intros Hk. unfold unnamed_index, positional_ident. rewrite N.eqb_refl. apply parse_usize_decimal. exact Hk.
Qed.

(** ** the bindings [_0], [_1], .. / the fields' identifiers *)
Lemma idents_from_nth : forall l i k f,
  nth_error l k = Some f ->
  nth_error (fmt_args_idents_from i l) k =
    Some (match fname f with Some n => n | None => positional_ident (i + N.of_nat k) end).
Proof.
  induction l as [|x l IH]; intros i k f H; [destruct k; discriminate|].
  destruct k as [|k]; cbn [nth_error fmt_args_idents_from] in *.
  - inversion H; subst. rewrite N.add_0_r. reflexivity.
  - rewrite (IH (i + 1) k f H). replace (i + 1 + N.of_nat k) with (i + N.of_nat (S k)) by lia. reflexivity.
Qed.

Lemma idents_from_length l : forall i, length (fmt_args_idents_from i l) = length l.
Proof. induction l as [|x l IH]; intros i; [reflexivity|]. cbn. rewrite IH. reflexivity. Qed.

Lemma idents_nth_inv fs k b :
  nth_error (fmt_args_idents fs) k = Some b ->
  exists f, nth_error (fl fs) k = Some f /\
            b = match fname f with Some n => n | None => positional_ident (N.of_nat k) end.
Proof.
  intros H. unfold fmt_args_idents in H.
  destruct (nth_error (fl fs) k) as [f|] eqn:E.
  - exists f. split; [reflexivity|]. rewrite (idents_from_nth _ 0 k f E) in H. inversion H. reflexivity.
  - exfalso. apply nth_error_None in E. rewrite <- (idents_from_length (fl fs) 0) in E.
    apply nth_error_None in E. congruence.
Qed.

(** no two fields of a named list have the same name (modulo [r#]) *)
Definition uname (f : field) : option ident := option_map unraw (fname f).
Definition names_distinct (fs : fields) : Prop := NoDup (map uname (fl fs)).

Lemma find_by_uname : forall l k f n,
  NoDup (map uname l) -> nth_error l k = Some f -> fname f = Some n ->
  find (fun f0 => match fname f0 with Some n0 => ident_eqb (unraw n0) (unraw n) | None => false end) l = Some f.
Proof.
  induction l as [|x l IH]; intros k f n Hnd Hk Hn; [destruct k; discriminate|].
  cbn [map] in Hnd. inversion Hnd as [|? ? Hnotin Hnd']; subst.
  destruct k as [|k]; cbn [nth_error] in Hk.
  - inversion Hk; subst x. cbn [find]. rewrite Hn, ident_eqb_refl. reflexivity.
  - cbn [find]. destruct (fname x) as [n0|] eqn:Hx.
    + destruct (ident_eqb (unraw n0) (unraw n)) eqn:E.
      * exfalso. apply str_eqb_eq in E. apply Hnotin. apply in_map_iff. exists f.
        split; [|eapply nth_error_In; exact Hk]. unfold uname. rewrite Hx, Hn. cbn. congruence.
      * eapply IH; eassumption.
    + eapply IH; eassumption.
Qed.

Section Resolve.
Variable cc : CharClass.
Hypothesis Hok : CC_ok cc.

(** the number of fields fits the index type *)
Definition count_ok (fs : fields) : Prop := N.of_nat (length (fl fs)) <= usize_max.

(** T1 (complete): the binding of the k-th field is resolved to the k-th field *)
Theorem binder_resolves fs k f b :
  fields_wf fs -> names_distinct fs -> count_ok fs ->
  nth_error (fl fs) k = Some f -> nth_error (fmt_args_idents fs) k = Some b ->
  field_by_name fs (unraw b) = Some f.
Proof.
  intros Hwf Hnd Hcnt Hk Hb. apply idents_nth_inv in Hb as (f' & Hk' & Hb).
  rewrite Hk in Hk'. inversion Hk'; subst f'. clear Hk'.
  unfold fields_wf in Hwf. unfold field_by_name. destruct (fk fs) eqn:Hfk.
  - destruct (fname f) as [n|] eqn:Hn; [|exfalso; eapply Hwf; [eapply nth_error_In; exact Hk|exact Hn]].
    subst b.
    assert (Hfind := find_by_uname (fl fs) k f n Hnd Hk Hn).
    assert (Hun : forall x, ident_eqb x (unraw n) = ident_eqb x (unraw n)) by reflexivity.
    destruct (unnamed_index (unraw n)); exact Hfind.
  - rewrite (Hwf f) in Hb by (eapply nth_error_In; exact Hk). subst b.
    rewrite positional_ident_unraw.
    assert (Hlt : (k < length (fl fs))%nat) by (apply nth_error_Some; congruence).
    rewrite unnamed_index_positional by (unfold count_ok in Hcnt; lia).
    rewrite Nat2N.id. exact Hk.
  - rewrite Hwf in Hk. destruct k; discriminate.
Qed.

(** T2 (sound, up to spelling): a resolved name is the name of that field's binding - or, for a tuple, another
    spelling of its index ([_00], [_01]: not a binding, so the expansion refers to an unknown name) *)
Theorem field_by_name_sound fs name f :
  fields_wf fs -> count_ok fs ->
  field_by_name fs name = Some f ->
  (exists k b, nth_error (fmt_args_idents fs) k = Some b /\ unraw b = name /\ nth_error (fl fs) k = Some f)
  \/ (fk fs = Unnamed /\ forall b, In b (fmt_args_idents fs) -> unraw b <> name).
Proof.
  intros Hwf Hcnt H. unfold field_by_name in H. unfold fields_wf in Hwf. destruct (fk fs) eqn:Hfk.
  - left.
    assert (Hfind : find (fun f0 => match fname f0 with Some n => ident_eqb (unraw n) name | None => false end) (fl fs) = Some f)
      by (destruct (unnamed_index name); exact H).
    apply find_some in Hfind as [Hin Hp]. destruct (fname f) as [n|] eqn:Hn; [|discriminate].
    apply str_eqb_eq in Hp. apply In_nth_error in Hin as [k Hk]. exists k, n.
    split; [|split; assumption]. unfold fmt_args_idents. rewrite (idents_from_nth _ 0 k f Hk), Hn. reflexivity.
  - destruct (unnamed_index name) as [i|] eqn:Hi; [|discriminate].
    destruct (str_eqb name (positional_ident i)) eqn:E.
    + apply str_eqb_eq in E. left. exists (N.to_nat i), (positional_ident i).
      split; [|split; [rewrite positional_ident_unraw; congruence|exact H]].
      unfold fmt_args_idents. rewrite (idents_from_nth _ 0 _ f H).
      rewrite (Hwf f) by (eapply nth_error_In; exact H). rewrite N2Nat.id. reflexivity.
    + right. split; [reflexivity|]. intros b Hb Hub.
      apply In_nth_error in Hb as [k Hk]. apply idents_nth_inv in Hk as (f' & Hk & Hb).
      rewrite (Hwf f') in Hb by (eapply nth_error_In; exact Hk). subst b.
      rewrite positional_ident_unraw in Hub. subst name.
      assert (Hlt : (k < length (fl fs))%nat) by (apply nth_error_Some; congruence).
      rewrite unnamed_index_positional in Hi by (unfold count_ok in Hcnt; lia).
      inversion Hi; subst i. rewrite (proj2 (str_eqb_eq _ _) eq_refl) in E. discriminate.
  - discriminate.
Qed.

(** ** Debug: body / bounds consistency *)

Definition gfield_formats (fs : fields) (gf : gfield) (f : field) (tr : trait) : Prop :=
  match gf with
  | GValue _ id => tr = TrDebug /\ field_by_name fs (unraw id) = Some f
  | GFormat _ a _ => attr_formats cc a fs f tr
  end.

Definition gbody_formats (fs : fields) (b : gbody) (f : field) (tr : trait) : Prop :=
  match b with
  | GDelegate tr0 e => tr = tr0 /\ delegate_formats fs e f
  | GWrite a _ => attr_formats cc a fs f tr
  | GUnit _ => False
  | GTuple _ gfs _ | GStruct _ gfs _ => exists gf, In gf gfs /\ gfield_formats fs gf f tr
  end.

(** what one field contributes to the builder chain *)
Definition gfield_of (fs : fields) (k : nat) (i : N) (f : field) : option gfield :=
  let id := match fname f with Some n => n | None => positional_ident (i + N.of_nat k) end in
  let nm := match fname f with Some n => Some (unraw n) | None => None end in
  match fattr f with
  | FSkip => None
  | FFmt a => Some (GFormat nm a (additional_deref_args cc a fs))
  | FNone => Some (GValue nm id)
  end.

Lemma g_fields_from_In fs : forall l i gf,
  In gf (fst (g_fields_from cc fs i l)) <->
  exists k f, nth_error l k = Some f /\ gfield_of fs k i f = Some gf.
Proof.
  induction l as [|x l IH]; intros i gf.
  - cbn. split; [intros []|intros (k & f & H & _); destruct k; discriminate].
  - cbn [g_fields_from]. destruct (g_fields_from cc fs (i + 1) l) as [rest ex] eqn:E.
    specialize (IH (i + 1) gf). rewrite E in IH. cbn [fst] in IH.
    assert (Hshift : forall k f, gfield_of fs k (i + 1) f = gfield_of fs (S k) i f).
    { intros k f. unfold gfield_of. replace (i + 1 + N.of_nat k) with (i + N.of_nat (S k)) by lia. reflexivity. }
    assert (Hhead : gfield_of fs 0 i x =
                    match fattr x with
                    | FSkip => None
                    | FFmt a => Some (GFormat (match fname x with Some n => Some (unraw n) | None => None end) a
                                              (additional_deref_args cc a fs))
                    | FNone => Some (GValue (match fname x with Some n => Some (unraw n) | None => None end)
                                            (match fname x with Some n => n | None => positional_ident i end))
                    end).
    { unfold gfield_of. rewrite N.add_0_r. reflexivity. }
    split.
    + intros H.
      assert (Hcases : gfield_of fs 0 i x = Some gf \/ In gf rest).
      { rewrite Hhead. destruct (fattr x); cbn [fst] in H.
        - destruct H as [H|H]; [left; f_equal; exact H|right; exact H].
        - right. exact H.
        - destruct H as [H|H]; [left; f_equal; exact H|right; exact H]. }
      destruct Hcases as [H0|Hr].
      * exists 0%nat, x. split; [reflexivity|exact H0].
      * apply IH in Hr as (k & f & Hk & Hg). exists (S k), f. split; [exact Hk|]. rewrite <- Hshift. exact Hg.
    + intros (k & f & Hk & Hg). destruct k as [|k]; cbn [nth_error] in Hk.
      * inversion Hk; subst f. rewrite Hhead in Hg.
        destruct (fattr x); cbn [fst]; [left; inversion Hg; reflexivity|discriminate|left; inversion Hg; reflexivity].
      * assert (Hr : In gf rest).
        { apply IH. exists k, f. split; [exact Hk|]. rewrite Hshift. exact Hg. }
        destruct (fattr x); cbn [fst]; [right; exact Hr|exact Hr|right; exact Hr].
Qed.

Lemma g_attr_body_formats a fs f tr :
  idents_wf fs ->
  (gbody_formats fs (match transparent_call_on_fields cc a fs with
                     | Some (e, tr0) => GDelegate tr0 e
                     | None => GWrite a (additional_deref_args cc a fs)
                     end) f tr <-> attr_formats cc a fs f tr).
Proof.
  intros Hwf. pose proof (attr_body_formats cc Hok a fs f tr Hwf) as H. unfold attr_body in H.
  destruct (transparent_call_on_fields cc a fs) as [[e tr0]|]; cbn [gbody_formats].
  - rewrite <- H. split.
    + intros [-> Hd]. constructor. exact Hd.
    + intros Hb. apply bf_delegate_inv in Hb. exact Hb.
  - reflexivity.
Qed.

Theorem debug_body_bounds_consistent g b :
  fields_wf (g_fields g) -> idents_wf (g_fields g) -> names_distinct (g_fields g) -> count_ok (g_fields g) ->
  g_generate_body cc g = ROk b ->
  forall id tr,
    In (BTy id tr) (g_generate_bounds cc g) <->
    exists f, gbody_formats (g_fields g) b f tr /\ ftid f = id /\ contains_generics (g_params g) (fty f) = true.
Proof.
  intros Hfw Hiw Hnd Hcnt Hb id tr. unfold g_generate_body in Hb. unfold g_generate_bounds.
  set (fs := g_fields g) in *. set (ps := g_params g) in *.
  rewrite in_app_iff.
  assert (Hnu : ~ In (BTy id tr) (map BUser (g_user_bounds g))) by apply In_BTy_users.
  destruct (g_fmt g) as [a|].
  - destruct (has_field_fmt fs); [discriminate|].
    assert (Hbody : b = match transparent_call_on_fields cc a fs with
                        | Some (e, tr0) => GDelegate tr0 e
                        | None => GWrite a (additional_deref_args cc a fs) end).
    { destruct (transparent_call_on_fields cc a fs) as [[e tr0]|]; inversion Hb; reflexivity. }
    subst b. rewrite (In_inferred cc). split.
    + intros [Hu | (f & Hf & Hid & Hc)]; [contradiction|].
      exists f. split; [apply g_attr_body_formats; assumption|split; assumption].
    + intros (f & Hf & Hid & Hc). right. exists f.
      split; [apply (g_attr_body_formats a fs f tr Hiw); assumption|split; assumption].
  - (* per field *)
    assert (Hflat : In (BTy id tr)
                      (flat_map (fun f => match fattr f with
                                          | FFmt a => inferred ps (bounded_types cc a fs)
                                          | FSkip => []
                                          | FNone => if contains_generics ps (fty f) then [BTy (ftid f) TrDebug] else []
                                          end) (fl fs)) <->
                    exists gf, In gf (fst (g_fields_from cc fs 0 (fl fs))) /\
                               exists f, gfield_formats fs gf f tr /\ ftid f = id /\ contains_generics ps (fty f) = true).
    { rewrite in_flat_map. split.
      - intros (f0 & Hin & H). apply In_nth_error in Hin as [k Hk].
        assert (Hbk : nth_error (fmt_args_idents fs) k =
                      Some (match fname f0 with Some n => n | None => positional_ident (0 + N.of_nat k) end)).
        { unfold fmt_args_idents. apply idents_from_nth. exact Hk. }
        destruct (fattr f0) as [| |a] eqn:Hfa.
        + destruct (contains_generics ps (fty f0)) eqn:Hc; [|destruct H].
          destruct H as [H|[]]. inversion H; subst.
          eexists. split.
          * apply g_fields_from_In. exists k, f0. split; [exact Hk|]. unfold gfield_of. rewrite Hfa. reflexivity.
          * exists f0. cbn [gfield_formats]. split; [split; [reflexivity|]|split; [reflexivity|exact Hc]].
            eapply binder_resolves; eassumption.
        + destruct H.
        + apply (In_inferred cc) in H as (f & Hf & Hid & Hc).
          eexists. split.
          * apply g_fields_from_In. exists k, f0. split; [exact Hk|]. unfold gfield_of. rewrite Hfa. reflexivity.
          * exists f. cbn [gfield_formats]. split; [exact Hf|split; assumption].
      - intros (gf & Hin & f & Hf & Hid & Hc). apply g_fields_from_In in Hin as (k & f0 & Hk & Hg).
        exists f0. split; [eapply nth_error_In; exact Hk|].
        assert (Hbk : nth_error (fmt_args_idents fs) k =
                      Some (match fname f0 with Some n => n | None => positional_ident (0 + N.of_nat k) end)).
        { unfold fmt_args_idents. apply idents_from_nth. exact Hk. }
        unfold gfield_of in Hg. destruct (fattr f0) as [| |a]; [|discriminate|].
        + inversion Hg; subst gf. cbn [gfield_formats] in Hf. destruct Hf as [-> Hf].
          pose proof (binder_resolves fs k f0 _ Hfw Hnd Hcnt Hk Hbk) as Hbr.
          assert (Heq : Some f = Some f0) by (rewrite <- Hf; exact Hbr). inversion Heq; subst f.
          rewrite Hc. left. subst id. reflexivity.
        + inversion Hg; subst gf. cbn [gfield_formats] in Hf.
          apply (In_inferred cc). exists f. split; [exact Hf|split; assumption]. }
    rewrite Hflat. clear Hflat.
    destruct (fk fs) eqn:Hfk.
    + destruct (g_fields_from cc fs 0 (fl fs)) as [l ex] eqn:E. inversion Hb; subst b. cbn [gbody_formats fst].
      split.
      * intros [Hu | (gf & Hin & f & Hf & Hr)]; [contradiction|]. exists f. split; [exists gf; split; assumption|exact Hr].
      * intros (f & (gf & Hin & Hf) & Hr). right. exists gf. split; [exact Hin|]. exists f. split; assumption.
    + destruct (g_fields_from cc fs 0 (fl fs)) as [l ex] eqn:E. inversion Hb; subst b. cbn [gbody_formats fst].
      split.
      * intros [Hu | (gf & Hin & f & Hf & Hr)]; [contradiction|]. exists f. split; [exists gf; split; assumption|exact Hr].
      * intros (f & (gf & Hin & Hf) & Hr). right. exists gf. split; [exact Hin|]. exists f. split; assumption.
    + inversion Hb; subst b. cbn [gbody_formats]. unfold fields_wf in Hfw. rewrite Hfk in Hfw. rewrite Hfw. cbn.
      split; [intros [Hu | (gf & [] & _)]; contradiction | intros (f & [] & _)].
Qed.

Theorem debug_user_bounds g id : In (BUser id) (g_generate_bounds cc g) <-> In id (g_user_bounds g).
Proof.
  unfold g_generate_bounds. rewrite in_app_iff, in_map_iff. split.
  - intros [(x & Hx & Hin) | H]; [inversion Hx; subst; exact Hin|].
    exfalso. destruct (g_fmt g) as [a|]; [eapply inferred_no_user; exact H|].
    apply in_flat_map in H as (f & _ & H). destruct (fattr f).
    + destruct (contains_generics (g_params g) (fty f)); [destruct H as [H|[]]; discriminate|destruct H].
    + destruct H.
    + eapply inferred_no_user. exact H.
  - intros H. left. exists id. split; [reflexivity|exact H].
Qed.

End Resolve.

(** T3: the unrestricted converse is false: a tuple index may be spelled in a way that is not a binding *)
Theorem field_by_name_noncanonical_refuted :
  exists fs name f, fields_wf fs /\ field_by_name fs name = Some f /\
                    forall b, In b (fmt_args_idents fs) -> unraw b <> name.
Proof.
  exists {| fk := Unnamed; fl := [ {| fname := None; fty := TyOpaque; ftid := 1; fattr := FNone |} ] |},
         [95; 48; 48], {| fname := None; fty := TyOpaque; ftid := 1; fattr := FNone |}.
  split; [|split].
  - intros f [<-|[]]. reflexivity.
  - reflexivity.
  - intros b [<-|[]]. vm_compute. discriminate.
Qed.

(** non-vacuity of the hypotheses of the consistency theorems, on `struct S<T> { a: i32, r#b: T }` with
    `#[debug("{b}")]` on [a] and `#[debug(skip)]` on [r#b] (Debug), and on the same fields with a struct-level
    `"{a} {}", r#b` (Display): the hypotheses hold, a body exists, and the bound is the one the body needs *)
Definition ex_fs (fa fb : field_attr) : fields :=
  {| fk := Named;
     fl := [ {| fname := Some [97]; fty := tyI32; ftid := 1; fattr := fa |};
             {| fname := Some [114; 35; 98]; fty := tyT; ftid := 2; fattr := fb |} ] |}.

Example ex_hyps fa fb :
  fields_wf (ex_fs fa fb) /\ idents_wf (ex_fs fa fb) /\ names_distinct (ex_fs fa fb) /\ count_ok (ex_fs fa fb).
Proof.
  split; [|split; [|split]].
  - intros f [<-|[<-|[]]]; discriminate.
  - intros i [<-|[<-|[]]]; reflexivity.
  - unfold names_distinct. cbn. repeat constructor; cbn; intuition discriminate.
  - unfold count_ok. vm_compute. discriminate.
Qed.

Example ex_debug_consistent :
  let g := {| g_fmt := None; g_user_bounds := []; g_name := [83];
              g_fields := ex_fs (FFmt {| lit := [123; 98; 125]; args := [] |}) FSkip; g_params := [[84]] |} in
  (exists b, g_generate_body ascii_cc g = ROk b) /\ g_generate_bounds ascii_cc g = [BTy 2 TrDisplay].
Proof. split; [eexists; vm_compute; reflexivity|vm_compute; reflexivity]. Qed.

Example ex_display_consistent :
  let d := {| d_shared := None;
              d_fmt := Some {| lit := [123; 97; 125; 32; 123; 125];
                               args := [ {| alias := None; aexpr := EIdent [114; 35; 98] |} ] |};
              d_user_bounds := [7]; d_name := [83]; d_fields := ex_fs FNone FNone;
              d_params := [[84]]; d_trait := TrDisplay |} in
  (exists b, d_generate_body ascii_cc d = ROk b) /\ d_generate_bounds ascii_cc d = [BTy 2 TrDisplay; BUser 7].
Proof. split; [eexists; vm_compute; reflexivity|vm_compute; reflexivity]. Qed.
