(** C04 - inferred formatting bounds on generics are sufficient and not excessive.
    Property theorems only (statements pinned here; proofs in Proofs.v). *)
From Verif Require Import Fmt.Model C05.Proofs C04.Proofs.
From Verif Require C03.StdParse C03.Props.

(** exactly: a bound [FieldTy: Tr] is emitted iff some placeholder under [Tr] denotes (by name, by position or
    through a bare-identifier argument) a field whose type mentions a type parameter *)
Theorem C04_bounds_exact : forall cc d a id tr,
  plain d -> d_fmt d = Some a ->
  (In (BTy id tr) (d_generate_bounds cc d) <->
   exists p f, In p (placeholders cc (lit a)) /\ ph_trait p = tr /\ denotes a (d_fields d) p f /\
               ftid f = id /\ contains_generics (d_params d) (fty f) = true).
Proof. exact bounds_exact. Qed.
Print Assumptions C04_bounds_exact.

(** ... plus the user's bound(...) predicates, all of them and nothing else *)
Theorem C04_user_bounds_kept : forall cc d a id,
  plain d -> d_fmt d = Some a ->
  (In (BUser id) (d_generate_bounds cc d) <-> In id (d_user_bounds d)).
Proof. exact user_bounds_kept. Qed.
Print Assumptions C04_user_bounds_kept.

(** implicit delegation: the derived trait on the (generic) single field, plus the user's predicates *)
Theorem C04_bounds_implicit : forall cc d,
  plain d -> d_fmt d = None ->
  d_generate_bounds cc d =
    match fl (d_fields d) with
    | f :: _ => if contains_generics (d_params d) (fty f) then [BTy (ftid f) (d_trait d)] else []
    | [] => []
    end ++ map BUser (d_user_bounds d).
Proof. exact bounds_implicit. Qed.
Print Assumptions C04_bounds_implicit.

(** not excessive: every inferred bound is on the type of a formatted field *)
Theorem C04_not_excessive : forall cc d a,
  plain d -> d_fmt d = Some a ->
  forall id tr, In (BTy id tr) (d_generate_bounds cc d) ->
  exists f, In f (fl (d_fields d)) /\ ftid f = id /\ contains_generics (d_params d) (fty f) = true /\
            In (f, tr) (bounded_types cc a (d_fields d)).
Proof. exact unformatted_param_unbounded. Qed.
Print Assumptions C04_not_excessive.

(** the placeholders the bounds come from are exactly those format_args! sees (through C03) *)
Theorem C04_bounded_types_std : forall cc, CC_ok cc -> forall a fs l f tr,
  StdParse.std_parse cc (lit a) = Some l -> Props.no_empty_dot l ->
  (In (f, tr) (bounded_types cc a fs) <->
   exists sa, In sa l /\ trait_name (sp_ty (StdParse.sa_spec sa)) = tr /\
              denotes a fs (StdParse.std_placeholder sa) f).
Proof. exact bounded_types_std. Qed.
Print Assumptions C04_bounded_types_std.

(** Debug: with a struct-/variant-level format as above; otherwise per field *)
Theorem C04_debug_bounds_with_attr : forall cc g a,
  g_fmt g = Some a ->
  g_generate_bounds cc g =
    map BUser (g_user_bounds g) ++ inferred (g_params g) (bounded_types cc a (g_fields g)).
Proof. exact debug_bounds_with_attr. Qed.
Print Assumptions C04_debug_bounds_with_attr.

Theorem C04_debug_bounds_default : forall cc g id tr,
  g_fmt g = None ->
  (In (BTy id tr) (g_generate_bounds cc g) <->
   exists f, In f (fl (g_fields g)) /\
     match fattr f with
     | FNone => ftid f = id /\ tr = TrDebug /\ contains_generics (g_params g) (fty f) = true
     | FSkip => False
     | FFmt a => In (BTy id tr) (inferred (g_params g) (bounded_types cc a (g_fields g)))
     end).
Proof. exact debug_bounds_default. Qed.
Print Assumptions C04_debug_bounds_default.

(** `contains_generics` (which decides whether an inferred bound is emitted at all) is exactly "some type parameter
    occurs in the type", with `occurs` specified independently ([Mentions.mentions]: a path that is the parameter,
    the first segment `T::Assoc`, a qualified self type, any type argument / binding of any segment, Fn(..) sugar,
    references, arrays, tuples, fn pointers, trait-object bounds) - for types of unbounded nesting *)
From Verif Require C04.Mentions.
Theorem C04_contains_generics_spec : forall ps t,
  contains_generics ps t = true <-> exists p, In p ps /\ Mentions.mentions p t.
Proof. exact Mentions.contains_generics_spec. Qed.
Print Assumptions C04_contains_generics_spec.

(** ---- coverage-growth round: pinned below ---- *)
From Verif Require Import Fmt.Front C05.Single C04.Consistency C04.Resolve C02.FrontProofs.

(** body / bounds consistency, Display-like derives, EVERY combination of own and enum-level attribute: a bound [FieldTy: Tr] is in the where-clause iff the generated body formats a field of that (generic) type under [Tr] - through write!, through the text bound to [_variant] (own attribute or single field), through the enum-level format, or through a delegation *)
Theorem C04_display_body_bounds_consistent :
  forall cc : CharClass,
  CC_ok cc ->
  forall (d : dexpansion) (b : body),
  fields_wf (d_fields d) ->
  idents_wf (d_fields d) ->
  d_generate_body cc d = ROk b ->
  forall (id : N) (tr : trait),
  In (BTy id tr) (d_generate_bounds cc d) <->
  (exists f : field,
  body_formats cc (d_fields d) b f tr /\ ftid f = id /\ contains_generics (d_params d) (fty f) = true).
Proof. exact Consistency.display_body_bounds_consistent. Qed.
Print Assumptions C04_display_body_bounds_consistent.

(** ... plus exactly the user's bound(...) predicates, under every combination of attributes *)
Theorem C04_display_user_bounds_any :
  forall (cc : CharClass) (d : dexpansion) (id : N),
  In (BUser id) (d_generate_bounds cc d) <-> In id (d_user_bounds d).
Proof. exact Consistency.display_user_bounds_any. Qed.
Print Assumptions C04_display_user_bounds_any.

(** an attribute's body (delegation or write!) formats exactly what [bounded_types] infers from the attribute *)
Theorem C04_attr_body_formats :
  forall cc : CharClass,
  CC_ok cc ->
  forall (a : fmt_attr) (fs : fields) (f : field) (tr : trait),
  idents_wf fs -> body_formats cc fs (attr_body cc a fs) f tr <-> attr_formats cc a fs f tr.
Proof. exact Consistency.attr_body_formats. Qed.
Print Assumptions C04_attr_body_formats.

(** a delegating attribute has one placeholder, and the name [bounded_types] resolves it to is the name of the expression handed to Trait::fmt *)
Theorem C04_transparent_name :
  forall cc : CharClass,
  CC_ok cc ->
  forall (a : fmt_attr) (fs : fields) (e : texpr) (tr : trait),
  idents_wf fs ->
  transparent_call_on_fields cc a fs = Some (e, tr) ->
  exists p0 : placeholder,
  placeholders cc (lit a) = [p0] /\ ph_trait p0 = tr /\ placeholder_name a p0 = texpr_name e.
Proof. exact Consistency.transparent_name. Qed.
Print Assumptions C04_transparent_name.

(** body / bounds consistency for Debug: struct-/variant-level format, or per field (shown as is: Debug of its type; field-level format: what its placeholders denote among ALL fields; skipped: nothing) *)
Theorem C04_debug_body_bounds_consistent :
  forall cc : CharClass,
  CC_ok cc ->
  forall (g : gexpansion) (b : gbody),
  fields_wf (g_fields g) ->
  idents_wf (g_fields g) ->
  names_distinct (g_fields g) ->
  count_ok (g_fields g) ->
  g_generate_body cc g = ROk b ->
  forall (id : N) (tr : trait),
  In (BTy id tr) (g_generate_bounds cc g) <->
  (exists f : field,
  gbody_formats cc (g_fields g) b f tr /\ ftid f = id /\ contains_generics (g_params g) (fty f) = true).
Proof. exact Resolve.debug_body_bounds_consistent. Qed.
Print Assumptions C04_debug_body_bounds_consistent.

(** Debug keeps exactly the user's predicates *)
Theorem C04_debug_user_bounds :
  forall (cc : CharClass) (g : gexpansion) (id : N),
  In (BUser id) (g_generate_bounds cc g) <-> In id (g_user_bounds g).
Proof. exact Resolve.debug_user_bounds. Qed.
Print Assumptions C04_debug_user_bounds.

(** name resolution is complete: the binding the expansion introduces for the k-th field ([_k] / the field's identifier) is resolved to the k-th field *)
Theorem C04_binder_resolves :
  forall (fs : fields) (k : nat) (f : field) (b : ident),
  fields_wf fs ->
  names_distinct fs ->
  count_ok fs ->
  nth_error (fl fs) k = Some f ->
  nth_error (fmt_args_idents fs) k = Some b -> field_by_name fs (unraw b) = Some f.
Proof. exact Resolve.binder_resolves. Qed.
Print Assumptions C04_binder_resolves.

(** name resolution is sound up to spelling: a resolved name is the name of that field's binding, or (tuples only) a spelling of the index that is no binding at all *)
Theorem C04_field_by_name_sound :
  forall (fs : fields) (name : ident) (f : field),
  fields_wf fs ->
  count_ok fs ->
  field_by_name fs name = Some f ->
  (exists (k : nat) (b : ident),
  nth_error (fmt_args_idents fs) k = Some b /\ unraw b = name /\ nth_error (fl fs) k = Some f) \/
  fk fs = Unnamed /\ (forall b : ident, In b (fmt_args_idents fs) -> unraw b <> name).
Proof. exact Resolve.field_by_name_sound. Qed.
Print Assumptions C04_field_by_name_sound.

(** the unrestricted converse is false: [_00] is resolved to field 0 of a tuple although no binding has that name (such an expansion mentions an unknown name, so it does not compile) *)
Theorem C04_field_by_name_noncanonical_refuted :
  exists (fs : fields) (name : ident) (f : field),
  fields_wf fs /\
  field_by_name fs name = Some f /\ (forall b : ident, In b (fmt_args_idents fs) -> unraw b <> name).
Proof. exact Resolve.field_by_name_noncanonical_refuted. Qed.
Print Assumptions C04_field_by_name_noncanonical_refuted.

(** the positional binding [_k] is read back as index k *)
Theorem C04_unnamed_index_positional :
  forall k : N, k <= usize_max -> unnamed_index (positional_ident k) = Some k.
Proof. exact Resolve.unnamed_index_positional. Qed.
Print Assumptions C04_unnamed_index_positional.

(** several attributes on one item (Display-like): the predicates of ALL bound(...) attributes are kept, in source order; one format and one rename_all at most *)
Theorem C04_bounds_of_several_attributes :
  forall (name : str) (l : list raw_attr) (a : dattrs),
  d_parse_attrs name l = ROk a ->
  let cs := attrs_named name l in
  Forall d_content_ok cs /\
  (length (c_fmts cs) <= 1)%nat /\
  (length (c_renames cs) <= 1)%nat /\
  ca_fmt (da_common a) = hd_error (c_fmts cs) /\
  ca_bounds (da_common a) = c_preds cs /\ da_rename a = the_rename cs.
Proof. exact FrontProofs.d_parse_attrs_sound. Qed.
Print Assumptions C04_bounds_of_several_attributes.

(** the same for Debug's container attributes *)
Theorem C04_debug_bounds_of_several_attributes :
  forall (name : str) (l : list raw_attr) (a : cattrs),
  c_parse_attrs name l = ROk a ->
  let cs := attrs_named name l in
  Forall c_content_ok cs /\
  (length (c_fmts cs) <= 1)%nat /\ ca_fmt a = hd_error (c_fmts cs) /\ ca_bounds a = c_preds cs.
Proof. exact FrontProofs.c_parse_attrs_sound. Qed.
Print Assumptions C04_debug_bounds_of_several_attributes.

(** whole-item statement for structs: the where-clause additions contain exactly the predicates written in the struct's bound(...) attributes of this derive *)
Theorem C04_struct_user_bounds :
  forall (cc : CharClass) (to_case : casing -> str -> str) (tr : trait) (it : ritem)
  (fs : rfields) (arms : list (body * list bound)) (bs : list bound) (id : N),
  ri_data it = RStruct fs ->
  d_expand_item cc to_case tr it = ROk (arms, bs) ->
  In (BUser id) bs <-> In id (c_preds (attrs_named (attr_name_of tr) (ri_attrs it))).
Proof. exact FrontProofs.struct_user_bounds. Qed.
Print Assumptions C04_struct_user_bounds.

(** the where clause of the impl ([expand]: the type's own clause, or an empty one, extended by the bounds): every predicate of the type's own where clause is kept ... *)
Theorem C04_impl_where_keeps_own :
  forall (own : list N) (bounds : list bound) (p : N), In p own -> In (BUser p) (impl_where own bounds).
Proof. exact FrontProofs.impl_where_keeps_own. Qed.
Print Assumptions C04_impl_where_keeps_own.

(** ... every inferred bound and bound(...) predicate is added ... *)
Theorem C04_impl_where_adds_bounds :
  forall (own : list N) (bounds : list bound) (b : bound), In b bounds -> In b (impl_where own bounds).
Proof. exact FrontProofs.impl_where_adds_bounds. Qed.
Print Assumptions C04_impl_where_adds_bounds.

(** ... in that order: the own predicates first, then exactly the bounds *)
Theorem C04_impl_where_order :
  forall (own : list N) (bounds : list bound),
  firstn (length own) (impl_where own bounds) = map BUser own /\
  skipn (length own) (impl_where own bounds) = bounds.
Proof. exact FrontProofs.impl_where_order. Qed.
Print Assumptions C04_impl_where_order.

(** whole-item statement, Display-like derives: the impl's where clause is the type's own predicates followed by the bounds of the expansion - whatever is inferred, also nothing *)
Theorem C04_display_item_where_spec :
  forall (cc : CharClass) (to_case : casing -> str -> str) (tr : trait) (it : ritem) (w : list bound),
  d_item_where cc to_case tr it = ROk w <->
  (exists (arms : list (body * list bound)) (bs : list bound),
  d_expand_item cc to_case tr it = ROk (arms, bs) /\ w = map BUser (ri_where it) ++ bs).
Proof. exact FrontProofs.display_item_where_spec. Qed.
Print Assumptions C04_display_item_where_spec.

(** the same for Debug (the bounds of the struct, or of every variant in order) *)
Theorem C04_debug_item_where_spec :
  forall (cc : CharClass) (it : ritem) (w : list bound),
  g_item_where cc it = ROk w <->
  (exists arms : list (gbody * list bound),
  g_expand_item cc it = ROk arms /\ w = map BUser (ri_where it) ++ flat_map snd arms).
Proof. exact FrontProofs.debug_item_where_spec. Qed.
Print Assumptions C04_debug_item_where_spec.

(** hence nothing the user wrote on the type and nothing the derive infers is ever missing from the impl *)
Theorem C04_display_item_where_complete :
  forall (cc : CharClass) (to_case : casing -> str -> str) (tr : trait) (it : ritem) (w : list bound),
  d_item_where cc to_case tr it = ROk w ->
  (forall p : N, In p (ri_where it) -> In (BUser p) w) /\
  (forall (arms : list (body * list bound)) (bs : list bound) (b : bound),
  d_expand_item cc to_case tr it = ROk (arms, bs) -> In b bs -> In b w).
Proof. exact FrontProofs.display_item_where_complete. Qed.
Print Assumptions C04_display_item_where_complete.
