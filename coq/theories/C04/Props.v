(** C04 - inferred formatting bounds on generics are sufficient and not excessive.
    Property theorems only (statements pinned here; proofs in Proofs.v). *)
From Verif Require Import Fmt.Model C05.Proofs C04.Proofs.
From Verif Require C03.StdParse C03.Props.

(** exactly: a bound [FieldTy: Tr] is emitted iff some placeholder under [Tr] denotes (by name, by position or
    through a bare-identifier argument) a field whose type mentions a type parameter *)
Theorem C04_bounds_exact : forall cc d a id tr,
  plain d -> d_fmt d = Some a ->
  (In (BTy id tr) (d_generate_bounds cc d) <->
   exists p f, In p (placeholders cc (lit a)) /\ ph_trait p = tr /\ denotes a (d_fields d) p f /\
               ftid f = id /\ contains_generics (d_params d) (fty f) = true).
Proof. exact bounds_exact. Qed.
Print Assumptions C04_bounds_exact.

(** ... plus the user's bound(...) predicates, all of them and nothing else *)
Theorem C04_user_bounds_kept : forall cc d a id,
  plain d -> d_fmt d = Some a ->
  (In (BUser id) (d_generate_bounds cc d) <-> In id (d_user_bounds d)).
Proof. exact user_bounds_kept. Qed.
Print Assumptions C04_user_bounds_kept.

(** implicit delegation: the derived trait on the (generic) single field, plus the user's predicates *)
Theorem C04_bounds_implicit : forall cc d,
  plain d -> d_fmt d = None ->
  d_generate_bounds cc d =
    match fl (d_fields d) with
    | f :: _ => if contains_generics (d_params d) (fty f) then [BTy (ftid f) (d_trait d)] else []
    | [] => []
    end ++ map BUser (d_user_bounds d).
Proof. exact bounds_implicit. Qed.
Print Assumptions C04_bounds_implicit.

(** not excessive: every inferred bound is on the type of a formatted field *)
Theorem C04_not_excessive : forall cc d a,
  plain d -> d_fmt d = Some a ->
  forall id tr, In (BTy id tr) (d_generate_bounds cc d) ->
  exists f, In f (fl (d_fields d)) /\ ftid f = id /\ contains_generics (d_params d) (fty f) = true /\
            In (f, tr) (bounded_types cc a (d_fields d)).
Proof. exact unformatted_param_unbounded. Qed.
Print Assumptions C04_not_excessive.

(** the placeholders the bounds come from are exactly those format_args! sees (through C03) *)
Theorem C04_bounded_types_std : forall cc, CC_ok cc -> forall a fs l f tr,
  StdParse.std_parse cc (lit a) = Some l -> Props.no_empty_dot l ->
  (In (f, tr) (bounded_types cc a fs) <->
   exists sa, In sa l /\ trait_name (sp_ty (StdParse.sa_spec sa)) = tr /\
              denotes a fs (StdParse.std_placeholder sa) f).
Proof. exact bounded_types_std. Qed.
Print Assumptions C04_bounded_types_std.

(** Debug: with a struct-/variant-level format as above; otherwise per field *)
Theorem C04_debug_bounds_with_attr : forall cc g a,
  g_fmt g = Some a ->
  g_generate_bounds cc g =
    map BUser (g_user_bounds g) ++ inferred (g_params g) (bounded_types cc a (g_fields g)).
Proof. exact debug_bounds_with_attr. Qed.
Print Assumptions C04_debug_bounds_with_attr.

Theorem C04_debug_bounds_default : forall cc g id tr,
  g_fmt g = None ->
  (In (BTy id tr) (g_generate_bounds cc g) <->
   exists f, In f (fl (g_fields g)) /\
     match fattr f with
     | FNone => ftid f = id /\ tr = TrDebug /\ contains_generics (g_params g) (fty f) = true
     | FSkip => False
     | FFmt a => In (BTy id tr) (inferred (g_params g) (bounded_types cc a (g_fields g)))
     end).
Proof. exact debug_bounds_default. Qed.
Print Assumptions C04_debug_bounds_default.

(** `contains_generics` (which decides whether an inferred bound is emitted at all) is exactly "some type parameter
    occurs in the type", with `occurs` specified independently ([Mentions.mentions]: a path that is the parameter,
    the first segment `T::Assoc`, a qualified self type, any type argument / binding of any segment, Fn(..) sugar,
    references, arrays, tuples, fn pointers, trait-object bounds) - for types of unbounded nesting *)
From Verif Require C04.Mentions.
Theorem C04_contains_generics_spec : forall ps t,
  contains_generics ps t = true <-> exists p, In p ps /\ Mentions.mentions p t.
Proof. exact Mentions.contains_generics_spec. Qed.
Print Assumptions C04_contains_generics_spec.
