(** C04 (supplement) - an independent, declarative reading of [contains_generics]
    ([impl ContainsGenericsExt for syn::Type / syn::Path], [impl/src/fmt/mod.rs:612-729]):
    "the type mentions one of the type parameters", for types of unbounded nesting.

    [mentions p t] is written from the rules, not from [ty_contains]; the theorem
    [contains_generics_spec] ties the two together. *)
From Verif Require Import Fmt.Model.

(** ** Where a type parameter [p] counts as occurring *)

Inductive mentions (p : ident) : ty -> Prop :=
  (* `<Q as Tr>::X` : inside the qualified self type *)
| M_qself q segs :
    mentions p q -> mentions p (TyPath (Some q) segs)
  (* in the path itself (see [path_mentions]) *)
| M_path q segs :
    path_mentions p segs -> mentions p (TyPath q segs)
  (* `[T; N]`, `(T)`, `*const T`, `&T`, `[T]`, a `Group` *)
| M_elem t :
    mentions p t -> mentions p (TyElem t)
  (* `fn(A) -> B` : an input ... *)
| M_fn_in ins out t :
    In t ins -> mentions p t -> mentions p (TyBareFn ins out)
  (* ... or the output *)
| M_fn_out ins t :
    mentions p t -> mentions p (TyBareFn ins (Some t))
  (* `(A, B)` : any element *)
| M_tuple ts t :
    In t ts -> mentions p t -> mentions p (TyTuple ts)
  (* `dyn Tr<A> + 'a` : the path of any trait bound (lifetime bounds are [None]) *)
| M_bound bs segs :
    In (Some segs) bs -> path_mentions p segs -> mentions p (TyTraitObject bs)
  (* no constructor for [TyOpaque]: `impl Tr`, `_`, a macro, `!`, verbatim mention nothing *)

(** a path `s0::s1::...` *)
with path_mentions (p : ident) : list seg -> Prop :=
  (* segment 0 is `p` without arguments: `T` alone ([rest = []]) or `T::Assoc`;
     a later segment called `p` (`a::T`) does not count *)
| P_head rest :
    path_mentions p (Seg p PNone :: rest)
  (* in the generic arguments of any segment, whatever its position or name *)
| P_args segs name a :
    In (Seg name a) segs -> args_mention p a -> path_mentions p segs

(** the arguments of one path segment; [PNone] mentions nothing *)
with args_mention (p : ident) : pargs -> Prop :=
  (* `<A, X = B>` : a type argument or an associated-type binding ([Some]);
     lifetimes, consts and constraints are [None] and never count *)
| A_angle gs t :
    In (Some t) gs -> mentions p t -> args_mention p (PAngle gs)
  (* `Fn(A) -> B` : an input ... *)
| A_paren_in ins out t :
    In t ins -> mentions p t -> args_mention p (PParen ins out)
  (* ... or the output *)
| A_paren_out ins t :
    mentions p t -> args_mention p (PParen ins (Some t)).

(** the per-segment view, with the "is this segment 0?" flag of [seg_contains] *)
Definition seg_mentions (p : ident) (first : bool) (s : seg) : Prop :=
  match s with
  | Seg name a => (first = true /\ name = p /\ a = PNone) \/ args_mention p a
  end.

(** the first rule of the informal description, as a special case of [P_head] *)
Lemma mentions_ident p q : mentions p (TyPath q [Seg p PNone]).
Proof. apply M_path, P_head. Qed.

Scheme mentions_mind := Minimality for mentions Sort Prop
  with path_mentions_mind := Minimality for path_mentions Sort Prop
  with args_mention_mind := Minimality for args_mention Sort Prop.
Combined Scheme mentions_mutind from mentions_mind, path_mentions_mind, args_mention_mind.

(** ** Structural induction over the nested mutual type *)
Section TyInd.
  Variables (P : ty -> Prop) (Q : pargs -> Prop).

  Definition OptP (o : option ty) : Prop :=
    match o with Some t => P t | None => True end.
  Definition SegQ (s : seg) : Prop :=
    match s with Seg _ a => Q a end.
  Definition BoundQ (b : option (list seg)) : Prop :=
    match b with Some segs => Forall SegQ segs | None => True end.

  Hypotheses
    (HPath : forall q segs, OptP q -> Forall SegQ segs -> P (TyPath q segs))
    (HElem : forall t, P t -> P (TyElem t))
    (HBareFn : forall ins out, Forall P ins -> OptP out -> P (TyBareFn ins out))
    (HTuple : forall ts, Forall P ts -> P (TyTuple ts))
    (HTraitObject : forall bs, Forall BoundQ bs -> P (TyTraitObject bs))
    (HOpaque : P TyOpaque)
    (HNone : Q PNone)
    (HAngle : forall gs, Forall OptP gs -> Q (PAngle gs))
    (HParen : forall ins out, Forall P ins -> OptP out -> Q (PParen ins out)).

  Fixpoint ty_ind' (t : ty) : P t :=
    match t as t0 return P t0 with
    | TyPath q segs =>
      HPath q segs
        (match q as o return OptP o with Some t' => ty_ind' t' | None => I end)
        ((fix go (l : list seg) : Forall SegQ l :=
            match l with
            | [] => Forall_nil _
            | s :: r => Forall_cons s (seg_ind' s) (go r)
            end) segs)
    | TyElem t' => HElem t' (ty_ind' t')
    | TyBareFn ins out =>
      HBareFn ins out
        ((fix go (l : list ty) : Forall P l :=
            match l with
            | [] => Forall_nil _
            | x :: r => Forall_cons x (ty_ind' x) (go r)
            end) ins)
        (match out as o return OptP o with Some t' => ty_ind' t' | None => I end)
    | TyTuple ts =>
      HTuple ts
        ((fix go (l : list ty) : Forall P l :=
            match l with
            | [] => Forall_nil _
            | x :: r => Forall_cons x (ty_ind' x) (go r)
            end) ts)
    | TyTraitObject bs =>
      HTraitObject bs
        ((fix go (l : list (option (list seg))) : Forall BoundQ l :=
            match l with
            | [] => Forall_nil _
            | b :: r =>
              Forall_cons b
                (match b as o return BoundQ o with
                 | Some segs =>
                   (fix go' (l' : list seg) : Forall SegQ l' :=
                      match l' with
                      | [] => Forall_nil _
                      | s :: r' => Forall_cons s (seg_ind' s) (go' r')
                      end) segs
                 | None => I
                 end)
                (go r)
            end) bs)
    | TyOpaque => HOpaque
    end
  with seg_ind' (s : seg) : SegQ s :=
    match s as s0 return SegQ s0 with
    | Seg _ a => pargs_ind' a
    end
  with pargs_ind' (a : pargs) : Q a :=
    match a as a0 return Q a0 with
    | PNone => HNone
    | PAngle gs =>
      HAngle gs
        ((fix go (l : list (option ty)) : Forall OptP l :=
            match l with
            | [] => Forall_nil _
            | g :: r =>
              Forall_cons g
                (match g as o return OptP o with Some t' => ty_ind' t' | None => I end)
                (go r)
            end) gs)
    | PParen ins out =>
      HParen ins out
        ((fix go (l : list ty) : Forall P l :=
            match l with
            | [] => Forall_nil _
            | x :: r => Forall_cons x (ty_ind' x) (go r)
            end) ins)
        (match out as o return OptP o with Some t' => ty_ind' t' | None => I end)
    end.
End TyInd.

(** ** Facts about the executable side *)

Lemma mem_ident_In x l : mem_ident x l = true <-> In x l.
Proof.
  unfold mem_ident, ident_eqb. rewrite existsb_exists. split.
  - intros (y & Hy & E). apply str_eqb_eq in E. subst y. exact Hy.
  - intros H. exists x. split; [exact H|]. apply str_eqb_eq. reflexivity.
Qed.

(** what [seg_contains] looks at besides the first-segment rule *)
Definition args_contains (ps : list ident) (a : pargs) : bool :=
  match a with
  | PNone => false
  | PAngle gs => existsb (opt_any (ty_contains ps)) gs
  | PParen inputs out => existsb (ty_contains ps) inputs || opt_any (ty_contains ps) out
  end.

Lemma seg_contains_false ps n a : seg_contains ps (Seg n a) false = args_contains ps a.
Proof. destruct a; reflexivity. Qed.

Lemma seg_contains_true ps n a :
  seg_contains ps (Seg n a) true = true <->
  (a = PNone /\ In n ps) \/ args_contains ps a = true.
Proof.
  destruct a as [|gs|ins out]; cbn [seg_contains args_contains andb].
  - rewrite mem_ident_In. split.
    + intros H. left. split; [reflexivity|exact H].
    + intros [[_ H]|H]; [exact H|discriminate H].
  - split; [intros H; right; exact H|intros [[E _]|H]; [discriminate E|exact H]].
  - split; [intros H; right; exact H|intros [[E _]|H]; [discriminate E|exact H]].
Qed.

Lemma segs_any_cons f s r first : segs_any f (s :: r) first = f s first || segs_any f r false.
Proof. reflexivity. Qed.

Lemma segs_any_false f l : segs_any f l false = existsb (fun s => f s false) l.
Proof.
  induction l as [|s r IH]; [reflexivity|].
  rewrite segs_any_cons, IH. reflexivity.
Qed.

(** the [path.get_ident()] shortcut of the [Type::Path] arm agrees with the general path rule *)
Lemma get_ident_shortcut ps segs :
  match segs with
  | [Seg name PNone] => mem_ident name ps
  | _ => segs_any (seg_contains ps) segs true
  end = segs_any (seg_contains ps) segs true.
Proof.
  destruct segs as [|[name [|gs|ins out]] [|s' r]]; try reflexivity.
  cbn [segs_any seg_contains andb]. rewrite orb_false_r. reflexivity.
Qed.

Lemma ty_contains_path ps q segs :
  ty_contains ps (TyPath q segs) =
  opt_any (ty_contains ps) q || segs_any (seg_contains ps) segs true.
Proof.
  cbn [ty_contains]. rewrite get_ident_shortcut. reflexivity.
Qed.

Lemma segs_any_args ps n a segs first :
  In (Seg n a) segs -> args_contains ps a = true ->
  segs_any (seg_contains ps) segs first = true.
Proof.
  intros Hin Ha. revert first.
  induction segs as [|s r IH]; intros first; [destruct Hin|].
  rewrite segs_any_cons. apply orb_true_iff.
  destruct Hin as [E|Hin].
  - left. subst s. destruct first.
    + apply seg_contains_true. right. exact Ha.
    + rewrite seg_contains_false. exact Ha.
  - right. apply IH. exact Hin.
Qed.

(** ** Soundness: every mention is found *)
Lemma mentions_sound ps p : In p ps ->
  (forall t, mentions p t -> ty_contains ps t = true) /\
  (forall segs, path_mentions p segs -> segs_any (seg_contains ps) segs true = true) /\
  (forall a, args_mention p a -> args_contains ps a = true).
Proof.
  intros Hp.
  apply (mentions_mutind p
           (fun t => ty_contains ps t = true)
           (fun segs => segs_any (seg_contains ps) segs true = true)
           (fun a => args_contains ps a = true)).
  - (* M_qself *) intros q segs _ IH.
    rewrite ty_contains_path. cbn [opt_any]. rewrite IH. reflexivity.
  - (* M_path *) intros q segs _ IH.
    rewrite ty_contains_path, IH. apply orb_true_r.
  - (* M_elem *) intros t _ IH. cbn [ty_contains]. exact IH.
  - (* M_fn_in *) intros ins out t Hin _ IH. cbn [ty_contains].
    apply orb_true_iff. left. apply existsb_exists. exists t. split; assumption.
  - (* M_fn_out *) intros ins t _ IH. cbn [ty_contains opt_any].
    rewrite IH. apply orb_true_r.
  - (* M_tuple *) intros ts t Hin _ IH. cbn [ty_contains].
    apply existsb_exists. exists t. split; assumption.
  - (* M_bound *) intros bs segs Hin _ IH. cbn [ty_contains].
    apply existsb_exists. exists (Some segs). split; assumption.
  - (* P_head *) intros rest. rewrite segs_any_cons. apply orb_true_iff. left.
    apply seg_contains_true. left. split; [reflexivity|exact Hp].
  - (* P_args *) intros segs name a Hin _ IH.
    apply (segs_any_args ps name a); assumption.
  - (* A_angle *) intros gs t Hin _ IH. cbn [args_contains].
    apply existsb_exists. exists (Some t). split; [exact Hin|exact IH].
  - (* A_paren_in *) intros ins out t Hin _ IH. cbn [args_contains].
    apply orb_true_iff. left. apply existsb_exists. exists t. split; assumption.
  - (* A_paren_out *) intros ins t _ IH. cbn [args_contains opt_any].
    rewrite IH. apply orb_true_r.
Qed.

(** ** Completeness: everything found is a mention *)
Section Complete.
  Variable ps : list ident.

  Let P (t : ty) : Prop := ty_contains ps t = true -> exists p, In p ps /\ mentions p t.
  Let Q (a : pargs) : Prop := args_contains ps a = true -> exists p, In p ps /\ args_mention p a.

  Lemma existsb_P l : Forall P l -> existsb (ty_contains ps) l = true ->
    exists p t, In p ps /\ In t l /\ mentions p t.
  Proof.
    intros HF H. apply existsb_exists in H as (t & Hin & Ht).
    rewrite Forall_forall in HF. destruct (HF t Hin Ht) as (p & Hp & Hm).
    exists p, t. auto.
  Qed.

  Lemma opt_P o : OptP P o -> opt_any (ty_contains ps) o = true ->
    exists p t, In p ps /\ o = Some t /\ mentions p t.
  Proof.
    destruct o as [t|]; cbn [OptP opt_any]; intros HP H; [|discriminate H].
    destruct (HP H) as (p & Hp & Hm). exists p, t. auto.
  Qed.

  Lemma segs_P segs : Forall (SegQ Q) segs ->
    segs_any (seg_contains ps) segs true = true ->
    exists p, In p ps /\ path_mentions p segs.
  Proof.
    intros HF H. destruct segs as [|[n a] r]; [discriminate H|].
    rewrite segs_any_cons in H. apply orb_true_iff in H as [H|H].
    - apply seg_contains_true in H as [[Ea Hn]|Ha].
      + subst a. exists n. split; [exact Hn|apply P_head].
      + inversion HF as [|? ? HQ _]; subst. destruct (HQ Ha) as (p & Hp & Hm).
        exists p. split; [exact Hp|]. apply (P_args p _ n a); [apply in_eq|exact Hm].
    - rewrite segs_any_false in H. apply existsb_exists in H as ([n' a'] & Hin & Ha).
      rewrite seg_contains_false in Ha.
      rewrite Forall_forall in HF. assert (HQ := HF (Seg n' a') (in_cons _ _ _ Hin)).
      destruct (HQ Ha) as (p & Hp & Hm).
      exists p. split; [exact Hp|]. apply (P_args p _ n' a'); [apply in_cons; exact Hin|exact Hm].
  Qed.

  Lemma ty_complete : forall t, P t.
  Proof.
    apply (ty_ind' P Q); unfold P, Q.
    - (* TyPath *) intros q segs Hq Hsegs H. rewrite ty_contains_path in H.
      apply orb_true_iff in H as [H|H].
      + destruct (opt_P q Hq H) as (p & t & Hp & E & Hm). subst q.
        exists p. split; [exact Hp|apply M_qself; exact Hm].
      + destruct (segs_P segs Hsegs H) as (p & Hp & Hm).
        exists p. split; [exact Hp|apply M_path; exact Hm].
    - (* TyElem *) intros t IH H. cbn [ty_contains] in H.
      destruct (IH H) as (p & Hp & Hm). exists p. split; [exact Hp|apply M_elem; exact Hm].
    - (* TyBareFn *) intros ins out Hins Hout H. cbn [ty_contains] in H.
      apply orb_true_iff in H as [H|H].
      + destruct (existsb_P ins Hins H) as (p & t & Hp & Hin & Hm).
        exists p. split; [exact Hp|apply (M_fn_in p ins out t); assumption].
      + destruct (opt_P out Hout H) as (p & t & Hp & E & Hm). subst out.
        exists p. split; [exact Hp|apply M_fn_out; exact Hm].
    - (* TyTuple *) intros ts Hts H. cbn [ty_contains] in H.
      destruct (existsb_P ts Hts H) as (p & t & Hp & Hin & Hm).
      exists p. split; [exact Hp|apply (M_tuple p ts t); assumption].
    - (* TyTraitObject *) intros bs Hbs H. cbn [ty_contains] in H.
      apply existsb_exists in H as ([segs|] & Hin & H); [|discriminate H].
      rewrite Forall_forall in Hbs. assert (Hsegs := Hbs _ Hin). cbn [BoundQ] in Hsegs.
      destruct (segs_P segs Hsegs H) as (p & Hp & Hm).
      exists p. split; [exact Hp|apply (M_bound p bs segs); assumption].
    - (* TyOpaque *) intros H. discriminate H.
    - (* PNone *) intros H. discriminate H.
    - (* PAngle *) intros gs Hgs H. cbn [args_contains] in H.
      apply existsb_exists in H as (g & Hin & H).
      rewrite Forall_forall in Hgs. assert (Hg := Hgs _ Hin).
      destruct (opt_P g Hg H) as (p & t & Hp & E & Hm). subst g.
      exists p. split; [exact Hp|apply (A_angle p gs t); assumption].
    - (* PParen *) intros ins out Hins Hout H. cbn [args_contains] in H.
      apply orb_true_iff in H as [H|H].
      + destruct (existsb_P ins Hins H) as (p & t & Hp & Hin & Hm).
        exists p. split; [exact Hp|apply (A_paren_in p ins out t); assumption].
      + destruct (opt_P out Hout H) as (p & t & Hp & E & Hm). subst out.
        exists p. split; [exact Hp|apply A_paren_out; exact Hm].
  Qed.
End Complete.

(** ** The specification *)

Theorem ty_contains_spec : forall ps t,
  ty_contains ps t = true <-> exists p, In p ps /\ mentions p t.
Proof.
  intros ps t. split.
  - apply ty_complete.
  - intros (p & Hp & Hm). exact (proj1 (mentions_sound ps p Hp) t Hm).
Qed.

Theorem contains_generics_spec : forall ps t,
  contains_generics ps t = true <-> exists p, In p ps /\ mentions p t.
Proof.
  intros ps t. rewrite <- ty_contains_spec. destruct ps as [|p ps']; [|reflexivity].
  cbn [contains_generics]. split; [discriminate|].
  intros H. apply ty_contains_spec in H as (p & [] & _).
Qed.

(** the early [return false] on an empty parameter list is not a special case *)
Corollary contains_generics_ty_contains ps t : contains_generics ps t = ty_contains ps t.
Proof.
  destruct (ty_contains ps t) eqn:E.
  - apply contains_generics_spec, ty_contains_spec, E.
  - destruct (contains_generics ps t) eqn:E'; [|reflexivity].
    apply contains_generics_spec, ty_contains_spec in E'. congruence.
Qed.

(** the path impl and the per-segment function, for completeness *)
Theorem path_contains_spec : forall ps segs,
  segs_any (seg_contains ps) segs true = true <-> exists p, In p ps /\ path_mentions p segs.
Proof.
  intros ps segs. split.
  - intros H.
    assert (Hm : ty_contains ps (TyPath None segs) = true)
      by (rewrite ty_contains_path; cbn [opt_any orb]; exact H).
    apply ty_contains_spec in Hm as (p & Hp & Hm). exists p. split; [exact Hp|].
    inversion Hm; subst; assumption.
  - intros (p & Hp & Hm). exact (proj1 (proj2 (mentions_sound ps p Hp)) segs Hm).
Qed.

Theorem seg_contains_spec : forall ps first s,
  seg_contains ps s first = true <-> exists p, In p ps /\ seg_mentions p first s.
Proof.
  intros ps first [n a].
  assert (HA : args_contains ps a = true <-> exists p, In p ps /\ args_mention p a).
  { split.
    - intros H.
      assert (Hm : segs_any (seg_contains ps) [Seg [] (PAngle []); Seg n a] true = true).
      { apply (segs_any_args ps n a); [right; left; reflexivity|exact H]. }
      apply path_contains_spec in Hm as (p & Hp & Hm). exists p. split; [exact Hp|].
      inversion Hm as [|? n' a' Hin Ha]; subst.
      destruct Hin as [E|[E|[]]]; inversion E; subst.
      + inversion Ha as [gs t Hin' _| |]; subst. destruct Hin'.
      + exact Ha.
    - intros (p & Hp & Hm). exact (proj2 (proj2 (mentions_sound ps p Hp)) a Hm). }
  cbn [seg_mentions]. destruct first.
  - rewrite seg_contains_true, HA. split.
    + intros [[Ea Hn]|(p & Hp & Hm)].
      * exists n. split; [exact Hn|]. left. auto.
      * exists p. split; [exact Hp|]. right. exact Hm.
    + intros (p & Hp & [(_ & En & Ea)|Hm]).
      * left. subst. auto.
      * right. exists p. auto.
  - rewrite seg_contains_false, HA. split.
    + intros (p & Hp & Hm). exists p. split; [exact Hp|]. right. exact Hm.
    + intros (p & Hp & [(E & _)|Hm]); [discriminate E|]. exists p. auto.
Qed.

(** ** Corollaries *)

Corollary contains_generics_mono : forall ps qs t,
  incl ps qs -> contains_generics ps t = true -> contains_generics qs t = true.
Proof.
  intros ps qs t Hincl H. apply contains_generics_spec in H as (p & Hp & Hm).
  apply contains_generics_spec. exists p. split; [apply Hincl; exact Hp|exact Hm].
Qed.

(** one parameter at a time *)
Corollary contains_generics_one : forall p t,
  contains_generics [p] t = true <-> mentions p t.
Proof.
  intros p t. rewrite contains_generics_spec. split.
  - intros (p' & [E|[]] & Hm). subst p'. exact Hm.
  - intros Hm. exists p. split; [left; reflexivity|exact Hm].
Qed.

Corollary contains_generics_single : forall ps t,
  contains_generics ps t = existsb (fun p => contains_generics [p] t) ps.
Proof.
  intros ps t. apply eq_true_iff_eq.
  rewrite contains_generics_spec, existsb_exists. split.
  - intros (p & Hp & Hm). exists p. split; [exact Hp|apply contains_generics_one; exact Hm].
  - intros (p & Hp & Hm). exists p. split; [exact Hp|apply contains_generics_one; exact Hm].
Qed.

(** [mentions] is decidable, by running the derive's own check with one parameter *)
Corollary mentions_dec : forall p t, {mentions p t} + {~ mentions p t}.
Proof.
  intros p t. destruct (contains_generics [p] t) eqn:E.
  - left. apply contains_generics_one. exact E.
  - right. intros H. apply contains_generics_one in H. congruence.
Qed.

(** ** Examples: the rules read directly, and the model evaluated *)
Module Examples.
  Definition T : ident := [84].            (* "T" *)
  Definition U : ident := [85].            (* "U" *)
  Definition N_ : ident := [78].           (* "N" *)
  Definition a : ident := [97].            (* "a" *)
  Definition X : ident := [88].            (* "X" *)
  Definition Tr : ident := [84; 114].      (* "Tr" *)
  Definition Fn : ident := [70; 110].      (* "Fn" *)
  Definition Vec : ident := [86; 101; 99]. (* "Vec" *)
  Definition Box : ident := [66; 111; 120].
  Definition Holder : ident := [72; 111; 108; 100; 101; 114].
  Definition Assoc : ident := [65; 115; 115; 111; 99].
  Definition i32 : ident := [105; 51; 50].
  Definition u8 : ident := [117; 56].

  Definition path (segs : list seg) : ty := TyPath None segs.
  Definition name (i : ident) : ty := path [Seg i PNone].

  (* `T` *)
  Definition ty_T := name T.
  Example T_run : contains_generics [T] ty_T = true. Proof. vm_compute. reflexivity. Qed.
  Example T_rule : mentions T ty_T. Proof. apply mentions_ident. Qed.

  (* `T::Assoc` *)
  Definition ty_T_Assoc := path [Seg T PNone; Seg Assoc PNone].
  Example T_Assoc_run : contains_generics [T] ty_T_Assoc = true. Proof. vm_compute. reflexivity. Qed.
  Example T_Assoc_rule : mentions T ty_T_Assoc. Proof. apply M_path, P_head. Qed.

  (* `a::T` : only segment 0 counts *)
  Definition ty_a_T := path [Seg a PNone; Seg T PNone].
  Example a_T_run : contains_generics [T] ty_a_T = false. Proof. vm_compute. reflexivity. Qed.
  Example a_T_rule : ~ mentions T ty_a_T.
  Proof.
    intros H. inversion H as [|q segs Hp| | | | |]; subst.
    inversion Hp as [|segs n' a' Hin Ha]; subst.
    destruct Hin as [E|[E|[]]]; inversion E; subst; inversion Ha.
  Qed.

  (* `Vec<T>` *)
  Definition ty_Vec_T := path [Seg Vec (PAngle [Some ty_T])].
  Example Vec_T_run : contains_generics [T] ty_Vec_T = true. Proof. vm_compute. reflexivity. Qed.
  Example Vec_T_rule : mentions T ty_Vec_T.
  Proof.
    apply M_path, (P_args T _ Vec (PAngle [Some ty_T])); [apply in_eq|].
    apply (A_angle T _ ty_T); [apply in_eq|apply T_rule].
  Qed.

  (* `a::Vec<T>::X` : arguments count in every segment *)
  Definition ty_a_Vec_T_X := path [Seg a PNone; Seg Vec (PAngle [Some ty_T]); Seg X PNone].
  Example a_Vec_T_X_run : contains_generics [T] ty_a_Vec_T_X = true. Proof. vm_compute. reflexivity. Qed.
  Example a_Vec_T_X_rule : mentions T ty_a_Vec_T_X.
  Proof.
    apply M_path, (P_args T _ Vec (PAngle [Some ty_T])); [right; apply in_eq|].
    apply (A_angle T _ ty_T); [apply in_eq|apply T_rule].
  Qed.

  (* `Vec<'a, 3>`-like: lifetime / const arguments never count, whatever the parameters are *)
  Definition ty_Vec_lt := path [Seg Vec (PAngle [None; None])].
  Example Vec_lt_run : contains_generics [T; Vec; a] ty_Vec_lt = false. Proof. vm_compute. reflexivity. Qed.
  Example Vec_lt_rule : forall p, ~ mentions p ty_Vec_lt.
  Proof.
    intros p H. inversion H as [|q segs Hp| | | | |]; subst.
    inversion Hp as [|segs n' a' Hin Ha]; subst.
    destruct Hin as [E|[]]; inversion E; subst.
    inversion Ha as [gs t Hin' _| |]; subst.
    destruct Hin' as [E'|[E'|[]]]; discriminate E'.
  Qed.

  (* `T<U>` : a first segment with arguments is not the parameter `T` *)
  Definition ty_T_U := path [Seg T (PAngle [Some (name U)])].
  Example T_U_run : contains_generics [T] ty_T_U = false /\ contains_generics [U] ty_T_U = true.
  Proof. vm_compute. split; reflexivity. Qed.

  (* `<T as Tr>::X` *)
  Definition ty_qT := TyPath (Some ty_T) [Seg Tr PNone; Seg X PNone].
  Example qT_run : contains_generics [T] ty_qT = true. Proof. vm_compute. reflexivity. Qed.
  Example qT_rule : mentions T ty_qT. Proof. apply M_qself, T_rule. Qed.

  (* `<Holder as Tr<T>>::X` *)
  Definition ty_qHolder := TyPath (Some (name Holder)) [Seg Tr (PAngle [Some ty_T]); Seg X PNone].
  Example qHolder_run : contains_generics [T] ty_qHolder = true. Proof. vm_compute. reflexivity. Qed.
  Example qHolder_rule : mentions T ty_qHolder.
  Proof.
    apply M_path, (P_args T _ Tr (PAngle [Some ty_T])); [apply in_eq|].
    apply (A_angle T _ ty_T); [apply in_eq|apply T_rule].
  Qed.

  (* `&T` *)
  Example ref_T_run : contains_generics [T] (TyElem ty_T) = true. Proof. vm_compute. reflexivity. Qed.
  Example ref_T_rule : mentions T (TyElem ty_T). Proof. apply M_elem, T_rule. Qed.

  (* `[u8; N]` : the length expression is not part of the model, only the element is looked at *)
  Example arr_run : contains_generics [N_] (TyElem (name u8)) = false. Proof. vm_compute. reflexivity. Qed.

  (* `(i32, T)` *)
  Definition ty_tuple := TyTuple [name i32; ty_T].
  Example tuple_run : contains_generics [U; T] ty_tuple = true. Proof. vm_compute. reflexivity. Qed.
  Example tuple_rule : mentions T ty_tuple.
  Proof. apply (M_tuple T _ ty_T); [right; apply in_eq|apply T_rule]. Qed.

  (* `fn(T) -> U` *)
  Definition ty_fn := TyBareFn [ty_T] (Some (name U)).
  Example fn_run : contains_generics [T] ty_fn = true /\ contains_generics [U] ty_fn = true
                   /\ contains_generics [X] ty_fn = false.
  Proof. vm_compute. repeat split; reflexivity. Qed.
  Example fn_rule_in : mentions T ty_fn.
  Proof. apply (M_fn_in T _ _ ty_T); [apply in_eq|apply T_rule]. Qed.
  Example fn_rule_out : mentions U ty_fn.
  Proof. apply M_fn_out, mentions_ident. Qed.

  (* `Box<dyn Tr<T> + 'a>` *)
  Definition ty_box_dyn :=
    path [Seg Box (PAngle [Some (TyTraitObject [Some [Seg Tr (PAngle [Some ty_T])]; None])])].
  Example box_dyn_run : contains_generics [T] ty_box_dyn = true. Proof. vm_compute. reflexivity. Qed.
  Example box_dyn_rule : mentions T ty_box_dyn.
  Proof.
    apply M_path, (P_args T _ Box _ (in_eq _ _)).
    apply (A_angle T _ _ (in_eq _ _)).
    apply (M_bound T _ _ (in_eq _ _)).
    apply (P_args T _ Tr _ (in_eq _ _)).
    apply (A_angle T _ ty_T); [apply in_eq|apply T_rule].
  Qed.

  (* `Box<dyn Fn(T) -> U>` *)
  Definition ty_box_fn :=
    path [Seg Box (PAngle [Some (TyTraitObject [Some [Seg Fn (PParen [ty_T] (Some (name U)))]])])].
  Example box_fn_run : contains_generics [T] ty_box_fn = true /\ contains_generics [U] ty_box_fn = true
                       /\ contains_generics [Fn; Box] ty_box_fn = false.
  Proof. vm_compute. repeat split; reflexivity. Qed.
  Example box_fn_rule_in : mentions T ty_box_fn.
  Proof.
    apply M_path, (P_args T _ Box _ (in_eq _ _)).
    apply (A_angle T _ _ (in_eq _ _)).
    apply (M_bound T _ _ (in_eq _ _)).
    apply (P_args T _ Fn _ (in_eq _ _)).
    apply (A_paren_in T _ _ ty_T); [apply in_eq|apply T_rule].
  Qed.
  Example box_fn_rule_out : mentions U ty_box_fn.
  Proof.
    apply M_path, (P_args U _ Box _ (in_eq _ _)).
    apply (A_angle U _ _ (in_eq _ _)).
    apply (M_bound U _ _ (in_eq _ _)).
    apply (P_args U _ Fn _ (in_eq _ _)).
    apply A_paren_out, mentions_ident.
  Qed.

  (* `dyn T` : a trait-object bound goes through the path rules, first-segment rule included *)
  Example dyn_T_run : contains_generics [T] (TyTraitObject [None; Some [Seg T PNone]]) = true.
  Proof. vm_compute. reflexivity. Qed.
  Example dyn_T_rule : mentions T (TyTraitObject [None; Some [Seg T PNone]]).
  Proof. apply (M_bound T _ [Seg T PNone]); [right; apply in_eq|apply P_head]. Qed.

  (* `impl Tr`, `_`, `!`, a macro *)
  Example opaque_rule : forall p, ~ mentions p TyOpaque.
  Proof. intros p H. inversion H. Qed.

  (* no parameters, nothing to mention *)
  Example nil_run : contains_generics [] ty_T = false. Proof. reflexivity. Qed.
End Examples.

Print Assumptions contains_generics_spec.
Print Assumptions contains_generics_mono.
Print Assumptions contains_generics_single.
