(** * C18 -- derive expansion is total: property theorems

    Part (1) of the property (totality of the literal parser: every parser of fmt/parsing.rs returns a
    suffix of its input, so `&input[..input.len() - rest.len()]` can neither go out of range nor split
    a character; `integer` fails cleanly on usize overflow; the top loop terminates) is proved in
    Verif.C03.Props (C18_format_suffix, C18_identifier_suffix, C18_integer_suffix, C18_text_suffix,
    C03_fuel), and the totality of the argument scanner in Verif.C16.Props (C18_split_total).  They are
    not duplicated: C18_literal_parser_and_scanner_total below is their conjunction, by [exact]. *)
From Coq Require Import String List Arith Bool NArith.
Require Import Verif.Gen.PanicSiteList Verif.C18.Model Verif.C18.Proofs.
Require Verif.C03.Props Verif.C16.Props.
Import ListNotations.

Theorem C18_literal_parser_and_scanner_total :
  (forall cc i r f, Verif.C03.DmParse.format_p cc i = Some (r, f) ->
                    Verif.C03.Props.is_suffix r i /\ (length r < length i)%nat) /\
  (forall cc i r x, Verif.C03.DmParse.identifier cc i = Some (r, x) ->
                    Verif.C03.Props.is_suffix r i /\ i = x ++ r) /\
  (forall i r n, Verif.C03.DmParse.integer i = Some (r, n) ->
                 Verif.C03.Props.is_suffix r i /\ (n <= Verif.C03.DmParse.usize_max)%N) /\
  (forall i r x, Verif.C03.DmParse.text i = Some (r, x) -> i = x ++ r /\ (length r < length i)%nat) /\
  (forall cc s n m, (length s < n)%nat -> (length s < m)%nat ->
                    Verif.C03.DmParse.format_string_fuel cc n s = Verif.C03.DmParse.format_string_fuel cc m s) /\
  (forall ts : list Verif.C16.Model.tt,
      exists r : option (list Verif.C16.Model.expr * bool),
        Verif.C16.Model.split_args_fuel (S (length ts)) ts =
        match r with Some x => Verif.C16.Model.Ok x | None => Verif.C16.Model.Fail end).
Proof.
  exact (conj Verif.C03.Props.C18_format_suffix
        (conj Verif.C03.Props.C18_identifier_suffix
        (conj Verif.C03.Props.C18_integer_suffix
        (conj Verif.C03.Props.C18_text_suffix
        (conj Verif.C03.Props.C03_fuel Verif.C16.Props.C18_split_total))))).
Qed.
Print Assumptions C18_literal_parser_and_scanner_total.

(** closure of the panic-site inventory: every potential internal-failure site of impl/src has a
    classification (a new `unwrap()` / index / `unreachable!` in the source breaks this) *)
Theorem C18_sites_accounted : forallb accounted site_list = true.
Proof. exact Proofs.sites_accounted. Qed.
Print Assumptions C18_sites_accounted.

(** every derive routed to fmt::display / fmt::debug by lib.rs carries a trait name the three
    `_ => unimplemented!()` name tables handle *)
Theorem C18_fmt_trait_names_total : forallb fmt_route_ok derive_table = true.
Proof. exact Proofs.fmt_trait_names_total. Qed.
Print Assumptions C18_fmt_trait_names_total.

Theorem C18_assert_single_enabled_field_safe :
  forall is_enum en, all_ok (ops_of (assert_single_enabled_field is_enum en)) = true.
Proof. exact Proofs.assert_single_enabled_field_safe. Qed.
Print Assumptions C18_assert_single_enabled_field_safe.

Theorem C18_matcher_index_safe :
  forall nfields indexes nbindings,
    length indexes <= nbindings -> all_ok (matcher nfields indexes nbindings) = true.
Proof. exact Proofs.matcher_safe. Qed.
Print Assumptions C18_matcher_index_safe.

Theorem C18_try_into_grouping_safe :
  forall en key_len,
    key_len = m_field_types (enabled_fields_data en) -> all_ok (try_into_member en key_len) = true.
Proof. exact Proofs.try_into_member_safe. Qed.
Print Assumptions C18_try_into_grouping_safe.

Theorem C18_default_enabled_unwrap_safe : forall enabled, all_ok (default_enabled_ops enabled) = true.
Proof. exact Proofs.default_enabled_unwrap_safe. Qed.
Print Assumptions C18_default_enabled_unwrap_safe.

(** error.rs as it is now (after /repo commit 6329c3f): every index operation of derive(Error) on a
    struct or an enum variant -- data.members[..], data.field_indexes[..], data.field_types[..],
    data.infos[..], bindings[..] of matcher -- is in range, for all field lists *)
Theorem C18_error_index_safe :
  forall named fs,
    all_ok (ops_of (error_struct named fs)) = true /\ all_ok (ops_of (error_variant named fs)) = true.
Proof. exact Proofs.error_index_safe. Qed.
Print Assumptions C18_error_index_safe.

Theorem C18_infer_source_rem_safe :
  forall nall infos source backtrace,
    forallb (fun o => if is_rem o then op_ok o else true)
            (snd (infer_source_field nall infos source backtrace)) = true.
Proof. exact Proofs.infer_source_rem_safe. Qed.
Print Assumptions C18_infer_source_rem_safe.

(** the defect repaired by that commit, kept as a theorem about the previous caller
    (`infer_source_field(&state.fields, ..)`): `parsed_fields.data.infos[source]` went out of range *)
Theorem C18_infer_source_field_old_refuted :
  exists fs, In (OIndex 1 1) (ops_of (error_struct_old false fs)) /\
             all_ok (ops_of (error_struct_old false fs)) = false.
Proof. exact Proofs.infer_source_field_old_refuted. Qed.
Print Assumptions C18_infer_source_field_old_refuted.

Theorem C18_validate_type_arith_safe :
  forall n ty, all_ok (vt_ops (validate_type n ty)) = true.
Proof. exact Proofs.validate_type_arith_safe. Qed.
Print Assumptions C18_validate_type_arith_safe.

Theorem C18_from_expand_fields_unit_arm_unreachable : forall fk, all_ok (expand_fields_ops fk) = true.
Proof. exact Proofs.from_expand_fields_unit_arm_unreachable. Qed.
Print Assumptions C18_from_expand_fields_unit_arm_unreachable.

(** from.rs:158-188 + utils.rs validate_type as they are now (after /repo commit 04051df): every
    `from_tys.next().unwrap_or_else(|| unreachable!())` of the `#[from(<types>)]` arm finds a type *)
Theorem C18_from_types_safe : forall fk ty, all_ok (ops_of (from_types_arm fk ty)) = true.
Proof. exact Proofs.from_types_safe. Qed.
Print Assumptions C18_from_types_safe.

(** from.rs:344-403 legacy_error never fails internally (after /repo commit 04051df) *)
Theorem C18_from_legacy_error_safe : forall metas n, all_ok (legacy_error metas n) = true.
Proof. exact Proofs.from_legacy_error_safe. Qed.
Print Assumptions C18_from_legacy_error_safe.

Theorem C18_len1_next_safe : forall n, all_ok (len1_next n) = true.
Proof. exact Proofs.len1_next_safe. Qed.
Print Assumptions C18_len1_next_safe.

Theorem C18_len1_index0_safe : forall n, all_ok (len1_index0 n) = true.
Proof. exact Proofs.len1_index0_safe. Qed.
Print Assumptions C18_len1_index0_safe.

Theorem C18_as_struct_attr_unwrap_safe : forall n, all_ok (ops_of (as_struct_attr n)) = true.
Proof. exact Proofs.as_struct_attr_unwrap_safe. Qed.
Print Assumptions C18_as_struct_attr_unwrap_safe.

Theorem C18_as_field_attrs_skip_unreachable : forall attrs, all_ok (ops_of (as_field_attrs attrs)) = true.
Proof. exact Proofs.as_field_attrs_skip_unreachable. Qed.
Print Assumptions C18_as_field_attrs_skip_unreachable.

Theorem C18_display_shared_attr_unwrap_safe :
  forall shared has_fmt, all_ok (generate_bounds_unwrap shared has_fmt) = true.
Proof. exact Proofs.display_shared_attr_unwrap_safe. Qed.
Print Assumptions C18_display_shared_attr_unwrap_safe.

Theorem C18_into_legacy_top_level_safe :
  forall top owned ref_ ref_mut, all_ok (into_legacy top owned ref_ ref_mut) = true.
Proof. exact Proofs.into_legacy_top_level_safe. Qed.
Print Assumptions C18_into_legacy_top_level_safe.

Theorem C18_placeholder_counter_safe : forall n, all_ok (placeholder_counter n) = true.
Proof. exact Proofs.placeholder_counter_safe. Qed.
Print Assumptions C18_placeholder_counter_safe.

Theorem C18_balanced_pair_count_safe : forall steps count, all_ok (balanced_pair count steps) = true.
Proof. exact Proofs.balanced_pair_count_safe. Qed.
Print Assumptions C18_balanced_pair_count_safe.

(** into.rs:334-405 ConversionsAttribute::parse as it is now (after /repo commits 04051df, 4f1b004):
    `out.owned.tys.push_value(ty)` (:396) and both `push_punct` (:363, :399) satisfy the assertions of
    syn's Punctuated for every sequence of `owned(..)` / `ref(..)` / `ref_mut(..)` / type items *)
Theorem C18_into_push_value_safe : forall items, all_ok (ops_of (into_loop (0, false) items)) = true.
Proof. exact Proofs.into_push_value_safe. Qed.
Print Assumptions C18_into_push_value_safe.

Theorem C18_into_loop_safe :
  forall items st, empty_or_trailing st = true -> all_ok (ops_of (into_loop st items)) = true.
Proof. exact Proofs.into_loop_safe. Qed.
Print Assumptions C18_into_loop_safe.

(* ------------------------------------------------------------------------------------------ *)
(** Growth round: obligations over expressions / guards re-extracted from the source on every run
    (Gen.arith_table, Gen.fn_guards): a changed operand or a dropped guard breaks these *)

(** error.rs:403 `(backtrace + 1) % 2` guarded by `if fields.len() != 2 { return None }` *)
Theorem C18_infer_source_arith_safe :
  forall nfields b,
    b < nfields ->
    match infer_source_arith nfields b with
    | None => nfields <> 2
    | Some (s, ops) => nfields = 2 /\ all_ok ops = true /\ s < nfields /\ s = (b + 1) mod 2
    end.
Proof. exact Proofs.infer_source_arith_safe. Qed.
Print Assumptions C18_infer_source_arith_safe.

(** fmt/mod.rs:496-502 Placeholder::parse_fmt_string: `n += 1` (twice) and `n - 1` over any list of formats *)
Theorem C18_parse_fmt_counter_safe :
  forall fs n lim, n + 2 * length fs <= lim -> all_ok (parse_fmt_counter lim n fs) = true.
Proof. exact Proofs.parse_fmt_counter_safe. Qed.
Print Assumptions C18_parse_fmt_counter_safe.

(** parsing.rs:144-163 balanced_pair: `count -= 1` / `count += 1` under `while count != 0`, any token sequence *)
Theorem C18_balanced_pair_arith_safe :
  forall steps count lim, count + length steps <= lim -> all_ok (balanced_pair_x lim count steps) = true.
Proof. exact Proofs.balanced_pair_x_safe. Qed.
Print Assumptions C18_balanced_pair_arith_safe.

(** try_from.rs:116 `inc += 1` over the variants; from.rs:223 `i += 1` over the fields *)
Theorem C18_try_from_counter_safe :
  forall vs inc lim, inc + length vs <= lim -> all_ok (try_from_counter lim inc vs) = true.
Proof. exact Proofs.try_from_counter_safe. Qed.
Print Assumptions C18_try_from_counter_safe.

Theorem C18_from_forward_counter_safe :
  forall n i lim, i + n <= lim -> all_ok (from_forward_counter lim i n) = true.
Proof. exact Proofs.from_forward_counter_safe. Qed.
Print Assumptions C18_from_forward_counter_safe.

(** utils.rs:879-1042 parse_punctuated_nested_meta (the attribute parser behind every State-based derive) is
    total and panic-free for every list of nested metas, wrapper and allowed-parameter list, and calls itself at
    most one level deep; utils.rs:813-877 get_meta_info likewise (at most two nested invocations) *)
Theorem C18_meta_parser_safe :
  forall allowed w ms,
    all_ok (p_ops_of (ppnm_list allowed w ms)) = true /\ p_depth (ppnm_list allowed w ms) <= 1.
Proof. exact Proofs.meta_parser_safe. Qed.
Print Assumptions C18_meta_parser_safe.

Theorem C18_get_meta_info_total :
  forall allowed attrs,
    all_ok (p_ops_of (get_meta_info allowed attrs)) = true /\ p_depth (get_meta_info allowed attrs) <= 2.
Proof. exact Proofs.get_meta_info_total. Qed.
Print Assumptions C18_get_meta_info_total.

(** into.rs:476-626 check_legacy_syntax is panic-free on every list of top-level metas (and on unparsable tokens) *)
Theorem C18_check_legacy_syntax_safe :
  forall nfields metas, all_ok (snd (check_legacy_syntax nfields metas)) = true.
Proof. exact Proofs.check_legacy_syntax_safe. Qed.
Print Assumptions C18_check_legacy_syntax_safe.

(** the type walkers (contains_generics, is_type_parameter_used_in_type, the generics_search visitor) nest their
    calls no deeper than the type is nested, whichever children they choose to visit: stack use is bounded by the
    nesting depth of the input, which syn's own parser has already recursed through *)
Theorem C18_recursion_depth_le_nesting : forall sel t, call_depth sel t <= ty_depth t.
Proof. exact Proofs.call_depth_le_ty_depth. Qed.
Print Assumptions C18_recursion_depth_le_nesting.

(** from_str.rs:80 `variants[0]` under the condition `variants.len() == 1` as found in the source *)
Theorem C18_from_str_index0_safe : forall n, all_ok (from_str_index0 n) = true.
Proof. exact Proofs.from_str_index0_safe. Qed.
Print Assumptions C18_from_str_index0_safe.

(** fmt/mod.rs:187 `format_ident!("{name}")`: every name the literal parser's `identifier` accepts -- with the
    predicates `identifier` uses in the source, which must be the XID ones -- passes the check of Ident::new, for
    any Unicode tables shared by both (their agreement is measured on every run: A-IDENT) *)
Theorem C18_transparent_ident_valid :
  forall xid_start xid_continue underscore name,
    all_ok (transparent_ident_ops xid_start xid_continue underscore name) = true.
Proof. exact Proofs.transparent_ident_valid. Qed.
Print Assumptions C18_transparent_ident_valid.
