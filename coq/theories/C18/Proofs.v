(** * C18 -- proofs about the models of Model.v *)
From Coq Require Import String List Arith Bool Lia.
Require Import Verif.Gen.PanicSiteList Verif.C18.Model.
Import ListNotations.

(* ------------------------------------------------------------------------------------------ *)
(** ** generic list facts *)

Lemma all_ok_app a b : all_ok (a ++ b) = all_ok a && all_ok b.
Proof. unfold all_ok. apply forallb_app. Qed.

Lemma all_ok_flat_map {A} (f : A -> list op) (l : list A) :
  (forall x, In x l -> all_ok (f x) = true) -> all_ok (flat_map f l) = true.
Proof.
  induction l as [|x l IH]; intros H; cbn; [reflexivity|].
  rewrite all_ok_app, H by (left; reflexivity). cbn. apply IH. intros y Hy. apply H. right; exact Hy.
Qed.

(** the validation passes / guards the models look up in the source are there (Gen.fn_guards, Gen.fn_lets) *)
Lemma asef_guard_present : asef_guard = true.
Proof. vm_compute. reflexivity. Qed.
Lemma vt_single_guard_present : vt_single_guard = true.
Proof. vm_compute. reflexivity. Qed.
Lemma as_validation_is_present : as_validation_present = true.
Proof. vm_compute. reflexivity. Qed.
Lemma il_guard_present : il_guard = true.
Proof. vm_compute. reflexivity. Qed.
Lemma from_str_guard_present : from_str_guard = true.
Proof. vm_compute. reflexivity. Qed.

Definition count_true (en : list bool) : nat := length (filter (fun b => b) en).

Lemma zip_filter_length {A} (xs : list A) (en : list bool) :
  length xs = length en -> length (zip_filter xs en) = count_true en.
Proof.
  unfold zip_filter, count_true. rewrite map_length.
  revert en; induction xs as [|x xs IH]; intros [|b en] H; cbn in *; try discriminate; [reflexivity|].
  injection H as H. destruct b; cbn; rewrite IH by exact H; reflexivity.
Qed.

Lemma count_true_le en : count_true en <= length en.
Proof.
  unfold count_true. induction en as [|b en IH]; cbn; [apply le_n|]. destruct b; cbn; lia.
Qed.

Lemma enabled_fields_length en : length (enabled_fields en) = count_true en.
Proof. unfold enabled_fields. apply zip_filter_length. apply seq_length. Qed.

Lemma enabled_fields_idents_length en : length (enabled_fields_idents en) = count_true en.
Proof. unfold enabled_fields_idents. apply zip_filter_length. apply seq_length. Qed.

Lemma enabled_fields_indexes_length en : length (enabled_fields_indexes en) = count_true en.
Proof.
  change (enabled_fields_indexes en) with (zip_filter (seq 0 (length en)) en).
  apply zip_filter_length. apply seq_length.
Qed.

(** all the vectors of MultiFieldData have the same length: the number of enabled fields *)
Lemma mfd_lengths en :
  let d := enabled_fields_data en in
  m_fields d = count_true en /\ m_field_types d = count_true en /\ m_field_idents d = count_true en /\
  length (m_field_indexes d) = count_true en /\ m_members d = count_true en /\
  m_infos d = count_true en /\ m_casted_traits d = count_true en /\ m_state_fields d = length en.
Proof.
  cbn. rewrite !map_length, enabled_fields_length, enabled_fields_idents_length,
    enabled_fields_indexes_length. unfold enabled_infos, count_true. repeat split; reflexivity.
Qed.

(* ------------------------------------------------------------------------------------------ *)
(** ** utils.rs *)

Lemma assert_single_enabled_field_safe is_enum en :
  all_ok (ops_of (assert_single_enabled_field is_enum en)) = true.
Proof.
  unfold assert_single_enabled_field. rewrite asef_guard_present. cbn [andb]. destruct is_enum; [reflexivity|].
  destruct (mfd_lengths en) as (H1 & H2 & _ & _ & H5 & H6 & H7 & _).
  destruct (m_fields (enabled_fields_data en) =? 1) eqn:E; cbn [negb ops_of]; [|reflexivity].
  apply Nat.eqb_eq in E. rewrite H1 in E.
  cbn [all_ok forallb op_ok]. rewrite H1, H2, H5, H6, H7, E. reflexivity.
Qed.

Lemma position_lt i l k : position i l = Some k -> k < length l.
Proof.
  revert k; induction l as [|x l IH]; intros k H; cbn in *; [discriminate|].
  destruct (i =? x).
  - injection H as <-. lia.
  - destruct (position i l) as [k'|]; cbn in H; [|discriminate]. injection H as <-.
    specialize (IH k' eq_refl). lia.
Qed.

Lemma matcher_safe nfields indexes nbindings :
  length indexes <= nbindings -> all_ok (matcher nfields indexes nbindings) = true.
Proof.
  intros H. unfold matcher. apply all_ok_flat_map. intros i _.
  destruct (position i indexes) as [k|] eqn:E; [|reflexivity].
  apply position_lt in E. cbn. rewrite andb_true_r. apply Nat.ltb_lt. lia.
Qed.

Lemma default_enabled_unwrap_safe enabled : all_ok (default_enabled_ops enabled) = true.
Proof.
  unfold default_enabled_ops. destruct (find _ enabled) as [e|] eqn:E; [|reflexivity].
  apply find_some in E as [_ E]. cbn. rewrite E. reflexivity.
Qed.

(* ------------------------------------------------------------------------------------------ *)
(** ** error.rs *)

Lemma indexes_where_lt {A} (p : A -> bool) (l : list A) i :
  In i (indexes_where p l) -> i < length l.
Proof.
  unfold indexes_where. intros H. apply in_map_iff in H as ((j & x) & <- & H).
  apply filter_In in H as [H _]. apply in_combine_l in H. apply in_seq in H. cbn. lia.
Qed.

Lemma zero_or_one_in l i : zero_or_one l = Some (Some i) -> In i l.
Proof. destruct l as [|x [|y l]]; cbn; intros H; try discriminate. injection H as <-. left; reflexivity. Qed.

Lemma parse_field_impl_lt value valid fs i :
  parse_field_impl value valid fs = Some (Some i) -> i < length fs.
Proof.
  unfold parse_field_impl. intros H.
  destruct (zero_or_one (indexes_where _ fs)) as [[j|]|] eqn:E; try discriminate.
  - injection H as <-. apply zero_or_one_in in E. eapply indexes_where_lt; exact E.
  - apply zero_or_one_in in H. eapply indexes_where_lt; exact H.
Qed.

Lemma filter_enabled_length fs : length (filter f_enabled fs) = count_true (map f_enabled fs).
Proof.
  unfold count_true. induction fs as [|f fs IH]; cbn; [reflexivity|].
  destruct (f_enabled f); cbn; rewrite IH; reflexivity.
Qed.

Lemma infer_source_field_lt nall infos source backtrace s ops :
  infer_source_field nall infos source backtrace = (Some s, ops) -> s < length infos /\ s < nall.
Proof.
  unfold infer_source_field. destruct (nall =? 2) eqn:En; cbn [negb]; [|discriminate].
  apply Nat.eqb_eq in En. destruct source; [discriminate|]. destruct backtrace as [b|]; [|discriminate].
  destruct (nth_error infos ((b + 1) mod 2)) as [f|] eqn:E; [|discriminate].
  intros H. assert (Hs : s = (b + 1) mod 2) by (destruct (f_source f) as [[|]|]; congruence).
  subst s. split.
  - apply nth_error_Some. congruence.
  - subst nall. apply Nat.mod_upper_bound. discriminate.
Qed.

Lemma idx_ok i n : i < n -> op_ok (OIndex i n) = true.
Proof. intros H. cbn. apply Nat.ltb_lt. exact H. Qed.

Lemma infer_source_field_ok nall infos source backtrace :
  nall = length infos -> (forall b, backtrace = Some b -> b < length infos) ->
  all_ok (snd (infer_source_field nall infos source backtrace)) = true.
Proof.
  intros -> Hb. unfold infer_source_field. destruct (length infos =? 2) eqn:En; cbn [negb]; [|reflexivity].
  apply Nat.eqb_eq in En. destruct source; [reflexivity|]. destruct backtrace as [b|]; [|reflexivity].
  assert (Hm : (b + 1) mod 2 < length infos) by (rewrite En; apply Nat.mod_upper_bound; discriminate).
  assert (Hops : all_ok [ORem (b + 1) 2; OIndex ((b + 1) mod 2) (length infos)] = true).
  { cbn. rewrite andb_true_r. apply Nat.ltb_lt. exact Hm. }
  destruct (nth_error infos ((b + 1) mod 2)) as [f|]; [destruct (f_source f) as [[|]|]|]; exact Hops.
Qed.

(** the invariant of a successful parse_fields (the code as it is): both positions are below the
    number of enabled fields (= the length of members / infos / field_types / field_indexes), and
    the operations of parse_fields itself are in range *)
Lemma parse_fields_inv named fs p :
  parse_fields named fs = Some p ->
  p_data p = enabled_fields_data (map f_enabled fs) /\
  (forall s, p_source p = Some s -> s < count_true (map f_enabled fs)) /\
  (forall b, p_backtrace p = Some b -> b < count_true (map f_enabled fs)) /\
  all_ok (p_ops p) = true.
Proof.
  unfold parse_fields, parse_fields_with. intros H. cbv beta iota zeta in H.
  destruct (parse_field_impl f_source _ _) as [source|] eqn:Es; [|discriminate].
  destruct (parse_field_impl f_backtrace _ _) as [backtrace|] eqn:Eb; [|discriminate].
  destruct (mfd_lengths (map f_enabled fs)) as (_ & Hft & _).
  assert (Hsrc : forall s, source = Some s -> s < count_true (map f_enabled fs)).
  { intros s ->. apply parse_field_impl_lt in Es. rewrite filter_enabled_length in Es. exact Es. }
  assert (Hbt : forall b, backtrace = Some b -> b < count_true (map f_enabled fs)).
  { intros b ->. apply parse_field_impl_lt in Eb. rewrite filter_enabled_length in Eb. exact Eb. }
  assert (Hbt' : forall b, backtrace = Some b -> b < length (filter f_enabled fs)).
  { intros b Hb. rewrite filter_enabled_length. apply Hbt. exact Hb. }
  destruct named.
  - injection H as <-. cbn [p_data p_source p_backtrace p_ops app]. repeat split; try assumption.
    destruct source as [s|]; [|reflexivity]. cbn [all_ok forallb]. rewrite ?map_length, ?enabled_fields_length, idx_ok by (apply Hsrc; reflexivity). reflexivity.
  - destruct source as [s0|].
    + injection H as <-. cbn [p_data p_source p_backtrace p_ops app]. repeat split; try assumption.
      cbn [all_ok forallb]. rewrite ?map_length, ?enabled_fields_length, idx_ok by (apply Hsrc; reflexivity). reflexivity.
    + destruct (infer_source_field _ _ None backtrace) as [src' ops1] eqn:Ei.
      injection H as <-. cbn [p_data p_source p_backtrace p_ops].
      assert (Hs' : forall s, src' = Some s -> s < count_true (map f_enabled fs)).
      { intros s ->. apply infer_source_field_lt in Ei as [Ei _]. rewrite filter_enabled_length in Ei. exact Ei. }
      repeat split; try assumption.
      rewrite all_ok_app. replace ops1 with (snd (infer_source_field (length (filter f_enabled fs)) (filter f_enabled fs) None backtrace))
        by (rewrite Ei; reflexivity).
      rewrite infer_source_field_ok by (try reflexivity; exact Hbt').
      destruct src' as [s|]; [|reflexivity]. cbn [andb all_ok forallb]. rewrite ?map_length, ?enabled_fields_length, idx_ok by (apply Hs'; reflexivity). reflexivity.
Qed.

Lemma render_ops_safe named fs p :
  parse_fields named fs = Some p ->
  all_ok (render_struct_ops p) = true /\ all_ok (render_variant_ops p) = true.
Proof.
  intros H. apply parse_fields_inv in H as (Hd & Hs & Hb & _).
  destruct (mfd_lengths (map f_enabled fs)) as (_ & _ & _ & Hi & Hm & _ & _ & _).
  split.
  - unfold render_struct_ops. rewrite Hd, Hm.
    destruct (p_source p) as [s|]; destruct (p_backtrace p) as [b|]; cbn [app all_ok forallb];
      try reflexivity.
    + specialize (Hs s eq_refl). specialize (Hb b eq_refl).
      rewrite idx_ok by exact Hs. destruct (s =? b); cbn [app forallb]; rewrite ?idx_ok by assumption; reflexivity.
    + specialize (Hs s eq_refl). rewrite idx_ok by exact Hs. reflexivity.
    + specialize (Hb b eq_refl). rewrite idx_ok by exact Hb. reflexivity.
  - unfold render_variant_ops. rewrite Hd, Hi.
    destruct (p_source p) as [s|]; destruct (p_backtrace p) as [b|]; rewrite ?all_ok_app;
      try destruct (s =? b); cbn [all_ok forallb];
      rewrite ?idx_ok by (first [apply Hs; reflexivity | apply Hb; reflexivity]);
      fold (all_ok); cbn [andb];
      repeat match goal with |- context [forallb op_ok (matcher ?n ?l ?k)] =>
               change (forallb op_ok (matcher n l k)) with (all_ok (matcher n l k));
               rewrite (matcher_safe n l k) by (cbn; lia) end;
      reflexivity.
Qed.

(** error.rs as it is: every index operation of derive(Error) on a struct or on an enum variant is in
    range (members[..], field_indexes[..], field_types[..], infos[..], bindings[..]) *)
Lemma error_index_safe named fs :
  all_ok (ops_of (error_struct named fs)) = true /\ all_ok (ops_of (error_variant named fs)) = true.
Proof.
  unfold error_struct, error_variant. destruct (parse_fields named fs) as [p|] eqn:E; [|split; reflexivity].
  destruct (render_ops_safe _ _ _ E) as [H1 H2].
  apply parse_fields_inv in E as (_ & _ & _ & Hp).
  cbn [ops_of]. rewrite !all_ok_app, Hp, H1, H2. split; reflexivity.
Qed.

(** error.rs:398  (backtrace + 1) % 2 *)
Lemma infer_source_rem_safe nall infos source backtrace :
  forallb (fun o => if is_rem o then op_ok o else true)
          (snd (infer_source_field nall infos source backtrace)) = true.
Proof.
  unfold infer_source_field. destruct (negb (nall =? 2)); [reflexivity|].
  destruct source; [reflexivity|]. destruct backtrace as [b|]; [|reflexivity].
  destruct (nth_error infos ((b + 1) mod 2)) as [f|]; [destruct (f_source f) as [[|]|]|]; reflexivity.
Qed.

(** the caller before /repo commit 6329c3f (infer_source_field(&state.fields, ..), ALL fields) went out
    of range.  Witness: `struct E(#[error(ignore)] i32, Backtrace);` -- one enabled field whose type
    path ends in `Backtrace`: backtrace = Some 0 (a position among the ENABLED fields), fields.len() == 2,
    so source = (0 + 1) % 2 = 1 and `parsed_fields.data.infos[1]` has length 1. *)
Definition ef_ignored : efield :=
  {| f_enabled := false; f_source := None; f_backtrace := None; f_named_source := false;
     f_named_backtrace := false; f_ty_backtrace := false |}.
Definition ef_backtrace_ty : efield :=
  {| f_enabled := true; f_source := None; f_backtrace := None; f_named_source := false;
     f_named_backtrace := false; f_ty_backtrace := true |}.

Lemma infer_source_field_old_refuted :
  exists fs, In (OIndex 1 1) (ops_of (error_struct_old false fs)) /\
             all_ok (ops_of (error_struct_old false fs)) = false.
Proof. exists [ef_ignored; ef_backtrace_ty]. split; [vm_compute; right; left; reflexivity | vm_compute; reflexivity]. Qed.

Example ex_witness_now_safe : all_ok (ops_of (error_struct false [ef_ignored; ef_backtrace_ty])) = true.
Proof. vm_compute. reflexivity. Qed.

(* ------------------------------------------------------------------------------------------ *)
(** ** from.rs / validate_type *)

Definition vt_ops (r : vt_result) : list op := match r with VOk o _ | VErr o => o end.

(** every usize subtraction of validate_type (operands as extracted from the source, Gen.validate_type_subs)
    is guarded by the comparison of its match arm *)
Lemma vt_unplaced_nil : vt_unplaced = [].
Proof. vm_compute. reflexivity. Qed.

Ltac vt_sub_ok := cbn [all_ok forallb op_ok andb]; rewrite ?andb_true_r;
                  repeat (apply andb_true_intro; split); try reflexivity; apply Nat.leb_le; lia.

Lemma validate_type_arith_safe n ty : all_ok (vt_ops (validate_type n ty)) = true.
Proof.
  unfold validate_type. rewrite vt_unplaced_nil, vt_single_guard_present. cbn [andb]. destruct ty as [k|].
  - destruct (1 <? n) eqn:E1; [|destruct ((n =? 1) && (k =? 0)); reflexivity].
    destruct (Nat.compare_spec n k) as [H|H|H]; cbn [vt_ops app]; try reflexivity.
    + (* Less: self.len() < elems.len() *)
      unfold vt_subs. cbn [validate_type_subs flat_map vt_branch_eqb vt_eval app]. vt_sub_ok.
    + (* Greater: self.len() > elems.len() *)
      unfold vt_subs. cbn [validate_type_subs flat_map vt_branch_eqb vt_eval app]. vt_sub_ok.
  - destruct (1 <? n) eqn:E1; [|reflexivity]. apply Nat.ltb_lt in E1. cbn [vt_ops app].
    unfold vt_subs. cbn [validate_type_subs flat_map vt_branch_eqb vt_eval app]. vt_sub_ok.
Qed.

Lemma from_expand_fields_unit_arm_unreachable fk : all_ok (expand_fields_ops fk) = true.
Proof.
  destruct fk as [|n|n]; cbn; [reflexivity| |];
    (destruct (n =? 1) eqn:E; [apply Nat.eqb_eq in E; subst; reflexivity | reflexivity]).
Qed.

Lemma all_ok_unwraps k w : w <= k -> all_ok (map (fun j => OUnwrap (j <? k)) (seq 0 w)) = true.
Proof.
  intros H. unfold all_ok. apply forallb_forall. intros o Ho. apply in_map_iff in Ho as (j & <- & Hj).
  apply in_seq in Hj. cbn. apply Nat.ltb_lt. lia.
Qed.

Lemma expand_fields_wraps_eq fk : expand_fields_wraps fk = flen fk.
Proof.
  destruct fk as [|n|n]; cbn; [reflexivity| |];
    (destruct (n =? 1) eqn:E; [apply Nat.eqb_eq in E; subst; reflexivity | reflexivity]).
Qed.

(** from.rs:158-188 with utils.rs validate_type as it is now: every `from_tys.next()` of the
    `#[from(<types>)]` arm finds a type (from.rs:166 is unreachable), for all field shapes and types.
    (`#[from(())]` on a single field used to reach it; since /repo 04051df validate_type rejects it.) *)
Lemma from_types_safe fk ty : all_ok (ops_of (from_types_arm fk ty)) = true.
Proof.
  unfold from_types_arm.
  pose proof (validate_type_arith_safe (flen fk) ty) as Hv.
  destruct (validate_type (flen fk) ty) as [ops k|ops] eqn:E; cbn [ops_of vt_ops] in *; [|exact Hv].
  rewrite !all_ok_app, Hv, from_expand_fields_unit_arm_unreachable. cbn [andb].
  apply all_ok_unwraps. rewrite expand_fields_wraps_eq.
  unfold validate_type in E. rewrite vt_single_guard_present in E. cbn [andb] in E. destruct ty as [k'|].
  - destruct (1 <? flen fk) eqn:E1.
    + destruct (Nat.compare_spec (flen fk) k') as [H|H|H]; try discriminate.
      injection E as _ <-. lia.
    + destruct ((flen fk =? 1) && (k' =? 0)) eqn:E2; [discriminate|]. injection E as _ <-.
      apply Nat.ltb_ge in E1. apply andb_false_iff in E2 as [E2|E2]; apply Nat.eqb_neq in E2; lia.
  - destruct (1 <? flen fk) eqn:E1; [discriminate|]. injection E as _ <-. apply Nat.ltb_ge in E1. exact E1.
Qed.

Example ex_from_unit_tuple_rejected : from_types_arm (FUnnamed 1) (TyTuple 0) = RErr [].
Proof. vm_compute. reflexivity. Qed.

(** from.rs:344-403 legacy_error: no internal failure for any list of nested metas (a non-string
    literal used to reach `unreachable!()`; since /repo 04051df it is printed from its tokens) *)
Lemma from_legacy_error_safe metas n : all_ok (legacy_error metas n) = true.
Proof.
  unfold legacy_error. rewrite all_ok_app. apply andb_true_iff. split.
  - apply all_ok_flat_map. intros m _. destruct m; reflexivity.
  - destruct (n =? 1) eqn:E; [apply Nat.eqb_eq in E; subst; reflexivity | reflexivity].
Qed.

Lemma len1_next_safe n : all_ok (len1_next n) = true.
Proof. unfold len1_next. destruct (n =? 1) eqn:E; [apply Nat.eqb_eq in E; subst; reflexivity | reflexivity]. Qed.

Lemma len1_index0_safe n : all_ok (len1_index0 n) = true.
Proof. unfold len1_index0. destruct (n =? 1) eqn:E; [apply Nat.eqb_eq in E; subst; reflexivity | reflexivity]. Qed.

Lemma from_str_index0_safe n : all_ok (from_str_index0 n) = true.
Proof. unfold from_str_index0. rewrite from_str_guard_present. apply len1_index0_safe. Qed.

Lemma len1_index0_safe' n : all_ok (len1_index0 n) = true.
Proof. unfold len1_index0. destruct (n =? 1) eqn:E; [apply Nat.eqb_eq in E; subst; reflexivity | reflexivity]. Qed.

(* ------------------------------------------------------------------------------------------ *)
(** ** try_into.rs *)

Lemma try_into_member_safe en key_len :
  key_len = m_field_types (enabled_fields_data en) -> all_ok (try_into_member en key_len) = true.
Proof.
  intros ->. unfold try_into_member. apply matcher_safe.
  destruct (mfd_lengths en) as (_ & H2 & _ & H4 & _). rewrite H2, H4. apply le_n.
Qed.

(* ------------------------------------------------------------------------------------------ *)
(** ** as/mod.rs *)

Lemma as_struct_attr_unwrap_safe n : all_ok (ops_of (as_struct_attr n)) = true.
Proof.
  unfold as_struct_attr. destruct (n =? 1) eqn:E; [apply Nat.eqb_eq in E; subst; reflexivity | reflexivity].
Qed.

Lemma no_skip_present attrs :
  existsb is_skip (flat_map (fun a => match a with Some x => [x] | None => [] end) attrs) = false ->
  forall a, In a attrs -> a <> Some ASkip.
Proof.
  induction attrs as [|x attrs IH]; intros H a Ha; [destruct Ha|].
  cbn [flat_map] in H. rewrite existsb_app in H. apply orb_false_iff in H as [Hx Hr].
  destruct Ha as [Ha|Ha].
  - subst x. intros ->. cbn in Hx. discriminate.
  - apply IH; assumption.
Qed.

Lemma as_field_attrs_skip_unreachable attrs : all_ok (ops_of (as_field_attrs attrs)) = true.
Proof.
  unfold as_field_attrs. rewrite as_validation_is_present. cbn [andb].
  set (present := flat_map _ attrs).
  destruct (forallb is_skip present) eqn:Eall; cbn [negb andb]; [reflexivity|].
  destruct (existsb is_skip present) eqn:Eex; [reflexivity|]. cbn [ops_of].
  apply all_ok_flat_map. intros a Ha. pose proof (no_skip_present attrs Eex a Ha) as Hn.
  destruct a as [[| | |]|]; try reflexivity. congruence.
Qed.

(* ------------------------------------------------------------------------------------------ *)
(** ** fmt/display.rs, into.rs, fmt/mod.rs, parsing.rs *)

Lemma display_shared_attr_unwrap_safe shared has_fmt : all_ok (generate_bounds_unwrap shared has_fmt) = true.
Proof.
  unfold generate_bounds_unwrap, shared_attr_info.
  destruct shared as [[[|] [[|]|]]|]; destruct has_fmt; reflexivity.
Qed.

Lemma into_legacy_top_level_safe top owned ref_ ref_mut : all_ok (into_legacy top owned ref_ ref_mut) = true.
Proof.
  unfold into_legacy. rewrite il_guard_present. cbn [andb].
  destruct top as [[|t]|]; destruct owned as [[|o]|]; destruct ref_ as [[|r]|]; destruct ref_mut as [[|m]|];
    reflexivity.
Qed.

Lemma ops_of_prepend ops r : ops_of (prepend ops r) = ops ++ ops_of r.
Proof. destruct r; reflexivity. Qed.

(** into.rs:334-405 ConversionsAttribute::parse as it is now (after /repo commits 04051df and 4f1b004: a
    comma is required after a top-level type and after `owned(..)` / `ref(..)` / `ref_mut(..)`): at the
    head of every iteration `out.owned.tys` is empty or ends with a comma, so `push_value` (:396) and
    both `push_punct` (:363, :399) satisfy syn's assertions -- for every sequence of items *)
Lemma pi_guard_present : pi_guard = true.
Proof. vm_compute. reflexivity. Qed.

Lemma into_loop_safe items : forall st,
  empty_or_trailing st = true -> all_ok (ops_of (into_loop st items)) = true.
Proof.
  induction items as [|[inner comma| |comma] items IH]; intros st Hst; cbn [into_loop]; [reflexivity| |apply IH; exact Hst|].
  - cbv zeta. generalize (match inner with None => st | Some (k, tr) => extend_pairs st k tr end). intros st1.
    rewrite pi_guard_present. cbn [andb].
    destruct comma.
    + destruct (empty_or_trailing st1) eqn:E; [apply IH; exact E|].
      rewrite ops_of_prepend, all_ok_app. cbn [all_ok forallb op_ok negb andb]. apply IH.
      unfold empty_or_trailing. cbn [snd]. apply orb_true_r.
    + destruct items; reflexivity.
  - destruct comma.
    + rewrite ops_of_prepend, all_ok_app. cbn [all_ok forallb op_ok empty_or_trailing fst snd Nat.eqb orb negb andb].
      fold (empty_or_trailing st). rewrite Hst. cbn [andb]. apply IH. reflexivity.
    + destruct items; cbn [ops_of all_ok forallb op_ok]; rewrite Hst; reflexivity.
Qed.

Lemma into_push_value_safe items : all_ok (ops_of (into_loop (0, false) items)) = true.
Proof. apply into_loop_safe. reflexivity. Qed.

(* the former witnesses, now diagnostics *)
Example ex_into_two_types_no_comma : into_loop (0, false) [IType false; IType false] = RErr [OPushValue true].
Proof. vm_compute. reflexivity. Qed.
Example ex_into_owned_then_type : into_loop (0, false) [IOwned (Some (1, false)) false; IType false] = RErr [].
Proof. vm_compute. reflexivity. Qed.

Lemma placeholder_counter_safe n : all_ok (placeholder_counter n) = true.
Proof.
  unfold placeholder_counter. cbn [all_ok forallb op_ok]. rewrite andb_true_r. apply Nat.leb_le. lia.
Qed.

Lemma balanced_pair_count_safe steps : forall count, all_ok (balanced_pair count steps) = true.
Proof.
  induction steps as [|s steps IH]; intros count; cbn [balanced_pair]; [reflexivity|].
  destruct (count =? 0) eqn:E; [reflexivity|]. apply Nat.eqb_neq in E.
  destruct s; [|apply IH|apply IH].
  cbn [all_ok forallb op_ok]. fold (all_ok (balanced_pair (count - 1) steps)). rewrite IH, andb_true_r.
  apply Nat.leb_le. lia.
Qed.

(* ------------------------------------------------------------------------------------------ *)
(** ** finite obligations over the generated lists *)

Lemma fmt_trait_names_total : forallb fmt_route_ok derive_table = true.
Proof. vm_compute. reflexivity. Qed.

Lemma fmt_trait_names_total_In trait :
  In (trait, "fmt::display"%string) derive_table -> In trait display_names.
Proof.
  intros H. pose proof fmt_trait_names_total as T. rewrite forallb_forall in T. specialize (T _ H).
  unfold fmt_route_ok in T. rewrite String.eqb_refl in T. unfold mem_str in T.
  apply existsb_exists in T as (x & Hx & E). apply String.eqb_eq in E. subst. exact Hx.
Qed.

Lemma sites_accounted : forallb accounted site_list = true.
Proof. vm_compute. reflexivity. Qed.

Lemma sites_accounted_In s : In s site_list -> accounted s = true.
Proof. intros H. pose proof sites_accounted as T. rewrite forallb_forall in T. exact (T s H). Qed.

(** hypotheses are satisfiable / the models compute *)
Example ex_named_source :
  ops_of (error_struct true [ {| f_enabled := true; f_source := None; f_backtrace := None;
                                 f_named_source := true; f_named_backtrace := false; f_ty_backtrace := false |} ])
  = [OIndex 0 1; OIndex 0 1].
Proof. vm_compute. reflexivity. Qed.

Example ex_from_tuple2 : from_types_arm (FUnnamed 2) (TyTuple 2) = ROk [OUnwrap true; OUnwrap true].
Proof. vm_compute. reflexivity. Qed.

Example ex_from_tuple3_err : from_types_arm (FUnnamed 2) (TyTuple 3) = RErr [OSub 3 2; OSub 3 2].
Proof. vm_compute. reflexivity. Qed.

Example ex_try_into : try_into_member [true; false; true] 2 = [OIndex 0 2; OIndex 1 2].
Proof. vm_compute. reflexivity. Qed.

(* ========================================================================================== *)
(** * Part C: extracted arithmetic, the attribute meta parser, legacy detectors, recursion depth *)

Local Open Scope nat_scope.
Local Open Scope list_scope.

(** the expressions the translator extracted are the ones the hand models of Part A use *)
Lemma isf_exp_is : isf_exp = ABin ARem (ABin APlus (AVar "backtrace") (AConst 1)) (AConst 2).
Proof. vm_compute. reflexivity. Qed.
Lemma isf_guard_present : isf_guard = true.
Proof. vm_compute. reflexivity. Qed.
Lemma pfs_star_is : pfs_star = AAssign APlus "n" (AConst 1).
Proof. vm_compute. reflexivity. Qed.
Lemma pfs_next_is : pfs_next = AAssign APlus "n" (AConst 1).
Proof. vm_compute. reflexivity. Qed.
Lemma pfs_pos_is : pfs_pos = ABin AMinus (AVar "n") (AConst 1).
Proof. vm_compute. reflexivity. Qed.
Lemma bp_dec_is : bp_dec = AAssign AMinus "count" (AConst 1).
Proof. vm_compute. reflexivity. Qed.
Lemma bp_inc_is : bp_inc = AAssign APlus "count" (AConst 1).
Proof. vm_compute. reflexivity. Qed.
Lemma bp_guard_present : bp_guard = true.
Proof. vm_compute. reflexivity. Qed.
Lemma tf_inc_is : tf_inc = AAssign APlus "inc" (AConst 1).
Proof. vm_compute. reflexivity. Qed.
Lemma ff_inc_is : ff_inc = AAssign APlus "i" (AConst 1).
Proof. vm_compute. reflexivity. Qed.

Lemma env_get_hd x v e : env_get x ((x, v) :: e) = v.
Proof. cbn. rewrite String.eqb_refl. reflexivity. Qed.
Lemma env_has_hd x v e : env_has x ((x, v) :: e) = true.
Proof. cbn. rewrite String.eqb_refl. reflexivity. Qed.

Lemma exec_inc lim x v e :
  aexec lim ((x, v) :: e) (AAssign APlus x (AConst 1)) = ((x, v + 1) :: (x, v) :: e, [add_ok v 1 lim]).
Proof. unfold aexec. cbn [aeval aops]. rewrite env_get_hd, env_has_hd. reflexivity. Qed.

Lemma exec_dec lim x v e :
  aexec lim ((x, v) :: e) (AAssign AMinus x (AConst 1)) = ((x, v - 1) :: (x, v) :: e, [OSub v 1]).
Proof. unfold aexec. cbn [aeval aops]. rewrite env_get_hd, env_has_hd. reflexivity. Qed.

Lemma add_ok_ok a b lim : a + b <= lim -> op_ok (add_ok a b lim) = true.
Proof. intros H. unfold add_ok. cbn. apply Nat.leb_le. exact H. Qed.

(** error.rs:403 `(backtrace + 1) % 2` under the guard `fields.len() != 2 => return None`, with backtrace a
    position among the fields: no overflow, no division by zero, the result is a position among the fields, and
    it is the value the model of Part A uses *)
Lemma infer_source_arith_safe nfields b :
  b < nfields ->
  match infer_source_arith nfields b with
  | None => nfields <> 2
  | Some (s, ops) => nfields = 2 /\ all_ok ops = true /\ s < nfields /\ s = (b + 1) mod 2
  end.
Proof.
  intros Hb. unfold infer_source_arith. rewrite isf_guard_present, isf_exp_is. cbn [andb].
  destruct (nfields =? 2) eqn:E; cbn [negb].
  - apply Nat.eqb_eq in E. subst nfields. cbn [aeval aops]. rewrite !env_get_hd, !env_has_hd.
    split; [reflexivity|]. split.
    + cbn [app all_ok forallb]. rewrite add_ok_ok by lia. reflexivity.
    + split; [apply Nat.mod_upper_bound; discriminate | reflexivity].
  - apply Nat.eqb_neq in E. exact E.
Qed.

(** fmt/mod.rs:496-502: the counter of Placeholder::parse_fmt_string never exceeds twice the number of
    placeholders and `n - 1` never underflows *)
Lemma parse_fmt_counter_safe fs : forall n lim,
  n + 2 * length fs <= lim -> all_ok (parse_fmt_counter lim n fs) = true.
Proof.
  induction fs as [|[star has_arg] fs IH]; intros n lim H; [reflexivity|].
  cbn [parse_fmt_counter length] in *. rewrite pfs_star_is, pfs_next_is, pfs_pos_is.
  destruct star, has_arg; rewrite ?exec_inc; cbn [fst snd app aops aeval];
    rewrite ?exec_inc; cbn [fst snd app aops aeval]; rewrite ?env_get_hd, ?env_has_hd;
    cbn [app all_ok forallb]; rewrite ?add_ok_ok by lia; cbn [andb op_ok].
  - apply IH. lia.
  - assert (Hs : (1 <=? n + 1 + 1) = true) by (apply Nat.leb_le; lia). rewrite Hs. apply IH. lia.
  - apply IH. lia.
  - assert (Hs : (1 <=? n + 1) = true) by (apply Nat.leb_le; lia). rewrite Hs. apply IH. lia.
Qed.

(** parsing.rs:144-163 balanced_pair: under `while count != 0` the decrement never underflows and the counter is
    bounded by its start value plus the number of token trees consumed *)
Lemma balanced_pair_x_safe steps : forall count lim,
  count + length steps <= lim -> all_ok (balanced_pair_x lim count steps) = true.
Proof.
  induction steps as [|s steps IH]; intros count lim H; [reflexivity|].
  cbn [balanced_pair_x length] in *. rewrite bp_guard_present, bp_dec_is, bp_inc_is. cbn [andb].
  destruct (count =? 0) eqn:E; [reflexivity|]. apply Nat.eqb_neq in E.
  destruct s; rewrite ?exec_dec, ?exec_inc; cbn [fst snd]; rewrite ?env_get_hd; rewrite ?all_ok_app.
  - cbn [all_ok forallb op_ok]. assert (Hs : (1 <=? count) = true) by (apply Nat.leb_le; lia). rewrite Hs.
    cbn [andb]. apply IH. lia.
  - cbn [all_ok forallb]. rewrite add_ok_ok by lia. cbn [andb]. apply IH. lia.
  - apply IH. lia.
  - apply IH. lia.
Qed.

Lemma try_from_counter_safe vs : forall inc lim,
  inc + length vs <= lim -> all_ok (try_from_counter lim inc vs) = true.
Proof.
  induction vs as [|d vs IH]; intros inc lim H; [reflexivity|].
  cbn [try_from_counter length] in *. rewrite tf_inc_is, exec_inc. cbn [fst snd]. rewrite env_get_hd, all_ok_app.
  cbn [all_ok forallb]. rewrite add_ok_ok by (destruct d; lia). cbn [andb]. apply IH. destruct d; lia.
Qed.

Lemma from_forward_counter_safe n : forall i lim,
  i + n <= lim -> all_ok (from_forward_counter lim i n) = true.
Proof.
  induction n as [|n IH]; intros i lim H; [reflexivity|].
  cbn [from_forward_counter]. rewrite ff_inc_is, exec_inc. cbn [fst snd]. rewrite env_get_hd, all_ok_app.
  cbn [all_ok forallb]. rewrite add_ok_ok by lia. cbn [andb]. apply IH. lia.
Qed.

(* ------------------------------------------------------------------------------------------ *)
(** ** the attribute meta parser *)

Lemma ppnm_run_eq allowed w' : forall l,
  (fix go (l : list pmeta) : pres :=
     match l with
     | [] => (true, [], 0)
     | x :: r =>
         let rx := ppnm_meta allowed w' x in
         if p_ok rx then let rr := go r in (p_ok rr, p_ops_of rx ++ p_ops_of rr, Nat.max (p_depth rx) (p_depth rr))
         else (false, p_ops_of rx, p_depth rx)
     end) l = ppnm_list allowed w' l.
Proof. induction l as [|x r IH]; [reflexivity|]. cbn [ppnm_list]. rewrite <- IH. reflexivity. Qed.

Lemma id_allowed_some allowed id : id_allowed allowed id = true -> exists name, id = Some name.
Proof.
  unfold id_allowed. intros H. apply existsb_exists in H as (s & _ & H). destruct id as [x|]; [eexists; reflexivity|].
  discriminate.
Qed.

Lemma types_arm_ok w l :
  match w with Some n => is_ref_name n = true | None => True end -> all_ok (snd (types_arm w l)) = true.
Proof.
  intros Hw. induction l as [|[|] l IH]; cbn [types_arm snd]; try reflexivity.
  rewrite all_ok_app, IH, andb_true_r. destruct w as [n|]; [cbn [all_ok forallb op_ok]; rewrite Hw; reflexivity | reflexivity].
Qed.

(** with a wrapper (inside `not(..)`, `owned(..)`, ..) nothing recurses further and every operation is guarded *)
Lemma ppnm_meta_wrapped allowed w m :
  p_depth (ppnm_meta allowed (Some w) m) = 0 /\ all_ok (p_ops_of (ppnm_meta allowed (Some w) m)) = true.
Proof.
  destruct m as [id | id inner_ok inner tys]; cbn [ppnm_meta].
  - destruct (id_allowed allowed id) eqn:Ea; cbn [negb]; [|split; reflexivity].
    apply id_allowed_some in Ea as (name & ->). split; reflexivity.
  - destruct (id_is id "not"); [split; reflexivity|].
    destruct (id_allowed allowed id) eqn:Ea; cbn [negb]; [|split; reflexivity].
    apply id_allowed_some in Ea as (name & ->). cbn [andb].
    destruct (String.eqb name "types" && is_ref_name w) eqn:Et; [|split; reflexivity].
    apply andb_true_iff in Et as [_ Hw].
    destruct tys as [l|]; [|split; reflexivity].
    unfold p_depth, p_ops_of. cbn [fst snd]. split; [reflexivity|].
    rewrite all_ok_app. cbn [all_ok forallb op_ok andb]. apply (types_arm_ok (Some w) l). exact Hw.
Qed.

Lemma ppnm_list_wrapped allowed w ms :
  p_depth (ppnm_list allowed (Some w) ms) = 0 /\ all_ok (p_ops_of (ppnm_list allowed (Some w) ms)) = true.
Proof.
  induction ms as [|m ms [IHd IHo]]; [split; reflexivity|].
  cbn [ppnm_list]. destruct (ppnm_meta_wrapped allowed w m) as [Hd Ho].
  destruct (p_ok (ppnm_meta allowed (Some w) m)).
  - unfold p_depth, p_ops_of in *. cbn [fst snd]. rewrite Hd, IHd, all_ok_app, Ho, IHo. split; reflexivity.
  - unfold p_depth, p_ops_of in *. cbn [fst snd]. split; assumption.
Qed.

Lemma ppnm_meta_top allowed m :
  p_depth (ppnm_meta allowed None m) <= 1 /\ all_ok (p_ops_of (ppnm_meta allowed None m)) = true.
Proof.
  destruct m as [id | id inner_ok inner tys]; cbn [ppnm_meta].
  - destruct (id_allowed allowed id) eqn:Ea; cbn [negb]; [|split; [apply Nat.le_0_l | reflexivity]].
    apply id_allowed_some in Ea as (name & ->). split; [apply Nat.le_0_l | reflexivity].
  - rewrite !ppnm_run_eq.
    destruct (id_is id "not").
    + destruct inner_ok; [|split; [apply Nat.le_0_l | reflexivity]].
      destruct (ppnm_list_wrapped allowed "not" inner) as [Hd Ho].
      unfold p_depth, p_ops_of in *. cbn [fst snd]. rewrite Hd. split; [apply le_n | exact Ho].
    + destruct (id_allowed allowed id) eqn:Ea; cbn [negb]; [|split; [apply Nat.le_0_l | reflexivity]].
      apply id_allowed_some in Ea as (name & ->). cbn [andb]. rewrite ?ppnm_run_eq.
      destruct (is_ref_name name).
      * destruct inner_ok; [|split; [apply Nat.le_0_l | reflexivity]].
        destruct (ppnm_list_wrapped allowed name inner) as [Hd Ho].
        unfold p_depth, p_ops_of in *. cbn [fst snd]. rewrite Hd. split; [apply le_n|].
        rewrite all_ok_app, Ho. reflexivity.
      * destruct (String.eqb name "types" && true); [|split; [apply Nat.le_0_l | reflexivity]].
        destruct tys as [l|]; [|split; [apply Nat.le_0_l | reflexivity]].
        unfold p_depth, p_ops_of. cbn [fst snd]. split; [apply Nat.le_0_l|].
        rewrite all_ok_app. cbn [all_ok forallb op_ok andb]. apply (types_arm_ok None l). exact I.
Qed.

Lemma ppnm_list_top allowed ms :
  p_depth (ppnm_list allowed None ms) <= 1 /\ all_ok (p_ops_of (ppnm_list allowed None ms)) = true.
Proof.
  induction ms as [|m ms [IHd IHo]]; [split; [apply Nat.le_0_l | reflexivity]|].
  cbn [ppnm_list]. destruct (ppnm_meta_top allowed m) as [Hd Ho].
  destruct (p_ok (ppnm_meta allowed None m)); unfold p_depth, p_ops_of in *; cbn [fst snd].
  - split; [apply Nat.max_lub; assumption | rewrite all_ok_app, Ho, IHo; reflexivity].
  - split; assumption.
Qed.

(** utils.rs:879-1042 parse_punctuated_nested_meta is total and panic-free on every list of nested metas, with any
    wrapper and any list of allowed parameters: both `get_ident().unwrap()` (:918, :1015) follow a successful
    `is_ident(param)`, `RefType::from_attr_name` (:108) only sees owned / ref / ref_mut, and the function calls
    itself at most once more (nesting depth of invocations <= 1 below the first) *)
Lemma meta_parser_safe allowed w ms :
  all_ok (p_ops_of (ppnm_list allowed w ms)) = true /\ p_depth (ppnm_list allowed w ms) <= 1.
Proof.
  destruct w as [w|].
  - destruct (ppnm_list_wrapped allowed w ms) as [Hd Ho]. split; [exact Ho | rewrite Hd; apply Nat.le_0_l].
  - destruct (ppnm_list_top allowed ms) as [Hd Ho]. split; assumption.
Qed.

Lemma get_meta_info_total allowed attrs :
  all_ok (p_ops_of (get_meta_info allowed attrs)) = true /\ p_depth (get_meta_info allowed attrs) <= 2.
Proof.
  unfold get_meta_info. destruct attrs as [|a rest]; [split; [reflexivity | apply Nat.le_0_l]|].
  destruct allowed as [|p allowed]; [split; [reflexivity | apply Nat.le_0_l]|].
  destruct rest; [|split; [reflexivity | apply Nat.le_0_l]].
  destruct a as [|parses metas|]; try (split; [reflexivity | apply Nat.le_0_l]).
  destruct parses; [|split; [reflexivity | apply Nat.le_0_l]].
  destruct (ppnm_list_top (p :: allowed) metas) as [Hd Ho]. unfold p_depth, p_ops_of in *. cbn [fst snd].
  split; [exact Ho | lia].
Qed.

(* a satisfiable, non-trivial instance: #[try_into(owned, not(forward), ref(types(i32)))] with everything allowed *)
Example ex_meta_parser :
  ppnm_list ["owned"; "ref"; "forward"; "types"]%string None
    [PMPath (Some "owned"%string);
     PMList (Some "not"%string) true [PMPath (Some "forward"%string)] None;
     PMList (Some "ref"%string) true [PMList (Some "types"%string) true [] (Some [true])] None]
  = (true, [OUnwrap true; OUnwrap true; OUnwrap true; OUnwrap true; OUnwrap true], 1).
Proof. vm_compute. reflexivity. Qed.

(* ------------------------------------------------------------------------------------------ *)
(** ** into.rs check_legacy_syntax *)

Lemma check_legacy_syntax_safe nfields metas : all_ok (snd (check_legacy_syntax nfields metas)) = true.
Proof.
  unfold check_legacy_syntax. pose proof (len1_next_safe nfields) as Hf.
  destruct metas as [ms|]; [|exact Hf].
  destruct (legacy_fold (None, None, None, None) ms) as [[[[top owned] ref_] ref_mut]|]; [|exact Hf].
  destruct (negb (existsb nonempty [top; owned; ref_; ref_mut])); [exact Hf|].
  cbn [snd]. rewrite all_ok_app, Hf, into_legacy_top_level_safe. reflexivity.
Qed.

(* `#[into(types(i32, "&str"))]` is reported as legacy syntax; `#[into(owned(i32))]` is not *)
Example ex_legacy_types :
  check_legacy_syntax 1 (Some [LMList NTypes (Some [true; true]) IEmpty]) = (true, [OUnwrap true; OUnwrap true]).
Proof. vm_compute. reflexivity. Qed.
Example ex_legacy_owned_plain :
  fst (check_legacy_syntax 1 (Some [LMList NOwned None ILastNotList])) = false.
Proof. vm_compute. reflexivity. Qed.

(* ------------------------------------------------------------------------------------------ *)
(** ** recursion depth of the type walkers *)

Fixpoint ty_size (t : ty) : nat :=
  match t with
  | TNode cs => S ((fix go (l : list ty) : nat := match l with [] => 0 | c :: r => ty_size c + go r end) cs)
  end.

Lemma children_depth_le sel t0 (cs : list ty) :
  (forall c, In c cs -> call_depth sel c <= ty_depth c) ->
  forall i,
    (fix go (i : nat) (l : list ty) : nat :=
       match l with
       | [] => 0
       | c :: r => Nat.max (if sel t0 i then call_depth sel c else 0) (go (S i) r)
       end) i cs
    <= (fix go (l : list ty) : nat := match l with [] => 0 | c :: r => Nat.max (ty_depth c) (go r) end) cs.
Proof.
  induction cs as [|c cs IH]; intros H i; [apply le_n|].
  apply Nat.max_le_compat.
  - destruct (sel t0 i); [apply H; left; reflexivity | apply Nat.le_0_l].
  - apply IH. intros c' Hc'. apply H. right; exact Hc'.
Qed.

Lemma child_size_lt (cs : list ty) c :
  In c cs -> ty_size c <= (fix go (l : list ty) : nat := match l with [] => 0 | c :: r => ty_size c + go r end) cs.
Proof.
  induction cs as [|x cs IH]; intros H; [destruct H|]. destruct H as [->|H]; [lia|]. specialize (IH H). lia.
Qed.

(** a walker that, on each node, recurses into any subset of the children never nests deeper than the type *)
Lemma call_depth_le_ty_depth sel : forall t, call_depth sel t <= ty_depth t.
Proof.
  assert (H : forall n t, ty_size t <= n -> call_depth sel t <= ty_depth t).
  { induction n as [|n IH]; intros [cs] Hs; cbn [ty_size] in Hs; [lia|].
    cbn [call_depth ty_depth]. apply le_n_S. apply children_depth_le.
    intros c Hc. apply IH. pose proof (child_size_lt cs c Hc). lia. }
  intros t. apply (H (ty_size t)). apply le_n.
Qed.

Example ex_call_depth :
  call_depth (fun _ _ => true) (TNode [TNode [TNode []]; TNode [TNode [TNode []]]]) = 4 /\
  call_depth (fun _ i => Nat.eqb i 1) (TNode [TNode [TNode []]; TNode [TNode [TNode []]]]) = 2 /\
  ty_depth (TNode [TNode [TNode []]; TNode [TNode [TNode []]]]) = 4.
Proof. vm_compute. repeat split; reflexivity. Qed.

(* ------------------------------------------------------------------------------------------ *)
(** ** the placeholder name handed to format_ident! *)
Lemma ident_preds_are_xid_present : ident_preds_are_xid = true.
Proof. vm_compute. reflexivity. Qed.

Lemma transparent_ident_valid xs xc u name : all_ok (transparent_ident_ops xs xc u name) = true.
Proof.
  unfold transparent_ident_ops, parser_accepts_name. rewrite ident_preds_are_xid_present.
  destruct name as [|c r]; [reflexivity|].
  destruct ((xs c && forallb xc r) || ((c =? u) && match r with [] => false | _ => forallb xc r end)) eqn:E;
    [|reflexivity].
  cbn [all_ok forallb op_ok ident_new_ok]. rewrite andb_true_r.
  apply orb_true_iff in E as [E|E]; apply andb_true_iff in E as [E1 E2].
  - rewrite E1, E2. reflexivity.
  - rewrite E1, orb_true_r. destruct r; [discriminate|]. rewrite E2. reflexivity.
Qed.

Example ex_ident_name :
  transparent_ident_ops (fun c => Nat.eqb c 120) (fun c => Nat.eqb c 120 || Nat.eqb c 49) 95 [95; 120; 49] = [OUnwrap true].
Proof. vm_compute. reflexivity. Qed.
