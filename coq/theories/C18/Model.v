(** * C18 -- derive expansion is total: models (no proofs in this file)

    Part A: tiny models of the index / unwrap / subtraction logic of the expanders.  Every model
    returns the list of partial operations it performs ([op]); the theorems (Proofs.v) say that
    every operation of every run is in range.  Lengths and indexes are [nat].

    Part B: the classification of every potential internal-failure site listed by the translator
    (Gen/PanicSiteList.v, regenerated from /repo/impl/src on every run). *)
From Coq Require Import String List Arith Bool.
Require Import Verif.Gen.PanicSiteList.
Import ListNotations.

(* ------------------------------------------------------------------------------------------ *)
(** ** Partial operations *)

Inductive op :=
| OIndex (i len : nat)       (* v[i]  with v.len() = len *)
| OSub (a b : nat)           (* a - b on usize *)
| ORem (a b : nat)           (* a % b *)
| OUnwrap (is_some : bool)   (* Option::unwrap() / .unwrap_or_else(|| unreachable!()) *)
| OUnreachable               (* control reaches an unreachable!() arm *)
| OPushValue (empty_or_trailing : bool)   (* syn Punctuated::push_value asserts empty_or_trailing() *)
| OPushPunct (empty_or_trailing : bool).  (* syn Punctuated::push_punct asserts !empty_or_trailing() *)

Definition op_ok (o : op) : bool :=
  match o with
  | OIndex i len => i <? len
  | OSub a b => b <=? a
  | ORem _ b => negb (b =? 0)
  | OUnwrap b => b
  | OUnreachable => false
  | OPushValue b => b
  | OPushPunct b => negb b
  end.

Definition all_ok (l : list op) : bool := forallb op_ok l.

(** [ROk]: the function returns normally; [RErr]: it returns Err(syn::Error) or raises a deliberate
    diagnostic panic.  Both carry the operations performed up to that point. *)
Inductive result := ROk (ops : list op) | RErr (ops : list op).
Definition ops_of (r : result) : list op := match r with ROk l | RErr l => l end.

Definition is_some {A} (o : option A) : bool := match o with Some _ => true | None => false end.

(* the `if` / `while` conditions of a function as extracted by the translator (Gen.fn_guards) *)
Fixpoint lookup_guards (k : string) (l : list (string * list string)) : list string :=
  match l with
  | [] => []
  | (k', g) :: r => if String.eqb k k' then g else lookup_guards k r
  end.
Definition has_guard (fn_key cond : string) : bool :=
  existsb (String.eqb cond) (lookup_guards fn_key fn_guards).


Definition has_let (fn_key stmt : string) : bool :=
  existsb (String.eqb stmt) (lookup_guards fn_key fn_lets).


(* ------------------------------------------------------------------------------------------ *)
(** ** utils.rs: [State] and [MultiFieldData] (utils.rs:261-727)

    A struct / variant state is represented by one flag per field, [full_meta_infos[i].enabled]:
    [State::new_impl] (utils.rs:396-459) and [State::from_variant] (utils.rs:526-535) build
    [full_meta_infos] by mapping over the fields, one entry per field. *)

(* `.iter().zip(infos.map(enabled)).filter(|(_, ig)| *ig).map(|(x, _)| x)`  utils.rs:674-709 *)
Definition zip_filter {A} (xs : list A) (en : list bool) : list A :=
  map fst (filter (fun p => snd p) (combine xs en)).

(* utils.rs:674 enabled_fields: fields are numbered 0..n *)
Definition enabled_fields (en : list bool) : list nat := zip_filter (seq 0 (length en)) en.
(* utils.rs:683,702 field_idents / enabled_fields_idents: one ident per field, then zip_filter *)
Definition enabled_fields_idents (en : list bool) : list nat := zip_filter (seq 0 (length en)) en.
(* utils.rs:711 enabled_fields_indexes: enumerate over full_meta_infos *)
Definition enabled_fields_indexes (en : list bool) : list nat :=
  map fst (filter (fun p => snd p) (combine (seq 0 (length en)) en)).
(* utils.rs:720 enabled_infos *)
Definition enabled_infos (en : list bool) : list bool := filter (fun b => b) en.

(** lengths of the vectors of [MultiFieldData] (utils.rs:587-640) *)
Record mfd := {
  m_fields : nat; m_field_types : nat; m_field_idents : nat; m_field_indexes : list nat;
  m_members : nat; m_infos : nat; m_casted_traits : nat;
  m_state_fields : nat            (* self.state.fields.len() : all fields *)
}.

Definition enabled_fields_data (en : list bool) : mfd :=
  let fields := enabled_fields en in
  let field_idents := enabled_fields_idents en in
  let field_types := map (fun f => f) fields in
  {| m_fields := length fields;
     m_field_types := length field_types;
     m_field_idents := length field_idents;
     m_field_indexes := enabled_fields_indexes en;
     m_members := length (map (fun i => i) field_idents);
     m_infos := length (enabled_infos en);
     m_casted_traits := length (map (fun t => t) field_types);
     m_state_fields := length en |}.

(** utils.rs:561-585 assert_single_enabled_field; its guard is looked up in the source (Gen.fn_guards): without it
    the five `[0]` are modelled as unguarded *)
Definition asef_guard : bool :=
  has_guard "utils.rs|assert_single_enabled_field"%string "data . fields . len ( ) != 1"%string.

Definition assert_single_enabled_field (is_enum : bool) (en : list bool) : result :=
  if is_enum then RErr []                                   (* panic_one_field: diagnostic *)
  else
    let d := enabled_fields_data en in
    if asef_guard && negb (m_fields d =? 1) then RErr []    (* `if data.fields.len() != 1`: panic_one_field, diagnostic *)
    else ROk [OIndex 0 (m_fields d); OIndex 0 (m_field_types d); OIndex 0 (m_members d);
              OIndex 0 (m_infos d); OIndex 0 (m_casted_traits d)].

(** utils.rs:786-804 MultiFieldData::matcher: for every field of the state, the position of its
    number in [indexes] selects [bindings[found_index]] *)
Fixpoint position (i : nat) (l : list nat) : option nat :=
  match l with
  | [] => None
  | x :: r => if i =? x then Some 0 else option_map S (position i r)
  end.

Definition matcher (nfields : nat) (indexes : list nat) (nbindings : nat) : list op :=
  flat_map (fun i => match position i indexes with
                     | Some k => [OIndex k nbindings]
                     | None => []
                     end) (seq 0 nfields).

(** utils.rs:416-438 default_enabled: first_match = find_map(|info| info.enabled.map(|_| info));
    first_match.map_or(true, |info| !info.enabled.unwrap()) *)
Definition default_enabled_ops (enabled : list (option bool)) : list op :=
  match find (fun e => is_some e) enabled with
  | Some e => [OUnwrap (is_some e)]
  | None => []
  end.

(* ------------------------------------------------------------------------------------------ *)
(** ** error.rs *)

Record efield := {
  f_enabled : bool;                 (* full_meta_infos[i].enabled : no #[error(ignore)] *)
  f_source : option bool;           (* info.source    : #[error(source)] / #[error(not(source))] *)
  f_backtrace : option bool;        (* info.backtrace *)
  f_named_source : bool;            (* ident == "source" *)
  f_named_backtrace : bool;         (* ident == "backtrace" *)
  f_ty_backtrace : bool             (* is_type_path_ends_with_segment(ty, "Backtrace") *)
}.

(* positions (in the enumerated list) of the elements satisfying p *)
Definition indexes_where {A} (p : A -> bool) (l : list A) : list nat :=
  map fst (filter (fun x => p (snd x)) (combine (seq 0 (length l)) l)).

(* error.rs:482-495 assert_iter_contains_zero_or_one_item: None = Err *)
Definition zero_or_one (l : list nat) : option (option nat) :=
  match l with
  | [] => Some None
  | [x] => Some (Some x)
  | _ :: _ :: _ => None
  end.

(* error.rs:442-480 parse_field_impl over the *enabled* fields, enumerated from 0 *)
Definition parse_field_impl (value : efield -> option bool) (valid_default : efield -> bool)
           (enabled_fs : list efield) : option (option nat) :=
  match zero_or_one (indexes_where (fun f => match value f with Some true => true | _ => false end)
                                   enabled_fs) with
  | None => None
  | Some (Some i) => Some (Some i)
  | Some None =>
      zero_or_one (indexes_where (fun f => match value f with None => valid_default f | _ => false end)
                                 enabled_fs)
  end.

(* error.rs:303-330 the two is_valid_default_field_for_attr closures; len = state.fields.len() *)
Definition valid_source (named : bool) (len : nat) (f : efield) : bool :=
  if named then f_named_source f else (len =? 1) && negb (f_ty_backtrace f).
Definition valid_backtrace (named : bool) (f : efield) : bool :=
  if named then f_named_backtrace f || f_ty_backtrace f else f_ty_backtrace f.

(* error.rs:381-406 infer_source_field(&parsed_fields.data.fields, &parsed_fields):
   nall = number of the fields passed in; infos = parsed_fields.data.infos (the ENABLED fields).
   (Before /repo commit 6329c3f the caller passed &state.fields, ALL fields, and infos[source] went out
   of range on `struct E(#[error(ignore)] i32, Backtrace)`; see C18_infer_source_field_old_refuted.) *)
Definition infer_source_field (nall : nat) (infos : list efield) (source backtrace : option nat)
  : option nat * list op :=
  if negb (nall =? 2) then (None, [])
  else match source with
       | Some _ => (None, [])
       | None =>
           match backtrace with
           | None => (None, [])
           | Some b =>
               let s := (b + 1) mod 2 in
               let ops := [ORem (b + 1) 2; OIndex s (length infos)] in
               match nth_error infos s with
               | Some f => match f_source f with
                           | Some false => (None, ops)
                           | _ => (Some s, ops)
                           end
               | None => (None, ops)            (* the real code has panicked at infos[source] *)
               end
           end
       end.

Record parsed := { p_source : option nat; p_backtrace : option nat; p_data : mfd; p_ops : list op }.

(* error.rs:307-361 parse_fields + 408-450 parse_fields_impl; None = Err(syn::Error).
   [caller_len] abstracts which `len` the caller hands to parse_field_impl / infer_source_field:
   the code as it is passes fields.len() of enabled_fields_data, i.e. the number of ENABLED fields
   ([parse_fields]); the code before commit 6329c3f passed state.fields.len(), ALL fields
   ([parse_fields_old], kept only for the refutation that documents the repaired defect). *)
Definition parse_fields_with (all_fields_len : bool) (named : bool) (fs : list efield) : option parsed :=
  let en := map f_enabled fs in
  let enabled_fs := filter f_enabled fs in          (* fields.iter().zip(infos) of enabled_fields_data *)
  let d := enabled_fields_data en in
  let len := if all_fields_len then length fs else length enabled_fs in
  match parse_field_impl f_source (valid_source named len) enabled_fs with
  | None => None
  | Some source =>
      match parse_field_impl f_backtrace (valid_backtrace named) enabled_fs with
      | None => None
      | Some backtrace =>
          let '(source', ops1) :=
            if named then (source, [])
            else match source with
                 | Some _ => (source, [])
                 | None => infer_source_field len enabled_fs source backtrace
                 end in
          (* error.rs:352-358  parsed_fields.data.field_types[source]  (old: state.fields[source]) *)
          let ops2 := match source' with
                      | Some s => [OIndex s (if all_fields_len then length fs else m_field_types d)]
                      | None => []
                      end in
          Some {| p_source := source'; p_backtrace := backtrace; p_data := d; p_ops := ops1 ++ ops2 |}
      end
  end.

Definition parse_fields := parse_fields_with false.
Definition parse_fields_old := parse_fields_with true.

(* error.rs:207-211 render_source_as_struct, 222-250 render_provide_as_struct: data.members[..] *)
Definition render_struct_ops (p : parsed) : list op :=
  let members := m_members (p_data p) in
  (match p_source p with Some s => [OIndex s members] | None => [] end) ++
  (match p_backtrace p with
   | None => []
   | Some b =>
       (match p_source p with Some s => [OIndex s members] | None => [] end) ++
       (match p_source p with
        | Some s => if s =? b then [] else [OIndex b members]
        | None => [OIndex b members]
        end)
   end).

(* error.rs:213-220 and 252-297: the enum-variant arms translate the enabled-field positions through
   data.field_indexes[..] and call data.matcher(indexes, bindings) *)
Definition fidx (d : mfd) (i : nat) : nat := nth i (m_field_indexes d) 0.

Definition render_variant_ops (p : parsed) : list op :=
  let d := p_data p in
  let n := m_state_fields d in
  let k := length (m_field_indexes d) in
  (match p_source p with Some s => OIndex s k :: matcher n [fidx d s] 1 | None => [] end) ++
  (match p_backtrace p with
   | None => []
   | Some b =>
       match p_source p with
       | Some s => if s =? b then OIndex s k :: matcher n [fidx d s] 1
                   else OIndex s k :: OIndex b k :: matcher n [fidx d s; fidx d b] 2
       | None => OIndex b k :: matcher n [fidx d b] 1
       end
   end).

Definition error_struct (named : bool) (fs : list efield) : result :=
  match parse_fields named fs with
  | None => RErr []
  | Some p => ROk (p_ops p ++ render_struct_ops p)
  end.

Definition error_variant (named : bool) (fs : list efield) : result :=
  match parse_fields named fs with
  | None => RErr []
  | Some p => ROk (p_ops p ++ render_variant_ops p)
  end.

(* the same with the pre-6329c3f caller *)
Definition error_struct_old (named : bool) (fs : list efield) : result :=
  match parse_fields_old named fs with
  | None => RErr []
  | Some p => ROk (p_ops p ++ render_struct_ops p)
  end.

(* the index operations only (for the partial theorems) *)
Definition is_index (o : op) : bool := match o with OIndex _ _ => true | _ => false end.
Definition is_rem (o : op) : bool := match o with ORem _ _ => true | _ => false end.

(* ------------------------------------------------------------------------------------------ *)
(** ** from.rs / utils.rs fields_ext *)

Inductive fields_kind := FUnit | FNamed (n : nat) | FUnnamed (n : nat).
Definition flen (fk : fields_kind) : nat := match fk with FUnit => 0 | FNamed n | FUnnamed n => n end.

Inductive from_ty := TyTuple (k : nat) | TyOther.

(** utils.rs:2202-2284 FieldsExt::validate_type; returns the length of the iterator it yields *)
Inductive vt_result := VOk (ops : list op) (iter_len : nat) | VErr (ops : list op).

(* the subtractions of each match arm are NOT written here by hand: Gen.validate_type_subs is re-extracted from
   the source on every run (arm, left operand, right operand), so a changed operand changes this model *)
Definition vt_eval (n k : nat) (o : vt_operand) : option nat :=
  match o with VSelfLen => Some n | VElemsLen => Some k | VConst c => Some c | VUnknown => None end.

Definition vt_branch_eqb (a b : vt_branch) : bool :=
  match a, b with
  | VBGreater, VBGreater | VBLess, VBLess | VBEqual, VBEqual | VBOther, VBOther | VBNone, VBNone => true
  | _, _ => false
  end.

Definition vt_subs (b : vt_branch) (n k : nat) : list op :=
  flat_map (fun e => match e with
                     | (b', l, r) =>
                         if vt_branch_eqb b b' then
                           [match vt_eval n k l, vt_eval n k r with
                            | Some x, Some y => OSub x y
                            | _, _ => OUnreachable          (* an operand the translator does not know *)
                            end]
                         else []
                     end) validate_type_subs.

(* a subtraction outside the three arms that have one today is not placed by the model: flag it *)
Definition vt_unplaced : list op :=
  flat_map (fun e => match e with
                     | (VBEqual, _, _) | (VBNone, _, _) => [OUnreachable]
                     | _ => []
                     end) validate_type_subs.

(* the arm `Tuple if self.len() == 1 && elems.is_empty() => Err` that from.rs:166 relies on, looked up in the source *)
Definition vt_single_guard : bool :=
  has_guard "utils.rs|validate_type"%string "self . len ( ) == 1 && elems . is_empty ( ) =>"%string.

Definition validate_type (n : nat) (ty : from_ty) : vt_result :=
  match ty with
  | TyTuple k =>
      if 1 <? n then
        match Nat.compare n k with
        | Gt => VErr (vt_unplaced ++ vt_subs VBGreater n k)        (* self.len() > elems.len() *)
        | Lt => VErr (vt_unplaced ++ vt_subs VBLess n k)           (* self.len() < elems.len() *)
        | Eq => VOk vt_unplaced k
        end
      else if vt_single_guard && (n =? 1) && (k =? 0) then VErr vt_unplaced   (* a single field needs exactly one type *)
      else VOk vt_unplaced k
  | TyOther =>
      if 1 <? n then VErr (vt_unplaced ++ vt_subs VBOther n 0)     (* `other if self.len() > 1` *)
      else VOk vt_unplaced 1
  end.

(** from.rs:268-319 expand_fields: how often [wrap] is called, and the two guarded arms *)
Definition expand_fields_wraps (fk : fields_kind) : nat :=
  match fk with
  | FUnit => 0                                               (* surround = None *)
  | _ => if flen fk =? 1 then 1 else flen fk
  end.

Definition expand_fields_ops (fk : fields_kind) : list op :=
  match fk with
  | FUnit => []
  | _ =>
      (* :293 the closure re-matches self.fields; its Unit arm is unreachable!() *)
      (match fk with FUnit => [OUnreachable] | _ => [] end) ++
      (* :302-306 self.fields.iter().next().unwrap_or_else(|| unreachable!(..)) under len() == 1 *)
      (if flen fk =? 1 then [OUnwrap (0 <? flen fk)] else [])
  end.

(** from.rs:158-188 the `#[from(<types>)]` arm, for one type of the attribute:
    every call of [wrap] takes `from_tys.next().unwrap_or_else(|| unreachable!())` (:166) *)
Definition from_types_arm (fk : fields_kind) (ty : from_ty) : result :=
  match validate_type (flen fk) ty with
  | VErr ops => RErr ops
  | VOk ops k =>
      ROk (ops ++ expand_fields_ops fk ++
           map (fun j => OUnwrap (j <? k)) (seq 0 (expand_fields_wraps fk)))
  end.

(** from.rs:344-403 legacy_error: the nested metas of `types(...)` *)
Inductive nested_meta := NMeta | NLitStr | NLitOther.

Definition legacy_error (metas : list nested_meta) (nfields : nat) : list op :=
  (* :356-362 every kind of nested meta is rendered to a string (since /repo 04051df a non-string
     literal is printed from its tokens; it used to be `unreachable!()`) *)
  flat_map (fun m => match m with NMeta | NLitStr | NLitOther => [] end) metas ++
  (if nfields =? 1 then [OUnwrap (0 <? nfields)] else []).                              (* :382 *)

(** `x.len() == 1` followed by `.iter().next().unwrap_or_else(|| unreachable!())`
    (from.rs:306,382; into.rs:499; fmt/display.rs:507) and `variants[0]` (from_str.rs:80) *)
Definition len1_next (n : nat) : list op := if n =? 1 then [OUnwrap (0 <? n)] else [].
Definition len1_index0 (n : nat) : list op := if n =? 1 then [OIndex 0 n] else [].
(* from_str.rs:80 `variants[0]` under `if variants.len() == 1`, the condition looked up in the source *)
Definition from_str_guard : bool := has_guard "from_str.rs|enum_from"%string "variants . len ( ) == 1"%string.
Definition from_str_index0 (n : nat) : list op := if from_str_guard then len1_index0 n else [OIndex 0 n].

(* ------------------------------------------------------------------------------------------ *)
(** ** try_into.rs:30-66: one member of a bucket of [variants_per_types]

    key = (ref_type, field_types of the first variant put in the bucket); a member is in the bucket
    iff its own field_types equal the key (HashMap key equality).  patterns.len() = vars.len() =
    original_types.len() = key length. *)
Definition try_into_member (en : list bool) (key_len : nat) : list op :=
  matcher (length en) (m_field_indexes (enabled_fields_data en)) key_len.

(* ------------------------------------------------------------------------------------------ *)
(** ** as/mod.rs:36-139 *)

Inductive fattr := AEmpty | ASkip | AForward | ATypes.
Definition is_skip (a : fattr) : bool := match a with ASkip => true | _ => false end.

(* :36-53 struct-level attribute *)
Definition as_struct_attr (nfields : nat) : result :=
  if negb (nfields =? 1) then RErr [] else ROk [OUnwrap (0 <? nfields)].

(* :68-139 field-level attributes.  The `unreachable!()` of :135 relies on the validation pass of :76-100 over the
   same attributes; that pass is looked up in the source (its two `let` statements and its three conditions, as
   extracted into Gen.fn_lets / Gen.fn_guards): if any of them is not there verbatim, the pass is modelled as absent *)
Definition as_validation_present : bool :=
  has_let "as/mod.rs|expand"%string "let present_attrs = attrs . iter ( ) . filter_map ( Option :: as_ref ) . collect :: < Vec < _ > > ( ) #0835c1e82d"%string &&
  has_let "as/mod.rs|expand"%string "let all = present_attrs . iter ( ) . all ( | attr | matches ! ( attr . item , FieldAttribute :: Skip ( _ ) ) ) #0e2a09916b"%string &&
  has_guard "as/mod.rs|expand"%string "! all"%string &&
  has_guard "as/mod.rs|expand"%string "let Some ( skip_attr ) = present_attrs . iter ( ) . find_map ( | attr | { if let FieldAttribute :: Skip ( skip ) = & attr . item { Some ( attr . as_ref ( ) . ma #0ec9dbccb6"%string &&
  has_guard "as/mod.rs|expand"%string "all"%string.

Definition as_field_attrs (attrs : list (option fattr)) : result :=
  let present := flat_map (fun a => match a with Some x => [x] | None => [] end) attrs in
  let all := forallb is_skip present in
  if as_validation_present && negb all && existsb is_skip present then RErr []          (* :84-100 *)
  else if all then ROk []
  else ROk (flat_map (fun a => match a with Some ASkip => [OUnreachable] | _ => [] end) attrs).  (* :135 *)

(* ------------------------------------------------------------------------------------------ *)
(** ** fmt/display.rs:443-458 shared_attr_info and :562-615 generate_bounds

    shared = Some (contains_arg("_variant"), transparent_call: None | Some (called_trait != trait_ident)) *)
Definition shared_attr_info (shared : option (bool * option bool)) : bool * bool :=
  let contains_variant := match shared with None => true | Some (c, _) => c end in
  let has := match shared with
             | None => false
             | Some (_, None) => true
             | Some (_, Some differs) => differs || negb contains_variant
             end in
  (has, has && contains_variant).

Definition generate_bounds_unwrap (shared : option (bool * option bool)) (has_fmt : bool) : list op :=
  let '(has, wrapping) := shared_attr_info shared in
  let mix := if has_fmt then wrapping else has in
  if mix then [OUnwrap (is_some shared)] else [].                                   (* :601 *)

(* ------------------------------------------------------------------------------------------ *)
(** ** into.rs:541-626 check_legacy_syntax: lengths of the four collected lists *)
Definition nonempty (o : option nat) : bool := match o with Some (S _) => true | _ => false end.

(* the try_fold + filter `let .. else { return Ok(()) }` and the `if [..].any(Option::is_some)` the final
   `top_level.unwrap_or_else(|| unreachable!())` relies on, looked up in the source *)
Definition il_guard : bool :=
  has_let "into.rs|check_legacy_syntax"%string "let Some ( ( top_level , owned , ref_ , ref_mut ) ) = metas . into_iter ( ) . try_fold ( ( None , None , None , None ) , #bcead77b6c"%string &&
  has_guard "into.rs|check_legacy_syntax"%string "[ & owned , & ref_ , & ref_mut ] . into_iter ( ) . any ( Option :: is_some )"%string.

Definition into_legacy (top owned ref_ ref_mut : option nat) : list op :=
  if il_guard && negb (existsb nonempty [top; owned; ref_; ref_mut]) then []       (* :588-596 return Ok(()) *)
  else if il_guard && existsb is_some [owned; ref_; ref_mut] then []               (* :598 *)
  else [OUnwrap (is_some top)].                                        (* :624 *)

(** ** into.rs:334-403 ConversionsAttribute::parse: what its loop does to `out.owned.tys`.
    State of that Punctuated: (number of values, has trailing punct). *)
Definition empty_or_trailing (st : nat * bool) : bool := (fst st =? 0) || snd st.

Inductive into_item :=
| IOwned (inner : option (nat * bool)) (comma : bool)
    (* `owned`, optionally `( k types [,] )` (k values, inner trailing comma), optionally a comma *)
| IOtherWrapped                  (* `ref..` / `ref_mut..`: out.owned.tys untouched *)
| IType (comma : bool).          (* a top-level type, followed by a comma or not *)

(* syn 2.0.119 punctuated.rs:488-517  Extend<Pair>: a separator is pushed first when needed *)
Definition extend_pairs (st : nat * bool) (k : nat) (inner_trailing : bool) : nat * bool :=
  match k with
  | 0 => if empty_or_trailing st then st else (fst st, true)
  | S _ => (fst st + k, inner_trailing)
  end.

Definition prepend (ops : list op) (r : result) : result :=
  match r with ROk l => ROk (ops ++ l) | RErr l => RErr (ops ++ l) end.

(* into.rs:362 the guard of `convs.tys.push_punct(comma)` in parse_inner, as it is written in the source *)
Definition pi_guard : bool := has_guard "into.rs|parse"%string "! convs . tys . empty_or_trailing ( )"%string.

Fixpoint into_loop (st : nat * bool) (items : list into_item) : result :=
  match items with
  | [] => ROk []
  | IOtherWrapped :: r => into_loop st r
  | IOwned inner comma :: r =>                                   (* parse_inner, :344-369 *)
      let st1 := match inner with None => st | Some (k, tr) => extend_pairs st k tr end in
      if comma then
        if pi_guard && empty_or_trailing st1 then into_loop st1 r      (* `if !convs.tys.empty_or_trailing()` *)
        else prepend [OPushPunct (empty_or_trailing st1)] (into_loop (fst st1, true) r)   (* :363; without that
                                                       guard in the source the push is modelled as unconditional *)
      else match r with
           | [] => ROk []
           | _ :: _ => RErr []                                   (* :366-368 expected `,` (since /repo 4f1b004) *)
           end
  | IType comma :: r =>                                          (* the `_ =>` arm, :393-403 *)
      let st1 := (S (fst st), false) in
      if comma then
        prepend [OPushValue (empty_or_trailing st); OPushPunct (empty_or_trailing st1)]  (* :396 :399 *)
                (into_loop (fst st1, true) r)
      else match r with
           | [] => ROk [OPushValue (empty_or_trailing st)]
           | _ :: _ => RErr [OPushValue (empty_or_trailing st)]   (* :400-402 expected `,` *)
           end
  end.

Definition is_owned (i : into_item) : bool := match i with IOwned _ _ => true | _ => false end.

Definition is_push_punct (o : op) : bool := match o with OPushPunct _ => true | _ => false end.

(* ------------------------------------------------------------------------------------------ *)
(** ** fmt/mod.rs:484-489: `n += 1; Parameter::Positional(n - 1)` *)
Definition placeholder_counter (n : nat) : list op := [OSub (n + 1) 1].

(** ** parsing.rs:136-161 balanced_pair: count starts at 1, `while count != 0` *)
Inductive bp_step := BClose | BOpen | BOther.
Fixpoint balanced_pair (count : nat) (steps : list bp_step) : list op :=
  match steps with
  | [] => []
  | s :: r =>
      if count =? 0 then []
      else match s with
           | BClose => OSub count 1 :: balanced_pair (count - 1) r
           | BOpen => balanced_pair (S count) r
           | BOther => balanced_pair count r
           end
  end.

(* ------------------------------------------------------------------------------------------ *)
(** ** The derive table (Gen): which trait names reach the fmt expanders

    fmt/display.rs:622-646 normalize_trait_name / trait_name_to_default_placeholder_literal and
    fmt/mod.rs:579-595 trait_name_to_attribute_name end in `_ => unimplemented!()`. *)
Local Open Scope string_scope.

Definition display_names : list string :=
  ["Binary"; "Display"; "LowerExp"; "LowerHex"; "Octal"; "Pointer"; "UpperExp"; "UpperHex"].
Definition attribute_names : list string := "Debug" :: display_names.

Definition mem_str (s : string) (l : list string) : bool := existsb (String.eqb s) l.

(* a derive routed to fmt::display must be one of the 8 names; fmt::debug passes the constant "Debug" *)
Definition fmt_route_ok (d : string * string) : bool :=
  let '(trait, module) := d in
  if String.eqb module "fmt::display" then mem_str trait display_names
  else if String.eqb module "fmt::debug" then String.eqb trait "Debug"
  else true.

(* ------------------------------------------------------------------------------------------ *)
(** ** Part B: classification of the panic-site inventory *)

Inductive cls :=
| Discharged (lemma : string)    (* the named theorem proves the guard for all inputs *)
| Refuted (lemma : string)       (* the named theorem exhibits an input reaching the failure: a finding *)
| Diagnostic                     (* deliberate panic!/assert! whose message says what is unsupported *)
| Unreachable (reason : string)  (* cannot fail, for the stated structural reason *)
| ProbeOnly.                     (* not modelled: covered by the panic probe only *)

Definition r_ident_const := 
  "every piece is a constant, a derive/trait name from lib.rs, or a decimal index: always a valid identifier".
Definition r_named_ident := 
  "the field comes from syn::FieldsNamed, whose fields always carry an ident".
Definition r_not_self_call := 
  "not a self-call: the callee is a different item with the same name (another module, another impl, an inherent or foreign method)".
Definition r_variant_some := 
  "State::from_variant (utils.rs:505-556) always sets variant: Some(..); variant_states / the per-variant states are built only by from_variant".
Definition r_parse_never_called := 
  "Parse::parse of this type is never called: parse_attrs -> parse_attrs_with -> the overridden parse_attr_with; the type is not nested in an Either".

Definition classification : list (string * cls) := [
  (* add_assign_like.rs:8 expand  --  format_ident ! ( '{trait_name}' ) *)
  ("add_assign_like.rs|expand|format_ident|67cd3068", Unreachable r_ident_const);
  (* add_assign_like.rs:10 expand  --  format_ident ! ( '{method_name}_assign' ) *)
  ("add_assign_like.rs|expand|format_ident|d0df7ad2", Unreachable r_ident_const);
  (* add_assign_like.rs:24 expand  --  panic ! ( 'Unit structs cannot use derive({trait_name})' ) *)
  ("add_assign_like.rs|expand|panic|1ed0210b", Diagnostic);
  (* add_assign_like.rs:27 expand  --  panic ! ( 'Only structs can use derive({trait_name})' ) *)
  ("add_assign_like.rs|expand|panic|cd4a82be", Diagnostic);
  (* add_helpers.rs:22 struct_exprs  --  field . ident . as_ref ( ) . unwrap ( ) *)
  ("add_helpers.rs|struct_exprs|unwrap|0bfcef4d", Unreachable r_named_ident);
  (* add_like.rs:13 expand  --  format_ident ! ( '{trait_name}' ) *)
  ("add_like.rs|expand|format_ident|67cd3068", Unreachable r_ident_const);
  (* add_like.rs:15 expand  --  format_ident ! ( '{method_name}' ) *)
  ("add_like.rs|expand|format_ident|ba0c06bb", Unreachable r_ident_const);
  (* add_like.rs:31 expand  --  panic ! ( 'Unit structs cannot use derive({trait_name})' ) *)
  ("add_like.rs|expand|panic|1ed0210b", Diagnostic);
  (* add_like.rs:40 expand  --  panic ! ( 'Only structs and enums can use derive({trait_name})' ) *)
  ("add_like.rs|expand|panic|49ae636a", Diagnostic);
  (* as/mod.rs:53 expand  --  data . fields . iter ( ) . next ( ) . unwrap ( ) *)
  ("as/mod.rs|expand|unwrap|b136d665", Discharged "C18_as_struct_attr_unwrap_safe");
  (* as/mod.rs:135 expand  --  unreachable ! ( ) *)
  ("as/mod.rs|expand|unreachable|ae3f79c7", Discharged "C18_as_field_attrs_skip_unreachable");
  (* as/mod.rs:208 to_tokens  --  parse_quote ! { __AsT } *)
  ("as/mod.rs|to_tokens|parse_quote|ffc82901", Unreachable "constant tokens that parse");
  (* as/mod.rs:252 to_tokens  --  parse_quote ! { # field_ty : # trait_ty } *)
  ("as/mod.rs|to_tokens|parse_quote|c0f08f96", ProbeOnly);
  (* as/mod.rs:256 to_tokens  --  parse_quote ! { # return_ty : ? derive_more :: core :: marker :: Sized } *)
  ("as/mod.rs|to_tokens|parse_quote|e1bffa53", ProbeOnly);
  (* as/mut.rs:12 expand  --  format_ident ! ( '{trait_name}' ) *)
  ("as/mut.rs|expand|format_ident|67cd3068", Unreachable r_ident_const);
  (* as/mut.rs:13 expand  --  format_ident ! ( 'as_mut' ) *)
  ("as/mut.rs|expand|format_ident|2d62c640", Unreachable r_ident_const);
  (* as/mut.rs:16 expand  --  super :: expand ( input , ( & trait_ident , & method_ident , Some ( & mutability ) ) ) *)
  ("as/mut.rs|expand|recursion|06c46eb4", Unreachable r_not_self_call);
  (* as/ref.rs:11 expand  --  format_ident ! ( '{trait_name}' ) *)
  ("as/ref.rs|expand|format_ident|67cd3068", Unreachable r_ident_const);
  (* as/ref.rs:12 expand  --  format_ident ! ( 'as_ref' ) *)
  ("as/ref.rs|expand|format_ident|4cd18553", Unreachable r_ident_const);
  (* as/ref.rs:14 expand  --  super :: expand ( input , ( & trait_ident , & method_ident , None ) ) *)
  ("as/ref.rs|expand|recursion|acbe2d58", Unreachable r_not_self_call);
  (* constructor.rs:24 expand  --  panic ! ( 'Only structs can derive a constructor' ) *)
  ("constructor.rs|expand|panic|45f5fcfb", Diagnostic);
  (* error.rs:209 render_source_as_struct  --  self . data . members [ source ] *)
  ("error.rs|render_source_as_struct|index|dcaa0246", Discharged "C18_error_index_safe");
  (* error.rs:224 render_provide_as_struct  --  self . data . members [ source ] *)
  ("error.rs|render_provide_as_struct|index|dcaa0246", Discharged "C18_error_index_safe");
  (* error.rs:236 render_provide_as_struct  --  self . data . members [ backtrace ] *)
  ("error.rs|render_provide_as_struct|index|9d64729c", Discharged "C18_error_index_safe");
  (* error.rs:306 parse_fields  --  field . ident . as_ref ( ) . unwrap ( ) *)
  ("error.rs|parse_fields|unwrap|0bfcef4d", Unreachable r_named_ident);
  (* error.rs:314 parse_fields  --  unreachable ! ( ) *)
  ("error.rs|parse_fields|unreachable|ae3f79c7", Unreachable "attr is the literal ""source"" or ""backtrace"" (parse_fields_impl, error.rs:413-427)");
  (* error.rs:329 parse_fields  --  unreachable ! ( ) *)
  ("error.rs|parse_fields|unreachable|ae3f79c7#1", Unreachable "attr is the literal ""source"" or ""backtrace"" (parse_fields_impl, error.rs:413-427)");
  (* error.rs:339 parse_fields  --  unreachable ! ( ) *)
  ("error.rs|parse_fields|unreachable|ae3f79c7#2", Unreachable "parse_fields is called with a struct state (error.rs:35) or a State::from_variant state: derive_type is Named or Unnamed");
  (* error.rs:356 parse_fields  --  parsed_fields . data . field_types [ source ] *)
  ("error.rs|parse_fields|index|68f538c0", Discharged "C18_error_index_safe");
  (* error.rs:217 render_source_as_enum_variant_match_arm  --  self . data . field_indexes [ source ] *)
  ("error.rs|render_source_as_enum_variant_match_arm|index|a830769d", Discharged "C18_error_index_safe");
  (* error.rs:259,271 render_provide_as_enum_variant_match_arm  --  self . data . field_indexes [ source ] *)
  ("error.rs|render_provide_as_enum_variant_match_arm|index|a830769d", Discharged "C18_error_index_safe");
  ("error.rs|render_provide_as_enum_variant_match_arm|index|a830769d#1", Discharged "C18_error_index_safe");
  (* error.rs:272,287 render_provide_as_enum_variant_match_arm  --  self . data . field_indexes [ backtrace ] *)
  ("error.rs|render_provide_as_enum_variant_match_arm|index|3b88b060", Discharged "C18_error_index_safe");
  ("error.rs|render_provide_as_enum_variant_match_arm|index|3b88b060#1", Discharged "C18_error_index_safe");
  (* error.rs:362 is_type_path_ends_with_segment  --  ty . path . segments . last ( ) . unwrap ( ) *)
  ("error.rs|is_type_path_ends_with_segment|unwrap|42fb213e", Unreachable "a parsed syn::Path has at least one segment (syn invariant)");
  (* error.rs:388 infer_source_field  --  ( backtrace + 1 ) % 2 *)
  ("error.rs|infer_source_field|arith|c0de0e96", Discharged "C18_infer_source_arith_safe");
  (* error.rs:390 infer_source_field  --  parsed_fields . data . infos [ source ] *)
  ("error.rs|infer_source_field|index|2569c72b", Discharged "C18_error_index_safe");
  (* fmt/debug.rs:23 expand  --  format_ident ! ( '{}' , trait_name_to_attribute_name ( 'Debug' ) ) *)
  ("fmt/debug.rs|expand|format_ident|62ee87bd", Unreachable r_ident_const);
  (* fmt/debug.rs:57 expand  --  parse_quote ! { where } *)
  ("fmt/debug.rs|expand|parse_quote|d6394b6f", Unreachable "constant tokens that parse");
  (* fmt/debug.rs:99 expand_struct  --  format_ident ! ( '_{i}' ) *)
  ("fmt/debug.rs|expand_struct|format_ident|6c8df843", Unreachable r_ident_const);
  (* fmt/debug.rs:169 expand_enum  --  format_ident ! ( '_{i}' ) *)
  ("fmt/debug.rs|expand_enum|format_ident|6c8df843", Unreachable r_ident_const);
  (* fmt/debug.rs:310 generate_body  --  format_ident ! ( '_{i}' ) *)
  ("fmt/debug.rs|generate_body|format_ident|6c8df843", Unreachable r_ident_const);
  (* fmt/debug.rs:335 generate_body  --  unreachable ! ( '`syn::Fields::Named`' ) *)
  ("fmt/debug.rs|generate_body|unreachable|ab34c9f8", Unreachable r_named_ident);
  (* fmt/debug.rs:386 generate_bounds  --  format_ident ! ( '{trait_name}' ) *)
  ("fmt/debug.rs|generate_bounds|format_ident|67cd3068", Unreachable r_ident_const);
  (* fmt/debug.rs:388 generate_bounds  --  parse_quote ! { # ty : derive_more :: core :: fmt :: # trait_ident } *)
  ("fmt/debug.rs|generate_bounds|parse_quote|915bca53", ProbeOnly);
  (* fmt/debug.rs:406 generate_bounds  --  format_ident ! ( '{trait_name}' ) *)
  ("fmt/debug.rs|generate_bounds|format_ident|67cd3068#1", Unreachable r_ident_const);
  (* fmt/debug.rs:408 generate_bounds  --  parse_quote ! { # ty : derive_more :: core :: fmt :: # trait_ident } *)
  ("fmt/debug.rs|generate_bounds|parse_quote|915bca53#1", ProbeOnly);
  (* fmt/debug.rs:413 generate_bounds  --  parse_quote ! { # ty : derive_more :: core :: fmt :: Debug } *)
  ("fmt/debug.rs|generate_bounds|parse_quote|47a64d21", ProbeOnly);
  (* fmt/display.rs:37 expand  --  format_ident ! ( '{}' , trait_name_to_attribute_name ( trait_name ) ) *)
  ("fmt/display.rs|expand|format_ident|494ba692", Unreachable r_ident_const);
  (* fmt/display.rs:42 expand  --  format_ident ! ( '{trait_name}' ) *)
  ("fmt/display.rs|expand|format_ident|67cd3068", Unreachable r_ident_const);
  (* fmt/display.rs:66 expand  --  parse_quote ! { where } *)
  ("fmt/display.rs|expand|parse_quote|d6394b6f", Unreachable "constant tokens that parse");
  (* fmt/display.rs:290 expand_struct  --  format_ident ! ( '_{i}' ) *)
  ("fmt/display.rs|expand_struct|format_ident|6c8df843", Unreachable r_ident_const);
  (* fmt/display.rs:366 expand_enum  --  format_ident ! ( '_{i}' ) *)
  ("fmt/display.rs|expand_enum|format_ident|6c8df843", Unreachable r_ident_const);
  (* fmt/display.rs:507 generate_body  --  unreachable ! ( 'count() == 1' ) *)
  ("fmt/display.rs|generate_body|unreachable|ce5f2bcf", Discharged "C18_len1_next_safe");
  (* fmt/display.rs:509 generate_body  --  format_ident ! ( '_0' ) *)
  ("fmt/display.rs|generate_body|format_ident|538b2ba8", Unreachable r_ident_const);
  (* fmt/display.rs:575 generate_bounds  --  format_ident ! ( '{trait_name}' ) *)
  ("fmt/display.rs|generate_bounds|format_ident|67cd3068", Unreachable r_ident_const);
  (* fmt/display.rs:577 generate_bounds  --  parse_quote ! { # ty : derive_more :: core :: fmt :: # trait_ident } *)
  ("fmt/display.rs|generate_bounds|parse_quote|915bca53", ProbeOnly);
  (* fmt/display.rs:591 generate_bounds  --  parse_quote ! { # ty : derive_more :: core :: fmt :: # trait_ident } *)
  ("fmt/display.rs|generate_bounds|parse_quote|915bca53#1", ProbeOnly);
  (* fmt/display.rs:601 generate_bounds  --  self . shared_attr . as_ref ( ) . unwrap ( ) *)
  ("fmt/display.rs|generate_bounds|unwrap|5960c2f8", Discharged "C18_display_shared_attr_unwrap_safe");
  (* fmt/display.rs:607 generate_bounds  --  format_ident ! ( '{trait_name}' ) *)
  ("fmt/display.rs|generate_bounds|format_ident|67cd3068#1", Unreachable r_ident_const);
  (* fmt/display.rs:609 generate_bounds  --  parse_quote ! { # ty : derive_more :: core :: fmt :: # trait_ident } *)
  ("fmt/display.rs|generate_bounds|parse_quote|915bca53#2", ProbeOnly);
  (* fmt/display.rs:629 normalize_trait_name  --  unimplemented ! ( ) *)
  ("fmt/display.rs|normalize_trait_name|unimplemented|90b420f3", Discharged "C18_fmt_trait_names_total");
  (* fmt/display.rs:645 trait_name_to_default_placeholder_literal  --  unimplemented ! ( ) *)
  ("fmt/display.rs|trait_name_to_default_placeholder_literal|unimplemented|90b420f3", Discharged "C18_fmt_trait_names_total");
  (* fmt/display.rs:169 merge_attrs  --  super :: ContainerAttributes :: merge_attrs ( Spanning :: new ( prev . common , prev_span  *)
  ("fmt/display.rs|merge_attrs|recursion|b818a072", Unreachable r_not_self_call);
  (* fmt/mod.rs:187 transparent_call  --  format_ident ! ( '{name}' ) *)
  ("fmt/mod.rs|transparent_call|format_ident|340055a5", Discharged "C18_transparent_ident_valid");
  (* fmt/mod.rs:204 transparent_call  --  format_ident ! ( '{trait_name}' ) *)
  ("fmt/mod.rs|transparent_call|format_ident|67cd3068", Unreachable r_ident_const);
  (* fmt/mod.rs:227 transparent_call_on_fields  --  parse_quote ! { & ( # expr ) } *)
  ("fmt/mod.rs|transparent_call_on_fields|parse_quote|cc0c0de2", Unreachable "&( tokens ) is two token trees without top-level comma; parsing::Expr accepts any non-empty comma-free token sequence (scanner totality: C16 C18_split_total)");
  (* fmt/mod.rs:491 parse_fmt_string  --  n - 1 *)
  ("fmt/mod.rs|parse_fmt_string|arith|04853a0b", Discharged "C18_parse_fmt_counter_safe");
  (* fmt/mod.rs:596 trait_name_to_attribute_name  --  unimplemented ! ( ) *)
  ("fmt/mod.rs|trait_name_to_attribute_name|unimplemented|90b420f3", Discharged "C18_fmt_trait_names_total");
  (* fmt/mod.rs:658 contains_generics  --  unimplemented ! ( 'syntax is not supported by `derive_more`, please report a bug' , ) *)
  ("fmt/mod.rs|contains_generics|unimplemented|a0877529", ProbeOnly);
  (* fmt/mod.rs:669 contains_generics  --  unimplemented ! ( 'syntax is not supported by `derive_more`, please report a bug' , ) *)
  ("fmt/mod.rs|contains_generics|unimplemented|a0877529#1", ProbeOnly);
  (* fmt/mod.rs:701 contains_generics  --  unimplemented ! ( 'syntax is not supported by `derive_more`, please report a bug' , ) *)
  ("fmt/mod.rs|contains_generics|unimplemented|a0877529#2", ProbeOnly);
  (* fmt/mod.rs:733 fmt_args_idents  --  format_ident ! ( '_{i}' ) *)
  ("fmt/mod.rs|fmt_args_idents|format_ident|6c8df843", Unreachable r_ident_const);
  (* fmt/mod.rs:614 contains_generics  --  qself . ty . contains_generics ( type_params ) *)
  ("fmt/mod.rs|contains_generics|recursion|0d0e2b4a", Discharged "C18_recursion_depth_le_nesting");
  (* fmt/mod.rs:622 contains_generics  --  path . contains_generics ( type_params ) *)
  ("fmt/mod.rs|contains_generics|recursion|e02f3c5d", Discharged "C18_recursion_depth_le_nesting");
  (* fmt/mod.rs:632 contains_generics  --  elem . contains_generics ( type_params ) *)
  ("fmt/mod.rs|contains_generics|recursion|1e0c061e", Discharged "C18_recursion_depth_le_nesting");
  (* fmt/mod.rs:638 contains_generics  --  arg . ty . contains_generics ( type_params ) *)
  ("fmt/mod.rs|contains_generics|recursion|7eee60fb", Discharged "C18_recursion_depth_le_nesting");
  (* fmt/mod.rs:642 contains_generics  --  ty . contains_generics ( type_params ) *)
  ("fmt/mod.rs|contains_generics|recursion|3e3ccfc5", Discharged "C18_recursion_depth_le_nesting");
  (* fmt/mod.rs:648 contains_generics  --  ty . contains_generics ( type_params ) *)
  ("fmt/mod.rs|contains_generics|recursion|3e3ccfc5#1", Discharged "C18_recursion_depth_le_nesting");
  (* fmt/mod.rs:654 contains_generics  --  path . contains_generics ( type_params ) *)
  ("fmt/mod.rs|contains_generics|recursion|e02f3c5d#1", Discharged "C18_recursion_depth_le_nesting");
  (* fmt/mod.rs:694 contains_generics  --  ty . contains_generics ( type_params ) *)
  ("fmt/mod.rs|contains_generics|recursion|3e3ccfc5#2", Discharged "C18_recursion_depth_le_nesting");
  (* fmt/mod.rs:708 contains_generics  --  ty . contains_generics ( type_params ) *)
  ("fmt/mod.rs|contains_generics|recursion|3e3ccfc5#3", Discharged "C18_recursion_depth_le_nesting");
  (* fmt/mod.rs:712 contains_generics  --  ty . contains_generics ( type_params ) *)
  ("fmt/mod.rs|contains_generics|recursion|3e3ccfc5#4", Discharged "C18_recursion_depth_le_nesting");
  (* fmt/parsing.rs:530 identifier  --  input [ .. ( input . len ( ) - i . len ( ) ) ] *)
  ("fmt/parsing.rs|identifier|slice|a0105c1d", Discharged "C18_identifier_suffix");
  (* fmt/parsing.rs:530 identifier  --  input . len ( ) - i . len ( ) *)
  ("fmt/parsing.rs|identifier|arith|c1f959a4", Discharged "C18_identifier_suffix");
  (* fmt/parsing.rs:622 take_while0  --  input [ .. ( input . len ( ) - cur . len ( ) ) ] *)
  ("fmt/parsing.rs|take_while0|slice|b69977a4", Discharged "C18_identifier_suffix");
  (* fmt/parsing.rs:622 take_while0  --  input . len ( ) - cur . len ( ) *)
  ("fmt/parsing.rs|take_while0|arith|f6304f27", Discharged "C18_identifier_suffix");
  (* fmt/parsing.rs:636 take_while1  --  input [ .. ( input . len ( ) - cur . len ( ) ) ] *)
  ("fmt/parsing.rs|take_while1|slice|b69977a4", Discharged "C18_integer_suffix");
  (* fmt/parsing.rs:636 take_while1  --  input . len ( ) - cur . len ( ) *)
  ("fmt/parsing.rs|take_while1|arith|f6304f27", Discharged "C18_integer_suffix");
  (* fmt/parsing.rs:664 take_until1  --  input [ .. ( input . len ( ) - cur . len ( ) ) ] *)
  ("fmt/parsing.rs|take_until1|slice|b69977a4", Discharged "C18_text_suffix");
  (* fmt/parsing.rs:664 take_until1  --  input . len ( ) - cur . len ( ) *)
  ("fmt/parsing.rs|take_until1|arith|f6304f27", Discharged "C18_text_suffix");
  (* fmt/parsing.rs:670 str  --  input [ s . len ( ) .. ] *)
  ("fmt/parsing.rs|str|slice|ed4c12be", Discharged "C18_format_suffix");
  (* fmt/parsing.rs:675 char  --  input [ c . len_utf8 ( ) .. ] *)
  ("fmt/parsing.rs|char|slice|551c1f0f", Discharged "C18_format_suffix");
  (* fmt/parsing.rs:688 check_char  --  input [ c . len_utf8 ( ) .. ] *)
  ("fmt/parsing.rs|check_char|slice|551c1f0f", Discharged "C18_format_suffix");
  (* fmt/parsing.rs:703 any_char  --  input [ c . len_utf8 ( ) .. ] *)
  ("fmt/parsing.rs|any_char|slice|551c1f0f", Discharged "C18_format_suffix");
  (* fmt/parsing.rs:710 take_any_char  --  input [ c . len_utf8 ( ) .. ] *)
  ("fmt/parsing.rs|take_any_char|slice|551c1f0f", Discharged "C18_format_suffix");
  (* fmt/parsing.rs:574 map  --  parser ( input ) . map ( & mut f ) *)
  ("fmt/parsing.rs|map|recursion|97bbe8b5", Unreachable r_not_self_call);
  (* fmt/parsing.rs:583 map_or_else  --  parser ( input ) . map_or_else ( || default ( input ) , & mut f ) *)
  ("fmt/parsing.rs|map_or_else|recursion|2af8c8ee", Unreachable r_not_self_call);
  (* fmt/parsing.rs:592 and_then  --  parser ( input ) . and_then ( & mut f ) *)
  ("fmt/parsing.rs|and_then|recursion|c3719526", Unreachable r_not_self_call);
  (* from.rs:24 expand  --  format_ident ! ( 'from' ) *)
  ("from.rs|expand|format_ident|32606e12", Unreachable r_ident_const);
  (* from.rs:166 expand  --  unreachable ! ( ) *)
  ("from.rs|expand|unreachable|ae3f79c7", Discharged "C18_from_types_safe");
  (* from.rs:216 expand  --  format_ident ! ( '__FromT{i}' ) *)
  ("from.rs|expand|format_ident|0b29198c", Unreachable r_ident_const);
  (* from.rs:234 expand  --  parse_quote ! { # ty : derive_more :: core :: convert :: From < # ident > } *)
  ("from.rs|expand|parse_quote|aa99d727", ProbeOnly);
  (* from.rs:293 expand_fields  --  unreachable ! ( ) *)
  ("from.rs|expand_fields|unreachable|ae3f79c7", Discharged "C18_from_expand_fields_unit_arm_unreachable");
  (* from.rs:306 expand_fields  --  unreachable ! ( 'self.fields.len() == 1' ) *)
  ("from.rs|expand_fields|unreachable|9e7c7774", Discharged "C18_len1_next_safe");
  (* from.rs:382 legacy_error  --  unreachable ! ( 'fields.len() == 1' ) *)
  ("from.rs|legacy_error|unreachable|1e0c2958", Discharged "C18_len1_next_safe");
  (* from.rs:43 expand  --  Expansion { attrs : StructAttribute :: parse_attrs_with ( & input . attrs , & attr_name ,  *)
  ("from.rs|expand|recursion|bd2f4ce0", Unreachable r_not_self_call);
  (* from.rs:84 expand  --  Expansion { attrs : attrs . as_ref ( ) , ident : & input . ident , variant : Some ( & vari *)
  ("from.rs|expand|recursion|b4535049", Unreachable r_not_self_call);
  (* from_str.rs:60 enum_from  --  variant_state . variant . unwrap ( ) *)
  ("from_str.rs|enum_from|unwrap|c0ad521a", Unreachable r_variant_some);
  (* from_str.rs:62 enum_from  --  panic ! ( 'Only enums with no fields can derive({trait_name})' ) *)
  ("from_str.rs|enum_from|panic|adb2be67", Diagnostic);
  (* from_str.rs:80 enum_from  --  variants [ 0 ] *)
  ("from_str.rs|enum_from|index|c18528fa", Discharged "C18_from_str_index0_safe");
  (* from_str.rs:112 panic_one_field  --  panic ! ( 'Only structs with one field can derive({trait_name})' ) *)
  ("from_str.rs|panic_one_field|panic|c74dc9f9", Diagnostic);
  (* index.rs:8 expand  --  format_ident ! ( '__IdxT' ) *)
  ("index.rs|expand|format_ident|533054ad", Unreachable r_ident_const);
  (* index_mut.rs:8 expand  --  format_ident ! ( '__IdxT' ) *)
  ("index_mut.rs|expand|format_ident|533054ad", Unreachable r_ident_const);
  (* into.rs:26 expand  --  format_ident ! ( 'into' ) *)
  ("into.rs|expand|format_ident|45f35d32", Unreachable r_ident_const);
  (* into.rs:157 expand  --  syn :: Lifetime :: new ( ''__derive_more_into' , Span :: call_site ( ) ) *)
  ("into.rs|expand|ident_new|1653582d", Unreachable "constant, valid identifier / lifetime");
  (* into.rs:257 parse  --  unreachable ! ( 'call `attr::ParseMultiple::parse_attr_with()` instead' ) *)
  ("into.rs|parse|unreachable|edc57a53", Unreachable r_parse_never_called);
  (* is_variant.rs:30 expand  --  format_ident ! ( 'is_{}' , variant . ident . unraw ( ) . to_string ( ) . to_case ( Case :: Snake ) , .. ) *)
  ("is_variant.rs|expand|format_ident|ee4129d1", ProbeOnly);
  (* try_from.rs:109 to_tokens  --  format_ident ! ( '__DISCRIMINANT_{}' , ident . unraw ( ) ) *)
  ("try_from.rs|to_tokens|format_ident|01a930ec", Unreachable "an unraw'd syn::Ident appended to an identifier prefix is a valid identifier");
  (* try_unwrap.rs:34,39,44 expand  --  format_ident ! ( 'try_unwrap_{ident}[_ref|_mut]' , ident = variant . ident . unraw ( ) . to_string ( ) . to_case ( Case :: Snake ) , .. ) *)
  ("try_unwrap.rs|expand|format_ident|75bb979d", ProbeOnly);
  ("try_unwrap.rs|expand|format_ident|69fa7f72", ProbeOnly);
  ("try_unwrap.rs|expand|format_ident|7686b9a0", ProbeOnly);
  (* unwrap.rs:34,39,44 expand  --  format_ident ! ( 'unwrap_{ident}[_ref|_mut]' , ident = variant . ident . unraw ( ) . to_string ( ) . to_case ( Case :: Snake ) , .. ) *)
  ("unwrap.rs|expand|format_ident|a86a4e59", ProbeOnly);
  ("unwrap.rs|expand|format_ident|e3cdcb4b", ProbeOnly);
  ("unwrap.rs|expand|format_ident|ffc23e12", ProbeOnly);
  (* additions / increments (an overflow needs a usize or i32 counter to reach its maximum) *)
  (* error.rs:403 infer_source_field  --  backtrace + 1 *)
  ("error.rs|infer_source_field|arith|17498fbd", Discharged "C18_infer_source_arith_safe");
  (* fmt/mod.rs:496,501 parse_fmt_string  --  n += 1 *)
  ("fmt/mod.rs|parse_fmt_string|arith|98c4e639", Discharged "C18_parse_fmt_counter_safe");
  ("fmt/mod.rs|parse_fmt_string|arith|98c4e639#1", Discharged "C18_parse_fmt_counter_safe");
  (* from.rs:223 expand  --  i += 1 *)
  ("from.rs|expand|arith|a37fd462", Discharged "C18_from_forward_counter_safe");
  (* mul_assign_like.rs:14 expand  --  .. . to_string ( ) + '_assign' *)
  ("mul_assign_like.rs|expand|arith|85e2ad40", Unreachable "String + &str concatenation, not integer arithmetic");
  (* parsing.rs:156 balanced_pair  --  count += 1 *)
  ("parsing.rs|balanced_pair|arith|5230535b", Discharged "C18_balanced_pair_arith_safe");
  (* try_from.rs:116 to_tokens  --  inc += 1 *)
  ("try_from.rs|to_tokens|arith|a905ebf0", Discharged "C18_try_from_counter_safe");
  (* into.rs:363 parse  --  convs . tys . push_punct ( comma ) *)
  ("into.rs|parse|vecop|a6902915", Discharged "C18_into_loop_safe");
  (* into.rs:396 parse  --  out . owned . tys . push_value ( ty ) *)
  ("into.rs|parse|vecop|26caa897", Discharged "C18_into_push_value_safe");
  (* into.rs:399 parse  --  out . owned . tys . push_punct ( input . parse :: < token :: Comma > ( ) ? ) *)
  ("into.rs|parse|vecop|9257d57e", Discharged "C18_into_loop_safe");
  (* into.rs:499 check_legacy_syntax  --  unreachable ! ( 'fields.len() == 1' ) *)
  ("into.rs|check_legacy_syntax|unreachable|1e0c2958", Discharged "C18_len1_next_safe");
  (* into.rs:624 check_legacy_syntax  --  unreachable ! ( ) *)
  ("into.rs|check_legacy_syntax|unreachable|ae3f79c7", Discharged "C18_into_legacy_top_level_safe");
  (* into.rs:266 parse_attr_with  --  Untyped :: parse_attr_with ( attr , parser ) *)
  ("into.rs|parse_attr_with|recursion|537b11bb", Unreachable r_not_self_call);
  (* is_variant.rs:19 expand  --  assert ! ( state . derive_type == DeriveType :: Enum , 'IsVariant can only be derived for  *)
  ("is_variant.rs|expand|assert|2f1db6e6", Diagnostic);
  (* is_variant.rs:29 expand  --  variant_state . variant . unwrap ( ) *)
  ("is_variant.rs|expand|unwrap|c0ad521a", Unreachable r_variant_some);
  (* lib.rs:104 <top>  --  syn :: parse ( input ) . unwrap ( ) *)
  ("lib.rs|<top>|unwrap|b5900658", Unreachable "precondition of the property: the compiler hands a syntactically valid item to a derive, which syn::parse accepts (trusted; items syn rejects are outside the probe)");
  (* mul_assign_like.rs:25 expand  --  format_ident ! ( '__RhsT' ) *)
  ("mul_assign_like.rs|expand|format_ident|b5bbb62b", Unreachable r_ident_const);
  (* mul_assign_like.rs:23 expand  --  add_assign_like :: expand ( input , trait_name ) *)
  ("mul_assign_like.rs|expand|recursion|af9d997c", Unreachable r_not_self_call);
  (* mul_like.rs:20 expand  --  format_ident ! ( '__RhsT' ) *)
  ("mul_like.rs|expand|format_ident|b5bbb62b", Unreachable r_ident_const);
  (* mul_like.rs:17 expand  --  add_like :: expand ( input , trait_name ) *)
  ("mul_like.rs|expand|recursion|595221cb", Unreachable r_not_self_call);
  (* not_like.rs:10 expand  --  format_ident ! ( '{trait_name}' ) *)
  ("not_like.rs|expand|format_ident|67cd3068", Unreachable r_ident_const);
  (* not_like.rs:12 expand  --  format_ident ! ( '{method_name}' ) *)
  ("not_like.rs|expand|format_ident|ba0c06bb", Unreachable r_ident_const);
  (* not_like.rs:28 expand  --  panic ! ( 'Unit structs cannot use derive({trait_name})' ) *)
  ("not_like.rs|expand|panic|1ed0210b", Diagnostic);
  (* not_like.rs:34 expand  --  panic ! ( 'Only structs and enums can use derive({trait_name})' ) *)
  ("not_like.rs|expand|panic|49ae636a", Diagnostic);
  (* not_like.rs:110 enum_output_type_and_content  --  format_ident ! ( '__{i}' ) *)
  ("not_like.rs|enum_output_type_and_content|format_ident|924d8d3a", Unreachable r_ident_const);
  (* not_like.rs:132 enum_output_type_and_content  --  f . ident . as_ref ( ) . unwrap ( ) *)
  ("not_like.rs|enum_output_type_and_content|unwrap|f0adbca8", Unreachable r_named_ident);
  (* not_like.rs:135 enum_output_type_and_content  --  format_ident ! ( '__{i}' ) *)
  ("not_like.rs|enum_output_type_and_content|format_ident|924d8d3a#1", Unreachable r_ident_const);
  (* parsing.rs:146 balanced_pair  --  count -= 1 *)
  ("parsing.rs|balanced_pair|arith|af1c0e62", Discharged "C18_balanced_pair_arith_safe");
  (* parsing.rs:120 punct  --  c . punct ( ) *)
  ("parsing.rs|punct|recursion|e8ff6c22", Unreachable r_not_self_call);
  (* parsing.rs:130 token_tree  --  c . token_tree ( ) *)
  ("parsing.rs|token_tree|recursion|e6b538f4", Unreachable r_not_self_call);
  (* sum_like.rs:20 expand  --  format_ident ! ( '{op_trait_name}' ) *)
  ("sum_like.rs|expand|format_ident|142b6b46", Unreachable r_ident_const);
  (* sum_like.rs:22 expand  --  format_ident ! ( '{}' , op_trait_name . to_lowercase ( ) ) *)
  ("sum_like.rs|expand|format_ident|490f9333", Unreachable r_ident_const);
  (* try_from.rs:20 expand  --  format_ident ! ( 'repr' ) *)
  ("try_from.rs|expand|format_ident|70a5306e", Unreachable r_ident_const);
  (* try_from.rs:23 expand  --  format_ident ! ( 'try_from' ) *)
  ("try_from.rs|expand|format_ident|90db8ed2", Unreachable r_ident_const);
  (* try_into.rs:25 expand  --  assert ! ( state . derive_type == DeriveType :: Enum , 'Only enums can derive TryInto' ) *)
  ("try_into.rs|expand|assert|981929e8", Diagnostic);
  (* try_into.rs:87 expand  --  d . variant_name . expect ( 'Somehow there was no variant name' ) *)
  ("try_into.rs|expand|expect|32b96eff", Unreachable r_variant_some);
  (* try_unwrap.rs:19 expand  --  assert ! ( state . derive_type == DeriveType :: Enum , 'TryUnwrap can only be derived for  *)
  ("try_unwrap.rs|expand|assert|4788ac66", Diagnostic);
  (* try_unwrap.rs:33 expand  --  variant_state . variant . unwrap ( ) *)
  ("try_unwrap.rs|expand|unwrap|c0ad521a", Unreachable r_variant_some);
  (* try_unwrap.rs:139 get_field_info  --  panic ! ( 'cannot unwrap anonymous records' ) *)
  ("try_unwrap.rs|get_field_info|panic|ba1e7802", Diagnostic);
  (* try_unwrap.rs:145 get_field_info  --  format_ident ! ( 'field_{n}' ) *)
  ("try_unwrap.rs|get_field_info|format_ident|bcf1ba11", Unreachable r_ident_const);
  (* try_unwrap.rs:157 failed_block  --  it . variant . unwrap ( ) *)
  ("try_unwrap.rs|failed_block|unwrap|245f1c19", Unreachable r_variant_some);
  (* unwrap.rs:19 expand  --  assert ! ( state . derive_type == DeriveType :: Enum , 'Unwrap can only be derived for enu *)
  ("unwrap.rs|expand|assert|fba3001f", Diagnostic);
  (* unwrap.rs:33 expand  --  variant_state . variant . unwrap ( ) *)
  ("unwrap.rs|expand|unwrap|c0ad521a", Unreachable r_variant_some);
  (* unwrap.rs:134 get_field_info  --  panic ! ( 'cannot unwrap anonymous records' ) *)
  ("unwrap.rs|get_field_info|panic|ba1e7802", Diagnostic);
  (* unwrap.rs:140 get_field_info  --  format_ident ! ( 'field_{n}' ) *)
  ("unwrap.rs|get_field_info|format_ident|bcf1ba11", Unreachable r_ident_const);
  (* unwrap.rs:152 failed_block  --  it . variant . unwrap ( ) *)
  ("unwrap.rs|failed_block|unwrap|245f1c19", Unreachable r_variant_some);
  (* utils.rs:108 from_attr_name  --  panic ! ( '`{name}` is not a `RefType`' ) *)
  ("utils.rs|from_attr_name|panic|66764741", Discharged "C18_meta_parser_safe");
  (* utils.rs:114 numbered_vars  --  format_ident ! ( '__{prefix}{i}' ) *)
  ("utils.rs|numbered_vars|format_ident|43977d22", Unreachable r_ident_const);
  (* utils.rs:123 field_idents  --  f . ident . as_ref ( ) . expect ( 'Tried to get field names of a tuple struct' ) *)
  ("utils.rs|field_idents|expect|14058216", Unreachable "only called with the fields of syn::FieldsNamed (add_like.rs:74,117, constructor.rs:48; State::field_idents under derive_type == Named)");
  (* utils.rs:145 add_extra_type_param_bound_op_output  --  parse_quote ! { derive_more :: core :: ops :: # trait_ident < Output = # type_ident > } *)
  ("utils.rs|add_extra_type_param_bound_op_output|parse_quote|cd17387b", Unreachable "only identifiers are interpolated into a fixed bound");
  (* utils.rs:166 add_extra_ty_param_bound  --  parse_quote ! { # bound } *)
  ("utils.rs|add_extra_ty_param_bound|parse_quote|fcfc37db", Unreachable "callers pass derive_more::with_trait::<Ident>, derive_more::core::ops::<Ident> (utils.rs:158,481,537; sum_like.rs:28): a path");
  (* utils.rs:178 add_extra_generic_param  --  parse_quote ! { # generic_param } *)
  ("utils.rs|add_extra_generic_param|parse_quote|7ea01e91", Unreachable "callers pass a constant lifetime or <Ident>[: Copy | ?Sized] (utils.rs:227-236, into_iterator.rs:30, try_into.rs:96)");
  (* utils.rs:189 add_extra_generic_type_param  --  parse_quote ! { # generic_param } *)
  ("utils.rs|add_extra_generic_type_param|parse_quote|7ea01e91", Unreachable "callers pass a constant lifetime or <Ident>[: Copy | ?Sized] (utils.rs:227-236, into_iterator.rs:30, try_into.rs:96)");
  (* utils.rs:210 add_extra_where_clauses  --  parse_quote ! { # type_where_clauses } *)
  ("utils.rs|add_extra_where_clauses|parse_quote|f56fe55a", ProbeOnly);
  (* utils.rs:248 panic_one_field  --  panic ! ( 'derive({trait_name}) only works when forwarding to a single field. \?         T *)
  ("utils.rs|panic_one_field|panic|70389de6", Diagnostic);
  (* utils.rs:373 new_impl  --  format_ident ! ( '{trait_name}' ) *)
  ("utils.rs|new_impl|format_ident|67cd3068", Unreachable r_ident_const);
  (* utils.rs:374 new_impl  --  format_ident ! ( '{trait_attr}' ) *)
  ("utils.rs|new_impl|format_ident|c30a580d", Unreachable r_ident_const);
  (* utils.rs:393 new_impl  --  panic ! ( 'cannot derive({trait_name}) for union' ) *)
  ("utils.rs|new_impl|panic|08bcfafe", Diagnostic);
  (* utils.rs:437 new_impl  --  info . enabled . unwrap ( ) *)
  ("utils.rs|new_impl|unwrap|4d34df49", Discharged "C18_default_enabled_unwrap_safe");
  (* utils.rs:514 from_variant  --  format_ident ! ( '{trait_name}' ) *)
  ("utils.rs|from_variant|format_ident|67cd3068", Unreachable r_ident_const);
  (* utils.rs:515 from_variant  --  format_ident ! ( '{trait_attr}' ) *)
  ("utils.rs|from_variant|format_ident|c30a580d", Unreachable r_ident_const);
  (* utils.rs:573 assert_single_enabled_field  --  data . fields [ 0 ] *)
  ("utils.rs|assert_single_enabled_field|index|ac9dfb7c", Discharged "C18_assert_single_enabled_field_safe");
  (* utils.rs:574 assert_single_enabled_field  --  data . field_types [ 0 ] *)
  ("utils.rs|assert_single_enabled_field|index|4113d75f", Discharged "C18_assert_single_enabled_field_safe");
  (* utils.rs:575 assert_single_enabled_field  --  data . members [ 0 ] *)
  ("utils.rs|assert_single_enabled_field|index|5323be45", Discharged "C18_assert_single_enabled_field_safe");
  (* utils.rs:576 assert_single_enabled_field  --  data . infos [ 0 ] *)
  ("utils.rs|assert_single_enabled_field|index|eb4f79c9", Discharged "C18_assert_single_enabled_field_safe");
  (* utils.rs:579 assert_single_enabled_field  --  data . casted_traits [ 0 ] *)
  ("utils.rs|assert_single_enabled_field|index|7bb2f4d4", Discharged "C18_assert_single_enabled_field_safe");
  (* utils.rs:589 enabled_fields_data  --  panic ! ( 'cannot derive({}) for enum' , self . trait_name ) *)
  ("utils.rs|enabled_fields_data|panic|7212af20", Diagnostic);
  (* utils.rs:646 enabled_variant_data  --  panic ! ( 'can only derive({}) for enum' , self . trait_name ) *)
  ("utils.rs|enabled_variant_data|panic|bdd8d714", Diagnostic);
  (* utils.rs:690 field_idents  --  f . ident . as_ref ( ) . expect ( 'Tried to get field names of a tuple struct' ) *)
  ("utils.rs|field_idents|expect|14058216#1", Unreachable "only called with the fields of syn::FieldsNamed (add_like.rs:74,117, constructor.rs:48; State::field_idents under derive_type == Named)");
  (* utils.rs:795 matcher  --  bindings [ found_index ] *)
  ("utils.rs|matcher|index|691b4a5c", Discharged "C18_matcher_index_safe");
  (* utils.rs:918 parse_punctuated_nested_meta  --  path . get_ident ( ) . unwrap ( ) *)
  ("utils.rs|parse_punctuated_nested_meta|unwrap|3c8cd8ef", Discharged "C18_meta_parser_safe");
  (* utils.rs:1015 parse_punctuated_nested_meta  --  path . get_ident ( ) . unwrap ( ) *)
  ("utils.rs|parse_punctuated_nested_meta|unwrap|3c8cd8ef#1", Discharged "C18_meta_parser_safe");
  (* utils.rs:1770 ty  --  syn :: Ident :: new ( 'isize' , Span :: call_site ( ) ) *)
  ("utils.rs|ty|ident_new|01f29f71", Unreachable "constant, valid identifier / lifetime");
  (* utils.rs:1776 parse  --  unreachable ! ( 'call `attr::ParseMultiple::parse_attr_with()` instead' ) *)
  ("utils.rs|parse|unreachable|edc57a53", Unreachable r_parse_never_called);
  (* utils.rs:2219 validate_type  --  self . len ( ) - elems . len ( ) *)
  ("utils.rs|validate_type|arith|d8441f41", Discharged "C18_validate_type_arith_safe");
  (* utils.rs:2220 validate_type  --  self . len ( ) - elems . len ( ) *)
  ("utils.rs|validate_type|arith|d8441f41#1", Discharged "C18_validate_type_arith_safe");
  (* utils.rs:2229 validate_type  --  self . len ( ) - elems . len ( ) *)
  ("utils.rs|validate_type|arith|d8441f41#2", Discharged "C18_validate_type_arith_safe");
  (* utils.rs:2245 validate_type  --  elems . len ( ) - self . len ( ) *)
  ("utils.rs|validate_type|arith|dc61159e", Discharged "C18_validate_type_arith_safe");
  (* utils.rs:2246 validate_type  --  elems . len ( ) - self . len ( ) *)
  ("utils.rs|validate_type|arith|dc61159e#1", Discharged "C18_validate_type_arith_safe");
  (* utils.rs:2269 validate_type  --  self . len ( ) - 1 *)
  ("utils.rs|validate_type|arith|980c0cb9", Discharged "C18_validate_type_arith_safe");
  (* utils.rs:809 initializer  --  self . multi_field_data . initializer ( initializers ) *)
  ("utils.rs|initializer|recursion|d6a24ec2", Unreachable r_not_self_call);
  (* utils.rs:895 parse_punctuated_nested_meta  --  parse_punctuated_nested_meta ( info , & list . parse_args_with ( Punctuated :: parse_termi *)
  ("utils.rs|parse_punctuated_nested_meta|recursion|038f77df", Discharged "C18_meta_parser_safe");
  (* utils.rs:994 parse_punctuated_nested_meta  --  parse_punctuated_nested_meta ( info , & list . parse_args_with ( Punctuated :: parse_termi *)
  ("utils.rs|parse_punctuated_nested_meta|recursion|aa459170", Discharged "C18_meta_parser_safe");
  (* utils.rs:1086 is_ident  --  p . is_ident ( ident ) *)
  ("utils.rs|is_ident|recursion|d6cebafe", Unreachable r_not_self_call);
  (* utils.rs:1093 get_ident  --  p . get_ident ( ) *)
  ("utils.rs|get_ident|recursion|00516eaf", Unreachable r_not_self_call);
  (* utils.rs:1265-1356 is_type_parameter_used_in_type (as of /repo ad7ada5): every self-call -- also the ones
     inside the local closure used_in_path -- is on a strict sub-term of the syn::Type argument (qself, generic /
     parenthesized path arguments, AssocType bindings, elem of Reference/Array/Slice/Group/Paren/Ptr, tuple
     elements, fn inputs/output, path arguments of a trait-object bound), so it terminates by structural descent
     with call depth <= nesting depth of the type: C18_recursion_depth_le_nesting (Part C.4).  The relation between
     depth and stack bytes is not modelled; the deep-nesting probes (200-2000 levels, through derive(Error) with a
     type parameter innermost) remain the check of that part. *)
  ("utils.rs|is_type_parameter_used_in_type|recursion|afd4741b", Discharged "C18_recursion_depth_le_nesting");
  ("utils.rs|is_type_parameter_used_in_type|recursion|e0bc3a96#1", Discharged "C18_recursion_depth_le_nesting");
  ("utils.rs|is_type_parameter_used_in_type|recursion|e0bc3a96#2", Discharged "C18_recursion_depth_le_nesting");
  ("utils.rs|is_type_parameter_used_in_type|recursion|e0bc3a96#3", Discharged "C18_recursion_depth_le_nesting");
  ("utils.rs|is_type_parameter_used_in_type|recursion|e0bc3a96#4", Discharged "C18_recursion_depth_le_nesting");
  ("utils.rs|is_type_parameter_used_in_type|recursion|8e167e74", Discharged "C18_recursion_depth_le_nesting");
  ("utils.rs|is_type_parameter_used_in_type|recursion|6ef8c11d", Discharged "C18_recursion_depth_le_nesting");
  (* utils.rs:1272 is_type_parameter_used_in_type  --  is_type_parameter_used_in_type ( type_parameters , & qself . ty ) *)
  ("utils.rs|is_type_parameter_used_in_type|recursion|b615f074", Discharged "C18_recursion_depth_le_nesting");
  (* utils.rs:1289 is_type_parameter_used_in_type  --  is_type_parameter_used_in_type ( type_parameters , ty ) *)
  ("utils.rs|is_type_parameter_used_in_type|recursion|e0bc3a96", Discharged "C18_recursion_depth_le_nesting");
  (* utils.rs:1303 is_type_parameter_used_in_type  --  is_type_parameter_used_in_type ( type_parameters , & ty . elem ) *)
  ("utils.rs|is_type_parameter_used_in_type|recursion|027519a3", Discharged "C18_recursion_depth_le_nesting");
  (* utils.rs:1619 parse_attr_with  --  L :: parse_attr_with ( attr , parser ) *)
  ("utils.rs|parse_attr_with|recursion|a49ff46d", Unreachable r_not_self_call);
  (* utils.rs:1621 parse_attr_with  --  R :: parse_attr_with ( attr , parser ) *)
  ("utils.rs|parse_attr_with|recursion|6dc9d3f1", Unreachable r_not_self_call);
  (* utils.rs:1631 merge_attrs  --  L :: merge_attrs ( Spanning :: new ( p , prev . span ) , Spanning :: new ( n , new . span  *)
  ("utils.rs|merge_attrs|recursion|bcfb319f", Unreachable r_not_self_call);
  (* utils.rs:1635 merge_attrs  --  R :: merge_attrs ( Spanning :: new ( p , prev . span ) , Spanning :: new ( n , new . span  *)
  ("utils.rs|merge_attrs|recursion|23a0602e", Unreachable r_not_self_call);
  (* utils.rs:1986 parse_attr_with  --  Untyped :: parse_attr_with ( attr , parser ) *)
  ("utils.rs|parse_attr_with|recursion|537b11bb", Unreachable r_not_self_call);
  (* utils.rs:1994 merge_attrs  --  Untyped :: merge_attrs ( prev . map ( Into :: into ) , new . map ( Into :: into ) , name ) *)
  ("utils.rs|merge_attrs|recursion|72c1dce2", Unreachable r_not_self_call);
  (* utils.rs:2086 parse_attr_with  --  Untyped :: parse_attr_with ( attr , parser ) *)
  ("utils.rs|parse_attr_with|recursion|537b11bb#1", Unreachable r_not_self_call);
  (* utils.rs:2094 merge_attrs  --  Untyped :: merge_attrs ( prev . map ( Into :: into ) , new . map ( Into :: into ) , name ) *)
  ("utils.rs|merge_attrs|recursion|72c1dce2#1", Unreachable r_not_self_call);
  (* utils.rs:2154 merge_attrs  --  attr :: Types :: merge_attrs ( Spanning :: new ( p , prev . span ) , Spanning :: new ( n , *)
  ("utils.rs|merge_attrs|recursion|10db832a", Unreachable r_not_self_call);
  (* utils.rs:2189 len  --  self . len ( ) *)
  ("utils.rs|len|recursion|85f74167", Unreachable r_not_self_call);
  (* utils.rs:2195 len  --  self . len ( ) *)
  ("utils.rs|len|recursion|85f74167#1", Unreachable r_not_self_call);
  (* utils.rs:2336 visit_type_path  --  syn :: visit :: visit_type_path ( self , tp ) *)
  ("utils.rs|visit_type_path|recursion|6a21a80d", Discharged "C18_recursion_depth_le_nesting");
  (* utils.rs:2342 visit_lifetime  --  syn :: visit :: visit_lifetime ( self , lf ) *)
  ("utils.rs|visit_lifetime|recursion|15ab7ea5", Discharged "C18_recursion_depth_le_nesting");
  (* utils.rs:2351 visit_expr_path  --  syn :: visit :: visit_expr_path ( self , ep ) *)
  ("utils.rs|visit_expr_path|recursion|e12480a8", Discharged "C18_recursion_depth_le_nesting")
].

Fixpoint lookup (k : string) (l : list (string * cls)) : option cls :=
  match l with
  | [] => None
  | (k', c) :: r => if String.eqb k k' then Some c else lookup k r
  end.

Definition class_of (s : site) : option cls := lookup (s_key s) classification.

Definition is_panic_macro (k : site_kind) : bool :=
  match k with KUnreachable | KUnimplemented | KTodo | KPanic | KAssert => true | _ => false end.

(** a site is accounted for when it has an entry, the entry names its lemma / reason, and
    [Diagnostic] is only used for a panicking macro *)
Definition accounted (s : site) : bool :=
  match class_of s with
  | None => false
  | Some (Discharged l) | Some (Refuted l) => negb (String.eqb l "")
  | Some (Unreachable r) => negb (String.eqb r "")
  | Some Diagnostic => is_panic_macro (s_kind s)
  | Some ProbeOnly => true
  end.

Definition class_tag (s : site) : string * string :=
  match class_of s with
  | None => ("Unaccounted", "")
  | Some (Discharged l) => ("Discharged", l)
  | Some (Refuted l) => ("Refuted", l)
  | Some Diagnostic => ("Diagnostic", "")
  | Some (Unreachable r) => ("Unreachable", r)
  | Some ProbeOnly => ("ProbeOnly", "")
  end.

(** what the check script reads back (vm_compute): key, file, fn, line, class, lemma/reason *)
Definition site_report : list (string * string * string * nat * (string * string)) :=
  map (fun s => (s_key s, s_file s, s_fn s, s_line s, class_tag s)) site_list.

Definition unaccounted_sites : list string :=
  map s_key (filter (fun s => negb (accounted s)) site_list).

(** entries of the table that no longer name a site of the source (stale after a code change) *)
Definition stale_entries : list string :=
  filter (fun k => negb (existsb (fun s => String.eqb (s_key s) k) site_list)) (map fst classification).

(* ========================================================================================== *)
(** * Part C (growth round): models tied to expressions / guards extracted from the source,
      the legacy attribute-meta parser, the legacy-syntax detectors, and recursion depth *)

(** ** C.1 Arithmetic expressions as extracted by the translator (Gen.arith_table, Gen.fn_guards)

    The operands are not written here by hand: [site_exp key] is the expression tree of the k-th
    arithmetic site of a function, re-extracted from impl/src on every run.  A variable the model does
    not provide, an unknown operator or a missing site evaluates to [OUnreachable], so a change of an
    operand or of a guard shows up in the theorems below. *)
Local Open Scope nat_scope.
Local Open Scope list_scope.

Definition env := list (string * nat).

Fixpoint env_get (x : string) (e : env) : nat :=
  match e with
  | [] => 0
  | (y, v) :: r => if String.eqb x y then v else env_get x r
  end.

Definition env_has (x : string) (e : env) : bool := existsb (fun p => String.eqb x (fst p)) e.

Fixpoint lookup_exp (k : string) (l : list (string * aexp)) : aexp :=
  match l with
  | [] => AUnknown
  | (k', a) :: r => if String.eqb k k' then a else lookup_exp k r
  end.
Definition site_exp (k : string) : aexp := lookup_exp k arith_table.

(* an addition must stay below [lim] (usize::MAX / i32::MAX in the code; the theorems prove bounds in terms
   of the size of the input) *)
Inductive aop_res := AR (v : nat) (ops : list op).

Definition len_var (x : string) : string := String.append x ".len".

Fixpoint aeval (e : env) (a : aexp) : nat :=
  match a with
  | AVar x => env_get x e
  | ALen x => env_get (len_var x) e
  | AConst n => n
  | ABin o l r =>
      match o with
      | APlus => aeval e l + aeval e r
      | AMinus => aeval e l - aeval e r
      | ARem => aeval e l mod aeval e r
      | ADiv => aeval e l / aeval e r
      | AMul | AShl | AShr => 0
      end
  | AAssign _ _ _ | ANeg _ | AUnknown => 0
  end.

(* one more partial operation: an addition that must not exceed a limit *)
Definition add_ok (a b lim : nat) : op := OSub lim (a + b).      (* ok iff a + b <= lim *)

Fixpoint aops (lim : nat) (e : env) (a : aexp) : list op :=
  match a with
  | AVar x => if env_has x e then [] else [OUnreachable]
  | ALen x => if env_has (len_var x) e then [] else [OUnreachable]
  | AConst _ => []
  | ABin o l r =>
      aops lim e l ++ aops lim e r ++
      match o with
      | APlus => [add_ok (aeval e l) (aeval e r) lim]
      | AMinus => [OSub (aeval e l) (aeval e r)]
      | ARem | ADiv => [ORem (aeval e l) (aeval e r)]
      | AMul | AShl | AShr => [OUnreachable]              (* not used by the code today: unmodelled *)
      end
  | AAssign _ _ _ | ANeg _ | AUnknown => [OUnreachable]
  end.

(* statements `x op= e` *)
Definition aexec (lim : nat) (e : env) (a : aexp) : env * list op :=
  match a with
  | AAssign o x r =>
      let rhs := ABin o (AVar x) r in
      ((x, aeval e rhs) :: e, aops lim e rhs)
  | _ => (e, [OUnreachable])
  end.

(** error.rs infer_source_field: `let source = (backtrace + 1) % 2;` under `if fields.len() != 2 { return None }` *)
Definition isf_exp : aexp := site_exp "error.rs|infer_source_field|arith#1".
Definition isf_guard : bool := has_guard "error.rs|infer_source_field" "fields . len ( ) != 2".

Definition infer_source_arith (nfields b : nat) : option (nat * list op) :=
  if isf_guard && negb (nfields =? 2) then None                     (* return None *)
  else Some (aeval [("backtrace", b)] isf_exp, aops nfields [("backtrace", b)] isf_exp).

(** fmt/mod.rs Placeholder::parse_fmt_string: the counter `n` over the formats of the literal;
    a format is (precision is `.*`, has an explicit argument) *)
Definition pfs_star : aexp := site_exp "fmt/mod.rs|parse_fmt_string|arith#0".   (* n += 1 *)
Definition pfs_next : aexp := site_exp "fmt/mod.rs|parse_fmt_string|arith#1".   (* n += 1 *)
Definition pfs_pos : aexp := site_exp "fmt/mod.rs|parse_fmt_string|arith#2".    (* n - 1 *)

Fixpoint parse_fmt_counter (lim n : nat) (fs : list (bool * bool)) : list op :=
  match fs with
  | [] => []
  | (star, has_arg) :: r =>
      let s1 := if star then aexec lim [("n", n)] pfs_star else ([("n", n)], []) in
      let s2 := if has_arg then (fst s1, [])
                else let s := aexec lim (fst s1) pfs_next in (fst s, snd s ++ aops lim (fst s) pfs_pos) in
      snd s1 ++ snd s2 ++ parse_fmt_counter lim (env_get "n" (fst s2)) r
  end.

(** parsing.rs balanced_pair (as of /repo 026115d): `while count != 0`, steps close / open / arrow / other *)
Inductive bp_step2 := B2Close | B2Open | B2Arrow | B2Other.
Definition bp_dec : aexp := site_exp "parsing.rs|balanced_pair|arith#0".     (* count -= 1 *)
Definition bp_inc : aexp := site_exp "parsing.rs|balanced_pair|arith#1".     (* count += 1 *)
Definition bp_guard : bool := has_guard "parsing.rs|balanced_pair" "count != 0".

Fixpoint balanced_pair_x (lim count : nat) (steps : list bp_step2) : list op :=
  match steps with
  | [] => []
  | s :: r =>
      if bp_guard && (count =? 0) then []
      else match s with
           | B2Close => let st := aexec lim [("count", count)] bp_dec in
                        snd st ++ balanced_pair_x lim (env_get "count" (fst st)) r
           | B2Open => let st := aexec lim [("count", count)] bp_inc in
                       snd st ++ balanced_pair_x lim (env_get "count" (fst st)) r
           | B2Arrow | B2Other => balanced_pair_x lim count r
           end
  end.

(** try_from.rs Expansion::to_tokens: `inc` over the variants (true = the variant has an explicit discriminant,
    which resets inc to 0), and from.rs Expansion::expand (forward arm): `i` over the fields *)
Definition tf_inc : aexp := site_exp "try_from.rs|to_tokens|arith#0".       (* inc += 1 *)
Fixpoint try_from_counter (lim inc : nat) (vs : list bool) : list op :=
  match vs with
  | [] => []
  | d :: r => let inc0 := if d then 0 else inc in
              let st := aexec lim [("inc", inc0)] tf_inc in
              snd st ++ try_from_counter lim (env_get "inc" (fst st)) r
  end.

Definition ff_inc : aexp := site_exp "from.rs|expand|arith#0".              (* i += 1 *)
Fixpoint from_forward_counter (lim i n : nat) : list op :=
  match n with
  | 0 => []
  | S n' => let st := aexec lim [("i", i)] ff_inc in
            snd st ++ from_forward_counter lim (env_get "i" (fst st)) n'
  end.

(* ------------------------------------------------------------------------------------------ *)
(** ** C.2 utils.rs:813-1042 get_meta_info / parse_punctuated_nested_meta (the attribute parser of
    every derive built on [State])

    A meta is a path or `path(tokens)`.  [id] is [Some name] when the path is a single identifier.
    For a list, the same tokens are parsed either as nested metas ([inner], valid only when
    [inner_ok]) or, in the `types` arms, as a list of types ([tys]: [None] = does not parse; an element
    is [false] when it makes the arm return an Err). *)
Inductive pmeta :=
| PMPath (id : option string)
| PMList (id : option string) (inner_ok : bool) (inner : list pmeta) (tys : option (list bool)).

Definition id_is (id : option string) (s : string) : bool :=
  match id with Some x => String.eqb x s | None => false end.
Definition id_allowed (allowed : list string) (id : option string) : bool := existsb (id_is id) allowed.
Definition opt_is (w : option string) (s : string) : bool := id_is w s.
Definition ref_names : list string := ["owned"; "ref"; "ref_mut"]%string.
Definition is_ref_name (s : string) : bool := existsb (String.eqb s) ref_names.

(* result: (Ok?, operations, depth of nested invocations below this one) *)
Definition pres := (bool * list op * nat)%type.
Definition p_ok (r : pres) : bool := fst (fst r).
Definition p_ops_of (r : pres) : list op := snd (fst r).
Definition p_depth (r : pres) : nat := snd r.

(* utils.rs:957-979: one `from_attr_name(n)` per listed type when there is a wrapper *)
Fixpoint types_arm (wrapper : option string) (tys : list bool) : bool * list op :=
  match tys with
  | [] => (true, [])
  | false :: _ => (false, [])
  | true :: r =>
      let o := match wrapper with Some n => [OUnwrap (is_ref_name n)] | None => [] end in   (* :108 panic! *)
      let rr := types_arm wrapper r in (fst rr, o ++ snd rr)
  end.

Fixpoint ppnm_meta (allowed : list string) (wrapper : option string) (m : pmeta) {struct m} : pres :=
  let run := fun (w' : option string) (ms : list pmeta) =>
    (fix go (l : list pmeta) : pres :=
       match l with
       | [] => (true, [], 0)
       | x :: r =>
           let rx := ppnm_meta allowed w' x in
           if p_ok rx then let rr := go r in (p_ok rr, p_ops_of rx ++ p_ops_of rr, Nat.max (p_depth rx) (p_depth rr))
           else (false, p_ops_of rx, p_depth rx)
       end) ms in
  match m with
  | PMList id inner_ok inner tys =>
      if id_is id "not" then                                             (* :887-901 *)
        match wrapper with
        | Some _ => (false, [], 0)
        | None => if inner_ok then let r := run (Some "not"%string) inner in (p_ok r, p_ops_of r, S (p_depth r))
                  else (false, [], 0)
        end
      else if negb (id_allowed allowed id) then (false, [], 0)            (* :905-914 *)
      else
        let unwrap := [OUnwrap (match id with Some _ => true | None => false end)] in   (* :918 get_ident().unwrap() *)
        match id with
        | None => (false, unwrap, 0)                                     (* the real code has panicked *)
        | Some name =>
            if (match wrapper with None => true | Some _ => false end) && is_ref_name name then   (* :920-922 *)
              if inner_ok then let r := run (Some name) inner in (p_ok r, unwrap ++ p_ops_of r, S (p_depth r))
              else (false, unwrap, 0)
            else if String.eqb name "types" &&
                    (match wrapper with None => true | Some w => is_ref_name w end) then          (* :925-980 *)
              match tys with
              | None => (false, unwrap, 0)
              | Some l => let r := types_arm wrapper l in (fst r, unwrap ++ snd r, 0)
              end
            else (false, unwrap, 0)                                      (* :982-990 *)
        end
  | PMPath id =>
      if negb (id_allowed allowed id) then (false, [], 0)                 (* :1004-1013 *)
      else
        let unwrap := [OUnwrap (match id with Some _ => true | None => false end)] in   (* :1015 *)
        match id, wrapper with
        | Some name, None =>
            (existsb (String.eqb name) ["ignore"; "forward"; "owned"; "ref"; "ref_mut"; "source"; "backtrace"]%string,
             unwrap, 0)
        | Some name, Some w =>
            (String.eqb w "not" && existsb (String.eqb name) ["forward"; "source"; "backtrace"]%string, unwrap, 0)
        | None, _ => (false, unwrap, 0)
        end
  end.

Fixpoint ppnm_list (allowed : list string) (wrapper : option string) (ms : list pmeta) : pres :=
  match ms with
  | [] => (true, [], 0)
  | x :: r =>
      let rx := ppnm_meta allowed wrapper x in
      if p_ok rx then let rr := ppnm_list allowed wrapper r in
                      (p_ok rr, p_ops_of rx ++ p_ops_of rr, Nat.max (p_depth rx) (p_depth rr))
      else (false, p_ops_of rx, p_depth rx)
  end.

(* utils.rs:813-877 get_meta_info over the attributes whose first path segment is the derive's attribute name *)
Inductive attr_shape := ASPath | ASList (parses : bool) (metas : list pmeta) | ASNameValue.

Definition get_meta_info (allowed : list string) (attrs : list attr_shape) : pres :=
  match attrs with
  | [] => (true, [], 0)
  | a :: rest =>
      if match allowed with [] => true | _ => false end then (false, [], 0)
      else match rest with
           | _ :: _ => (false, [], 0)                                     (* only a single attribute *)
           | [] =>
               match a with
               | ASPath => (existsb (String.eqb "ignore") allowed, [], 0)
               | ASNameValue => (false, [], 0)
               | ASList parses metas =>
                   if parses then let r := ppnm_list allowed None metas in (p_ok r, p_ops_of r, S (p_depth r))
                   else (false, [], 0)
               end
           end
  end.

(* ------------------------------------------------------------------------------------------ *)
(** ** C.3 into.rs:476-626 check_legacy_syntax: the fold over the top-level metas *)
Inductive lname := NOwned | NRef | NRefMut | NTypes | NOtherName.

(* what `list.parse_args_with(..).ok()?.pop()?.into_value()` of an `owned(..)` list looks like *)
Inductive linner := IParseFail | IEmpty | ILastNotList | ILastList (is_types : bool) (tl : option (list bool)).

Inductive lmeta :=
| LMPath (n : lname)
| LMList (n : lname) (tl : option (list bool)) (inner : linner).
(* [tl]: the list parsed as the arguments of `types(..)`: None = does not parse, an element is true when it is a
   string literal or a path (pushed), false otherwise (`_ => return None`) *)

(* :519-536 parse_list: Some n = n strings pushed *)
Definition parse_list (is_types : bool) (tl : option (list bool)) : option nat :=
  if negb is_types then None
  else match tl with
       | None => None
       | Some l => if forallb (fun b => b) l then Some (length l) else None
       end.

Definition push_n (o : option nat) (n : nat) : option nat :=
  match n with 0 => o | _ => Some (match o with Some k => k + n | None => n end) end.   (* get_or_insert_with(Vec::new).push *)
Definition touch (o : option nat) : option nat := match o with Some k => Some k | None => Some 0 end.

(* :548-566 parse_inner *)
Definition parse_inner (m : lmeta) (attrs : option nat) : option (option nat) :=
  match m with
  | LMPath _ => Some (touch attrs)
  | LMList _ _ inner =>
      match inner with
      | ILastList is_types tl => match parse_list is_types tl with Some n => Some (push_n attrs n) | None => None end
      | _ => None
      end
  end.

Definition lstate := (option nat * option nat * option nat * option nat)%type.     (* top_level, owned, ref, ref_mut *)

Definition meta_name (m : lmeta) : lname := match m with LMPath n | LMList n _ _ => n end.

(* :568-576 the closure of the try_fold *)
Definition legacy_step (st : lstate) (m : lmeta) : option lstate :=
  let '(top, owned, ref_, ref_mut) := st in
  match meta_name m with
  | NOwned => match parse_inner m owned with Some o => Some (top, o, ref_, ref_mut) | None => None end
  | NRef => match parse_inner m ref_ with Some o => Some (top, owned, o, ref_mut) | None => None end
  | NRefMut => match parse_inner m ref_mut with Some o => Some (top, owned, ref_, o) | None => None end
  | n =>
      match m with
      | LMList _ tl _ => match parse_list (match n with NTypes => true | _ => false end) tl with
                         | Some k => Some (push_n top k, owned, ref_, ref_mut)
                         | None => None
                         end
      | LMPath _ => None
      end
  end.

Fixpoint legacy_fold (st : lstate) (ms : list lmeta) : option lstate :=
  match ms with
  | [] => Some st
  | m :: r => match legacy_step st m with Some st' => legacy_fold st' r | None => None end
  end.

(* the whole function: [metas = None] when the tokens do not parse as metas (`return Ok(())`);
   result: (a legacy-syntax error is raised?, operations) *)
Definition check_legacy_syntax (nfields : nat) (metas : option (list lmeta)) : bool * list op :=
  let field_ops := len1_next nfields in                                          (* :493-500 *)
  match metas with
  | None => (false, field_ops)
  | Some ms =>
      match legacy_fold (None, None, None, None) ms with
      | None => (false, field_ops)
      | Some (top, owned, ref_, ref_mut) =>
          if negb (existsb nonempty [top; owned; ref_; ref_mut]) then (false, field_ops)
          else (true, field_ops ++ into_legacy top owned ref_ ref_mut)
      end
  end.

(* ------------------------------------------------------------------------------------------ *)
(** ** C.4 Recursion depth of the type walkers (fmt/mod.rs contains_generics, utils.rs
    is_type_parameter_used_in_type, the syn visitors of generics_search): a type is a tree; a call on a node
    recurses into some of its children ([sel parent i] = the i-th child is visited: short-circuiting `any`,
    ignored arms) *)
Inductive ty := TNode (children : list ty).

Fixpoint ty_depth (t : ty) : nat :=
  match t with
  | TNode cs => S ((fix go (l : list ty) : nat := match l with [] => 0 | c :: r => Nat.max (ty_depth c) (go r) end) cs)
  end.

Section Walk.
  Variable sel : ty -> nat -> bool.
  Fixpoint call_depth (t : ty) : nat :=
    match t with
    | TNode cs =>
        S ((fix go (i : nat) (l : list ty) : nat :=
              match l with
              | [] => 0
              | c :: r => Nat.max (if sel t i then call_depth c else 0) (go (S i) r)
              end) 0 cs)
    end.
End Walk.

(* ------------------------------------------------------------------------------------------ *)
(** ** C.5 fmt/mod.rs:187 `format_ident!("{name}")` in FmtAttribute::transparent_call: the name comes from
    fmt/parsing.rs `identifier`; `Ident::new` panics unless the name is `(XID_Start | '_') XID_Continue*`.
    The predicates `identifier` uses are looked up in the source (Gen.identifier_predicates): when they are not the
    XID ones, the parser is modelled as accepting any characters. *)
Definition ident_preds_are_xid : bool :=
  match identifier_predicates with
  | [a; b; c; d] =>
      String.eqb a "check_char XID :: is_xid_start" && String.eqb b "check_char XID :: is_xid_continue" &&
      String.eqb c "char '_'" && String.eqb d "check_char XID :: is_xid_continue"
  | _ => false
  end.

Section IdentName.
  (* the Unicode tables (unicode-xid for the parser, unicode-ident for proc_macro2; their agreement on every scalar
     value is measured on every run: assumption A-IDENT) and the code point of '_' *)
  Variable xid_start xid_continue : nat -> bool.
  Variable underscore : nat.

  (* fmt/parsing.rs:521-532 identifier on a whole name:  XID_Start XID_Continue*  |  '_' XID_Continue+ *)
  Definition parser_accepts_name (name : list nat) : bool :=
    if ident_preds_are_xid then
      match name with
      | [] => false
      | c :: r => (xid_start c && forallb xid_continue r) ||
                  ((c =? underscore) && match r with [] => false | _ => forallb xid_continue r end)
      end
    else match name with [] => false | _ => true end.       (* unknown predicates: anything non-empty *)

  (* proc_macro2 fallback.rs ident_ok (what Ident::new checks) *)
  Definition ident_new_ok (name : list nat) : bool :=
    match name with
    | [] => false
    | c :: r => (xid_start c || (c =? underscore)) && forallb xid_continue r
    end.

  Definition transparent_ident_ops (name : list nat) : list op :=
    if parser_accepts_name name then [OUnwrap (ident_new_ok name)] else [].
End IdentName.
