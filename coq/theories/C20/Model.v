(** C20 - every feature works on its own, with and without `std`: the logical skeleton.

    cfg guards are propositional formulas over feature variables; "whatever is USED under a feature set is
    DEFINED under it" is, for each (use site, definition) pair extracted from the sources
    (Gen/CfgFacts.v, regenerated on every run by tools/lib/c20_cfg.py), the validity of
    [use_guard -> def_guard] for ALL assignments of the variables (2^25 feature sets and more: the
    non-feature cfgs `ci`, `nightly` are variables as well).

    This file has no proofs. *)
From Coq Require Import List NArith Bool String.
Import ListNotations.
Open Scope N_scope.

(** `#[cfg(..)]` predicates: feature = "x" | any(..) | all(..) | not(..) | (no guard) *)
Inductive formula :=
| FVar (n : N)
| FAny (l : list formula)      (* any() = false *)
| FAll (l : list formula)      (* all() = true *)
| FNot (f : formula)
| FTrue.

Definition valuation := N -> bool.

(** rustc's evaluation of a cfg predicate under a set of enabled features *)
Fixpoint eval (v : valuation) (f : formula) : bool :=
  match f with
  | FVar n => v n
  | FAny l => existsb (eval v) l
  | FAll l => forallb (eval v) l
  | FNot g => negb (eval v g)
  | FTrue => true
  end.

Fixpoint vars (f : formula) : list N :=
  match f with
  | FVar n => [n]
  | FAny l | FAll l => flat_map vars l
  | FNot g => vars g
  | FTrue => []
  end.

Fixpoint dedup (l : list N) : list N :=
  match l with
  | [] => []
  | x :: r => if existsb (N.eqb x) r then dedup r else x :: dedup r
  end.

(** all assignments of a list of variables *)
Fixpoint assignments (vs : list N) : list (list (N * bool)) :=
  match vs with
  | [] => [[]]
  | x :: r => flat_map (fun a => [(x, true) :: a; (x, false) :: a]) (assignments r)
  end.

Fixpoint val_of (a : list (N * bool)) (n : N) : bool :=
  match a with
  | [] => false
  | (m, b) :: r => if N.eqb m n then b else val_of r n
  end.

Definition pair_vars (a b : formula) : list N := dedup (vars a ++ vars b).

(** decision procedure: complete case split on the variables occurring in the two formulas *)
Definition implies_dec (a b : formula) : bool :=
  forallb (fun asg => implb (eval (val_of asg) a) (eval (val_of asg) b)) (assignments (pair_vars a b)).

Definition equiv_dec (a b : formula) : bool := implies_dec a b && implies_dec b a.

(** a feature set under which [a] holds and [b] does not, if there is one *)
Definition find_cex (a b : formula) : option (list (N * bool)) :=
  find (fun asg => eval (val_of asg) a && negb (eval (val_of asg) b)) (assignments (pair_vars a b)).

Definition has_cex (a b : formula) : bool :=
  match find_cex a b with Some _ => true | None => false end.

(* ------------------------------------------------------------------ Cargo feature tables *)

Open Scope string_scope.

Definition feature_table := list (string * list string).

Fixpoint lookup_feature (name : string) (t : feature_table) : option (list string) :=
  match t with
  | [] => None
  | (k, v) :: r => if String.eqb k name then Some v else lookup_feature name r
  end.

Definition mem_str (x : string) (l : list string) : bool := existsb (String.eqb x) l.
Definition subset_str (a b : list string) : bool := forallb (fun x => mem_str x b) a.
Definition same_set_str (a b : list string) : bool := subset_str a b && subset_str b a.

Definition feature_list (name : string) (t : feature_table) : list string :=
  match lookup_feature name t with Some l => l | None => [] end.

(** Cargo.toml:44-100 / impl/Cargo.toml:42-95:
    - every derive feature f of the facade enables exactly `derive_more-impl/f`, and the impl crate has f;
    - `full` of both crates = exactly the derive features (those of the create_derive! table);
    - the facade's default is at most ["std"], `std` enables nothing, the impl crate's default is empty;
    - the verification hook feature is in no `full` / `default` list and no facade feature enables it. *)
Definition feature_map_ok (fac imp : feature_table) (derive_feats : list string) : bool :=
  forallb (fun f =>
             match lookup_feature f fac, lookup_feature f imp with
             | Some [x], Some _ => String.eqb x ("derive_more-impl/" ++ f)
             | _, _ => false
             end) derive_feats
  && same_set_str (feature_list "full" fac) derive_feats
  && same_set_str (feature_list "full" imp) derive_feats
  && subset_str (feature_list "default" fac) ["std"]
  && match lookup_feature "std" fac with Some [] => true | _ => false end
  && match lookup_feature "default" imp with Some [] | None => true | _ => false end
  && negb (mem_str "verif_hooks" (feature_list "full" imp))
  && negb (mem_str "verif_hooks" (feature_list "default" imp))
  && forallb (fun kv => negb (mem_str "derive_more-impl/verif_hooks" (snd kv)) && negb (mem_str "verif_hooks" (snd kv))) fac
  && forallb (fun kv => String.eqb (fst kv) "verif_hooks" || negb (mem_str "verif_hooks" (snd kv))) imp.

(** Cargo's feature implication inside ONE manifest: the entries of a feature that are themselves features of the same
    table (entries `dep:x`, `crate/feature` are not).  [closure] = everything a set of requested features switches on. *)
Definition implied_once (t : feature_table) (fs : list string) : list string :=
  flat_map (fun f => filter (fun g => match lookup_feature g t with Some _ => true | None => false end)
                            (feature_list f t)) fs.

Fixpoint closure_fuel (fuel : nat) (t : feature_table) (fs : list string) : list string :=
  match fuel with
  | O => fs
  | S k =>
      let more := filter (fun g => negb (mem_str g fs)) (implied_once t fs) in
      match more with
      | [] => fs
      | _ => closure_fuel k t (fs ++ more)
      end
  end.

Definition closure (t : feature_table) (fs : list string) : list string := closure_fuel (List.length t) t fs.

(** what a facade feature requests of the impl crate: its `derive_more-impl/<g>` entries, through the facade's own closure *)
Definition impl_prefix : string := "derive_more-impl/".
Definition strip_impl (e : string) : option string :=
  if String.prefix impl_prefix e then Some (String.substring (String.length impl_prefix) (String.length e) e) else None.
Definition facade_requests (fac : feature_table) (f : string) : list string :=
  flat_map (fun g => flat_map (fun e => match strip_impl e with Some x => [x] | None => [] end) (feature_list g fac))
           (closure fac [f]).

(** enabling ONE derive feature of the facade switches on, in the impl crate, exactly that feature (so exactly that
    feature's derives are registered and, through `pub use derive_more_impl::*`, exposed); `full` switches on exactly
    the derive features *)
Definition closure_exact (fac imp : feature_table) (derive_feats : list string) : bool :=
  forallb (fun f => same_set_str (closure imp (facade_requests fac f)) [f]) derive_feats
  && forallb (fun f => same_set_str (closure imp [f]) [f]) derive_feats
  && same_set_str (closure imp (facade_requests fac "full")) derive_feats
  && same_set_str (closure imp (facade_requests fac "std")) []
  && same_set_str (closure imp (facade_requests fac "default")) [].

(* ------------------------------------------------------------------ monotone fragment, exclusivity, exposure *)

(** formulas without `not(..)`: enabling more features never switches such a guard off *)
Fixpoint positive (f : formula) : bool :=
  match f with
  | FVar _ | FTrue => true
  | FAny l | FAll l => forallb positive l
  | FNot _ => false
  end.

(** the feature set with exactly one feature *)
Definition single (x : N) : valuation := fun n => N.eqb x n.

(** the feature set given by a list *)
Definition of_list (xs : list N) : valuation := fun n => existsb (N.eqb n) xs.

(** two guards can never hold together (decided by the complete case split) *)
Definition exclusive_dec (a b : formula) : bool := implies_dec (FAll [a; b]) (FAny []).

Fixpoint pairwise_exclusive (l : list formula) : bool :=
  match l with
  | [] => true
  | a :: r => forallb (exclusive_dec a) r && pairwise_exclusive r
  end.

(** the features (variables) under which a name with export guard [g] is visible, out of a universe [fs]:
    used to state "what is visible under S is the union over the features in S" *)
Definition visible_under (g : formula) (S : list N) : bool := eval (of_list S) g.

(** `cfg!(..)` in an expression makes the BEHAVIOUR of a compiled item depend on the feature set (the item is there under
    every feature set that compiles it, but does something else): none is expected; a reviewed one is listed here by its
    label "<file>: cfg!(<predicate>)". *)
Definition reviewed_cfg_macro_sites : list string := [].
Definition cfg_macros_reviewed (sites : list (string * N)) : bool :=
  forallb (fun s => mem_str (fst s) reviewed_cfg_macro_sites) sites.
