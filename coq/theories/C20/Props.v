(** C20 - every feature works on its own, with and without `std`: the property theorems
    (logical skeleton; the builds themselves are cargo's and rustc's, see tools/props/c20.py). *)
From Coq Require Import List NArith Bool String.
From Verif Require Import C20.Model Gen.CfgFacts C20.Proofs.
Import ListNotations.
Open Scope N_scope.

Theorem C20_implies_dec_sound :
  forall a b : formula, implies_dec a b = true -> forall v : valuation, eval v a = true -> eval v b = true.
Proof. exact Proofs.implies_dec_sound. Qed.
Print Assumptions C20_implies_dec_sound.

Theorem C20_defined_where_used_dec :
  forallb (fun p : formula * formula => implies_dec (fst p) (snd p)) cfg_pairs = true.
Proof. exact Proofs.pairs_dec. Qed.
Print Assumptions C20_defined_where_used_dec.

(** for every feature assignment (all 2^25 and the non-feature cfg variables), every use site that is
    compiled in has its definition compiled in *)
Theorem C20_defined_where_used :
  forall (v : valuation) (p : formula * formula),
    In p cfg_pairs -> eval v (fst p) = true -> eval v (snd p) = true.
Proof. exact Proofs.defined_where_used. Qed.
Print Assumptions C20_defined_where_used.

(** each derive macro is exported (at derive_more::D, derive_more::derive::D, derive_more::with_trait::D)
    exactly when its feature is on *)
Theorem C20_exports_exact :
  forall (v : valuation) (place : string) (g : formula) (feature : N),
    In (place, g, feature) derive_exports -> eval v g = v feature.
Proof. exact Proofs.exports_exact. Qed.
Print Assumptions C20_exports_exact.

(** a helper item that templates name is compiled in only if some feature whose templates name it is on *)
Theorem C20_helpers_only_when_used :
  forall (v : valuation) (item : string) (d u : formula),
    In (item, d, u) helper_exports -> eval v d = true -> eval v u = true.
Proof. exact Proofs.helpers_only_when_used. Qed.
Print Assumptions C20_helpers_only_when_used.

Theorem C20_feature_map_ok :
  feature_map_ok facade_features impl_features derive_feature_names = true.
Proof. exact Proofs.feature_map_holds. Qed.
Print Assumptions C20_feature_map_ok.

(** Cargo feature implications of both manifests: one facade derive feature switches on, in the impl crate, exactly
    that feature (hence exactly its derives are registered and exposed); `full` exactly the derive features;
    `std` / `default` none *)
Theorem C20_feature_closure_exact :
  closure_exact facade_features impl_features derive_feature_names = true.
Proof. exact Proofs.closure_exact_holds. Qed.
Print Assumptions C20_feature_closure_exact.
