(** C20 - every feature works on its own, with and without `std`: the property theorems
    (logical skeleton; the builds themselves are cargo's and rustc's, see tools/props/c20.py). *)
From Coq Require Import List NArith Bool String.
From Verif Require Import C20.Model Gen.CfgFacts C20.Proofs.
Import ListNotations.
Open Scope N_scope.

Theorem C20_implies_dec_sound :
  forall a b : formula, implies_dec a b = true -> forall v : valuation, eval v a = true -> eval v b = true.
Proof. exact Proofs.implies_dec_sound. Qed.
Print Assumptions C20_implies_dec_sound.

Theorem C20_defined_where_used_dec :
  forallb (fun p : formula * formula => implies_dec (fst p) (snd p)) cfg_pairs = true.
Proof. exact Proofs.pairs_dec. Qed.
Print Assumptions C20_defined_where_used_dec.

(** for every feature assignment (all 2^25 and the non-feature cfg variables), every use site that is
    compiled in has its definition compiled in *)
Theorem C20_defined_where_used :
  forall (v : valuation) (p : formula * formula),
    In p cfg_pairs -> eval v (fst p) = true -> eval v (snd p) = true.
Proof. exact Proofs.defined_where_used. Qed.
Print Assumptions C20_defined_where_used.

(** each derive macro is exported (at derive_more::D, derive_more::derive::D, derive_more::with_trait::D)
    exactly when its feature is on *)
Theorem C20_exports_exact :
  forall (v : valuation) (place : string) (g : formula) (feature : N),
    In (place, g, feature) derive_exports -> eval v g = v feature.
Proof. exact Proofs.exports_exact. Qed.
Print Assumptions C20_exports_exact.

(** a helper item that templates name is compiled in only if some feature whose templates name it is on *)
Theorem C20_helpers_only_when_used :
  forall (v : valuation) (item : string) (d u : formula),
    In (item, d, u) helper_exports -> eval v d = true -> eval v u = true.
Proof. exact Proofs.helpers_only_when_used. Qed.
Print Assumptions C20_helpers_only_when_used.

Theorem C20_feature_map_ok :
  feature_map_ok facade_features impl_features derive_feature_names = true.
Proof. exact Proofs.feature_map_holds. Qed.
Print Assumptions C20_feature_map_ok.

(** Cargo feature implications of both manifests: one facade derive feature switches on, in the impl crate, exactly
    that feature (hence exactly its derives are registered and exposed); `full` exactly the derive features;
    `std` / `default` none *)
Theorem C20_feature_closure_exact :
  closure_exact facade_features impl_features derive_feature_names = true.
Proof. exact Proofs.closure_exact_holds. Qed.
Print Assumptions C20_feature_closure_exact.

(** `not`-free guards are monotone in the feature set *)
Theorem C20_positive_monotone :
  forall f : formula, positive f = true ->
  forall v w : valuation, (forall n, v n = true -> w n = true) -> eval v f = true -> eval w f = true.
Proof. exact Proofs.positive_monotone. Qed.
Print Assumptions C20_positive_monotone.

(** lifting from single features to arbitrary feature sets: for a use under `any(x1..xn)` and a `not`-free definition
    guard, the n single-feature builds decide all 2^25 feature sets *)
Theorem C20_singletons_suffice :
  forall (xs : list N) (d : formula), positive d = true ->
  (forall x, In x xs -> eval (single x) d = true) ->
  forall v : valuation, eval v (FAny (map FVar xs)) = true -> eval v d = true.
Proof. exact Proofs.singletons_suffice. Qed.
Print Assumptions C20_singletons_suffice.

(** every re-exported trait is visible (type namespace of derive_more::with_trait) exactly when its feature is on *)
Theorem C20_trait_exports_exact :
  forall (v : valuation) (t : string) (g : formula) (feature : N),
    In (t, g, feature) trait_exports -> eval v g = v feature.
Proof. exact Proofs.trait_exports_exact. Qed.
Print Assumptions C20_trait_exports_exact.

(** every helper item named by templates is compiled in exactly when some template naming it is *)
Theorem C20_helpers_exact :
  forall (v : valuation) (item : string) (d u : formula),
    In (item, d, u) helper_exports -> eval v d = eval v u.
Proof. exact Proofs.helpers_exact. Qed.
Print Assumptions C20_helpers_exact.

(** visibility under a feature set = union over its features (for any name exported exactly under one feature) *)
Theorem C20_visible_union :
  forall (g : formula) (f : N), (forall v, eval v g = v f) ->
  forall S : list N, visible_under g S = existsb (fun x => visible_under g [x]) S.
Proof. exact Proofs.visible_union. Qed.
Print Assumptions C20_visible_union.

(** cfg alternatives (the std / no_std split of the Error re-exports, ...): never two definitions of one name at once *)
Theorem C20_alternatives_exclusive :
  forall (v : valuation) (name : string) (gs : list formula) (a b : formula) (pre mid post : list formula),
    In (name, gs) cfg_alternatives -> gs = (pre ++ a :: mid ++ b :: post)%list ->
    eval v a = true -> eval v b = true -> False.
Proof. exact Proofs.alternatives_exclusive. Qed.
Print Assumptions C20_alternatives_exclusive.

(** the no_std-capable facade names `std::..` only in code compiled under the `std` feature *)
Theorem C20_std_only_under_std :
  forall (v : valuation) (g : formula), In g std_use_guards -> eval v g = true -> v std_var = true.
Proof. exact Proofs.std_only_under_std. Qed.
Print Assumptions C20_std_only_under_std.

(** the documentation file every create_derive! includes under its feature exists *)
Theorem C20_doc_files_present : forallb (fun e : string * bool => snd e) doc_files = true.
Proof. exact Proofs.doc_files_present. Qed.
Print Assumptions C20_doc_files_present.

(** no `cfg!(..)` call in an expression of either crate outside the reviewed list: inside a compiled item the behaviour
    does not depend on the feature set *)
Theorem C20_no_unreviewed_cfg_macro : cfg_macros_reviewed cfg_macro_sites = true.
Proof. exact Proofs.cfg_macros_all_reviewed. Qed.
Print Assumptions C20_no_unreviewed_cfg_macro.
