(** C20 - soundness of the decision procedure and the theorems over the regenerated cfg facts. *)
From Coq Require Import List NArith Bool String Lia.
From Verif Require Import C20.Model Gen.CfgFacts.
Import ListNotations.
Open Scope N_scope.

(* ------------------------------------------------------------------ induction over the nested type *)

Section FormulaInd.
  Variable P : formula -> Prop.
  Hypothesis HVar : forall n, P (FVar n).
  Hypothesis HAny : forall l, Forall P l -> P (FAny l).
  Hypothesis HAll : forall l, Forall P l -> P (FAll l).
  Hypothesis HNot : forall f, P f -> P (FNot f).
  Hypothesis HTrue : P FTrue.

  Fixpoint formula_ind' (f : formula) : P f :=
    match f with
    | FVar n => HVar n
    | FAny l => HAny l ((fix go (l : list formula) : Forall P l :=
                           match l with
                           | [] => Forall_nil P
                           | x :: r => Forall_cons x (formula_ind' x) (go r)
                           end) l)
    | FAll l => HAll l ((fix go (l : list formula) : Forall P l :=
                           match l with
                           | [] => Forall_nil P
                           | x :: r => Forall_cons x (formula_ind' x) (go r)
                           end) l)
    | FNot g => HNot g (formula_ind' g)
    | FTrue => HTrue
    end.
End FormulaInd.

(** [eval] looks only at the variables that occur *)
Lemma eval_ext (v1 v2 : valuation) (f : formula) :
  (forall n, In n (vars f) -> v1 n = v2 n) -> eval v1 f = eval v2 f.
Proof.
  induction f as [n|l IH|l IH|g IH|] using formula_ind'; intros H; cbn [eval vars] in *.
  - apply H. left. reflexivity.
  - induction l as [|x r IHr]; [reflexivity|]. cbn [existsb].
    inversion IH as [|? ? Hx Hr]; subst.
    rewrite (Hx (fun n Hn => H n (in_or_app _ _ _ (or_introl Hn)))).
    rewrite (IHr Hr (fun n Hn => H n (in_or_app _ _ _ (or_intror Hn)))). reflexivity.
  - induction l as [|x r IHr]; [reflexivity|]. cbn [forallb].
    inversion IH as [|? ? Hx Hr]; subst.
    rewrite (Hx (fun n Hn => H n (in_or_app _ _ _ (or_introl Hn)))).
    rewrite (IHr Hr (fun n Hn => H n (in_or_app _ _ _ (or_intror Hn)))). reflexivity.
  - f_equal. apply IH, H.
  - reflexivity.
Qed.

Lemma dedup_in x l : In x l -> In x (dedup l).
Proof.
  induction l as [|y r IH]; intros H; [destruct H|]. cbn [dedup].
  destruct (existsb (N.eqb y) r) eqn:E.
  - destruct H as [->|H]; [|apply IH, H].
    apply existsb_exists in E as (z & Hz & Hyz). apply N.eqb_eq in Hyz. subst z. apply IH, Hz.
  - destruct H as [->|H]; [left; reflexivity|right; apply IH, H].
Qed.

(** the restriction of an arbitrary valuation to a list of variables is one of the enumerated assignments *)
Definition restrict (v : valuation) (vs : list N) : list (N * bool) := map (fun n => (n, v n)) vs.

Lemma restrict_in_assignments v vs : In (restrict v vs) (assignments vs).
Proof.
  induction vs as [|x r IH]; cbn [restrict map assignments]; [left; reflexivity|].
  apply in_flat_map. exists (restrict v r). split; [exact IH|].
  destruct (v x); cbn; auto.
Qed.

Lemma val_of_restrict v vs n : In n vs -> val_of (restrict v vs) n = v n.
Proof.
  induction vs as [|x r IH]; intros H; [destruct H|]. cbn [restrict map val_of].
  destruct (N.eqb_spec x n) as [->|Hne]; [reflexivity|].
  destruct H as [H|H]; [contradiction|]. apply IH, H.
Qed.

Lemma eval_restrict v a b f :
  (forall n, In n (vars f) -> In n (vars a ++ vars b)) ->
  eval (val_of (restrict v (pair_vars a b))) f = eval v f.
Proof.
  intros Hsub. apply eval_ext. intros n Hn. apply val_of_restrict. unfold pair_vars. apply dedup_in, Hsub, Hn.
Qed.

Lemma implies_dec_sound a b :
  implies_dec a b = true -> forall v, eval v a = true -> eval v b = true.
Proof.
  unfold implies_dec. intros H v Ha. rewrite forallb_forall in H.
  specialize (H _ (restrict_in_assignments v (pair_vars a b))).
  rewrite (eval_restrict v a b a (fun n Hn => in_or_app _ _ _ (or_introl Hn))) in H.
  rewrite (eval_restrict v a b b (fun n Hn => in_or_app _ _ _ (or_intror Hn))) in H.
  rewrite Ha in H. exact H.
Qed.

Lemma equiv_dec_sound a b : equiv_dec a b = true -> forall v, eval v a = eval v b.
Proof.
  unfold equiv_dec. intros H v. apply andb_true_iff in H as [H1 H2].
  pose proof (implies_dec_sound _ _ H1 v) as A. pose proof (implies_dec_sound _ _ H2 v) as B.
  destruct (eval v a), (eval v b); try reflexivity.
  - symmetry. apply A. reflexivity.
  - apply B. reflexivity.
Qed.

(** the procedure is complete as well: a failed check comes with a concrete feature set *)
Lemma has_cex_sound a b :
  has_cex a b = true -> exists v : valuation, eval v a = true /\ eval v b = false.
Proof.
  unfold has_cex, find_cex. destruct (find _ _) as [asg|] eqn:E; [|discriminate]. intros _.
  apply find_some in E as [_ E]. apply andb_true_iff in E as [Ea Eb].
  exists (val_of asg). split; [exact Ea|]. now apply negb_true_iff in Eb.
Qed.

Lemma implies_dec_complete a b :
  implies_dec a b = false -> exists v : valuation, eval v a = true /\ eval v b = false.
Proof.
  unfold implies_dec. intros H.
  assert (Hex : existsb (fun asg => negb (implb (eval (val_of asg) a) (eval (val_of asg) b)))
                        (assignments (pair_vars a b)) = true).
  { induction (assignments (pair_vars a b)) as [|x r IH]; [discriminate|]. cbn [forallb existsb] in *.
    destruct (implb (eval (val_of x) a) (eval (val_of x) b)); cbn in *; [apply IH, H|reflexivity]. }
  apply existsb_exists in Hex as (asg & _ & Hasg). exists (val_of asg).
  destruct (eval (val_of asg) a), (eval (val_of asg) b); cbn in Hasg; try discriminate. split; reflexivity.
Qed.

(* ------------------------------------------------------------------ theorems over the regenerated facts *)

Lemma pairs_dec : forallb (fun p : formula * formula => implies_dec (fst p) (snd p)) cfg_pairs = true.
Proof. vm_compute. reflexivity. Qed.

Lemma defined_where_used :
  forall (v : valuation) (p : formula * formula),
    In p cfg_pairs -> eval v (fst p) = true -> eval v (snd p) = true.
Proof.
  intros v p Hin. pose proof pairs_dec as H. rewrite forallb_forall in H.
  apply implies_dec_sound, H, Hin.
Qed.

Lemma exports_dec :
  forallb (fun e : string * formula * N => equiv_dec (snd (fst e)) (FVar (snd e))) derive_exports = true.
Proof. vm_compute. reflexivity. Qed.

Lemma exports_exact :
  forall (v : valuation) (place : string) (g : formula) (feature : N),
    In (place, g, feature) derive_exports -> eval v g = v feature.
Proof.
  intros v place g f Hin. pose proof exports_dec as H. rewrite forallb_forall in H.
  specialize (H _ Hin). cbn [fst snd] in H. exact (equiv_dec_sound _ _ H v).
Qed.

Lemma helpers_dec :
  forallb (fun e : string * formula * formula => implies_dec (snd (fst e)) (snd e)) helper_exports = true.
Proof. vm_compute. reflexivity. Qed.

Lemma helpers_only_when_used :
  forall (v : valuation) (item : string) (d u : formula),
    In (item, d, u) helper_exports -> eval v d = true -> eval v u = true.
Proof.
  intros v item d u Hin. pose proof helpers_dec as H. rewrite forallb_forall in H.
  specialize (H _ Hin). cbn [fst snd] in H. exact (implies_dec_sound _ _ H v).
Qed.

Lemma feature_map_holds : feature_map_ok facade_features impl_features derive_feature_names = true.
Proof. vm_compute. reflexivity. Qed.

Lemma closure_exact_holds : closure_exact facade_features impl_features derive_feature_names = true.
Proof. vm_compute. reflexivity. Qed.

Example closure_sees_implication :
  closure [("a", ["dep:x"; "b"]); ("b", ["c"]); ("c", [])]%string ["a"]%string = ["a"; "b"; "c"]%string.
Proof. reflexivity. Qed.

(* ------------------------------------------------------------------ monotonicity: from single features to all feature sets *)

Definition le_val (v w : valuation) : Prop := forall n, v n = true -> w n = true.

Lemma positive_monotone (f : formula) :
  positive f = true -> forall v w, le_val v w -> eval v f = true -> eval w f = true.
Proof.
  induction f as [n|l IH|l IH|g IH|] using formula_ind'; intros Hp v w Hle He; cbn [eval positive] in *.
  - apply Hle, He.
  - apply existsb_exists in He as (x & Hx & Hex). apply existsb_exists. exists x. split; [exact Hx|].
    rewrite Forall_forall in IH. rewrite forallb_forall in Hp. apply (IH x Hx (Hp x Hx) v w Hle Hex).
  - rewrite forallb_forall in *. intros x Hx. rewrite Forall_forall in IH.
    apply (IH x Hx (Hp x Hx) v w Hle (He x Hx)).
  - discriminate.
  - reflexivity.
Qed.

Lemma single_le (x : N) (v : valuation) : v x = true -> le_val (single x) v.
Proof. intros Hv n Hn. unfold single in Hn. apply N.eqb_eq in Hn. subst n. exact Hv. Qed.

(** a use guarded by `any(feature = x1, .., feature = xn)` whose definition has a `not`-free guard: if the definition
    is compiled in under every SINGLE feature xi alone, it is compiled in under EVERY feature set that compiles the use *)
Lemma singletons_suffice (xs : list N) (d : formula) :
  positive d = true ->
  (forall x, In x xs -> eval (single x) d = true) ->
  forall v, eval v (FAny (map FVar xs)) = true -> eval v d = true.
Proof.
  intros Hp Hs v Hu. cbn [eval] in Hu. apply existsb_exists in Hu as (f & Hf & Hv).
  apply in_map_iff in Hf as (x & <- & Hx). cbn [eval] in Hv.
  apply (positive_monotone d Hp (single x) v (single_le x v Hv)). apply Hs, Hx.
Qed.

Lemma exclusive_dec_sound a b :
  exclusive_dec a b = true -> forall v, eval v a = true -> eval v b = true -> False.
Proof.
  unfold exclusive_dec. intros H v Ha Hb.
  pose proof (implies_dec_sound _ _ H v) as Hi. cbn [eval forallb existsb] in Hi.
  rewrite Ha, Hb in Hi. specialize (Hi eq_refl). discriminate.
Qed.

Lemma pairwise_exclusive_sound l :
  pairwise_exclusive l = true ->
  forall v a b (pre mid post : list formula), l = (pre ++ a :: mid ++ b :: post)%list -> eval v a = true -> eval v b = true -> False.
Proof.
  induction l as [|x r IH]; intros H v a b pre mid post E Ha Hb.
  - destruct pre; discriminate.
  - cbn [pairwise_exclusive] in H. apply andb_true_iff in H as [Hx Hr].
    destruct pre as [|p pre]; cbn in E; inversion E; subst.
    + rewrite forallb_forall in Hx. apply (exclusive_dec_sound a b (Hx b (in_or_app mid (b :: post) b (or_intror (in_eq b post)))) v Ha Hb).
    + apply (IH Hr v a b pre mid post eq_refl Ha Hb).
Qed.

(* ------------------------------------------------------------------ more theorems over the regenerated facts *)

Lemma trait_exports_dec :
  forallb (fun e : string * formula * N => equiv_dec (snd (fst e)) (FVar (snd e))) trait_exports = true.
Proof. vm_compute. reflexivity. Qed.

Lemma trait_exports_exact :
  forall (v : valuation) (t : string) (g : formula) (feature : N),
    In (t, g, feature) trait_exports -> eval v g = v feature.
Proof.
  intros v t g f Hin. pose proof trait_exports_dec as H. rewrite forallb_forall in H.
  specialize (H _ Hin). cbn [fst snd] in H. exact (equiv_dec_sound _ _ H v).
Qed.

Lemma helpers_exact_dec :
  forallb (fun e : string * formula * formula => equiv_dec (snd (fst e)) (snd e)) helper_exports = true.
Proof. vm_compute. reflexivity. Qed.

Lemma helpers_exact :
  forall (v : valuation) (item : string) (d u : formula),
    In (item, d, u) helper_exports -> eval v d = eval v u.
Proof.
  intros v item d u Hin. pose proof helpers_exact_dec as H. rewrite forallb_forall in H.
  specialize (H _ Hin). cbn [fst snd] in H. exact (equiv_dec_sound _ _ H v).
Qed.

Lemma alternatives_dec :
  forallb (fun e : string * list formula => pairwise_exclusive (snd e)) cfg_alternatives = true.
Proof. vm_compute. reflexivity. Qed.

Lemma alternatives_exclusive :
  forall (v : valuation) (name : string) (gs : list formula) (a b : formula) (pre mid post : list formula),
    In (name, gs) cfg_alternatives -> gs = (pre ++ a :: mid ++ b :: post)%list ->
    eval v a = true -> eval v b = true -> False.
Proof.
  intros v name gs a b pre mid post Hin E. pose proof alternatives_dec as H. rewrite forallb_forall in H.
  specialize (H _ Hin). cbn [snd] in H. exact (pairwise_exclusive_sound gs H v a b pre mid post E).
Qed.

Lemma std_uses_dec : forallb (fun g => implies_dec g (FVar std_var)) std_use_guards = true.
Proof. vm_compute. reflexivity. Qed.

Lemma std_only_under_std :
  forall (v : valuation) (g : formula), In g std_use_guards -> eval v g = true -> v std_var = true.
Proof.
  intros v g Hin. pose proof std_uses_dec as H. rewrite forallb_forall in H.
  exact (implies_dec_sound _ _ (H _ Hin) v).
Qed.

Lemma cfg_macros_all_reviewed : cfg_macros_reviewed cfg_macro_sites = true.
Proof. vm_compute. reflexivity. Qed.

Lemma doc_files_present : forallb (fun e : string * bool => snd e) doc_files = true.
Proof. vm_compute. reflexivity. Qed.

(** what is visible under a feature SET is the union of what its single features make visible
    (for a name whose export guard is equivalent to one feature variable) *)
Lemma visible_union (g : formula) (f : N) :
  (forall v, eval v g = v f) -> forall S : list N, visible_under g S = existsb (fun x => visible_under g [x]) S.
Proof.
  intros Hg S. unfold visible_under. rewrite Hg. unfold of_list.
  induction S as [|x r IH]; [reflexivity|]. cbn [existsb]. rewrite IH. f_equal.
  rewrite Hg. cbn [existsb]. rewrite orb_false_r. reflexivity.
Qed.

Example positive_example : positive (FAll [FAny [FVar 0; FVar 1]; FVar 2]) = true. Proof. reflexivity. Qed.
Example not_positive_example : positive (FAll [FVar 0; FNot (FVar 1)]) = false. Proof. reflexivity. Qed.
Example singletons_instance :
  forall v, eval v (FAny (map FVar [0; 1])) = true -> eval v (FAny [FVar 0; FVar 1; FVar 2]) = true.
Proof. apply singletons_suffice; [reflexivity|]. intros x [<-|[<-|[]]]; reflexivity. Qed.
Example exclusive_example : pairwise_exclusive [FAll [FVar 0; FNot (FVar 1)]; FAll [FVar 0; FVar 1]] = true.
Proof. reflexivity. Qed.
Example not_exclusive_example : pairwise_exclusive [FVar 0; FVar 1] = false. Proof. reflexivity. Qed.

(* ------------------------------------------------------------------ the procedure on small instances *)

Example implies_any : implies_dec (FVar 1) (FAny [FVar 0; FVar 1]) = true. Proof. reflexivity. Qed.
Example implies_any_not : implies_dec (FAny [FVar 0; FVar 1]) (FVar 0) = false. Proof. reflexivity. Qed.
Example implies_split_on_std :
  implies_dec (FVar 0) (FAny [FAll [FVar 0; FNot (FVar 1)]; FAll [FVar 0; FVar 1]]) = true.
Proof. reflexivity. Qed.
Example cex_example : find_cex (FAny [FVar 0; FVar 1]) (FVar 0) = Some [(1, true); (0, false)].
Proof. reflexivity. Qed.
Example false_is_any_nil : forall v, eval v (FAny []) = false. Proof. reflexivity. Qed.
