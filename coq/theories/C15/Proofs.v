(* C15 - proofs.  The statements about the generated list `templates` are finite computations (vm_compute)
   lifted to Props with forallb_forall; the scope-independence theorem is about arbitrary templates and scopes. *)
From Coq Require Import List String Ascii Bool Arith NArith.
Require Import Verif.C15.Model Verif.Gen.Templates.
Import ListNotations.
Open Scope string_scope.
Open Scope list_scope.

(* ------------------------------------------------------------------ small lemmas *)

Lemma mem_In : forall x l, mem x l = true <-> In x l.
Proof.
  intros x l. unfold mem. rewrite existsb_exists. split.
  - intros [y [Hin Heq]]. apply String.eqb_eq in Heq. subst y. exact Hin.
  - intros Hin. exists x. split; [exact Hin | apply String.eqb_refl].
Qed.

Lemma mem_false_not_In : forall x l, mem x l = false -> ~ In x l.
Proof.
  intros x l Hm Hin. apply mem_In in Hin. rewrite Hin in Hm. discriminate Hm.
Qed.

(* ------------------------------------------------------------------ closedness of the generated templates *)

Definition offenders_known_b (ts : list template) : bool :=
  forallb (fun o => mem (key o) known_offender_keys) (offenders ts).

Lemma offenders_known_templates : offenders_known_b templates = true.
Proof. vm_compute. reflexivity. Qed.

Lemma closed_modulo_known :
  forall o, In o (offenders templates) -> In (key o) known_offender_keys.
Proof.
  intros o Hin.
  pose proof offenders_known_templates as Hb. unfold offenders_known_b in Hb.
  rewrite forallb_forall in Hb. apply mem_In. apply Hb. exact Hin.
Qed.

(* every head identifier of every template: closed, or one of the known offenders *)
Lemma head_closed_or_offender :
  forall ts t h, In t ts -> In h (head_idents t) ->
    allowed_head (global_binders ts) (binders t) h = true \/
    In (t_file t, t_fn t, show_head h) (offenders ts).
Proof.
  intros ts t h Ht Hh.
  destruct (allowed_head (global_binders ts) (binders t) h) eqn:Ha.
  - left. reflexivity.
  - right. unfold offenders. apply in_flat_map. exists t. split; [exact Ht |].
    unfold offenders_of. apply in_map_iff. exists h. split; [reflexivity |].
    apply filter_In. split; [exact Hh |]. rewrite Ha. reflexivity.
Qed.

Lemma templates_closed_modulo_known :
  forall t h, In t templates -> In h (head_idents t) ->
    allowed_head (global_binders templates) (binders t) h = true \/
    In (key (t_file t, t_fn t, show_head h)) known_offender_keys.
Proof.
  intros t h Ht Hh.
  destruct (head_closed_or_offender templates t h Ht Hh) as [Ha | Ho].
  - left. exact Ha.
  - right. apply closed_modulo_known. exact Ho.
Qed.

(* a template without offenders is closed *)
Lemma no_offenders_closed :
  forall gb t, offenders_of gb t = [] -> closed gb t = true.
Proof.
  intros gb t Hnil. unfold closed. apply forallb_forall. intros h Hh.
  destruct (allowed_head gb (binders t) h) eqn:Ha; [reflexivity |].
  exfalso.
  assert (Hin : In (t_file t, t_fn t, show_head h) (offenders_of gb t)).
  { unfold offenders_of. apply in_map_iff. exists h. split; [reflexivity |].
    apply filter_In. split; [exact Hh |]. rewrite Ha. reflexivity. }
  rewrite Hnil in Hin. exact Hin.
Qed.

(* the count the translator reports is the length of the list the theorems range over *)
Lemma templates_count : List.length templates = n_templates.
Proof. vm_compute. reflexivity. Qed.

(* manufactured identifiers *)
Lemma format_idents_ok_b : forallb (fun f => fmt_ident_ok (snd f)) format_idents = true.
Proof. vm_compute. reflexivity. Qed.

Lemma format_idents_local_like :
  forall f, In f format_idents -> fmt_ident_ok (snd f) = true.
Proof.
  intros f Hin. pose proof format_idents_ok_b as Hb. rewrite forallb_forall in Hb. apply Hb. exact Hin.
Qed.

(* ------------------------------------------------------------------ scope independence *)

Lemma resolve_closed_head :
  forall (gb lb : list string) (H : string -> bool) (sc1 sc2 : scope) (h : head),
    allowed_head gb lb h = true ->
    (forall x, H x = true -> reserved x = false) ->
    (forall x, In x (open_locals lb [h]) -> In x (sc_locals sc1)) ->
    agree_on_nonprelude H sc1 sc2 ->
    prelude_wf sc1 -> prelude_wf sc2 ->
    resolve lb sc1 h = resolve lb sc2 h.
Proof.
  intros gb lb H sc1 sc2 [x k] Hall HH Hloc [Hl [He Hu]] Hw1 Hw2.
  unfold allowed_head in Hall. cbn [h_name h_kind] in Hall.
  unfold resolve. cbn [h_name h_kind].
  assert (Hres : forall n, reserved x = true ->
            sc_user sc1 n x = sc_user sc2 n x /\ sc_prelude sc1 n x = None /\ sc_prelude sc2 n x = None).
  { intros n Hr. split; [| split].
    - apply Hu. destruct (H x) eqn:Hx; [| reflexivity].
      apply HH in Hx. rewrite Hx in Hr. discriminate Hr.
    - apply Hw1. exact Hr.
    - apply Hw2. exact Hr. }
  destruct k.
  - (* HPlain *)
    destruct (String.eqb x "Self"); [reflexivity |].
    rewrite <- Hl.
    destruct (mem x lb) eqn:Hlb; [reflexivity |].
    cbn [orb].
    destruct (mem x primitives) eqn:Hprim.
    + assert (Hr : reserved x = true) by (unfold reserved; rewrite Hprim; reflexivity).
      destruct (Hres NsTypeValue Hr) as [Hu' [Hp1 Hp2]].
      rewrite Hu', Hp1, Hp2, He. reflexivity.
    + cbn [orb] in Hall.
      assert (Hin : In x (sc_locals sc1)).
      { apply Hloc. unfold open_locals. cbn [flat_map h_kind h_name].
        rewrite Hprim, Hlb. cbn [orb]. left. reflexivity. }
      apply mem_In in Hin. rewrite Hin. reflexivity.
  - (* HRoot *)
    destruct (String.eqb x "Self") eqn:Hself; [reflexivity |].
    rewrite <- Hl.
    destruct (mem x lb) eqn:Hlb; [reflexivity |].
    cbn [orb andb] in Hall.
    rewrite orb_false_r in Hall.
    assert (Hr : reserved x = true).
    { unfold reserved. rewrite Hall. apply orb_true_r. }
    destruct (Hres NsTypeValue Hr) as [Hu' [Hp1 Hp2]].
    rewrite Hu', Hp1, Hp2, He. reflexivity.
  - (* HMacro *) discriminate Hall.
  - (* HExtern *) rewrite He. reflexivity.
  - (* HAttr *) discriminate Hall.
Qed.

Lemma open_locals_incl :
  forall lb hs h, In h hs -> forall x, In x (open_locals lb [h]) -> In x (open_locals lb hs).
Proof.
  intros lb hs h Hh x Hx. unfold open_locals in *. apply in_flat_map. exists h. split; [exact Hh |].
  cbn [flat_map] in Hx. rewrite app_nil_r in Hx. exact Hx.
Qed.

Lemma scope_independent :
  forall (gb : list string) (t : template) (H : string -> bool) (sc1 sc2 : scope),
    closed gb t = true ->
    (forall x, H x = true -> reserved x = false) ->
    incl (open_locals (binders t) (head_idents t)) (sc_locals sc1) ->
    agree_on_nonprelude H sc1 sc2 ->
    prelude_wf sc1 -> prelude_wf sc2 ->
    map (resolve (binders t) sc1) (head_idents t) = map (resolve (binders t) sc2) (head_idents t).
Proof.
  intros gb t H sc1 sc2 Hc HH Hincl Hag Hw1 Hw2.
  apply map_ext_in. intros h Hh.
  unfold closed in Hc. rewrite forallb_forall in Hc.
  apply (resolve_closed_head gb (binders t) H sc1 sc2 h (Hc h Hh) HH); try assumption.
  intros x Hx. apply Hincl. apply (open_locals_incl _ _ h Hh). exact Hx.
Qed.

(* instantiated to the generated list: every template of /repo without offenders *)
Lemma generated_templates_scope_independent :
  forall t, In t templates -> offenders_of (global_binders templates) t = [] ->
  forall (H : string -> bool) (sc1 sc2 : scope),
    (forall x, H x = true -> reserved x = false) ->
    incl (open_locals (binders t) (head_idents t)) (sc_locals sc1) ->
    agree_on_nonprelude H sc1 sc2 ->
    prelude_wf sc1 -> prelude_wf sc2 ->
    map (resolve (binders t) sc1) (head_idents t) = map (resolve (binders t) sc2) (head_idents t).
Proof.
  intros t _ Hnil H sc1 sc2. apply (scope_independent (global_binders templates)).
  apply no_offenders_closed. exact Hnil.
Qed.

(* ------------------------------------------------------------------ the hypotheses are satisfiable, the theorem is not vacuous *)

(* the std prelude (a fragment) and a module without prelude *)
Definition std_prelude (n : ns) (x : string) : option N :=
  match n with
  | NsTypeValue => if mem x ["Option"; "Some"; "None"; "Result"; "Ok"; "Err"; "String"; "Vec"] then Some 1%N else None
  | NsMacro => if mem x ["panic"; "stringify"; "matches"; "write"] then Some 2%N else None
  end.

Definition sc_normal : scope :=
  {| sc_locals := ["src"]; sc_user := fun _ _ => None;
     sc_extern := fun x => if String.eqb x "derive_more" then Some 7%N else None;
     sc_prelude := std_prelude |}.

Definition sc_no_prelude : scope :=
  {| sc_locals := ["src"]; sc_user := fun _ _ => None;
     sc_extern := fun x => if String.eqb x "derive_more" then Some 7%N else None;
     sc_prelude := fun _ _ => None |}.

(* a module that defines its own `Ok` and `panic!` *)
Definition sc_shadowing : scope :=
  {| sc_locals := ["src"];
     sc_user := fun n x => match n with
                           | NsTypeValue => if String.eqb x "Ok" then Some 99%N else None
                           | NsMacro => if String.eqb x "panic" then Some 98%N else None
                           end;
     sc_extern := fun x => if String.eqb x "derive_more" then Some 7%N else None;
     sc_prelude := std_prelude |}.

Definition hostile_names (x : string) : bool := negb (reserved x).

Example hostile_names_not_reserved : forall x, hostile_names x = true -> reserved x = false.
Proof. intros x Hx. unfold hostile_names in Hx. apply negb_true_iff in Hx. exact Hx. Qed.

Example prelude_wf_normal : prelude_wf sc_normal.
Proof.
  intros n x Hr. unfold reserved in Hr. cbn [sc_prelude sc_normal]. unfold std_prelude.
  apply orb_true_iff in Hr. destruct Hr as [Hp | Hd].
  - apply mem_In in Hp. cbn in Hp.
    repeat (destruct Hp as [Hp | Hp]; [subst x; destruct n; reflexivity |]). destruct Hp.
  - apply String.eqb_eq in Hd. subst x. destruct n; reflexivity.
Qed.

Example prelude_wf_no_prelude : prelude_wf sc_no_prelude.
Proof. intros n x _. reflexivity. Qed.

Example agree_normal_no_prelude : agree_on_nonprelude hostile_names sc_normal sc_no_prelude.
Proof. repeat split. Qed.

Example agree_normal_shadowing : agree_on_nonprelude hostile_names sc_normal sc_shadowing.
Proof.
  split; [reflexivity | split; [reflexivity |]].
  intros n x Hx. unfold hostile_names in Hx. apply negb_false_iff in Hx.
  cbn [sc_user sc_normal sc_shadowing].
  destruct n.
  - destruct (String.eqb x "Ok") eqn:E; [| reflexivity].
    apply String.eqb_eq in E. subst x. vm_compute in Hx. discriminate Hx.
  - destruct (String.eqb x "panic") eqn:E; [| reflexivity].
    apply String.eqb_eq in E. subst x. vm_compute in Hx. discriminate Hx.
Qed.

(* a qualified head resolves alike in the three scopes, the bare heads `Ok` and `panic!` do not:
   an unqualified prelude name observes both the absence of the prelude and its shadowing *)
Definition h_ok : head := {| h_name := "Ok"; h_kind := HPlain |}.
Definition h_panic : head := {| h_name := "panic"; h_kind := HMacro |}.
Definition h_dm : head := {| h_name := "derive_more"; h_kind := HRoot |}.

Example qualified_head_same :
  resolve [] sc_normal h_dm = resolve [] sc_no_prelude h_dm /\
  resolve [] sc_normal h_dm = resolve [] sc_shadowing h_dm /\
  resolve [] sc_normal h_dm = Some (IExtern 7%N).
Proof. vm_compute. repeat split. Qed.

Example bare_name_observes_prelude :
  resolve [] sc_normal h_ok <> resolve [] sc_no_prelude h_ok /\
  resolve [] sc_normal h_ok <> resolve [] sc_shadowing h_ok /\
  resolve [] sc_normal h_panic <> resolve [] sc_no_prelude h_panic /\
  resolve [] sc_normal h_panic <> resolve [] sc_shadowing h_panic.
Proof. vm_compute. repeat split; intro E; discriminate E. Qed.

(* the classifier on a hand-written template:  fn f(src: &str) -> derive_more::core::result::Result<Self, E> { Ok(src) } *)
Definition tpl_example : template :=
  {| t_file := "x.rs"; t_fn := "f"; t_index := 0; t_line := 1;
     t_tokens := [TId "fn"; TId "f"; TGroup Paren [TId "src"; TPunct ":"; TPunct "&"; TId "str"]; TPunct "->";
                  TId "derive_more"; TPunct "::"; TId "core"; TPunct "::"; TId "result"; TPunct "::"; TId "Result";
                  TPunct "<"; TId "Self"; TPunct ","; TInterp "e"; TPunct ">";
                  TGroup Brace [TId "Ok"; TGroup Paren [TId "src"]]] |}.

Example classifier_example :
  map show_head (head_idents tpl_example) = ["str"; "derive_more"; "Ok"; "src"] /\
  binders tpl_example = ["src"] /\
  offenders_of [] tpl_example = [("x.rs", "f", "Ok")].
Proof. vm_compute. repeat split. Qed.
