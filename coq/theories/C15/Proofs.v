(* C15 - proofs.  The statements about the generated list `templates` are finite computations (vm_compute)
   lifted to Props with forallb_forall; the scope-independence theorem is about arbitrary templates and scopes. *)
From Coq Require Import List String Ascii Bool Arith NArith.
Require Import Verif.C15.Model Verif.Gen.Templates.
Import ListNotations.
Open Scope string_scope.
Open Scope list_scope.

(* ------------------------------------------------------------------ small lemmas *)

Lemma mem_In : forall x l, mem x l = true <-> In x l.
Proof.
  intros x l. unfold mem. rewrite existsb_exists. split.
  - intros [y [Hin Heq]]. apply String.eqb_eq in Heq. subst y. exact Hin.
  - intros Hin. exists x. split; [exact Hin | apply String.eqb_refl].
Qed.

Lemma mem_false_not_In : forall x l, mem x l = false -> ~ In x l.
Proof.
  intros x l Hm Hin. apply mem_In in Hin. rewrite Hin in Hm. discriminate Hm.
Qed.

(* ------------------------------------------------------------------ closedness of the generated templates *)

Definition offenders_known_b (ts : list template) : bool :=
  forallb (fun o => mem (key o) known_offender_keys) (offenders ts).

Lemma offenders_known_templates : offenders_known_b templates = true.
Proof. vm_compute. reflexivity. Qed.

Lemma closed_modulo_known :
  forall o, In o (offenders templates) -> In (key o) known_offender_keys.
Proof.
  intros o Hin.
  pose proof offenders_known_templates as Hb. unfold offenders_known_b in Hb.
  rewrite forallb_forall in Hb. apply mem_In. apply Hb. exact Hin.
Qed.

(* every head identifier of every template: closed, or one of the known offenders *)
Lemma head_closed_or_offender :
  forall ts t h, In t ts -> In h (head_idents t) ->
    allowed_head (global_binders ts) (binders t) h = true \/
    In (t_file t, t_fn t, show_head h) (offenders ts).
Proof.
  intros ts t h Ht Hh.
  destruct (allowed_head (global_binders ts) (binders t) h) eqn:Ha.
  - left. reflexivity.
  - right. unfold offenders. apply in_flat_map. exists t. split; [exact Ht |].
    unfold offenders_of. apply in_map_iff. exists h. split; [reflexivity |].
    apply filter_In. split; [exact Hh |]. rewrite Ha. reflexivity.
Qed.

Lemma templates_closed_modulo_known :
  forall t h, In t templates -> In h (head_idents t) ->
    allowed_head (global_binders templates) (binders t) h = true \/
    In (key (t_file t, t_fn t, show_head h)) known_offender_keys.
Proof.
  intros t h Ht Hh.
  destruct (head_closed_or_offender templates t h Ht Hh) as [Ha | Ho].
  - left. exact Ha.
  - right. apply closed_modulo_known. exact Ho.
Qed.

(* a template without offenders is closed *)
Lemma no_offenders_closed :
  forall gb t, offenders_of gb t = [] -> closed gb t = true.
Proof.
  intros gb t Hnil. unfold closed. apply forallb_forall. intros h Hh.
  destruct (allowed_head gb (binders t) h) eqn:Ha; [reflexivity |].
  exfalso.
  assert (Hin : In (t_file t, t_fn t, show_head h) (offenders_of gb t)).
  { unfold offenders_of. apply in_map_iff. exists h. split; [reflexivity |].
    apply filter_In. split; [exact Hh |]. rewrite Ha. reflexivity. }
  rewrite Hnil in Hin. exact Hin.
Qed.

(* the count the translator reports is the length of the list the theorems range over *)
Lemma templates_count : List.length templates = n_templates.
Proof. vm_compute. reflexivity. Qed.

(* manufactured identifiers *)
Lemma format_idents_ok_b : forallb (fun f => fmt_ident_ok (snd f)) format_idents = true.
Proof. vm_compute. reflexivity. Qed.

Lemma format_idents_local_like :
  forall f, In f format_idents -> fmt_ident_ok (snd f) = true.
Proof.
  intros f Hin. pose proof format_idents_ok_b as Hb. rewrite forallb_forall in Hb. apply Hb. exact Hin.
Qed.

(* ------------------------------------------------------------------ scope independence *)

Lemma resolve_closed_head :
  forall (gb lb : list string) (H : string -> bool) (sc1 sc2 : scope) (h : head),
    allowed_head gb lb h = true ->
    (forall x, H x = true -> reserved x = false) ->
    (forall x, In x (open_locals lb [h]) -> In x (sc_locals sc1)) ->
    agree_on_nonprelude H sc1 sc2 ->
    prelude_wf sc1 -> prelude_wf sc2 ->
    resolve lb sc1 h = resolve lb sc2 h.
Proof.
  intros gb lb H sc1 sc2 [x k] Hall HH Hloc [Hl [He Hu]] Hw1 Hw2.
  unfold allowed_head in Hall. cbn [h_name h_kind] in Hall.
  unfold resolve. cbn [h_name h_kind].
  assert (Hres : forall n, reserved x = true ->
            sc_user sc1 n x = sc_user sc2 n x /\ sc_prelude sc1 n x = None /\ sc_prelude sc2 n x = None).
  { intros n Hr. split; [| split].
    - apply Hu. destruct (H x) eqn:Hx; [| reflexivity].
      apply HH in Hx. rewrite Hx in Hr. discriminate Hr.
    - apply Hw1. exact Hr.
    - apply Hw2. exact Hr. }
  destruct k.
  - (* HPlain *)
    destruct (String.eqb x "Self"); [reflexivity |].
    rewrite <- Hl.
    destruct (mem x lb) eqn:Hlb; [reflexivity |].
    cbn [orb].
    destruct (mem x primitives) eqn:Hprim.
    + assert (Hr : reserved x = true) by (unfold reserved; rewrite Hprim; reflexivity).
      destruct (Hres NsTypeValue Hr) as [Hu' [Hp1 Hp2]].
      rewrite Hu', Hp1, Hp2, He. reflexivity.
    + cbn [orb] in Hall.
      assert (Hin : In x (sc_locals sc1)).
      { apply Hloc. unfold open_locals. cbn [flat_map h_kind h_name].
        rewrite Hprim, Hlb. cbn [orb]. left. reflexivity. }
      apply mem_In in Hin. rewrite Hin. reflexivity.
  - (* HRoot *)
    destruct (String.eqb x "Self") eqn:Hself; [reflexivity |].
    rewrite <- Hl.
    destruct (mem x lb) eqn:Hlb; [reflexivity |].
    cbn [orb andb] in Hall.
    rewrite orb_false_r in Hall.
    assert (Hr : reserved x = true).
    { unfold reserved. rewrite Hall. apply orb_true_r. }
    destruct (Hres NsTypeValue Hr) as [Hu' [Hp1 Hp2]].
    rewrite Hu', Hp1, Hp2, He. reflexivity.
  - (* HMacro *) discriminate Hall.
  - (* HExtern *) rewrite He. reflexivity.
  - (* HAttr *) discriminate Hall.
Qed.

Lemma open_locals_incl :
  forall lb hs h, In h hs -> forall x, In x (open_locals lb [h]) -> In x (open_locals lb hs).
Proof.
  intros lb hs h Hh x Hx. unfold open_locals in *. apply in_flat_map. exists h. split; [exact Hh |].
  cbn [flat_map] in Hx. rewrite app_nil_r in Hx. exact Hx.
Qed.

Lemma scope_independent :
  forall (gb : list string) (t : template) (H : string -> bool) (sc1 sc2 : scope),
    closed gb t = true ->
    (forall x, H x = true -> reserved x = false) ->
    incl (open_locals (binders t) (head_idents t)) (sc_locals sc1) ->
    agree_on_nonprelude H sc1 sc2 ->
    prelude_wf sc1 -> prelude_wf sc2 ->
    map (resolve (binders t) sc1) (head_idents t) = map (resolve (binders t) sc2) (head_idents t).
Proof.
  intros gb t H sc1 sc2 Hc HH Hincl Hag Hw1 Hw2.
  apply map_ext_in. intros h Hh.
  unfold closed in Hc. rewrite forallb_forall in Hc.
  apply (resolve_closed_head gb (binders t) H sc1 sc2 h (Hc h Hh) HH); try assumption.
  intros x Hx. apply Hincl. apply (open_locals_incl _ _ h Hh). exact Hx.
Qed.

(* instantiated to the generated list: every template of /repo without offenders *)
Lemma generated_templates_scope_independent :
  forall t, In t templates -> offenders_of (global_binders templates) t = [] ->
  forall (H : string -> bool) (sc1 sc2 : scope),
    (forall x, H x = true -> reserved x = false) ->
    incl (open_locals (binders t) (head_idents t)) (sc_locals sc1) ->
    agree_on_nonprelude H sc1 sc2 ->
    prelude_wf sc1 -> prelude_wf sc2 ->
    map (resolve (binders t) sc1) (head_idents t) = map (resolve (binders t) sc2) (head_idents t).
Proof.
  intros t _ Hnil H sc1 sc2. apply (scope_independent (global_binders templates)).
  apply no_offenders_closed. exact Hnil.
Qed.

(* ------------------------------------------------------------------ the hypotheses are satisfiable, the theorem is not vacuous *)

(* the std prelude (a fragment) and a module without prelude *)
Definition std_prelude (n : ns) (x : string) : option N :=
  match n with
  | NsTypeValue => if mem x ["Option"; "Some"; "None"; "Result"; "Ok"; "Err"; "String"; "Vec"] then Some 1%N else None
  | NsMacro => if mem x ["panic"; "stringify"; "matches"; "write"] then Some 2%N else None
  end.

Definition sc_normal : scope :=
  {| sc_locals := ["src"]; sc_user := fun _ _ => None;
     sc_extern := fun x => if String.eqb x "derive_more" then Some 7%N else None;
     sc_prelude := std_prelude |}.

Definition sc_no_prelude : scope :=
  {| sc_locals := ["src"]; sc_user := fun _ _ => None;
     sc_extern := fun x => if String.eqb x "derive_more" then Some 7%N else None;
     sc_prelude := fun _ _ => None |}.

(* a module that defines its own `Ok` and `panic!` *)
Definition sc_shadowing : scope :=
  {| sc_locals := ["src"];
     sc_user := fun n x => match n with
                           | NsTypeValue => if String.eqb x "Ok" then Some 99%N else None
                           | NsMacro => if String.eqb x "panic" then Some 98%N else None
                           end;
     sc_extern := fun x => if String.eqb x "derive_more" then Some 7%N else None;
     sc_prelude := std_prelude |}.

Definition hostile_names (x : string) : bool := negb (reserved x).

Example hostile_names_not_reserved : forall x, hostile_names x = true -> reserved x = false.
Proof. intros x Hx. unfold hostile_names in Hx. apply negb_true_iff in Hx. exact Hx. Qed.

Example prelude_wf_normal : prelude_wf sc_normal.
Proof.
  intros n x Hr. unfold reserved in Hr. cbn [sc_prelude sc_normal]. unfold std_prelude.
  apply orb_true_iff in Hr. destruct Hr as [Hp | Hd].
  - apply mem_In in Hp. cbn in Hp.
    repeat (destruct Hp as [Hp | Hp]; [subst x; destruct n; reflexivity |]). destruct Hp.
  - apply String.eqb_eq in Hd. subst x. destruct n; reflexivity.
Qed.

Example prelude_wf_no_prelude : prelude_wf sc_no_prelude.
Proof. intros n x _. reflexivity. Qed.

Example agree_normal_no_prelude : agree_on_nonprelude hostile_names sc_normal sc_no_prelude.
Proof. repeat split. Qed.

Example agree_normal_shadowing : agree_on_nonprelude hostile_names sc_normal sc_shadowing.
Proof.
  split; [reflexivity | split; [reflexivity |]].
  intros n x Hx. unfold hostile_names in Hx. apply negb_false_iff in Hx.
  cbn [sc_user sc_normal sc_shadowing].
  destruct n.
  - destruct (String.eqb x "Ok") eqn:E; [| reflexivity].
    apply String.eqb_eq in E. subst x. vm_compute in Hx. discriminate Hx.
  - destruct (String.eqb x "panic") eqn:E; [| reflexivity].
    apply String.eqb_eq in E. subst x. vm_compute in Hx. discriminate Hx.
Qed.

(* a qualified head resolves alike in the three scopes, the bare heads `Ok` and `panic!` do not:
   an unqualified prelude name observes both the absence of the prelude and its shadowing *)
Definition h_ok : head := {| h_name := "Ok"; h_kind := HPlain |}.
Definition h_panic : head := {| h_name := "panic"; h_kind := HMacro |}.
Definition h_dm : head := {| h_name := "derive_more"; h_kind := HRoot |}.

Example qualified_head_same :
  resolve [] sc_normal h_dm = resolve [] sc_no_prelude h_dm /\
  resolve [] sc_normal h_dm = resolve [] sc_shadowing h_dm /\
  resolve [] sc_normal h_dm = Some (IExtern 7%N).
Proof. vm_compute. repeat split. Qed.

Example bare_name_observes_prelude :
  resolve [] sc_normal h_ok <> resolve [] sc_no_prelude h_ok /\
  resolve [] sc_normal h_ok <> resolve [] sc_shadowing h_ok /\
  resolve [] sc_normal h_panic <> resolve [] sc_no_prelude h_panic /\
  resolve [] sc_normal h_panic <> resolve [] sc_shadowing h_panic.
Proof. vm_compute. repeat split; intro E; discriminate E. Qed.

(* the classifier on a hand-written template:  fn f(src: &str) -> derive_more::core::result::Result<Self, E> { Ok(src) } *)
Definition tpl_example : template :=
  {| t_file := "x.rs"; t_fn := "f"; t_index := 0; t_line := 1; t_var := "";
     t_tokens := [TId "fn"; TId "f"; TGroup Paren [TId "src"; TPunct ":"; TPunct "&"; TId "str"]; TPunct "->";
                  TId "derive_more"; TPunct "::"; TId "core"; TPunct "::"; TId "result"; TPunct "::"; TId "Result";
                  TPunct "<"; TId "Self"; TPunct ","; TInterp "e"; TPunct ">";
                  TGroup Brace [TId "Ok"; TGroup Paren [TId "src"]]] |}.

Example classifier_example :
  map show_head (head_idents tpl_example) = ["str"; "derive_more"; "Ok"; "src"] /\
  binders tpl_example = ["src"] /\
  offenders_of [] tpl_example = [("x.rs", "f", "Ok")].
Proof. vm_compute. repeat split. Qed.

(* ================================================================== growth round: inventories *)

(* ---- macros: every macro a template invokes is `derive_more::core::<name>` *)
Lemma macros_ok_b : forallb (fun t => forallb macro_path_ok (macro_paths t)) templates = true.
Proof. vm_compute. reflexivity. Qed.

Lemma macros_through_core :
  forall t p, In t templates -> In p (macro_paths t) ->
    exists name rest, p = "derive_more" :: "core" :: name :: rest.
Proof.
  intros t p Ht Hp.
  pose proof macros_ok_b as Hb. rewrite forallb_forall in Hb. specialize (Hb t Ht).
  rewrite forallb_forall in Hb. specialize (Hb p Hp).
  unfold macro_path_ok in Hb.
  destruct p as [| a [| b [| c rest]]]; try discriminate Hb.
  apply andb_true_iff in Hb. destruct Hb as [Ha Hb'].
  apply String.eqb_eq in Ha. apply String.eqb_eq in Hb'. subst a b.
  exists c, rest. reflexivity.
Qed.

(* a macro invoked through `derive_more::core::name!` is a head of kind HRoot `derive_more`, hence closed; a bare
   macro name is a head of kind HMacro, never closed *)
Lemma bare_macro_never_closed : forall gb lb x, allowed_head gb lb {| h_name := x; h_kind := HMacro |} = false.
Proof. reflexivity. Qed.

(* ---- every `derive_more::..` path a template names is backed by an export of src/lib.rs *)
Lemma dm_paths_exported_b : forallb (fun t => forallb (dm_path_exported dm_exports) (dm_paths t)) templates = true.
Proof. vm_compute. reflexivity. Qed.

Lemma dm_paths_exported :
  forall t p, In t templates -> In p (dm_paths t) -> dm_path_exported dm_exports p = true.
Proof.
  intros t p Ht Hp. pose proof dm_paths_exported_b as Hb. rewrite forallb_forall in Hb.
  specialize (Hb t Ht). rewrite forallb_forall in Hb. apply Hb. exact Hp.
Qed.

(* ---- method calls *)
Lemma method_offenders_known_b :
  forallb (fun o => mem (method_key o) known_method_sites) (method_offenders templates) = true.
Proof. vm_compute. reflexivity. Qed.

Lemma method_site_closed_or_offender :
  forall ts t s, In t ts -> In s (method_sites t) ->
    method_site_closed (global_typed_binders ts) s = true \/
    In (t_file t, ms_name s) (method_offenders ts).
Proof.
  intros ts t s Ht Hs.
  destruct (method_site_closed (global_typed_binders ts) s) eqn:Hc; [left; reflexivity | right].
  unfold method_offenders. apply in_flat_map. exists t. split; [exact Ht |].
  unfold method_offenders_of. apply in_map_iff. exists s. split; [reflexivity |].
  apply filter_In. split; [exact Hs |]. rewrite Hc. reflexivity.
Qed.

Lemma method_calls_classified :
  forall t s, In t templates -> In s (method_sites t) ->
    method_site_closed (global_typed_binders templates) s = true \/
    In (method_key (t_file t, ms_name s)) known_method_sites.
Proof.
  intros t s Ht Hs.
  destruct (method_site_closed_or_offender templates t s Ht Hs) as [Hc | Ho]; [left; exact Hc | right].
  pose proof method_offenders_known_b as Hb. rewrite forallb_forall in Hb.
  apply mem_In. exact (Hb _ Ho).
Qed.

(* what "closed" means for a call site: its receiver is not an interpolation, a field or `self`, but (a chain of calls
   on) a local none of whose declarations is user-typed, or a literal *)
Lemma method_site_closed_receiver :
  forall gt s, method_site_closed gt s = true ->
    (exists y, recv_root (ms_recv s) = RLocal y /\ local_not_user_typed gt y = true) \/ recv_root (ms_recv s) = RLit.
Proof.
  intros gt s H. unfold method_site_closed in H.
  destruct (recv_root (ms_recv s)) eqn:E; try discriminate H.
  - left. exists x. split; [reflexivity | exact H].
  - right. reflexivity.
Qed.

(* the logical skeleton of method resolution *)
Lemma inherent_call_scope_independent :
  forall i provides sc1 sc2, resolve_method (Some i) provides sc1 = resolve_method (Some i) provides sc2.
Proof. reflexivity. Qed.

(* with the same traits applicable the call resolves alike: the only scope-dependence of a trait-method call is the
   set of applicable traits in scope *)
Lemma trait_call_depends_only_on_applicable_traits :
  forall provides sc1 sc2,
    filter provides (mc_macro sc1 ++ mc_user sc1 ++ mc_prelude sc1) =
    filter provides (mc_macro sc2 ++ mc_user sc2 ++ mc_prelude sc2) ->
    forall inh, resolve_method inh provides sc1 = resolve_method inh provides sc2.
Proof. intros provides sc1 sc2 H inh. unfold resolve_method. rewrite H. reflexivity. Qed.

(* a trait-method call on a receiver without such an inherent method observes the caller's scope in all three ways:
   prelude absent, a second applicable trait in scope, and - for a user-typed receiver - an inherent namesake *)
Lemma trait_call_observes_scope :
  forall c d : N, c <> d ->
    let provides := fun _ : N => true in
    (* the trait comes from the prelude only: no prelude, no method *)
    resolve_method None provides {| mc_macro := []; mc_user := []; mc_prelude := [c] |} <>
    resolve_method None provides {| mc_macro := []; mc_user := []; mc_prelude := [] |} /\
    (* the macro imports the trait itself, the caller has another applicable trait with that method name *)
    resolve_method None provides {| mc_macro := [c]; mc_user := []; mc_prelude := [] |} <>
    resolve_method None provides {| mc_macro := [c]; mc_user := [d]; mc_prelude := [] |} /\
    (* the receiver's (user) type has an inherent method of that name *)
    (forall i sc, resolve_method None provides {| mc_macro := [c]; mc_user := []; mc_prelude := [] |} <>
                  resolve_method (Some i) provides sc).
Proof.
  intros c d Hcd provides. unfold resolve_method, provides. cbn [filter app].
  repeat split; intros; intro E; discriminate E.
Qed.

(* a call through the trait path (`derive_more::core::ops::Add::add(a, b)`) has no receiver lookup at all: its only
   name is the head of the path, covered by scope_independent *)

(* ---- completeness of the head classification: a head that is not closed does observe the scope *)
Definition sc_with (u : ns -> string -> option N) : scope :=
  {| sc_locals := []; sc_user := u; sc_extern := fun _ => None; sc_prelude := fun _ _ => None |}.

Lemma prelude_wf_sc_with : forall u, prelude_wf (sc_with u).
Proof. intros u n x _. reflexivity. Qed.

Lemma flagged_head_observes_scope :
  forall (lb : list string) (h : head),
    h_kind h <> HExtern ->
    reserved (h_name h) = false ->
    h_name h <> "Self" ->
    mem (h_name h) lb = false ->
    exists (H : string -> bool) (sc1 sc2 : scope),
      (forall x, H x = true -> reserved x = false) /\
      agree_on_nonprelude H sc1 sc2 /\ prelude_wf sc1 /\ prelude_wf sc2 /\
      resolve lb sc1 h <> resolve lb sc2 h.
Proof.
  intros lb [x k] Hk Hr Hself Hlb. cbn [h_name h_kind] in *.
  exists (fun y => String.eqb y x).
  exists (sc_with (fun _ y => if String.eqb y x then Some 1%N else None)).
  exists (sc_with (fun _ _ => None)).
  split; [| split; [| split; [| split]]].
  - intros y Hy. apply String.eqb_eq in Hy. subst y. exact Hr.
  - split; [reflexivity | split; [reflexivity |]].
    intros n y Hy. cbn [sc_user sc_with]. rewrite Hy. reflexivity.
  - apply prelude_wf_sc_with.
  - apply prelude_wf_sc_with.
  - assert (Hs : String.eqb x "Self" = false) by (apply String.eqb_neq; exact Hself).
    assert (Hp : mem x primitives = false).
    { unfold reserved in Hr. apply orb_false_iff in Hr. destruct Hr as [Hp _]. exact Hp. }
    unfold resolve. cbn [h_name h_kind sc_with sc_user sc_locals sc_extern sc_prelude].
    destruct k; try (exfalso; apply Hk; reflexivity);
      rewrite ?Hs, ?Hlb, ?String.eqb_refl, ?Hp; cbn; intro E; discriminate E.
Qed.

(* a global path `::x` depends on the crate table only - not on the module's items, locals or prelude *)
Lemma extern_head_module_independent :
  forall lb1 lb2 sc1 sc2 x,
    (forall y, sc_extern sc1 y = sc_extern sc2 y) ->
    resolve lb1 sc1 {| h_name := x; h_kind := HExtern |} = resolve lb2 sc2 {| h_name := x; h_kind := HExtern |}.
Proof. intros lb1 lb2 sc1 sc2 x He. unfold resolve. cbn [h_name h_kind]. rewrite He. reflexivity. Qed.

(* the hypothesis "the caller does not redefine `derive_more`" of scope_independent is necessary *)
Definition sc_dm_shadowed : scope :=
  {| sc_locals := ["src"];
     sc_user := fun n x => match n with NsTypeValue => if String.eqb x "derive_more" then Some 55%N else None | NsMacro => None end;
     sc_extern := fun x => if String.eqb x "derive_more" then Some 7%N else None;
     sc_prelude := std_prelude |}.

Example derive_more_root_observes_user_module :
  resolve [] sc_normal h_dm = Some (IExtern 7%N) /\ resolve [] sc_dm_shadowed h_dm = Some (IUser 55%N).
Proof. vm_compute. split; reflexivity. Qed.

(* ---- freshness of the generic parameters the macro introduces *)
Lemma introduced_generics_b :
  forallb (fun g => starts_dunder g || mem g known_non_dunder_generics) (introduced_generics templates format_idents) = true.
Proof. vm_compute. reflexivity. Qed.

Lemma introduced_generics_dunder :
  forall g, In g (introduced_generics templates format_idents) ->
    starts_dunder g = true \/ In g known_non_dunder_generics.
Proof.
  intros g Hg. pose proof introduced_generics_b as Hb. rewrite forallb_forall in Hb.
  specialize (Hb g Hg). apply orb_true_iff in Hb. destruct Hb as [Hd | Hk]; [left; exact Hd | right; apply mem_In; exact Hk].
Qed.

(* the double-underscore test looks at the literal prefix only: it holds for every instantiation `__FromT0`, `__FromT1`,
   .. of a format_ident! pattern `__FromT{i}` *)
Lemma starts_dunder_prefix :
  forall a b c rest1 rest2,
    starts_dunder (String a (String b (String c rest1))) = starts_dunder (String a (String b (String c rest2))).
Proof. intros. reflexivity. Qed.

Lemma introduced_generics_all_dunder :
  forall g, In g (introduced_generics templates format_idents) -> starts_dunder g = true.
Proof.
  intros g Hg. destruct (introduced_generics_dunder g Hg) as [Hd | Hk]; [exact Hd | destruct Hk].
Qed.

Lemma introduced_generics_fresh :
  forall (user_params : list string),
    (forall u, In u user_params -> starts_dunder u = false) ->
    forall g, In g (introduced_generics templates format_idents) -> ~ In g user_params.
Proof.
  intros user Hu g Hg Hin.
  pose proof (introduced_generics_all_dunder g Hg) as Hd.
  rewrite (Hu g Hin) in Hd. discriminate Hd.
Qed.

Example fresh_against_plain_params :
  forall g, In g (introduced_generics templates format_idents) ->
    ~ In g ["T"; "I"; "'a"; "RhsT"; "_T"; "'_request"; "'derive_more_into"].
Proof.
  intros g Hg. apply (introduced_generics_fresh ["T"; "I"; "'a"; "RhsT"; "_T"; "'_request"; "'derive_more_into"]); try assumption.
  intros u Hu. cbn in Hu. repeat (destruct Hu as [Hu | Hu]; [subst u; reflexivity |]). destruct Hu.
Qed.

(* the `__` hypothesis on the introduced names is what buys freshness: a name without it is a legal user parameter *)
Example non_dunder_name_can_clash :
  forall g, starts_dunder g = false -> (forall u, In u [g] -> starts_dunder u = false) /\ In g [g].
Proof. intros g Hg. split; [intros u [Hu | []]; subst u; exact Hg | left; reflexivity]. Qed.

(* ---- the listed method-call site is a genuine counterexample to "every dot call has a macro-fixed receiver":
   a template calls `.as_dyn_error(` on an interpolated (user-typed) receiver, and for such a receiver the call resolves
   differently when the user's type has an inherent method of that name *)
Lemma user_receiver_site_b :
  existsb (fun t => existsb (fun s => String.eqb (ms_name s) "as_dyn_error" && is_ruser (ms_recv s) &&
                                      negb (method_site_closed (global_typed_binders templates) s) &&
                                      String.eqb (t_file t) "error.rs")
                            (method_sites t)) templates = true.
Proof. vm_compute. reflexivity. Qed.

Lemma method_calls_closed_refuted :
  exists t s, In t templates /\ In s (method_sites t) /\
    t_file t = "error.rs" /\ ms_name s = "as_dyn_error" /\ ms_recv s = RUser /\
    method_site_closed (global_typed_binders templates) s = false /\
    (forall (c i : N) sc,
       resolve_method None (fun _ => true) {| mc_macro := [c]; mc_user := []; mc_prelude := [] |} = MTrait c /\
       resolve_method (Some i) (fun _ => true) sc = MInherent i).
Proof.
  pose proof user_receiver_site_b as Hb.
  apply existsb_exists in Hb. destruct Hb as [t [Ht Hb]].
  apply existsb_exists in Hb. destruct Hb as [s [Hs Hb]].
  apply andb_true_iff in Hb. destruct Hb as [Hb Hf].
  apply andb_true_iff in Hb. destruct Hb as [Hb Hc].
  apply andb_true_iff in Hb. destruct Hb as [Hn Hr].
  exists t, s. repeat split; try assumption.
  - apply String.eqb_eq. exact Hf.
  - apply String.eqb_eq. exact Hn.
  - destruct (ms_recv s); try discriminate Hr. reflexivity.
  - apply negb_true_iff. exact Hc.
Qed.

(* ================================================================== wave 6: type-relative associated paths *)
Lemma assoc_offenders_known_b :
  forallb (fun o => mem (assoc_key o) known_assoc_sites) (assoc_offenders templates) = true.
Proof. vm_compute. reflexivity. Qed.

Lemma assoc_path_closed_or_offender :
  forall ts t p, In t ts -> In p (assoc_paths t) ->
    assoc_path_closed ts (generic_params t) p = true \/
    In (t_file t, (hd "" p ++ "::" ++ last_seg p)%string) (assoc_offenders ts).
Proof.
  intros ts t p Ht Hp.
  destruct (assoc_path_closed ts (generic_params t) p) eqn:Hc; [left; reflexivity | right].
  unfold assoc_offenders. apply in_flat_map. exists t. split; [exact Ht |].
  unfold assoc_offenders_of. apply in_map_iff. exists p. split; [reflexivity |].
  apply filter_In. split; [exact Hp |]. rewrite Hc. reflexivity.
Qed.

Lemma assoc_paths_classified :
  forall t p, In t templates -> In p (assoc_paths t) ->
    assoc_path_closed templates (generic_params t) p = true \/
    In (assoc_key (t_file t, (hd "" p ++ "::" ++ last_seg p)%string)) known_assoc_sites.
Proof.
  intros t p Ht Hp.
  destruct (assoc_path_closed_or_offender templates t p Ht Hp) as [Hc | Ho]; [left; exact Hc | right].
  pose proof assoc_offenders_known_b as Hb. rewrite forallb_forall in Hb.
  apply mem_In. exact (Hb _ Ho).
Qed.

(* no exception is listed, so every associated path of every template is closed *)
Lemma assoc_paths_all_closed :
  forall t p, In t templates -> In p (assoc_paths t) -> assoc_path_closed templates (generic_params t) p = true.
Proof.
  intros t p Ht Hp. destruct (assoc_paths_classified t p Ht Hp) as [Hc | Hk]; [exact Hc | destruct Hk].
Qed.

(* a path whose qualifier is `<Ty>` without `as` is never closed; a trait-qualified one always is *)
Lemma unqualified_type_relative_never_closed :
  forall ts gp rest, assoc_path_closed ts gp ("<>" :: rest) = false.
Proof. reflexivity. Qed.

Lemma trait_qualified_always_closed :
  forall ts gp rest, assoc_path_closed ts gp ("<as>" :: rest) = true.
Proof. reflexivity. Qed.

Lemma qualified_assoc_scope_independent :
  forall tr inh1 inh2 provides1 provides2 sc1 sc2,
    resolve_assoc (Some tr) inh1 provides1 sc1 = resolve_assoc (Some tr) inh2 provides2 sc2.
Proof. reflexivity. Qed.

Lemma type_relative_assoc_observes_scope :
  forall c d : N, c <> d ->
    let provides := fun _ : N => true in
    (* `<Ty>::from(x)` inside `impl From<..>`: the impl's trait is a candidate; a second trait of the caller's scope with an
       item of that name makes it ambiguous; an inherent `from` of the user's type wins *)
    resolve_assoc None None provides {| mc_macro := [c]; mc_user := []; mc_prelude := [] |} = MTrait c /\
    resolve_assoc None None provides {| mc_macro := [c]; mc_user := [d]; mc_prelude := [] |} = MAmbiguous /\
    (forall i sc, resolve_assoc None (Some i) provides sc = MInherent i) /\
    (forall inh sc, resolve_assoc (Some c) inh provides sc = MTrait c).
Proof. intros c d Hcd provides. repeat split. Qed.

(* ================================================================== binders in pattern position *)
Lemma binders_ok_b : forallb (fun t => forallb binder_ok (pattern_binders t)) templates = true.
Proof. vm_compute. reflexivity. Qed.

Lemma binders_classified :
  forall t x, In t templates -> In x (pattern_binders t) ->
    starts_dunder x = true \/ binder_listed x = true.
Proof.
  intros t x Ht Hx. pose proof binders_ok_b as Hb. rewrite forallb_forall in Hb. specialize (Hb t Ht).
  rewrite forallb_forall in Hb. specialize (Hb x Hx). unfold binder_ok, binder_closed in Hb.
  apply orb_true_iff in Hb. exact Hb.
Qed.

(* "every binder is `__`-prefixed" is false: the listed class is inhabited (fn try_from(val: #repr_ty), try_from.rs) *)
Lemma binder_val_b :
  existsb (fun t => String.eqb (t_file t) "try_from.rs" && mem "val" (pattern_binders t)) templates = true.
Proof. vm_compute. reflexivity. Qed.

Lemma binders_all_dunder_refuted :
  exists t x, In t templates /\ In x (pattern_binders t) /\ t_file t = "try_from.rs" /\ x = "val" /\
              starts_dunder x = false /\
              (* a unit item called `val` in the caller's scope turns the parameter into a path pattern *)
              (forall n, resolve_pattern_ident (fun y => if String.eqb y "val" then Some n else None) x = PPathTo n) /\
              resolve_pattern_ident (fun _ => None) x = PBinding x.
Proof.
  pose proof binder_val_b as Hb. apply existsb_exists in Hb. destruct Hb as [t [Ht Hb]].
  apply andb_true_iff in Hb. destruct Hb as [Hf Hm].
  exists t, "val". repeat split.
  - exact Ht.
  - apply mem_In. exact Hm.
  - apply String.eqb_eq. exact Hf.
Qed.

(* resolution model: a unit item of the binder's name changes the pattern's meaning; without one it is a binding *)
Lemma unit_item_captures_binder :
  forall (items : string -> option N) x n, items x = Some n ->
    resolve_pattern_ident items x = PPathTo n /\ resolve_pattern_ident (fun _ => None) x = PBinding x.
Proof. intros items x n H. unfold resolve_pattern_ident. rewrite H. split; reflexivity. Qed.

(* a `__` binder keeps its meaning in every scope whose unit items are not `__`-prefixed *)
Lemma dunder_binder_scope_independent :
  forall (items1 items2 : string -> option N) x,
    starts_dunder x = true ->
    (forall y, starts_dunder y = true -> items1 y = None) ->
    (forall y, starts_dunder y = true -> items2 y = None) ->
    resolve_pattern_ident items1 x = resolve_pattern_ident items2 x.
Proof.
  intros i1 i2 x Hx H1 H2. unfold resolve_pattern_ident. rewrite (H1 x Hx), (H2 x Hx). reflexivity.
Qed.
