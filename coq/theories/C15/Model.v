(* C15 - expansions depend on no name from the caller's scope (macro hygiene by full paths).

   Executable model, no proofs.  Three parts:

   1. the token-tree language of `quote!` templates (`ttok`, `template`); the list of ALL templates of
      /repo/impl/src is regenerated into Gen/Templates.v by tools/lib/c15_templates.py on every run;
   2. the syntactic head-position classifier `head_idents` (which identifier tokens of a template are resolved
      by rustc in the scope of the *caller* of the derive), the binders a template introduces itself, and the
      closedness predicate `allowed_head` / `offenders`;
   3. a small name-resolution semantics `resolve : scope -> head -> option item`, used to state that a closed
      template cannot observe the prelude nor any item of the caller that is not called `derive_more` or like a
      primitive type.

   The classifier mirrors no Rust function of derive_more: it is a model of *rustc's* treatment of the emitted
   tokens (which identifiers are looked up in lexical scope).  It is validated against rustc on every run by
   tools/props/c15.py (hostile corpus compiled with the real macro). *)
From Coq Require Import List String Ascii Bool Arith NArith.
Import ListNotations.
Open Scope string_scope.
Open Scope list_scope.

(* ------------------------------------------------------------------ 1. templates *)

Inductive delim := Paren | Bracket | Brace.

Inductive ttok :=
| TId (name : string)            (* identifier or keyword; lifetimes are TPunct "'" followed by TId *)
| TPunct (s : string)            (* operator; `::` `->` `=>` `==` `!=` `<=` `>=` `&&` `||` `..` `...` `..=` `op=` joined *)
| TLit                           (* any literal *)
| TInterp (name : string)        (* #name *)
| TRep (body : list ttok)        (* #( body sep )*   (the separator is the last token of body) *)
| TGroup (d : delim) (body : list ttok).

Record template := {
  t_file : string;               (* path below impl/src *)
  t_fn : string;                 (* enclosing Rust function *)
  t_index : nat;                 (* running index inside the file *)
  t_line : nat;
  t_tokens : list ttok }.

(* flat view with explicit brackets: the classifier is a left-to-right automaton with a frame stack *)
Inductive ftok :=
| FId (s : string) | FPunct (s : string) | FLit | FInterp (s : string)
| FOpen (d : delim) | FClose (d : delim) | FRepOpen | FRepClose.

Fixpoint flatten_tok (t : ttok) : list ftok :=
  match t with
  | TId s => [FId s]
  | TPunct s => [FPunct s]
  | TLit => [FLit]
  | TInterp s => [FInterp s]
  | TRep b => FRepOpen :: (fix fl (l : list ttok) : list ftok :=
                             match l with [] => [] | x :: r => flatten_tok x ++ fl r end) b ++ [FRepClose]
  | TGroup d b => FOpen d :: (fix fl (l : list ttok) : list ftok :=
                                match l with [] => [] | x :: r => flatten_tok x ++ fl r end) b ++ [FClose d]
  end.

Definition flatten (l : list ttok) : list ftok := flat_map flatten_tok l.

(* ------------------------------------------------------------------ 2. head positions *)

Definition mem (x : string) (l : list string) : bool := existsb (String.eqb x) l.

(* the language itself: strict, reserved and weak keywords of every edition, and `_`.
   (`crate`, `super`, `self` are keywords too, but as path roots they name the CALLER's modules: see below) *)
Definition keywords : list string :=
  ["as"; "break"; "const"; "continue"; "crate"; "else"; "enum"; "extern"; "false"; "fn"; "for"; "if"; "impl";
   "in"; "let"; "loop"; "match"; "mod"; "move"; "mut"; "pub"; "ref"; "return"; "self"; "Self"; "static";
   "struct"; "super"; "trait"; "true"; "type"; "unsafe"; "use"; "where"; "while"; "async"; "await"; "dyn";
   "abstract"; "become"; "box"; "do"; "final"; "macro"; "override"; "priv"; "typeof"; "unsized"; "virtual";
   "yield"; "try"; "gen"; "union"; "_"].

(* primitive types = the *language* prelude: present under #[no_implicit_prelude] and #![no_std]; see the
   note on primitives in tools/props/c15.py (they are looked up after user items, so a user item literally called
   `bool` would shadow them; the property text does not ask for that and the check only measures it). *)
Definition primitives : list string :=
  ["bool"; "char"; "str"; "u8"; "u16"; "u32"; "u64"; "u128"; "usize"; "i8"; "i16"; "i32"; "i64"; "i128";
   "isize"; "f32"; "f64"].

(* built-in attributes: not looked up as paths in the caller's scope *)
Definition builtin_attrs : list string :=
  ["inline"; "allow"; "warn"; "deny"; "forbid"; "expect"; "doc"; "automatically_derived"; "must_use";
   "track_caller"; "cold"; "deprecated"; "cfg"; "repr"; "non_exhaustive"].

(* a name that, by Rust's naming convention, denotes a local binding / function / module (first character a
   lower-case letter or `_`), as opposed to a type, trait, variant or constant *)
Definition local_like (s : string) : bool :=
  match s with
  | EmptyString => false
  | String c _ => let n := nat_of_ascii c in ((97 <=? n)%nat && (n <=? 122)%nat) || (n =? 95)%nat
  end.

Inductive hkind :=
| HPlain    (* x            : value / type / pattern position *)
| HRoot     (* x ::         : first segment of a relative path *)
| HMacro    (* x !          : macro invocation *)
| HExtern   (* :: x         : crate name of a global path *)
| HAttr.    (* #[x ...]     : attribute that is not built in *)

Record head := { h_name : string; h_kind : hkind }.

Definition show_head (h : head) : string :=
  match h_kind h with
  | HPlain | HRoot => h_name h
  | HMacro => (h_name h ++ "!")%string
  | HExtern => ("::" ++ h_name h)%string
  | HAttr => ("#[" ++ h_name h ++ "]")%string
  end.

Inductive event := EHead (h : head) | EBind (x : string) | EMethod (x : string).

Inductive fkind :=
| KTop | KParen | KBracket | KBrace
| KParams            (* parameter list of a fn *)
| KMacro             (* arguments of a macro invocation: arbitrary tokens, read as expressions (conservative) *)
| KOpaque            (* arguments of stringify!: never resolved *)
| KAttr | KAttrInner (* #[..] and groups inside *)
| KMatch             (* body of a match *)
| KPat | KPatBrace.  (* groups inside a pattern *)

Record frame := { f_kind : fkind; f_angle : nat; f_gen : nat; f_match : bool; f_pat : bool }.
(* f_angle: nesting of `<` `>` since the frame was opened / the last `;`
   f_gen  : >0 inside the generic-parameter *declaration* list of `fn name<..>` / `impl<..>`
   f_match: `match` seen in this frame, its body not yet opened
   f_pat  : the tokens of this frame are currently a pattern (match arm before `=>`/`if`, `let` before `=`/`:`,
            and every group opened inside a pattern) *)

Record state := {
  s_prev : ftok; s_prev2 : ftok;
  s_cur : frame; s_stack : list frame;
  s_use : bool;          (* between `use` and `;` *)
  s_where : bool;        (* between `where` and the next `{` / `;` *)
  s_fn : bool }.         (* after `fn`, before its parameter list *)

Definition START : ftok := FPunct "".

Definition new_frame (k : fkind) (pat : bool) : frame :=
  {| f_kind := k; f_angle := 0; f_gen := 0; f_match := false; f_pat := pat |}.

Definition init_state : state :=
  {| s_prev := START; s_prev2 := START; s_cur := new_frame KTop false;
     s_stack := []; s_use := false; s_where := false; s_fn := false |}.

Definition is_p (t : ftok) (s : string) : bool := match t with FPunct p => String.eqb p s | _ => false end.
Definition is_id (t : ftok) (s : string) : bool := match t with FId p => String.eqb p s | _ => false end.
Definition is_open (t : ftok) (d : delim) : bool :=
  match t, d with
  | FOpen Paren, Paren | FOpen Bracket, Bracket | FOpen Brace, Brace => true
  | _, _ => false
  end.
Definition is_any_open (t : ftok) : bool := match t with FOpen _ => true | _ => false end.
Definition is_any_id (t : ftok) : bool := match t with FId _ => true | _ => false end.
Definition opt_tok (o : option ftok) : ftok := match o with Some t => t | None => FPunct "" end.

Definition fkind_eqb (a b : fkind) : bool :=
  match a, b with
  | KTop, KTop | KParen, KParen | KBracket, KBracket | KBrace, KBrace | KParams, KParams | KMacro, KMacro
  | KOpaque, KOpaque | KAttr, KAttr | KAttrInner, KAttrInner | KMatch, KMatch | KPat, KPat
  | KPatBrace, KPatBrace => true
  | _, _ => false
  end.

(* does the token before a `::` make that `::` a path continuation (as opposed to a leading, global `::`)? *)
Definition path_continues (pp : ftok) : bool :=
  match pp with
  | FId y => negb (mem y keywords) || mem y ["self"; "Self"; "super"; "crate"]
  | FInterp _ => true
  | FPunct p => String.eqb p ">"
  | _ => false
  end.

Definition decl_kw_bind : list string := ["struct"; "enum"; "union"; "trait"; "mod"; "static"].
Definition decl_kw_nobind : list string := ["fn"; "type"].

(* what one identifier token contributes *)
Definition classify_id (st : state) (x : string) (nx : ftok) : list event :=
  let p := s_prev st in
  let pp := s_prev2 st in
  let k := f_kind (s_cur st) in
  let mk kd := [EHead {| h_name := x; h_kind := kd |}] in
  if fkind_eqb k KOpaque then []
  else if fkind_eqb k KAttr || fkind_eqb k KAttrInner then
    (* attributes: the attribute name must be built in; inside, only macro invocations are resolved in scope
       (lint names, `doc = ".."`, cfg predicates are not paths) *)
    if fkind_eqb k KAttr && is_open p Bracket then (if mem x builtin_attrs then [] else mk HAttr)
    else if is_p nx "!" then mk HMacro else []
  else if is_p p "." then
    (if is_open nx Paren || is_p nx "::" then [EMethod x] else [])
  else if is_p p "'" then []                                            (* lifetime / label *)
  else if is_p p "::" then
    (if s_use st && (is_p nx ";" || is_id nx "as") && path_continues pp then
       (if is_p nx ";" then [EBind x] else [])                          (* `use a::b::X;` brings X into scope *)
     else if path_continues pp then []                                  (* path tail *)
     else mk HExtern)                                                   (* `::x` : crate name *)
  else if mem x keywords then
    (* keywords are the language; but `crate::`, `super::`, `self::` name the caller's modules *)
    (if is_p nx "::" && mem x ["crate"; "super"; "self"] then mk HRoot else [])
  else if f_pat (s_cur st) then
    (* pattern position: constructors and paths are looked up, local-like identifiers are bindings *)
    if is_p nx "::" then mk HRoot
    else if is_p nx "!" then mk HMacro
    else if is_any_open nx && negb (is_open nx Bracket) then mk HPlain           (* Variant(..) / Struct { .. } *)
    else if is_p nx ":" && fkind_eqb k KPatBrace && (is_open p Brace || is_p p ",") then []   (* field: pattern *)
    else if is_p nx "@" then [EBind x]
    else if local_like x then [EBind x]
    else mk HPlain                                                      (* unit variant / constant *)
  else if s_use st && is_id p "as" then [EBind x]                       (* use .. as x *)
  else if existsb (is_id p) decl_kw_nobind then []                      (* fn x / type X : declaration *)
  else if existsb (is_id p) decl_kw_bind then [EBind x]                 (* item declared in the template *)
  else if is_id p "mut" && is_id pp "static" then [EBind x]
  else if is_id p "const" && negb (is_p pp "*") then [EBind x]          (* const X: T = ..  (not `*const T`) *)
  else if is_id p "ref" then [EBind x]
  else if is_id p "mut" && is_id pp "ref" then [EBind x]
  else if is_p nx "@" then [EBind x]                                    (* x @ pattern *)
  else if is_p nx "=>" && local_like x &&
          (is_p p "" || is_open p Brace || is_p p "," || is_p p "|") then [EBind x]   (* match arm `x => ..` *)
  else if is_p nx ":" && fkind_eqb k KParams &&
          (is_open p Paren || is_p p "," ||
           (is_id p "mut" && (is_open pp Paren || is_p pp ","))) then [EBind x]     (* fn parameter *)
  else if is_p nx ":" && fkind_eqb k KBrace && negb (s_where st) &&
          (is_open p Brace || is_p p ",") then []                       (* field name in a struct expr/decl *)
  else if (f_gen (s_cur st) =? 1)%nat && (is_p p "<" || is_p p ",") &&
          (is_p nx ":" || is_p nx "," || is_p nx ">" || is_p nx "=") then [EBind x]  (* generic parameter decl *)
  else if is_p nx "=" && (is_p p "<" || is_p p ",") &&
          ((0 <? f_angle (s_cur st))%nat || fkind_eqb k KMacro) then [] (* `Item = T` in generic args / named fmt arg *)
  else if is_p nx "::" then mk HRoot
  else if is_p nx "!" then mk HMacro
  else mk HPlain.

Definition open_kind (st : state) (d : delim) : fkind :=
  let p := s_prev st in
  let pp := s_prev2 st in
  let cur := s_cur st in
  let k := f_kind cur in
  if fkind_eqb k KOpaque then KOpaque
  else if fkind_eqb k KAttr || fkind_eqb k KAttrInner then
    (if is_p p "!" && is_id pp "stringify" then KOpaque
     else if is_p p "!" && is_any_id pp then KMacro else KAttrInner)
  else if is_open (FOpen d) Bracket && (is_p p "#" || (is_p p "!" && is_p pp "#")) then KAttr
  else if is_p p "!" && is_id pp "stringify" then KOpaque
  else if is_p p "!" && is_any_id pp then KMacro
  else if f_pat cur then (match d with Brace => KPatBrace | _ => KPat end)
  else if is_open (FOpen d) Brace && f_match cur then KMatch
  else if is_open (FOpen d) Paren && s_fn st then KParams
  else match d with Paren => KParen | Bracket => KBracket | Brace => KBrace end.

Definition set_cur (st : state) (f : frame) : state :=
  {| s_prev := s_prev st; s_prev2 := s_prev2 st; s_cur := f; s_stack := s_stack st;
     s_use := s_use st; s_where := s_where st; s_fn := s_fn st |}.

Definition with_pat (f : frame) (b : bool) : frame :=
  {| f_kind := f_kind f; f_angle := f_angle f; f_gen := f_gen f; f_match := f_match f; f_pat := b |}.

Definition is_pat_kind (k : fkind) : bool :=
  fkind_eqb k KPat || fkind_eqb k KPatBrace.

(* state after a token (before shifting prev) *)
Definition advance (st : state) (t : ftok) : state :=
  let cur := s_cur st in
  let k := f_kind cur in
  match t with
  | FOpen d =>
      let nk := open_kind st d in
      (* the frame we return to: a match body consumes the pending `match`; the block of an arm `=> { .. }` ends
         the arm, so the match body is back in pattern position afterwards *)
      let back :=
        {| f_kind := k; f_angle := f_angle cur; f_gen := f_gen cur;
           f_match := (if fkind_eqb nk KMatch then false else f_match cur);
           f_pat := (if fkind_eqb k KMatch && is_p (s_prev st) "=>" && is_open (FOpen d) Brace then true
                     else f_pat cur) |} in
      {| s_prev := s_prev st; s_prev2 := s_prev2 st;
         s_cur := new_frame nk (fkind_eqb nk KMatch || is_pat_kind nk); s_stack := back :: s_stack st;
         s_use := s_use st;
         s_where := (match d with Brace => false | _ => s_where st end);
         s_fn := (match d with Paren => false | _ => s_fn st end) |}
  | FClose _ =>
      match s_stack st with
      | f :: r => {| s_prev := s_prev st; s_prev2 := s_prev2 st; s_cur := f; s_stack := r;
                     s_use := s_use st; s_where := s_where st; s_fn := s_fn st |}
      | [] => st
      end
  | FPunct s =>
      if String.eqb s "<" then
        let g := if (0 <? f_gen cur)%nat then S (f_gen cur)
                 else if is_id (s_prev st) "impl" || (s_fn st && is_id (s_prev2 st) "fn") then 1 else 0 in
        set_cur st {| f_kind := k; f_angle := S (f_angle cur); f_gen := g; f_match := f_match cur; f_pat := f_pat cur |}
      else if String.eqb s ">" then
        set_cur st {| f_kind := k; f_angle := pred (f_angle cur); f_gen := pred (f_gen cur);
                      f_match := f_match cur; f_pat := f_pat cur |}
      else if String.eqb s ";" then
        {| s_prev := s_prev st; s_prev2 := s_prev2 st;
           s_cur := {| f_kind := k; f_angle := 0; f_gen := 0; f_match := false;
                       f_pat := (if is_pat_kind k || fkind_eqb k KMatch then f_pat cur else false) |};
           s_stack := s_stack st;
           s_use := false; s_where := false; s_fn := s_fn st |}
      else if String.eqb s "=>" then
        (if fkind_eqb k KMatch then set_cur st (with_pat cur false) else st)
      else if String.eqb s "," then
        (if fkind_eqb k KMatch then set_cur st (with_pat cur true) else st)
      else if String.eqb s "=" && fkind_eqb k KAttr then
        (* #[name = EXPR]: the value is an ordinary expression (e.g. a macro invocation with a path) *)
        set_cur st {| f_kind := KBracket; f_angle := 0; f_gen := 0; f_match := false; f_pat := false |}
      else if String.eqb s "=" || String.eqb s ":" then
        (* end of a `let` pattern *)
        (if f_pat cur && negb (is_pat_kind k) && negb (fkind_eqb k KMatch) then set_cur st (with_pat cur false) else st)
      else st
  | FId s =>
      if negb (is_p (s_prev st) "::" || is_p (s_prev st) "." || is_p (s_prev st) "'") then
        if String.eqb s "use" then
          {| s_prev := s_prev st; s_prev2 := s_prev2 st; s_cur := cur; s_stack := s_stack st;
             s_use := true; s_where := s_where st; s_fn := s_fn st |}
        else if String.eqb s "where" then
          {| s_prev := s_prev st; s_prev2 := s_prev2 st; s_cur := cur; s_stack := s_stack st;
             s_use := s_use st; s_where := true; s_fn := s_fn st |}
        else if String.eqb s "fn" then
          {| s_prev := s_prev st; s_prev2 := s_prev2 st; s_cur := cur; s_stack := s_stack st;
             s_use := s_use st; s_where := s_where st; s_fn := true |}
        else if String.eqb s "match" then
          set_cur st {| f_kind := k; f_angle := f_angle cur; f_gen := f_gen cur; f_match := true; f_pat := f_pat cur |}
        else if String.eqb s "let" then
          (if is_pat_kind k || fkind_eqb k KMatch || fkind_eqb k KOpaque || fkind_eqb k KAttr || fkind_eqb k KAttrInner
           then st else set_cur st (with_pat cur true))
        else if String.eqb s "if" then
          (if fkind_eqb k KMatch then set_cur st (with_pat cur false) else st)    (* arm guard *)
        else st
      else st
  | _ => st
  end.

Definition shift (st : state) (t : ftok) : state :=
  {| s_prev := t; s_prev2 := s_prev st; s_cur := s_cur st; s_stack := s_stack st;
     s_use := s_use st; s_where := s_where st; s_fn := s_fn st |}.

Definition step (st : state) (t : ftok) (nx : ftok) : state * list event :=
  let ev := match t with FId x => classify_id st x nx | _ => [] end in
  (shift (advance st t) t, ev).

Fixpoint run (st : state) (l : list ftok) : list event :=
  match l with
  | [] => []
  | t :: r => let '(st', ev) := step st t (opt_tok (hd_error r)) in ev ++ run st' r
  end.

Definition events (t : template) : list event := run init_state (flatten (t_tokens t)).

Definition head_idents (t : template) : list head :=
  flat_map (fun e => match e with EHead h => [h] | _ => [] end) (events t).

Definition method_idents (t : template) : list string :=
  flat_map (fun e => match e with EMethod x => [x] | _ => [] end) (events t).

(* names a template binds itself (let, fn/closure parameters, match-arm bindings, generic parameters, items and
   `use` declarations of the template); flat, i.e. without block structure *)
Definition binders (t : template) : list string :=
  flat_map (fun e => match e with EBind x => [x] | _ => [] end) (events t).

(* a template that consists of one local-like identifier is a *name* (same role as format_ident!): it is spliced
   both as the binder of a pattern and as its uses (error.rs `source`, `backtrace`; as/mod.rs `__AsT`) *)
Definition name_template (t : template) : list string :=
  match t_tokens t with
  | [TId x] => if local_like x && negb (mem x keywords) then [x] else []
  | _ => []
  end.

(* the binders of ALL templates: a local-like identifier that is free in its own template is taken to be bound by
   the template it is spliced into (fn parameter `rhs`, `src`, `value`, `__derive_more_f`, ..) *)
Definition global_binders (ts : list template) : list string :=
  flat_map (fun t => binders t ++ name_template t) ts.

(* No list of "good" std names: a head identifier is closed iff it is
   - a primitive type (language prelude),
   - bound by the template itself,
   - a local-like name bound by some template of the crate (never as a path root or macro),
   - the path roots `Self`, `derive_more`, or a generic parameter of the template,
   - the crate name `::derive_more`.
   Keywords never become heads (except `crate::`/`super::`/`self::`, which are never closed);
   interpolations are not identifiers at all. *)
Definition allowed_head (gb lb : list string) (h : head) : bool :=
  let x := h_name h in
  match h_kind h with
  | HPlain => mem x primitives || mem x lb || (local_like x && mem x gb)
  | HRoot => String.eqb x "Self" || String.eqb x "derive_more" || (mem x lb && negb (mem x keywords))
  | HExtern => String.eqb x "derive_more"
  | HMacro => false
  | HAttr => false
  end.

Definition closed (gb : list string) (t : template) : bool :=
  forallb (allowed_head gb (binders t)) (head_idents t).

Definition offender := (string * string * string)%type.      (* file, fn, shown head *)

Definition offenders_of (gb : list string) (t : template) : list offender :=
  map (fun h => (t_file t, t_fn t, show_head h))
      (filter (fun h => negb (allowed_head gb (binders t) h)) (head_idents t)).

Definition offenders (ts : list template) : list offender :=
  flat_map (offenders_of (global_binders ts)) ts.

Definition key (o : offender) : string :=
  match o with (f, _, n) => (f ++ ":" ++ n)%string end.

(* One key per file + name; mirrors the C15 entries of /verif/KNOWN_FINDINGS.json (only the nightly `provide()` path,
   which names `::std::backtrace::Backtrace`).  The bare Ok/Err (from_str.rs), Option/Some/None (error.rs), panic!
   (unwrap.rs), stringify! (try_unwrap.rs, is_variant.rs) were qualified in /repo commit afa82ab: any of them coming
   back, or any NEW bare name in any template, is outside this list and breaks C15_closed_modulo_known. *)
Definition known_offender_keys : list string :=
  [ "error.rs:::std" ].

(* local-like free names that are closed only through `global_binders` (the splice assumption) *)
Definition open_locals (lb : list string) (hs : list head) : list string :=
  flat_map (fun h => match h_kind h with
                     | HPlain => if mem (h_name h) primitives || mem (h_name h) lb then [] else [h_name h]
                     | _ => []
                     end) hs.

(* format_ident!("..") / Ident::new("..") / Lifetime::new("..") literals: a manufactured identifier either starts
   with a placeholder (the derive's trait / method name or the user's own identifier), or is local-like, or is a
   lifetime - never a capitalised (type / trait / variant like) name that could stand for a prelude item *)
Definition fmt_ident_ok (s : string) : bool :=
  match s with
  | EmptyString => false
  | String c _ => local_like s || (nat_of_ascii c =? 123)%nat || (nat_of_ascii c =? 39)%nat
  end.

(* ------------------------------------------------------------------ 3. name resolution *)

Inductive item :=
| ILang (x : string)          (* keyword-like / primitive type *)
| ILocal (x : string)         (* binding or generic parameter *)
| IUser (n : N)               (* item or import of the caller's module (incl. everything it shadows) *)
| IExtern (n : N)             (* crate of the extern prelude *)
| IPrelude (n : N).           (* item of the std/core prelude (absent under no_implicit_prelude) *)

Inductive ns := NsTypeValue | NsMacro.

Record scope := {
  sc_locals : list string;
  sc_user : ns -> string -> option N;
  sc_extern : string -> option N;
  sc_prelude : ns -> string -> option N }.

Definition first_some {A} (a b : option A) : option A := match a with Some _ => a | None => b end.

(* rustc's lookup order for the first segment of a path: local bindings and generic parameters, items of the
   enclosing modules, extern prelude, std prelude, language prelude *)
Definition resolve (lb : list string) (sc : scope) (h : head) : option item :=
  let x := h_name h in
  match h_kind h with
  | HExtern => option_map IExtern (sc_extern sc x)
  | HMacro | HAttr =>
      first_some (option_map IUser (sc_user sc NsMacro x)) (option_map IPrelude (sc_prelude sc NsMacro x))
  | HPlain | HRoot =>
      if String.eqb x "Self" then Some (ILang x)
      else if mem x lb || mem x (sc_locals sc) then Some (ILocal x)
      else first_some (option_map IUser (sc_user sc NsTypeValue x))
           (first_some (option_map IExtern (sc_extern sc x))
           (first_some (option_map IPrelude (sc_prelude sc NsTypeValue x))
                       (if mem x primitives then Some (ILang x) else None)))
  end.

(* names whose meaning the caller must not change: the crate path root and the primitive types *)
Definition reserved (x : string) : bool := mem x primitives || String.eqb x "derive_more".

(* two scopes that agree except on the prelude and on the user items called by the names in [H] *)
Definition agree_on_nonprelude (H : string -> bool) (sc1 sc2 : scope) : Prop :=
  sc_locals sc1 = sc_locals sc2 /\
  (forall x, sc_extern sc1 x = sc_extern sc2 x) /\
  (forall n x, H x = false -> sc_user sc1 n x = sc_user sc2 n x).

(* no std/core prelude defines `derive_more` or a primitive type name *)
Definition prelude_wf (sc : scope) : Prop :=
  forall n x, reserved x = true -> sc_prelude sc n x = None.
