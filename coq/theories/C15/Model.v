(* C15 - expansions depend on no name from the caller's scope (macro hygiene by full paths).

   Executable model, no proofs.  Three parts:

   1. the token-tree language of `quote!` templates (`ttok`, `template`); the list of ALL templates of
      /repo/impl/src is regenerated into Gen/Templates.v by tools/lib/c15_templates.py on every run;
   2. the syntactic head-position classifier `head_idents` (which identifier tokens of a template are resolved
      by rustc in the scope of the *caller* of the derive), the binders a template introduces itself, and the
      closedness predicate `allowed_head` / `offenders`;
   3. a small name-resolution semantics `resolve : scope -> head -> option item`, used to state that a closed
      template cannot observe the prelude nor any item of the caller that is not called `derive_more` or like a
      primitive type.

   The classifier mirrors no Rust function of derive_more: it is a model of *rustc's* treatment of the emitted
   tokens (which identifiers are looked up in lexical scope).  It is validated against rustc on every run by
   tools/props/c15.py (hostile corpus compiled with the real macro). *)
From Coq Require Import List String Ascii Bool Arith NArith.
Import ListNotations.
Open Scope string_scope.
Open Scope list_scope.

(* ------------------------------------------------------------------ 1. templates *)

Inductive delim := Paren | Bracket | Brace.

Inductive ttok :=
| TId (name : string)            (* identifier or keyword; lifetimes are TPunct "'" followed by TId *)
| TPunct (s : string)            (* operator; `::` `->` `=>` `==` `!=` `<=` `>=` `&&` `||` `..` `...` `..=` `op=` joined *)
| TLit                           (* any literal *)
| TInterp (name : string)        (* #name *)
| TRep (body : list ttok)        (* #( body sep )*   (the separator is the last token of body) *)
| TGroup (d : delim) (body : list ttok).

Record template := {
  t_file : string;               (* path below impl/src *)
  t_fn : string;                 (* enclosing Rust function *)
  t_index : nat;                 (* running index inside the file *)
  t_line : nat;
  t_var : string;                (* the Rust variable the template is bound to (`let x = quote!..`, `x: quote!..`), "" if none *)
  t_tokens : list ttok }.

(* flat view with explicit brackets: the classifier is a left-to-right automaton with a frame stack *)
Inductive ftok :=
| FId (s : string) | FPunct (s : string) | FLit | FInterp (s : string)
| FOpen (d : delim) | FClose (d : delim) | FRepOpen | FRepClose.

Fixpoint flatten_tok (t : ttok) : list ftok :=
  match t with
  | TId s => [FId s]
  | TPunct s => [FPunct s]
  | TLit => [FLit]
  | TInterp s => [FInterp s]
  | TRep b => FRepOpen :: (fix fl (l : list ttok) : list ftok :=
                             match l with [] => [] | x :: r => flatten_tok x ++ fl r end) b ++ [FRepClose]
  | TGroup d b => FOpen d :: (fix fl (l : list ttok) : list ftok :=
                                match l with [] => [] | x :: r => flatten_tok x ++ fl r end) b ++ [FClose d]
  end.

Definition flatten (l : list ttok) : list ftok := flat_map flatten_tok l.

(* ------------------------------------------------------------------ 2. head positions *)

Definition mem (x : string) (l : list string) : bool := existsb (String.eqb x) l.

(* the language itself: strict, reserved and weak keywords of every edition, and `_`.
   (`crate`, `super`, `self` are keywords too, but as path roots they name the CALLER's modules: see below) *)
Definition keywords : list string :=
  ["as"; "break"; "const"; "continue"; "crate"; "else"; "enum"; "extern"; "false"; "fn"; "for"; "if"; "impl";
   "in"; "let"; "loop"; "match"; "mod"; "move"; "mut"; "pub"; "ref"; "return"; "self"; "Self"; "static";
   "struct"; "super"; "trait"; "true"; "type"; "unsafe"; "use"; "where"; "while"; "async"; "await"; "dyn";
   "abstract"; "become"; "box"; "do"; "final"; "macro"; "override"; "priv"; "typeof"; "unsized"; "virtual";
   "yield"; "try"; "gen"; "union"; "_"].

(* primitive types = the *language* prelude: present under #[no_implicit_prelude] and #![no_std]; see the
   note on primitives in tools/props/c15.py (they are looked up after user items, so a user item literally called
   `bool` would shadow them; the property text does not ask for that and the check only measures it). *)
Definition primitives : list string :=
  ["bool"; "char"; "str"; "u8"; "u16"; "u32"; "u64"; "u128"; "usize"; "i8"; "i16"; "i32"; "i64"; "i128";
   "isize"; "f32"; "f64"].

(* built-in attributes: not looked up as paths in the caller's scope *)
Definition builtin_attrs : list string :=
  ["inline"; "allow"; "warn"; "deny"; "forbid"; "expect"; "doc"; "automatically_derived"; "must_use";
   "track_caller"; "cold"; "deprecated"; "cfg"; "repr"; "non_exhaustive"].

(* a name that, by Rust's naming convention, denotes a local binding / function / module (first character a
   lower-case letter or `_`), as opposed to a type, trait, variant or constant *)
Definition local_like (s : string) : bool :=
  match s with
  | EmptyString => false
  | String c _ => let n := nat_of_ascii c in ((97 <=? n)%nat && (n <=? 122)%nat) || (n =? 95)%nat
  end.

Inductive hkind :=
| HPlain    (* x            : value / type / pattern position *)
| HRoot     (* x ::         : first segment of a relative path *)
| HMacro    (* x !          : macro invocation *)
| HExtern   (* :: x         : crate name of a global path *)
| HAttr.    (* #[x ...]     : attribute that is not built in *)

Record head := { h_name : string; h_kind : hkind }.

Definition show_head (h : head) : string :=
  match h_kind h with
  | HPlain | HRoot => h_name h
  | HMacro => (h_name h ++ "!")%string
  | HExtern => ("::" ++ h_name h)%string
  | HAttr => ("#[" ++ h_name h ++ "]")%string
  end.

Inductive event := EHead (h : head) | EBind (x : string) | EMethod (x : string)
                 | EGen (x : string)    (* generic parameter declared by the template; lifetimes as "'a" *)
                 | EPat (x : string).   (* identifier introduced in PATTERN position: fn parameter, let, match-arm binding *)

Inductive fkind :=
| KTop | KParen | KBracket | KBrace
| KParams            (* parameter list of a fn *)
| KMacro             (* arguments of a macro invocation: arbitrary tokens, read as expressions (conservative) *)
| KOpaque            (* arguments of stringify!: never resolved *)
| KAttr | KAttrInner (* #[..] and groups inside *)
| KMatch             (* body of a match *)
| KPat | KPatBrace.  (* groups inside a pattern *)

Record frame := { f_kind : fkind; f_angle : nat; f_gen : nat; f_match : bool; f_pat : bool }.
(* f_angle: nesting of `<` `>` since the frame was opened / the last `;`
   f_gen  : >0 inside the generic-parameter *declaration* list of `fn name<..>` / `impl<..>`
   f_match: `match` seen in this frame, its body not yet opened
   f_pat  : the tokens of this frame are currently a pattern (match arm before `=>`/`if`, `let` before `=`/`:`,
            and every group opened inside a pattern) *)

Record state := {
  s_prev : ftok; s_prev2 : ftok;
  s_cur : frame; s_stack : list frame;
  s_use : bool;          (* between `use` and `;` *)
  s_where : bool;        (* between `where` and the next `{` / `;` *)
  s_fn : bool }.         (* after `fn`, before its parameter list *)

Definition START : ftok := FPunct "".

Definition new_frame (k : fkind) (pat : bool) : frame :=
  {| f_kind := k; f_angle := 0; f_gen := 0; f_match := false; f_pat := pat |}.

Definition init_state : state :=
  {| s_prev := START; s_prev2 := START; s_cur := new_frame KTop false;
     s_stack := []; s_use := false; s_where := false; s_fn := false |}.

Definition is_p (t : ftok) (s : string) : bool := match t with FPunct p => String.eqb p s | _ => false end.
Definition is_id (t : ftok) (s : string) : bool := match t with FId p => String.eqb p s | _ => false end.
Definition is_open (t : ftok) (d : delim) : bool :=
  match t, d with
  | FOpen Paren, Paren | FOpen Bracket, Bracket | FOpen Brace, Brace => true
  | _, _ => false
  end.
Definition is_any_open (t : ftok) : bool := match t with FOpen _ => true | _ => false end.
Definition is_any_id (t : ftok) : bool := match t with FId _ => true | _ => false end.
Definition opt_tok (o : option ftok) : ftok := match o with Some t => t | None => FPunct "" end.

Definition fkind_eqb (a b : fkind) : bool :=
  match a, b with
  | KTop, KTop | KParen, KParen | KBracket, KBracket | KBrace, KBrace | KParams, KParams | KMacro, KMacro
  | KOpaque, KOpaque | KAttr, KAttr | KAttrInner, KAttrInner | KMatch, KMatch | KPat, KPat
  | KPatBrace, KPatBrace => true
  | _, _ => false
  end.

(* does the token before a `::` make that `::` a path continuation (as opposed to a leading, global `::`)? *)
Definition path_continues (pp : ftok) : bool :=
  match pp with
  | FId y => negb (mem y keywords) || mem y ["self"; "Self"; "super"; "crate"]
  | FInterp _ => true
  | FPunct p => String.eqb p ">"
  | _ => false
  end.

Definition decl_kw_bind : list string := ["struct"; "enum"; "union"; "trait"; "mod"; "static"].
Definition decl_kw_nobind : list string := ["fn"; "type"].

(* what one identifier token contributes *)
Definition classify_id (st : state) (x : string) (nx : ftok) : list event :=
  let p := s_prev st in
  let pp := s_prev2 st in
  let k := f_kind (s_cur st) in
  let mk kd := [EHead {| h_name := x; h_kind := kd |}] in
  if fkind_eqb k KOpaque then []
  else if fkind_eqb k KAttr || fkind_eqb k KAttrInner then
    (* attributes: the attribute name must be built in; inside, only macro invocations are resolved in scope
       (lint names, `doc = ".."`, cfg predicates are not paths) *)
    if fkind_eqb k KAttr && is_open p Bracket then (if mem x builtin_attrs then [] else mk HAttr)
    else if is_p nx "!" then mk HMacro else []
  else if is_p p "." then
    (if is_open nx Paren || is_p nx "::" then [EMethod x] else [])
  else if is_p p "'" then                                               (* lifetime / label *)
    (if (f_gen (s_cur st) =? 1)%nat && (is_p pp "<" || is_p pp ",") then [EGen ("'" ++ x)%string] else [])
  else if is_p p "::" then
    (if s_use st && (is_p nx ";" || is_id nx "as") && path_continues pp then
       (if is_p nx ";" then [EBind x] else [])                          (* `use a::b::X;` brings X into scope *)
     else if path_continues pp then []                                  (* path tail *)
     else mk HExtern)                                                   (* `::x` : crate name *)
  else if mem x keywords then
    (* keywords are the language; but `crate::`, `super::`, `self::` name the caller's modules *)
    (if is_p nx "::" && mem x ["crate"; "super"; "self"] then mk HRoot else [])
  else if f_pat (s_cur st) then
    (* pattern position: constructors and paths are looked up, local-like identifiers are bindings *)
    if is_p nx "::" then mk HRoot
    else if is_p nx "!" then mk HMacro
    else if is_any_open nx && negb (is_open nx Bracket) then mk HPlain           (* Variant(..) / Struct { .. } *)
    else if is_p nx ":" && fkind_eqb k KPatBrace && (is_open p Brace || is_p p ",") then []   (* field: pattern *)
    else if is_p nx "@" then [EBind x; EPat x]
    else if local_like x then [EBind x; EPat x]
    else mk HPlain                                                      (* unit variant / constant *)
  else if s_use st && is_id p "as" then [EBind x]                       (* use .. as x *)
  else if existsb (is_id p) decl_kw_nobind then []                      (* fn x / type X : declaration *)
  else if existsb (is_id p) decl_kw_bind then [EBind x]                 (* item declared in the template *)
  else if is_id p "mut" && is_id pp "static" then [EBind x]
  else if is_id p "const" && negb (is_p pp "*") then [EBind x]          (* const X: T = ..  (not `*const T`) *)
  else if is_id p "ref" then [EBind x; EPat x]
  else if is_id p "mut" && is_id pp "ref" then [EBind x; EPat x]
  else if is_p nx "@" then [EBind x; EPat x]                            (* x @ pattern *)
  else if is_p nx "=>" && local_like x &&
          (is_p p "" || is_open p Brace || is_p p "," || is_p p "|") then [EBind x; EPat x]   (* match arm `x => ..` *)
  else if is_p nx ":" && fkind_eqb k KParams &&
          (is_open p Paren || is_p p "," ||
           (is_id p "mut" && (is_open pp Paren || is_p pp ","))) then [EBind x; EPat x]     (* fn parameter *)
  else if is_p nx ":" && fkind_eqb k KBrace && negb (s_where st) &&
          (is_open p Brace || is_p p ",") then []                       (* field name in a struct expr/decl *)
  else if (f_gen (s_cur st) =? 1)%nat && (is_p p "<" || is_p p ",") &&
          (is_p nx ":" || is_p nx "," || is_p nx ">" || is_p nx "=") then [EBind x; EGen x]  (* generic parameter decl *)
  else if is_p nx "=" && (is_p p "<" || is_p p ",") &&
          ((0 <? f_angle (s_cur st))%nat || fkind_eqb k KMacro) then [] (* `Item = T` in generic args / named fmt arg *)
  else if is_p nx "::" then mk HRoot
  else if is_p nx "!" then mk HMacro
  else mk HPlain.

Definition open_kind (st : state) (d : delim) : fkind :=
  let p := s_prev st in
  let pp := s_prev2 st in
  let cur := s_cur st in
  let k := f_kind cur in
  if fkind_eqb k KOpaque then KOpaque
  else if fkind_eqb k KAttr || fkind_eqb k KAttrInner then
    (if is_p p "!" && is_id pp "stringify" then KOpaque
     else if is_p p "!" && is_any_id pp then KMacro else KAttrInner)
  else if is_open (FOpen d) Bracket && (is_p p "#" || (is_p p "!" && is_p pp "#")) then KAttr
  else if is_p p "!" && is_id pp "stringify" then KOpaque
  else if is_p p "!" && is_any_id pp then KMacro
  else if f_pat cur then (match d with Brace => KPatBrace | _ => KPat end)
  else if is_open (FOpen d) Brace && f_match cur then KMatch
  else if is_open (FOpen d) Paren && s_fn st then KParams
  else match d with Paren => KParen | Bracket => KBracket | Brace => KBrace end.

Definition set_cur (st : state) (f : frame) : state :=
  {| s_prev := s_prev st; s_prev2 := s_prev2 st; s_cur := f; s_stack := s_stack st;
     s_use := s_use st; s_where := s_where st; s_fn := s_fn st |}.

Definition with_pat (f : frame) (b : bool) : frame :=
  {| f_kind := f_kind f; f_angle := f_angle f; f_gen := f_gen f; f_match := f_match f; f_pat := b |}.

Definition is_pat_kind (k : fkind) : bool :=
  fkind_eqb k KPat || fkind_eqb k KPatBrace.

(* state after a token (before shifting prev) *)
Definition advance (st : state) (t : ftok) : state :=
  let cur := s_cur st in
  let k := f_kind cur in
  match t with
  | FOpen d =>
      let nk := open_kind st d in
      (* the frame we return to: a match body consumes the pending `match`; the block of an arm `=> { .. }` ends
         the arm, so the match body is back in pattern position afterwards *)
      let back :=
        {| f_kind := k; f_angle := f_angle cur; f_gen := f_gen cur;
           f_match := (if fkind_eqb nk KMatch then false else f_match cur);
           f_pat := (if fkind_eqb k KMatch && is_p (s_prev st) "=>" && is_open (FOpen d) Brace then true
                     else f_pat cur) |} in
      {| s_prev := s_prev st; s_prev2 := s_prev2 st;
         s_cur := new_frame nk (fkind_eqb nk KMatch || is_pat_kind nk); s_stack := back :: s_stack st;
         s_use := s_use st;
         s_where := (match d with Brace => false | _ => s_where st end);
         s_fn := (match d with Paren => false | _ => s_fn st end) |}
  | FClose _ =>
      match s_stack st with
      | f :: r => {| s_prev := s_prev st; s_prev2 := s_prev2 st; s_cur := f; s_stack := r;
                     s_use := s_use st; s_where := s_where st; s_fn := s_fn st |}
      | [] => st
      end
  | FPunct s =>
      if String.eqb s "<" then
        let g := if (0 <? f_gen cur)%nat then S (f_gen cur)
                 else if is_id (s_prev st) "impl" || (s_fn st && is_id (s_prev2 st) "fn") then 1 else 0 in
        set_cur st {| f_kind := k; f_angle := S (f_angle cur); f_gen := g; f_match := f_match cur; f_pat := f_pat cur |}
      else if String.eqb s ">" then
        set_cur st {| f_kind := k; f_angle := pred (f_angle cur); f_gen := pred (f_gen cur);
                      f_match := f_match cur; f_pat := f_pat cur |}
      else if String.eqb s ";" then
        {| s_prev := s_prev st; s_prev2 := s_prev2 st;
           s_cur := {| f_kind := k; f_angle := 0; f_gen := 0; f_match := false;
                       f_pat := (if is_pat_kind k || fkind_eqb k KMatch then f_pat cur else false) |};
           s_stack := s_stack st;
           s_use := false; s_where := false; s_fn := s_fn st |}
      else if String.eqb s "=>" then
        (if fkind_eqb k KMatch then set_cur st (with_pat cur false) else st)
      else if String.eqb s "," then
        (if fkind_eqb k KMatch then set_cur st (with_pat cur true) else st)
      else if String.eqb s "=" && fkind_eqb k KAttr then
        (* #[name = EXPR]: the value is an ordinary expression (e.g. a macro invocation with a path) *)
        set_cur st {| f_kind := KBracket; f_angle := 0; f_gen := 0; f_match := false; f_pat := false |}
      else if String.eqb s "=" || String.eqb s ":" then
        (* end of a `let` pattern *)
        (if f_pat cur && negb (is_pat_kind k) && negb (fkind_eqb k KMatch) then set_cur st (with_pat cur false) else st)
      else st
  | FId s =>
      if negb (is_p (s_prev st) "::" || is_p (s_prev st) "." || is_p (s_prev st) "'") then
        if String.eqb s "use" then
          {| s_prev := s_prev st; s_prev2 := s_prev2 st; s_cur := cur; s_stack := s_stack st;
             s_use := true; s_where := s_where st; s_fn := s_fn st |}
        else if String.eqb s "where" then
          {| s_prev := s_prev st; s_prev2 := s_prev2 st; s_cur := cur; s_stack := s_stack st;
             s_use := s_use st; s_where := true; s_fn := s_fn st |}
        else if String.eqb s "fn" then
          {| s_prev := s_prev st; s_prev2 := s_prev2 st; s_cur := cur; s_stack := s_stack st;
             s_use := s_use st; s_where := s_where st; s_fn := true |}
        else if String.eqb s "match" then
          set_cur st {| f_kind := k; f_angle := f_angle cur; f_gen := f_gen cur; f_match := true; f_pat := f_pat cur |}
        else if String.eqb s "let" then
          (if is_pat_kind k || fkind_eqb k KMatch || fkind_eqb k KOpaque || fkind_eqb k KAttr || fkind_eqb k KAttrInner
           then st else set_cur st (with_pat cur true))
        else if String.eqb s "if" then
          (if fkind_eqb k KMatch then set_cur st (with_pat cur false) else st)    (* arm guard *)
        else st
      else st
  | _ => st
  end.

Definition shift (st : state) (t : ftok) : state :=
  {| s_prev := t; s_prev2 := s_prev st; s_cur := s_cur st; s_stack := s_stack st;
     s_use := s_use st; s_where := s_where st; s_fn := s_fn st |}.

Definition step (st : state) (t : ftok) (nx : ftok) : state * list event :=
  let ev := match t with FId x => classify_id st x nx | _ => [] end in
  (shift (advance st t) t, ev).

Fixpoint run (st : state) (l : list ftok) : list event :=
  match l with
  | [] => []
  | t :: r => let '(st', ev) := step st t (opt_tok (hd_error r)) in ev ++ run st' r
  end.

Definition events (t : template) : list event := run init_state (flatten (t_tokens t)).

Definition head_idents (t : template) : list head :=
  flat_map (fun e => match e with EHead h => [h] | _ => [] end) (events t).

Definition method_idents (t : template) : list string :=
  flat_map (fun e => match e with EMethod x => [x] | _ => [] end) (events t).

(* names a template binds itself (let, fn/closure parameters, match-arm bindings, generic parameters, items and
   `use` declarations of the template); flat, i.e. without block structure *)
Definition binders (t : template) : list string :=
  flat_map (fun e => match e with EBind x => [x] | _ => [] end) (events t).

(* a template that consists of one local-like identifier is a *name* (same role as format_ident!): it is spliced
   both as the binder of a pattern and as its uses (error.rs `source`, `backtrace`; as/mod.rs `__AsT`) *)
Definition name_template (t : template) : list string :=
  match t_tokens t with
  | [TId x] => if local_like x && negb (mem x keywords) then [x] else []
  | _ => []
  end.

(* the binders of ALL templates: a local-like identifier that is free in its own template is taken to be bound by
   the template it is spliced into (fn parameter `rhs`, `src`, `value`, `__derive_more_f`, ..) *)
Definition global_binders (ts : list template) : list string :=
  flat_map (fun t => binders t ++ name_template t) ts.

(* No list of "good" std names: a head identifier is closed iff it is
   - a primitive type (language prelude),
   - bound by the template itself,
   - a local-like name bound by some template of the crate (never as a path root or macro),
   - the path roots `Self`, `derive_more`, or a generic parameter of the template,
   - the crate name `::derive_more`.
   Keywords never become heads (except `crate::`/`super::`/`self::`, which are never closed);
   interpolations are not identifiers at all. *)
Definition allowed_head (gb lb : list string) (h : head) : bool :=
  let x := h_name h in
  match h_kind h with
  | HPlain => mem x primitives || mem x lb || (local_like x && mem x gb)
  | HRoot => String.eqb x "Self" || String.eqb x "derive_more" || (mem x lb && negb (mem x keywords))
  | HExtern => String.eqb x "derive_more"
  | HMacro => false
  | HAttr => false
  end.

Definition closed (gb : list string) (t : template) : bool :=
  forallb (allowed_head gb (binders t)) (head_idents t).

Definition offender := (string * string * string)%type.      (* file, fn, shown head *)

Definition offenders_of (gb : list string) (t : template) : list offender :=
  map (fun h => (t_file t, t_fn t, show_head h))
      (filter (fun h => negb (allowed_head gb (binders t) h)) (head_idents t)).

Definition offenders (ts : list template) : list offender :=
  flat_map (offenders_of (global_binders ts)) ts.

Definition key (o : offender) : string :=
  match o with (f, _, n) => (f ++ ":" ++ n)%string end.

(* One key per file + name; mirrors the C15 entries of /verif/KNOWN_FINDINGS.json (only the nightly `provide()` path,
   which names `::std::backtrace::Backtrace`).  The bare Ok/Err (from_str.rs), Option/Some/None (error.rs), panic!
   (unwrap.rs), stringify! (try_unwrap.rs, is_variant.rs) were qualified in /repo commit afa82ab: any of them coming
   back, or any NEW bare name in any template, is outside this list and breaks C15_closed_modulo_known. *)
Definition known_offender_keys : list string :=
  [ "error.rs:::std" ].

(* local-like free names that are closed only through `global_binders` (the splice assumption) *)
Definition open_locals (lb : list string) (hs : list head) : list string :=
  flat_map (fun h => match h_kind h with
                     | HPlain => if mem (h_name h) primitives || mem (h_name h) lb then [] else [h_name h]
                     | _ => []
                     end) hs.

(* format_ident!("..") / Ident::new("..") / Lifetime::new("..") literals: a manufactured identifier either starts
   with a placeholder (the derive's trait / method name or the user's own identifier), or is local-like, or is a
   lifetime - never a capitalised (type / trait / variant like) name that could stand for a prelude item *)
Definition fmt_ident_ok (s : string) : bool :=
  match s with
  | EmptyString => false
  | String c _ => local_like s || (nat_of_ascii c =? 123)%nat || (nat_of_ascii c =? 39)%nat
  end.

(* ------------------------------------------------------------------ 2b. inventories: paths, macros, method calls, generics *)

Definition generic_params (t : template) : list string :=
  flat_map (fun e => match e with EGen x => [x] | _ => [] end) (events t).

(* ---- identifiers in pattern position.  rustc resolves an identifier pattern at the call site: if a unit struct, unit
   variant or constant of that name is in scope, `x` is not a binding but a PATH pattern (E0530 for parameters / let /
   match bindings that would shadow it, E0308 otherwise).  Names with the `__` prefix are the macro's own namespace. *)
Definition pattern_binders (t : template) : list string :=
  flat_map (fun e => match e with EPat x => [x] | _ => [] end) (events t) ++ name_template t.

Fixpoint all_digits (s : string) : bool :=
  match s with
  | EmptyString => true
  | String c r => let n := nat_of_ascii c in ((48 <=? n)%nat && (n <=? 57)%nat) && all_digits r
  end.

Fixpoint strip_prefix (p s : string) : option string :=
  match p, s with
  | EmptyString, _ => Some s
  | String a p', String b s' => if Ascii.eqb a b then strip_prefix p' s' else None
  | _, EmptyString => None
  end.

(* `_0`, `_1`, .. / `field_0`, .. : format_ident!("_{i}") / format_ident!("field_{n}") *)
Definition numbered (p s : string) : bool :=
  match strip_prefix p s with
  | Some r => negb (String.eqb r "") && all_digits r
  | None => false
  end.

(* The ONE listed class (/verif/KNOWN_FINDINGS.json key `binder-name-captured`): the binders without the `__` prefix. *)
Definition known_captured_binders : list string :=
  [ "rhs"; "conv"; "request"; "source"; "backtrace"; "_variant"; "src"; "idx"; "iter"; "value"; "val" ].

Definition binder_listed (x : string) : bool :=
  mem x known_captured_binders || numbered "_" x || numbered "field_" x.

(* ---- paths: a left-to-right fold independent of the frame automaton.
   A path is a maximal run  [::] seg (:: seg)*  ; segments are identifiers or interpolations ("#x");
   a leading `::` gives the first segment ""; a path continuing a `<T as Tr>` qualifier starts with "<>". *)
(* an open `<`: a turbofish (`path::<..>`, the path continues after it) or a qualifier / generic-argument list *)
Record aframe := { a_turbo : bool; a_as : bool; a_dm : bool; a_fresh : bool; a_saved : list string }.

Record pstate := { p_cur : list string (* reversed *); p_sep : bool; p_prev : ftok;
                   p_angles : list aframe;
                   p_q : string (* tag of the `<..>` just closed: "<as>" qualified, "<dm>" a derive_more type, "<>" other *) }.

Definition path_kw_ok : list string := ["self"; "Self"; "crate"; "super"].

Definition pflush (macro : bool) (cur : list string) : list (bool * list string) :=
  match cur with
  | [] => []
  | [x] => if String.eqb x "" || String.eqb x "<>" || String.eqb x "<as>" || String.eqb x "<dm>" then []
           else [(macro, [x])]                                          (* a lone `::` (turbofish) is no path *)
  | _ => [(macro, rev cur)]
  end.

(* the first token inside an open `<` decides whether the type is a derive_more path; `as` marks a qualified path *)
Definition touch_angles (l : list aframe) (t : ftok) : list aframe :=
  match l with
  | f :: r =>
      {| a_turbo := a_turbo f;
         a_as := a_as f || is_id t "as";
         a_dm := if a_fresh f then is_id t "derive_more" else a_dm f;
         a_fresh := if a_fresh f then (is_p t "&" || is_p t "&&" || is_id t "mut" || is_p t "'") else false;
         a_saved := a_saved f |} :: r
  | [] => []
  end.

Definition mkp (cur : list string) (sep : bool) (t : ftok) (angles : list aframe) (q : string) : pstate :=
  {| p_cur := cur; p_sep := sep; p_prev := t; p_angles := angles; p_q := q |}.

Definition pstep (st : pstate) (t : ftok) : pstate * list (bool * list string) :=
  let cur := p_cur st in
  let ang := touch_angles (p_angles st) t in
  let q := p_q st in
  let seg (x : string) (startable : bool) :=
    if p_sep st then (mkp (x :: cur) false t ang q, [])
    else if is_p (p_prev st) "." || is_p (p_prev st) "'" || negb startable
         then (mkp [] false t ang q, pflush false cur)
         else (mkp [x] false t ang q, pflush false cur) in
  match t with
  | FId x => seg x (negb (mem x keywords) || mem x path_kw_ok)
  | FInterp x => seg ("#" ++ x)%string true
  | FPunct s =>
      if String.eqb s "::" then
        (match cur with
         | [] => (mkp [if is_p (p_prev st) ">" then q else ""] true t ang q, [])
         | _ => if p_sep st then (mkp [] false t ang q, pflush false cur)
                else (mkp cur true t ang q, [])
         end)
      else if String.eqb s "<" then
        (if p_sep st
         then (* turbofish: the path continues after the matching `>` *)
              (mkp [] false t ({| a_turbo := true; a_as := false; a_dm := false; a_fresh := true; a_saved := cur |} :: p_angles st) q, [])
         else (mkp [] false t ({| a_turbo := false; a_as := false; a_dm := false; a_fresh := true; a_saved := [] |} :: p_angles st) q,
               pflush false cur))
      else if String.eqb s ">" then
        (match p_angles st with
         | f :: r =>
             if a_turbo f then (mkp (a_saved f) false t r q, pflush false cur)
             else (mkp [] false t r (if a_as f then "<as>" else if a_dm f then "<dm>" else "<>"), pflush false cur)
         | [] => (mkp [] false t [] "<>", pflush false cur)
         end)
      else if String.eqb s "!" && negb (p_sep st) then (mkp [] false t ang q, pflush true cur)
      else (mkp [] false t ang q, pflush false cur)
  | _ => (mkp [] false t ang q, pflush false cur)
  end.

Fixpoint prun (st : pstate) (l : list ftok) : list (bool * list string) :=
  match l with
  | [] => pflush false (p_cur st)
  | t :: r => let '(st', out) := pstep st t in out ++ prun st' r
  end.

Definition paths (t : template) : list (bool * list string) :=
  prun {| p_cur := []; p_sep := false; p_prev := START; p_angles := []; p_q := "<>" |} (flatten (t_tokens t)).

(* every macro invoked by a template, with its full path *)
Definition macro_paths (t : template) : list (list string) :=
  flat_map (fun p : bool * list string => if fst p then [snd p] else []) (paths t).

(* a macro path is hygienic iff it is `derive_more::core::<name>` *)
Definition macro_path_ok (p : list string) : bool :=
  match p with
  | a :: b :: _ :: _ => String.eqb a "derive_more" && String.eqb b "core"
  | _ => false
  end.

(* paths rooted at derive_more (literal prefix) *)
Definition dm_paths (t : template) : list (list string) :=
  flat_map (fun p : bool * list string => match snd p with
                     | a :: _ => if String.eqb a "derive_more" then [snd p] else []
                     | [] => []
                     end) (paths t).

Definition is_interp_seg (s : string) : bool :=
  match s with String c _ => (nat_of_ascii c =? 35)%nat | EmptyString => false end.

Definition mem_path (p : list string) (l : list (list string)) : bool :=
  existsb (fun q => if list_eq_dec string_dec p q then true else false) l.

(* is `derive_more::s2[::s3]..` backed by an item that /repo/src/lib.rs exports?  [exports] is regenerated from
   src/lib.rs: [["core"]; ["__private";"Conv"]; ["BinaryError"]; ["with_trait";"Error"]; ..] *)
Definition dm_path_exported (exports : list (list string)) (p : list string) : bool :=
  match p with
  | _ :: s2 :: rest =>
      if is_interp_seg s2 then false
      else if String.eqb s2 "core" then mem_path ["core"] exports
      else if String.eqb s2 "__private" || String.eqb s2 "with_trait" then
        match rest with
        | s3 :: _ => if is_interp_seg s3 then mem_path [s2] exports else mem_path [s2; s3] exports
        | [] => mem_path [s2] exports
        end
      else mem_path [s2] exports
  | _ => false
  end.

(* ---- type-relative associated paths  Q :: .. :: name  whose last segment is a name the MACRO chose (not an
   interpolation).  `<Ty as path::Trait>::name` names the trait: closed.  `<Ty>::name`, `Ty::name`, `Self::name` look `name`
   up BY NAME on the type: an inherent associated item of the user's type wins, and every trait in the caller's scope
   that has an item of that name for the type is a candidate (E0034) - exactly like a dot call on a user-typed receiver. *)
Definition type_like_seg (s : string) : bool :=
  match s with String c _ => let n := nat_of_ascii c in ((65 <=? n)%nat && (n <=? 90)%nat) | _ => false end.

Definition last_seg (p : list string) : string := last p "".

Definition assoc_paths (t : template) : list (list string) :=
  flat_map (fun p : bool * list string =>
              match snd p with
              | _ :: _ :: _ => if fst p || is_interp_seg (last_seg (snd p)) then [] else [snd p]
              | _ => []
              end) (paths t).

(* is the template a qualifier that pins the trait or an absolute derive_more path?  `<T as Tr>` / `derive_more::..` *)
Definition qualifier_safe (t : template) : bool :=
  match t_tokens t with
  | TPunct a :: rest =>
      (String.eqb a "<" && existsb (fun x => match x with TId y => String.eqb y "as" | _ => false end) rest) ||
      (String.eqb a "::" && match rest with TId y :: _ => String.eqb y "derive_more" | _ => false end)
  | TId y :: TPunct c :: _ => String.eqb y "derive_more" && String.eqb c "::"
  | _ => false
  end.

(* an interpolated qualifier `#x` is safe iff x is bound (as `x` or the collection `xs`) to templates that are all safe *)
Definition var_safe (ts : list template) (x : string) : bool :=
  let ds := filter (fun t => String.eqb (t_var t) x || String.eqb (t_var t) (x ++ "s")%string) ts in
  negb (match ds with [] => true | _ => false end) && forallb qualifier_safe ds.

Definition interp_name (s : string) : string := match s with String _ r => r | EmptyString => EmptyString end.

Definition assoc_path_closed (ts : list template) (gp : list string) (p : list string) : bool :=
  match p with
  | r :: _ =>
      if String.eqb r "<as>" || String.eqb r "<dm>" then true
      else if String.eqb r "<>" then false
      else if String.eqb r "Self" then type_like_seg (last_seg p)       (* associated TYPE of the enclosing impl's trait *)
      else if is_interp_seg r then var_safe ts (interp_name r)
      else true   (* `derive_more::..`, `::crate::..`, a generic parameter, or a bare root: judged as a head by allowed_head *)
  | [] => true
  end.

Definition assoc_offenders_of (ts : list template) (t : template) : list (string * string) :=
  map (fun p => (t_file t, (hd "" p ++ "::" ++ last_seg p)%string))
      (filter (fun p => negb (assoc_path_closed ts (generic_params t) p)) (assoc_paths t)).

Definition assoc_offenders (ts : list template) : list (string * string) := flat_map (assoc_offenders_of ts) ts.

Definition assoc_key (o : string * string) : string := (fst o ++ ":" ++ snd o)%string.

(* none on the current tree *)
Definition known_assoc_sites : list string := [].

(* ---- method calls `recv . name (` : the receiver decides whether the call can observe the caller's scope
   (for a user-typed receiver the trait must be in scope at the call site, and an inherent method of the user's
   type with the same name wins). *)
Inductive recv :=
| RUser                      (* interpolated expression: the user's field / type *)
| RField                     (* a field access  x . f *)
| RSelf
| RLocal (x : string)        (* a local of the expansion *)
| RChain (r : recv)          (* result of a previous method call on r *)
| RLit
| ROther.

Inductive simple := SEmpty | SOnly (x : string) | SBad.

Record gframe := { g_call : option recv; g_simple : simple }.

Record mstate := {
  m_p1 : ftok; m_p2 : ftok; m_p3 : ftok;
  m_closed : recv;
  m_cur : gframe; m_stack : list gframe;
  m_last : option recv }.

Record msite := { ms_recv : recv; ms_name : string }.

Definition recv_of (p2 p3 : ftok) (closed : recv) : recv :=
  match p2 with
  | FInterp _ => RUser
  | FId y => if is_p p3 "." then RField else if String.eqb y "self" then RSelf else RLocal y
  | FClose Paren => closed
  | FLit => if is_p p3 "." then RField else RLit          (* tuple field  x . 0 *)
  | _ => ROther
  end.

Definition simple_step (s : simple) (t : ftok) : simple :=
  match t with
  | FPunct p => if mem p ["&"; "&&"; "*"] then s else SBad
  | FId y => if String.eqb y "mut" then s
             else match s with SEmpty => if mem y keywords then SBad else SOnly y | _ => SBad end
  | _ => SBad
  end.

Definition mshift (st : mstate) (t : ftok) (closed : recv) (cur : gframe) (stack : list gframe) (last : option recv) : mstate :=
  {| m_p1 := t; m_p2 := m_p1 st; m_p3 := m_p2 st; m_closed := closed; m_cur := cur; m_stack := stack; m_last := last |}.

Definition mstep (st : mstate) (t : ftok) (nx : ftok) : mstate * list msite :=
  let cur := m_cur st in
  match t with
  | FOpen d =>
      let call := match d with
                  | Paren => if is_p (m_p2 st) "." then m_last st else None
                  | _ => None
                  end in
      (mshift st t (m_closed st) {| g_call := call; g_simple := SEmpty |}
              ({| g_call := g_call cur; g_simple := SBad |} :: m_stack st) None, [])
  | FClose _ =>
      let c := match g_call cur with
               | Some r => RChain r
               | None => match g_simple cur with SOnly y => RLocal y | _ => ROther end
               end in
      (match m_stack st with
       | f :: r => mshift st t c f r None
       | [] => mshift st t c cur [] None
       end, [])
  | FId x | FInterp x =>
      let nm := match t with FInterp _ => ("#" ++ x)%string | _ => x end in
      if is_p (m_p1 st) "." && (is_open nx Paren || is_p nx "::") then
        let r := recv_of (m_p2 st) (m_p3 st) (m_closed st) in
        (mshift st t (m_closed st) {| g_call := g_call cur; g_simple := SBad |} (m_stack st) (Some r),
         [{| ms_recv := r; ms_name := nm |}])
      else
        (mshift st t (m_closed st) {| g_call := g_call cur; g_simple := simple_step (g_simple cur) t |} (m_stack st)
                (if is_p (m_p1 st) "::" then m_last st else None), [])
  | _ =>
      (mshift st t (m_closed st) {| g_call := g_call cur; g_simple := simple_step (g_simple cur) t |} (m_stack st)
              (match t with FPunct s => if mem s ["::"; "<"; ">"; ","; "_"] then m_last st else None | _ => None end), [])
  end.

Fixpoint mrun (st : mstate) (l : list ftok) : list msite :=
  match l with
  | [] => []
  | t :: r => let '(st', out) := mstep st t (opt_tok (hd_error r)) in out ++ mrun st' r
  end.

Definition method_sites (t : template) : list msite :=
  mrun {| m_p1 := START; m_p2 := START; m_p3 := START; m_closed := ROther;
          m_cur := {| g_call := None; g_simple := SEmpty |}; m_stack := []; m_last := None |}
       (flatten (t_tokens t)).

(* ---- the declared type of a binder: head of the type of `x : TYPE` (fn parameter) or of the initialiser of
   `let x = INIT` *)
Inductive tycls := TyDm | TyPrim | TyGeneric | TyUser.

Record tstate := { ty_of : option string; ty_p1 : ftok; ty_p2 : ftok; ty_stack : list delim }.

Definition ty_skip (t : ftok) (p1 : ftok) : bool :=
  match t with
  | FPunct s => mem s [":"; "="; "&"; "&&"; "*"; "'"; "<"]
  | FId y => mem y ["mut"; "dyn"] || is_p p1 "'"
  | _ => false
  end.

(* [gp]: generic parameters the template declares itself *)
Definition ty_class (gp : list string) (t : ftok) : tycls :=
  match t with
  | FId y => if String.eqb y "derive_more" then TyDm
             else if mem y primitives then TyPrim
             else if mem y gp then TyGeneric else TyUser
  | _ => TyUser
  end.

Definition ty_push (st : list delim) (t : ftok) : list delim :=
  match t with
  | FOpen d => d :: st
  | FClose _ => tl st
  | _ => st
  end.

Definition in_paren (st : list delim) : bool := match st with Paren :: _ => true | _ => false end.

Definition tystep (lb gp : list string) (st : tstate) (t : ftok) (nx : ftok) : tstate * list (string * tycls) :=
  let stack := ty_push (ty_stack st) t in
  match ty_of st with
  | Some x =>
      if ty_skip t (ty_p1 st) then ({| ty_of := Some x; ty_p1 := t; ty_p2 := ty_p1 st; ty_stack := stack |}, [])
      else ({| ty_of := None; ty_p1 := t; ty_p2 := ty_p1 st; ty_stack := stack |}, [(x, ty_class gp t)])
  | None =>
      match t with
      | FId x =>
          if mem x lb && negb (is_p (ty_p1 st) ".") && negb (is_p (ty_p1 st) "::") &&
             ((is_p nx ":" && in_paren (ty_stack st) &&
               (is_open (ty_p1 st) Paren || is_p (ty_p1 st) "," || is_id (ty_p1 st) "mut")) ||          (* fn parameter *)
              (is_p nx "=" && (is_id (ty_p1 st) "let" || (is_id (ty_p1 st) "mut" && is_id (ty_p2 st) "let"))))
          then ({| ty_of := Some x; ty_p1 := t; ty_p2 := ty_p1 st; ty_stack := stack |}, [])
          else ({| ty_of := None; ty_p1 := t; ty_p2 := ty_p1 st; ty_stack := stack |}, [])
      | _ => ({| ty_of := None; ty_p1 := t; ty_p2 := ty_p1 st; ty_stack := stack |}, [])
      end
  end.

Fixpoint tyrun (lb gp : list string) (st : tstate) (l : list ftok) : list (string * tycls) :=
  match l with
  | [] => []
  | t :: r => let '(st', out) := tystep lb gp st t (opt_tok (hd_error r)) in out ++ tyrun lb gp st' r
  end.

Definition typed_binders (t : template) : list (string * tycls) :=
  tyrun (binders t) (generic_params t) {| ty_of := None; ty_p1 := START; ty_p2 := START; ty_stack := [] |}
        (flatten (t_tokens t)).

Definition global_typed_binders (ts : list template) : list (string * tycls) := flat_map typed_binders ts.

Definition tycls_user (c : tycls) : bool := match c with TyUser => true | _ => false end.

(* a local is not user-typed iff it has at least one declaration and none of its declarations (in any template)
   is user-typed *)
Definition local_not_user_typed (gt : list (string * tycls)) (x : string) : bool :=
  let ds := filter (fun d => String.eqb (fst d) x) gt in
  negb (match ds with [] => true | _ => false end) && forallb (fun d => negb (tycls_user (snd d))) ds.

Fixpoint recv_root (r : recv) : recv := match r with RChain r' => recv_root r' | _ => r end.

(* the receiver's type is fixed by the macro (std / derive_more type, primitive, or a generic parameter the template
   declares with its own bound): the call cannot pick up an inherent method of a user type *)
Definition method_site_closed (gt : list (string * tycls)) (s : msite) : bool :=
  match recv_root (ms_recv s) with
  | RLocal y => local_not_user_typed gt y
  | RLit => true
  | _ => false
  end.

Definition method_offenders_of (gt : list (string * tycls)) (t : template) : list (string * string) :=
  map (fun s => (t_file t, ms_name s)) (filter (fun s => negb (method_site_closed gt s)) (method_sites t)).

Definition method_offenders (ts : list template) : list (string * string) :=
  flat_map (method_offenders_of (global_typed_binders ts)) ts.

Definition is_ruser (r : recv) : bool := match r with RUser => true | _ => false end.

Definition method_key (o : string * string) : string := (fst o ++ ":." ++ snd o)%string.

(* the one remaining dot call on a user-typed receiver (listed in /verif/KNOWN_FINDINGS.json under exactly this key):
   `#expr.as_dyn_error()` (error.rs, fn render_some) - the
   autoref-specialisation of the vendored thiserror `AsDynError`, whose trait the enclosing template imports with
   `use derive_more::__private::AsDynError;`.  Everything else (in particular `self.#i.#method_ident(rhs.#i)` of the
   operator derives before /repo 03334c2) is outside this list and breaks C15_method_calls_classified. *)
Definition known_method_sites : list string := [ "error.rs:.as_dyn_error" ].

(* ---- names of generic parameters / lifetimes the macro introduces next to the user's own parameters *)
Definition starts_dunder (s : string) : bool :=
  match s with
  | String a (String b (String c _)) =>
      if (nat_of_ascii a =? 39)%nat then (nat_of_ascii b =? 95)%nat && (nat_of_ascii c =? 95)%nat
      else (nat_of_ascii a =? 95)%nat && (nat_of_ascii b =? 95)%nat
  | String a (String b _) => (nat_of_ascii a =? 95)%nat && (nat_of_ascii b =? 95)%nat
  | _ => false
  end.

(* first character that is not `_` / `'` is upper case: a type-, const- or lifetime-parameter-like manufactured name *)
Fixpoint type_like (s : string) : bool :=
  match s with
  | EmptyString => false
  | String c r => let n := nat_of_ascii c in
                  if (n =? 95)%nat then type_like r
                  else ((65 <=? n)%nat && (n <=? 90)%nat)
  end.

Definition is_lifetime_name (s : string) : bool :=
  match s with String c _ => (nat_of_ascii c =? 39)%nat | _ => false end.

Definition lifetime_template (t : template) : list string :=
  match t_tokens t with
  | [TPunct q; TId x] => if String.eqb q "'" then [("'" ++ x)%string] else []
  | _ => []
  end.

Definition type_name_template (t : template) : list string :=
  match t_tokens t with
  | [TId x] => if type_like x && negb (mem x keywords) then [x] else []
  | _ => []
  end.

(* all names the macro introduces into the generic-parameter namespaces: declared `<..>` lists of templates,
   one-token templates that are a type-like name or a lifetime, format_ident!/Lifetime::new literals that are type-like
   or lifetimes.  `'_` is the anonymous lifetime. *)
Definition introduced_generics (ts : list template) (fmts : list (string * nat * string)) : list string :=
  filter (fun x => negb (String.eqb x "'_"))
    (flat_map (fun t => generic_params t ++ lifetime_template t ++ type_name_template t) ts ++
     flat_map (fun f => if is_lifetime_name (snd f) || type_like (snd f) then [snd f] else []) fmts).

(* no exception left: `fn provide<'_request>` of error.rs became `'__derive_more_request` in /repo df4f803 *)
Definition known_non_dunder_generics : list string := [].

Definition binder_closed (x : string) : bool := starts_dunder x.

Definition binder_ok (x : string) : bool := binder_closed x || binder_listed x.

(* the meaning of an identifier pattern `x` in a scope: a binding, unless a unit struct / unit variant / constant called x
   is in scope (value namespace), in which case it is a path pattern referring to that item *)
Inductive patmeaning := PBinding (x : string) | PPathTo (n : N).

Definition resolve_pattern_ident (unit_items : string -> option N) (x : string) : patmeaning :=
  match unit_items x with
  | Some n => PPathTo n
  | None => PBinding x
  end.

(* ------------------------------------------------------------------ 3. name resolution *)

Inductive item :=
| ILang (x : string)          (* keyword-like / primitive type *)
| ILocal (x : string)         (* binding or generic parameter *)
| IUser (n : N)               (* item or import of the caller's module (incl. everything it shadows) *)
| IExtern (n : N)             (* crate of the extern prelude *)
| IPrelude (n : N).           (* item of the std/core prelude (absent under no_implicit_prelude) *)

Inductive ns := NsTypeValue | NsMacro.

Record scope := {
  sc_locals : list string;
  sc_user : ns -> string -> option N;
  sc_extern : string -> option N;
  sc_prelude : ns -> string -> option N }.

Definition first_some {A} (a b : option A) : option A := match a with Some _ => a | None => b end.

(* rustc's lookup order for the first segment of a path: local bindings and generic parameters, items of the
   enclosing modules, extern prelude, std prelude, language prelude *)
Definition resolve (lb : list string) (sc : scope) (h : head) : option item :=
  let x := h_name h in
  match h_kind h with
  | HExtern => option_map IExtern (sc_extern sc x)
  | HMacro | HAttr =>
      first_some (option_map IUser (sc_user sc NsMacro x)) (option_map IPrelude (sc_prelude sc NsMacro x))
  | HPlain | HRoot =>
      if String.eqb x "Self" then Some (ILang x)
      else if mem x lb || mem x (sc_locals sc) then Some (ILocal x)
      else first_some (option_map IUser (sc_user sc NsTypeValue x))
           (first_some (option_map IExtern (sc_extern sc x))
           (first_some (option_map IPrelude (sc_prelude sc NsTypeValue x))
                       (if mem x primitives then Some (ILang x) else None)))
  end.

(* names whose meaning the caller must not change: the crate path root and the primitive types *)
Definition reserved (x : string) : bool := mem x primitives || String.eqb x "derive_more".

(* two scopes that agree except on the prelude and on the user items called by the names in [H] *)
Definition agree_on_nonprelude (H : string -> bool) (sc1 sc2 : scope) : Prop :=
  sc_locals sc1 = sc_locals sc2 /\
  (forall x, sc_extern sc1 x = sc_extern sc2 x) /\
  (forall n x, H x = false -> sc_user sc1 n x = sc_user sc2 n x).

(* no std/core prelude defines `derive_more` or a primitive type name *)
Definition prelude_wf (sc : scope) : Prop :=
  forall n x, reserved x = true -> sc_prelude sc n x = None.

(* ------------------------------------------------------------------ 3b. method-call resolution (the logical skeleton)

   `recv.m(..)`: rustc first looks for an inherent method `m` of the receiver's type, then for `m` among the traits
   that are IN SCOPE at the call site and implemented for the receiver; two applicable traits are an ambiguity
   error.  (Autoref steps are rustc's and are left to the oracle.) *)
Inductive mres := MInherent (n : N) | MTrait (n : N) | MAmbiguous | MNone.

Record mscope := {
  mc_macro : list N;      (* traits the expansion itself brings into scope: `use derive_more::..::Tr as _`, the trait of
                             the enclosing impl, bounds of generic parameters the template declares *)
  mc_user : list N;       (* traits the caller's module has in scope (its own or imported ones) *)
  mc_prelude : list N }.  (* traits of the std prelude *)

Definition resolve_method (inherent : option N) (provides : N -> bool) (sc : mscope) : mres :=
  match inherent with
  | Some i => MInherent i
  | None => match filter provides (mc_macro sc ++ mc_user sc ++ mc_prelude sc) with
            | [] => MNone
            | [c] => MTrait c
            | _ => MAmbiguous
            end
  end.

(* a path `Q::name`: trait-qualified (`<Ty as Tr>::name`, `path::Tr::name`) names the trait's item directly;
   type-relative (`<Ty>::name`, `Ty::name`, `Self::name`) is looked up by name like a method *)
Definition resolve_assoc (qualified : option N) (inherent : option N) (provides : N -> bool) (sc : mscope) : mres :=
  match qualified with
  | Some tr => MTrait tr
  | None => resolve_method inherent provides sc
  end.
