From Coq Require Import List String NArith.
Require Import Verif.C15.Model Verif.Gen.Templates Verif.C15.Proofs.
Import ListNotations.

Theorem C15_closed_modulo_known :
  forall o, In o (offenders templates) -> In (key o) known_offender_keys.
Proof. exact Proofs.closed_modulo_known. Qed.
Print Assumptions C15_closed_modulo_known.

Theorem C15_templates_closed_modulo_known :
  forall t h, In t templates -> In h (head_idents t) ->
    allowed_head (global_binders templates) (binders t) h = true \/
    In (key (t_file t, t_fn t, show_head h)) known_offender_keys.
Proof. exact Proofs.templates_closed_modulo_known. Qed.
Print Assumptions C15_templates_closed_modulo_known.

Theorem C15_scope_independent :
  forall (gb : list string) (t : template) (H : string -> bool) (sc1 sc2 : scope),
    closed gb t = true ->
    (forall x, H x = true -> reserved x = false) ->
    incl (open_locals (binders t) (head_idents t)) (sc_locals sc1) ->
    agree_on_nonprelude H sc1 sc2 ->
    prelude_wf sc1 -> prelude_wf sc2 ->
    map (resolve (binders t) sc1) (head_idents t) = map (resolve (binders t) sc2) (head_idents t).
Proof. exact Proofs.scope_independent. Qed.
Print Assumptions C15_scope_independent.

Theorem C15_generated_templates_scope_independent :
  forall t, In t templates -> offenders_of (global_binders templates) t = [] ->
  forall (H : string -> bool) (sc1 sc2 : scope),
    (forall x, H x = true -> reserved x = false) ->
    incl (open_locals (binders t) (head_idents t)) (sc_locals sc1) ->
    agree_on_nonprelude H sc1 sc2 ->
    prelude_wf sc1 -> prelude_wf sc2 ->
    map (resolve (binders t) sc1) (head_idents t) = map (resolve (binders t) sc2) (head_idents t).
Proof. exact Proofs.generated_templates_scope_independent. Qed.
Print Assumptions C15_generated_templates_scope_independent.

Theorem C15_format_idents_local_like :
  forall f, In f format_idents -> fmt_ident_ok (snd f) = true.
Proof. exact Proofs.format_idents_local_like. Qed.
Print Assumptions C15_format_idents_local_like.

Theorem C15_macros_through_derive_more_core :
  forall t p, In t templates -> In p (macro_paths t) ->
    exists name rest, p = "derive_more"%string :: "core"%string :: name :: rest.
Proof. exact Proofs.macros_through_core. Qed.
Print Assumptions C15_macros_through_derive_more_core.

Theorem C15_derive_more_paths_exported :
  forall t p, In t templates -> In p (dm_paths t) -> dm_path_exported dm_exports p = true.
Proof. exact Proofs.dm_paths_exported. Qed.
Print Assumptions C15_derive_more_paths_exported.

Theorem C15_method_calls_classified :
  forall t s, In t templates -> In s (method_sites t) ->
    method_site_closed (global_typed_binders templates) s = true \/
    In (method_key (t_file t, ms_name s)) known_method_sites.
Proof. exact Proofs.method_calls_classified. Qed.
Print Assumptions C15_method_calls_classified.

Theorem C15_inherent_call_scope_independent :
  forall i provides sc1 sc2, resolve_method (Some i) provides sc1 = resolve_method (Some i) provides sc2.
Proof. exact Proofs.inherent_call_scope_independent. Qed.
Print Assumptions C15_inherent_call_scope_independent.

Theorem C15_trait_call_observes_scope :
  forall c d : N, c <> d ->
    let provides := fun _ : N => true in
    resolve_method None provides {| mc_macro := []; mc_user := []; mc_prelude := [c] |} <>
    resolve_method None provides {| mc_macro := []; mc_user := []; mc_prelude := [] |} /\
    resolve_method None provides {| mc_macro := [c]; mc_user := []; mc_prelude := [] |} <>
    resolve_method None provides {| mc_macro := [c]; mc_user := [d]; mc_prelude := [] |} /\
    (forall i sc, resolve_method None provides {| mc_macro := [c]; mc_user := []; mc_prelude := [] |} <>
                  resolve_method (Some i) provides sc).
Proof. exact Proofs.trait_call_observes_scope. Qed.
Print Assumptions C15_trait_call_observes_scope.

Theorem C15_flagged_head_observes_scope :
  forall (lb : list string) (h : head),
    h_kind h <> HExtern ->
    reserved (h_name h) = false ->
    h_name h <> "Self"%string ->
    mem (h_name h) lb = false ->
    exists (H : string -> bool) (sc1 sc2 : scope),
      (forall x, H x = true -> reserved x = false) /\
      agree_on_nonprelude H sc1 sc2 /\ prelude_wf sc1 /\ prelude_wf sc2 /\
      resolve lb sc1 h <> resolve lb sc2 h.
Proof. exact Proofs.flagged_head_observes_scope. Qed.
Print Assumptions C15_flagged_head_observes_scope.

Theorem C15_extern_head_module_independent :
  forall lb1 lb2 sc1 sc2 x,
    (forall y, sc_extern sc1 y = sc_extern sc2 y) ->
    resolve lb1 sc1 {| h_name := x; h_kind := HExtern |} = resolve lb2 sc2 {| h_name := x; h_kind := HExtern |}.
Proof. exact Proofs.extern_head_module_independent. Qed.
Print Assumptions C15_extern_head_module_independent.

Theorem C15_introduced_generics_fresh :
  forall (user_params : list string),
    (forall u, In u user_params -> starts_dunder u = false) ->
    forall g, In g (introduced_generics templates format_idents) -> ~ In g user_params.
Proof. exact Proofs.introduced_generics_fresh. Qed.
Print Assumptions C15_introduced_generics_fresh.

Theorem C15_method_calls_closed_refuted :
  exists t s, In t templates /\ In s (method_sites t) /\
    t_file t = "error.rs"%string /\ ms_name s = "as_dyn_error"%string /\ ms_recv s = RUser /\
    method_site_closed (global_typed_binders templates) s = false /\
    (forall (c i : N) sc,
       resolve_method None (fun _ => true) {| mc_macro := [c]; mc_user := []; mc_prelude := [] |} = MTrait c /\
       resolve_method (Some i) (fun _ => true) sc = MInherent i).
Proof. exact Proofs.method_calls_closed_refuted. Qed.
Print Assumptions C15_method_calls_closed_refuted.

Theorem C15_assoc_paths_classified :
  forall t p, In t templates -> In p (assoc_paths t) ->
    assoc_path_closed templates (generic_params t) p = true \/
    In (assoc_key (t_file t, (hd "" p ++ "::" ++ last_seg p)%string)) known_assoc_sites.
Proof. exact Proofs.assoc_paths_classified. Qed.
Print Assumptions C15_assoc_paths_classified.

Theorem C15_assoc_paths_all_closed :
  forall t p, In t templates -> In p (assoc_paths t) -> assoc_path_closed templates (generic_params t) p = true.
Proof. exact Proofs.assoc_paths_all_closed. Qed.
Print Assumptions C15_assoc_paths_all_closed.

Theorem C15_type_relative_assoc_observes_scope :
  forall c d : N, c <> d ->
    let provides := fun _ : N => true in
    resolve_assoc None None provides {| mc_macro := [c]; mc_user := []; mc_prelude := [] |} = MTrait c /\
    resolve_assoc None None provides {| mc_macro := [c]; mc_user := [d]; mc_prelude := [] |} = MAmbiguous /\
    (forall i sc, resolve_assoc None (Some i) provides sc = MInherent i) /\
    (forall inh sc, resolve_assoc (Some c) inh provides sc = MTrait c).
Proof. exact Proofs.type_relative_assoc_observes_scope. Qed.
Print Assumptions C15_type_relative_assoc_observes_scope.

Theorem C15_binders_classified :
  forall t x, In t templates -> In x (pattern_binders t) ->
    starts_dunder x = true \/ binder_listed x = true.
Proof. exact Proofs.binders_classified. Qed.
Print Assumptions C15_binders_classified.

Theorem C15_binders_all_dunder_refuted :
  exists t x, In t templates /\ In x (pattern_binders t) /\ t_file t = "try_from.rs"%string /\ x = "val"%string /\
              starts_dunder x = false /\
              (forall n, resolve_pattern_ident (fun y => if String.eqb y "val" then Some n else None) x = PPathTo n) /\
              resolve_pattern_ident (fun _ => None) x = PBinding x.
Proof. exact Proofs.binders_all_dunder_refuted. Qed.
Print Assumptions C15_binders_all_dunder_refuted.

Theorem C15_unit_item_captures_binder :
  forall (items : string -> option N) x n, items x = Some n ->
    resolve_pattern_ident items x = PPathTo n /\ resolve_pattern_ident (fun _ => None) x = PBinding x.
Proof. exact Proofs.unit_item_captures_binder. Qed.
Print Assumptions C15_unit_item_captures_binder.

Theorem C15_dunder_binder_scope_independent :
  forall (items1 items2 : string -> option N) x,
    starts_dunder x = true ->
    (forall y, starts_dunder y = true -> items1 y = None) ->
    (forall y, starts_dunder y = true -> items2 y = None) ->
    resolve_pattern_ident items1 x = resolve_pattern_ident items2 x.
Proof. exact Proofs.dunder_binder_scope_independent. Qed.
Print Assumptions C15_dunder_binder_scope_independent.
