From Coq Require Import List String NArith.
Require Import Verif.C15.Model Verif.Gen.Templates Verif.C15.Proofs.
Import ListNotations.

Theorem C15_closed_modulo_known :
  forall o, In o (offenders templates) -> In (key o) known_offender_keys.
Proof. exact Proofs.closed_modulo_known. Qed.
Print Assumptions C15_closed_modulo_known.

Theorem C15_templates_closed_modulo_known :
  forall t h, In t templates -> In h (head_idents t) ->
    allowed_head (global_binders templates) (binders t) h = true \/
    In (key (t_file t, t_fn t, show_head h)) known_offender_keys.
Proof. exact Proofs.templates_closed_modulo_known. Qed.
Print Assumptions C15_templates_closed_modulo_known.

Theorem C15_scope_independent :
  forall (gb : list string) (t : template) (H : string -> bool) (sc1 sc2 : scope),
    closed gb t = true ->
    (forall x, H x = true -> reserved x = false) ->
    incl (open_locals (binders t) (head_idents t)) (sc_locals sc1) ->
    agree_on_nonprelude H sc1 sc2 ->
    prelude_wf sc1 -> prelude_wf sc2 ->
    map (resolve (binders t) sc1) (head_idents t) = map (resolve (binders t) sc2) (head_idents t).
Proof. exact Proofs.scope_independent. Qed.
Print Assumptions C15_scope_independent.

Theorem C15_generated_templates_scope_independent :
  forall t, In t templates -> offenders_of (global_binders templates) t = [] ->
  forall (H : string -> bool) (sc1 sc2 : scope),
    (forall x, H x = true -> reserved x = false) ->
    incl (open_locals (binders t) (head_idents t)) (sc_locals sc1) ->
    agree_on_nonprelude H sc1 sc2 ->
    prelude_wf sc1 -> prelude_wf sc2 ->
    map (resolve (binders t) sc1) (head_idents t) = map (resolve (binders t) sc2) (head_idents t).
Proof. exact Proofs.generated_templates_scope_independent. Qed.
Print Assumptions C15_generated_templates_scope_independent.

Theorem C15_format_idents_local_like :
  forall f, In f format_idents -> fmt_ident_ok (snd f) = true.
Proof. exact Proofs.format_idents_local_like. Qed.
Print Assumptions C15_format_idents_local_like.
