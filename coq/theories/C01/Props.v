(** C01 -- property theorems (statements only; proofs in Proofs.v).
    PARTIAL with respect to the property text: `wf_header` is the logical part of "the generated items compile"
    (every declared parameter printed exactly once with its bounds and without default, lifetimes first, the type's
    generic arguments on the type and on nothing else, only names in scope, user where-clause kept); rustc's type
    checker, borrow checker and lints are consulted by the check script on generated crates, not modelled. *)
From Coq Require Import List String.
Require Import Verif.Base.Chars.
Require Import Verif.Gen.ImplAttrs.
Require Import Verif.C01.Model.
Require Verif.C01.Proofs.
Import ListNotations.

Theorem C01_wf_partial :
  forall (f : family) (g : generics), supported f g -> wf_header g (header f g).
Proof. exact Proofs.wf_all. Qed.
Print Assumptions C01_wf_partial.

Theorem C01_wf_try_from :
  forall repr g, wf_generics g -> wf_header g (header (FTryFrom repr) g).
Proof. exact Proofs.wf_try_from. Qed.
Print Assumptions C01_wf_try_from.

Theorem C01_wf_from_str_enum :
  forall g, wf_generics g -> wf_header g (header FFromStrEnum g).
Proof. exact Proofs.wf_from_str_enum. Qed.
Print Assumptions C01_wf_from_str_enum.

Theorem C01_source_headers :
  try_from_tygen_on_trait = false /\ try_from_tygen_on_self = true /\ from_str_enum_generic = true.
Proof. exact Proofs.source_headers. Qed.
Print Assumptions C01_source_headers.

Theorem C01_attrs_closed :
  forall o, In o (offenders impl_templates) -> In (key o) known_offender_keys.
Proof. exact Proofs.attrs_closed. Qed.
Print Assumptions C01_attrs_closed.

Theorem C01_attrs_present :
  forall t, In t impl_templates ->
    (t_auto t = true \/ In (t_file t, t_idx t, MAuto) known_offender_keys)
    /\ (t_interp t = true -> t_dep t = true \/ In (t_file t, t_idx t, MDeprecated) known_offender_keys)
    /\ (t_interp t = true -> t_unreach t = true \/ In (t_file t, t_idx t, MUnreachable) known_offender_keys).
Proof. exact Proofs.attrs_present. Qed.
Print Assumptions C01_attrs_present.

(** ** All 50 derives, through the decision layer (which impls an attribute set produces) *)

Theorem C01_derive_table :
  length all_derives = 50%nat /\ NoDup (map derive_name all_derives) /\ forall d, In d all_derives.
Proof. exact (conj Proofs.all_derives_length (conj Proofs.derive_name_inj_on_all Proofs.all_derives_complete)). Qed.
Print Assumptions C01_derive_table.

Theorem C01_wf_all_derives_partial :
  forall (g : generics), wf_generics g -> forall (d : derive) (i : dinput), input_ok i g ->
    Forall (wf_header g) (headers_of d i g).
Proof. exact Proofs.wf_all_derives. Qed.
Print Assumptions C01_wf_all_derives_partial.

Theorem C01_own_generics_only_on_the_type :
  forall d i g, wf_generics g -> input_ok i g ->
  forall h, In h (headers_of d i g) ->
    (forall t, In t (header_tys h) -> ty_ok g t) /\ existsb is_input (trait_args h ++ [h_self h]) = true.
Proof. exact Proofs.own_generics_only_on_the_type. Qed.
Print Assumptions C01_own_generics_only_on_the_type.

Theorem C01_added_bounds_in_scope :
  forall d i g, wf_generics g -> input_ok i g ->
  forall h, In h (headers_of d i g) ->
    incl (header_names h) (map p_name (h_params h))
    /\ (forall q, In q (h_params h) -> In (p_name q) (g_names g) \/ fresh_name (p_name q) = true).
Proof. exact Proofs.added_bounds_in_scope. Qed.
Print Assumptions C01_added_bounds_in_scope.

(** ** Placement of parameters, for arbitrary (also unsorted) parameter lists *)

Theorem C01_printed_lifetimes_first :
  forall ps : list param, lts_first (map p_kind (impl_params ps)) = true.
Proof. exact Proofs.printed_lifetimes_first. Qed.
Print Assumptions C01_printed_lifetimes_first.

Theorem C01_new_type_param_placement :
  forall g p, p_kind p = KTy ->
    kinds_sorted (map p_kind (g_params (add_extra_generic_type_param g p))) = true
    /\ Permutation.Permutation (g_params (add_extra_generic_type_param g p)) (g_params g ++ [p]).
Proof. exact Proofs.new_type_param_placement. Qed.
Print Assumptions C01_new_type_param_placement.

(** ** Free variables of what the where-clause / bound builders add *)

Theorem C01_where_builder_scoped :
  forall g ps names,
    incl (flat_map pred_names (g_where g)) names -> incl (flat_map pred_names ps) names ->
    incl (flat_map pred_names (g_where (add_extra_where_clauses g ps))) names.
Proof. exact Proofs.where_builder_scoped. Qed.
Print Assumptions C01_where_builder_scoped.

Theorem C01_bound_builder_scoped :
  forall g b names,
    incl (flat_map param_names (g_params g)) names -> incl (bound_names b) names ->
    incl (flat_map param_names (g_params (add_extra_ty_param_bound g b))) names.
Proof. exact Proofs.bound_builder_scoped. Qed.
Print Assumptions C01_bound_builder_scoped.

(** ** derive(TryInto): no two generated impls target the same (selection, field types) *)

Theorem C01_tryinto_keys_distinct : forall vs, keys_distinct (tryinto_keys vs) = true.
Proof. exact Proofs.tryinto_keys_distinct. Qed.
Print Assumptions C01_tryinto_keys_distinct.

(** ** Acceptance of the documented shapes (attribute-free items) *)

Theorem C01_documented_accepted : forall d fwd sh, documented d sh = true -> accepts d fwd sh = true.
Proof. exact Proofs.documented_accepted. Qed.
Print Assumptions C01_documented_accepted.

Theorem C01_mul_forward_enum_accepted : forall o vs, accepts (DMulLike o) true (SEnum vs) = true.
Proof. exact Proofs.mul_forward_enum_accepted. Qed.
Print Assumptions C01_mul_forward_enum_accepted.

(** ** Attribute presence, template by template *)

Theorem C01_all_automatically_derived : forall t, In t impl_templates -> t_auto t = true.
Proof. exact Proofs.all_automatically_derived. Qed.
Print Assumptions C01_all_automatically_derived.

Theorem C01_attrs_decided :
  forall t, In t impl_templates ->
    lacks t = [] \/ (lacks t <> [] /\ forall m, In m (lacks t) -> In (t_file t, t_idx t, m) known_offender_keys).
Proof. exact Proofs.attrs_decided. Qed.
Print Assumptions C01_attrs_decided.
