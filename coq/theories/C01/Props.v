(** C01 -- property theorems (statements only; proofs in Proofs.v).
    PARTIAL with respect to the property text: `wf_header` is the logical part of "the generated items compile"
    (every declared parameter printed exactly once with its bounds and without default, lifetimes first, the type's
    generic arguments on the type and on nothing else, only names in scope, user where-clause kept); rustc's type
    checker, borrow checker and lints are consulted by the check script on generated crates, not modelled. *)
From Coq Require Import List String.
Require Import Verif.Base.Chars.
Require Import Verif.Gen.ImplAttrs.
Require Import Verif.C01.Model.
Require Verif.C01.Proofs.
Import ListNotations.

Theorem C01_wf_partial :
  forall (f : family) (g : generics), supported f g -> wf_header g (header f g).
Proof. exact Proofs.wf_all. Qed.
Print Assumptions C01_wf_partial.

Theorem C01_wf_try_from :
  forall repr g, wf_generics g -> wf_header g (header (FTryFrom repr) g).
Proof. exact Proofs.wf_try_from. Qed.
Print Assumptions C01_wf_try_from.

Theorem C01_wf_from_str_enum :
  forall g, wf_generics g -> wf_header g (header FFromStrEnum g).
Proof. exact Proofs.wf_from_str_enum. Qed.
Print Assumptions C01_wf_from_str_enum.

Theorem C01_source_headers :
  try_from_tygen_on_trait = false /\ try_from_tygen_on_self = true /\ from_str_enum_generic = true.
Proof. exact Proofs.source_headers. Qed.
Print Assumptions C01_source_headers.

Theorem C01_attrs_closed :
  forall o, In o (offenders impl_templates) -> In (key o) known_offender_keys.
Proof. exact Proofs.attrs_closed. Qed.
Print Assumptions C01_attrs_closed.

Theorem C01_attrs_present :
  forall t, In t impl_templates ->
    (t_auto t = true \/ In (t_file t, t_idx t, MAuto) known_offender_keys)
    /\ (t_interp t = true -> t_dep t = true \/ In (t_file t, t_idx t, MDeprecated) known_offender_keys)
    /\ (t_interp t = true -> t_unreach t = true \/ In (t_file t, t_idx t, MUnreachable) known_offender_keys).
Proof. exact Proofs.attrs_present. Qed.
Print Assumptions C01_attrs_present.
