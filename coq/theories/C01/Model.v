(** C01 -- model of the generics handling of derive_more's expansions (impl headers) and of the
    attribute-presence facts.  Executable definitions only; proofs are in Proofs.v.

    What is modelled (file / function / lines of /repo/impl/src):
      utils.rs  add_extra_type_param_bound_op_output 135-150, add_extra_ty_param_bound_op 152-157,
                add_extra_ty_param_bound 159-170, add_extra_generic_param 172-182,
                add_extra_generic_type_param 184-204, add_extra_where_clauses 206-218,
                add_where_clauses_for_new_ident 220-238, State::new_impl 365-503 (only `generics`),
                RefType::lifetime/reference_with_lifetime 60-95
      syn 2.0   Generics::split_for_impl, ToTokens for ImplGenerics / TypeGenerics / WhereClause (generics.rs)
      the `impl<..> Trait<..> for Ty<..> where ..` header of every derive family (one constructor of [family]
      per header template; the template list itself is regenerated into Gen/ImplAttrs.v).

    Not modelled: which impls a derive emits for a given attribute set (that is decided by the check script's
    case builder and validated against the real expansion), bodies, rustc's type checker and lints. *)
From Coq Require Import List NArith Bool String Ascii DecimalNat.
Require Import Verif.Base.Chars.
Require Import Verif.Gen.ImplAttrs.
Import ListNotations.
Open Scope N_scope.
Open Scope list_scope.

(** * Syntax *)

Definition name := str.                       (* an identifier; lifetimes include the leading quote *)

Fixpoint s (x : string) : str :=              (* Coq string literal -> code points *)
  match x with
  | EmptyString => []
  | String c r => N_of_ascii c :: s r
  end.

Inductive pkind := KLt | KTy | KConst.

(** A piece of user-written syntax (a type, a bound, a where-predicate): its text, kept verbatim, and the
    generic parameter names it mentions. *)
Record utext := U { u_text : str; u_free : list name }.

(** `&'lt` / `&'lt mut` in front of a type *)
Inductive refk := RNo | RRef (lt : name) | RMut (lt : name).

Inductive ty :=
| TUser (r : refk) (u : utext)              (* [&'l [mut]] <user type> *)
| TInput (r : refk) (args : list name)      (* [&'l [mut]] <input ident> <args>  (args as TypeGenerics prints them) *)
| TNamed (path : str) (args : list name)    (* any other path followed by generic arguments *)
| TParam (n : name)                         (* a generic parameter used as a type *)
| TTuple (r : refk) (us : list utext)       (* ( [&'l [mut]] u1 , ... ) *)
| TParams (ns : list name).                 (* ( n1 , n2 , ... ) *)

Inductive bound :=
| BUser (u : utext)                                         (* written by the user *)
| BTrait (path : str) (args : list ty) (out : option ty)    (* path < args , Output = out > *)
| BLit (text : str).                                        (* mentions no identifier in scope: ?Sized, 'static *)

Record param := P { p_kind : pkind; p_name : name; p_bounds : list bound; p_cty : str; p_default : option str }.

Inductive pred :=
| PUser (u : utext)                         (* user's where-predicate, verbatim *)
| PAdded (lhs : ty) (bs : list bound).      (* lhs : b1 + b2 ... *)

Record generics := G { g_params : list param; g_where : list pred }.

Record hdr := H {
  h_params : list param;                    (* what is printed between `impl<` and `>` *)
  h_trait : option (str * list ty);         (* trait path and its generic arguments; None = inherent impl *)
  h_self : ty;
  h_where : list pred }.

(** * syn: split_for_impl *)

Definition is_lt (p : param) : bool := match p_kind p with KLt => true | _ => false end.
Definition is_ty (p : param) : bool := match p_kind p with KTy => true | _ => false end.
Definition is_const (p : param) : bool := match p_kind p with KConst => true | _ => false end.

Definition drop_default (p : param) : param :=
  {| p_kind := p_kind p; p_name := p_name p; p_bounds := p_bounds p; p_cty := p_cty p; p_default := None |}.

(* syn generics.rs, ToTokens for ImplGenerics: lifetimes first, then the others in order; defaults left off *)
Definition impl_params (ps : list param) : list param :=
  map drop_default (filter is_lt ps ++ filter (fun p => negb (is_lt p)) ps).

(* syn generics.rs, ToTokens for TypeGenerics: names only, lifetimes first *)
Definition ty_args_of (ps : list param) : list name :=
  map p_name (filter is_lt ps ++ filter (fun p => negb (is_lt p)) ps).

Definition impl_generics (g : generics) : list param := impl_params (g_params g).
Definition ty_args (g : generics) : list name := ty_args_of (g_params g).

(** * utils.rs helpers *)

Definition add_bound (b : bound) (p : param) : param :=
  {| p_kind := p_kind p; p_name := p_name p; p_bounds := p_bounds p ++ [b]; p_cty := p_cty p; p_default := p_default p |}.

(* utils.rs:159 add_extra_ty_param_bound *)
Definition add_extra_ty_param_bound (g : generics) (b : bound) : generics :=
  {| g_params := map (fun p => if is_ty p then add_bound b p else p) (g_params g); g_where := g_where g |}.

Definition ops_path (tr : str) : str := s "derive_more::core::ops::" ++ tr.
Definition with_trait (tr : str) : str := s "derive_more::with_trait::" ++ tr.

(* utils.rs:152 add_extra_ty_param_bound_op *)
Definition add_extra_ty_param_bound_op (g : generics) (tr : str) : generics :=
  add_extra_ty_param_bound g (BTrait (ops_path tr) [] None).

(* utils.rs:135 add_extra_type_param_bound_op_output: `T: ops::Tr<Output = T>` for every type parameter T *)
Definition add_extra_type_param_bound_op_output (g : generics) (tr : str) : generics :=
  {| g_params := map (fun p => if is_ty p
                               then add_bound (BTrait (ops_path tr) [] (Some (TParam (p_name p)))) p
                               else p) (g_params g);
     g_where := g_where g |}.

(* utils.rs:172 add_extra_generic_param: pushed at the end *)
Definition add_extra_generic_param (g : generics) (p : param) : generics :=
  {| g_params := g_params g ++ [p]; g_where := g_where g |}.

(* utils.rs:184 add_extra_generic_type_param: lifetimes, types, the new one, consts *)
Definition add_extra_generic_type_param (g : generics) (p : param) : generics :=
  {| g_params := filter is_lt (g_params g) ++ filter is_ty (g_params g) ++ [p] ++ filter is_const (g_params g);
     g_where := g_where g |}.

(* utils.rs:206 add_extra_where_clauses: the new predicates come first *)
Definition add_extra_where_clauses (g : generics) (ps : list pred) : generics :=
  {| g_params := g_params g; g_where := ps ++ g_where g |}.

Definition lt_param (n : name) : param := P KLt n [] [] None.
Definition ty_param (n : name) (bs : list bound) : param := P KTy n bs [] None.

Definition copy_bound : bound := BTrait (s "derive_more::core::marker::Copy") [] None.
Definition maybe_sized : bound := BLit (s "?derive_more::core::marker::Sized").

(* utils.rs:220 add_where_clauses_for_new_ident *)
Definition add_where_clauses_for_new_ident (g : generics) (nfields : nat) (id : name)
           (ps : list pred) (sized : bool) : generics :=
  let p := if Nat.ltb 1 nfields then ty_param id [copy_bound]
           else if sized then ty_param id [] else ty_param id [maybe_sized] in
  add_extra_generic_type_param (add_extra_where_clauses g ps) p.

(** * Fresh names introduced by the derives *)

Definition n_idx : name := s "__IdxT".                         (* index.rs:8, index_mut.rs:8 *)
Definition n_rhs : name := s "__RhsT".                         (* mul_like.rs:20, mul_assign_like.rs:25 *)
Definition n_as : name := s "__AsT".                           (* as/mod.rs:211 *)
Definition lt_more : name := s "'__deriveMoreLifetime".        (* utils.rs:63 RefType::lifetime *)
Definition lt_into : name := s "'__derive_more_into".          (* into.rs:158 *)

Fixpoint uint_str (u : Decimal.uint) : str :=
  match u with
  | Decimal.Nil => []
  | Decimal.D0 r => 48 :: uint_str r | Decimal.D1 r => 49 :: uint_str r | Decimal.D2 r => 50 :: uint_str r
  | Decimal.D3 r => 51 :: uint_str r | Decimal.D4 r => 52 :: uint_str r | Decimal.D5 r => 53 :: uint_str r
  | Decimal.D6 r => 54 :: uint_str r | Decimal.D7 r => 55 :: uint_str r | Decimal.D8 r => 56 :: uint_str r
  | Decimal.D9 r => 57 :: uint_str r
  end.
Definition dec (n : nat) : str := uint_str (Nat.to_uint n).
Definition n_from (i : nat) : name := s "__FromT" ++ dec i.    (* from.rs:222 format_ident!("__FromT{i}") *)

(* a name the derives reserve for themselves; users are assumed not to declare such parameters *)
Definition fresh_name (n : name) : bool :=
  match n with
  | 95 :: 95 :: _ => true
  | 39 :: 95 :: 95 :: _ => true
  | _ => false
  end.

(** * The header every derive family builds *)

Inductive refsel := SOwned | SRef | SMut.
Definition refk_of (sel : refsel) (lt : name) : refk :=
  match sel with SOwned => RNo | SRef => RRef lt | SMut => RMut lt end.
Definition is_ref (sel : refsel) : bool := match sel with SOwned => false | _ => true end.

Inductive askind :=
| AsPlain (ret : utext)                   (* Direct / Specialized: input generics untouched *)
| AsForwarded (fty ret : utext)           (* where-predicate `fty: Trait<ret>` pushed last *)
| AsBlanket (fty : utext).                (* #[as_ref(forward)]: `__AsT: ?Sized` pushed last *)

Inductive family :=
| FInherent                                            (* constructor.rs:32 is_variant.rs:59 unwrap.rs:124 try_unwrap.rs:129 *)
| FFmt (tr : str) (bounds : list pred)                 (* fmt/display.rs:62-75, fmt/debug.rs:53-66 *)
| FAddLike (tr : str)                                  (* add_like.rs:19-47, not_like.rs:15-43 (also mul forward) *)
| FAddAssignLike (tr : str)                            (* add_assign_like.rs:13-34 *)
| FFrom (arg : ty)                                     (* from.rs:174-186, 197-209 *)
| FFromForward (ftys : list utext)                     (* from.rs:211-255 *)
| FInto (sel : refsel) (out : list utext)              (* into.rs:157-195 *)
| FAsRef (tr : str) (k : askind)                       (* as/mod.rs:246-295 *)
| FDeref (tr : str) (fwd : option utext)               (* deref.rs:25-48, deref_mut.rs:22-39 *)
| FIndex (tr : str) (fty : utext)                      (* index.rs:23-38, index_mut.rs:22-37 *)
| FMulLike (tr : str) (nfields : nat) (dtys : list utext)        (* mul_like.rs:20-52 + mul_helpers.rs:27-35 *)
| FMulAssignLike (tr : str) (nfields : nat) (dtys : list utext)  (* mul_assign_like.rs:25-56 *)
| FIntoIterator (sel : refsel) (fty : utext)           (* into_iterator.rs:24-48 *)
| FSum (tr op : str)                                   (* sum_like.rs:19-46 *)
| FFromStrStruct                                       (* from_str.rs:26-42 with State::new *)
| FFromStrEnum                                         (* from_str.rs:93-100 *)
| FTryFrom (repr : str)                                (* try_from.rs:84, 124-127 *)
| FTryInto (sel : refsel) (tys : list utext)           (* try_into.rs:95-112 *)
| FError (bounds : list utext).                        (* error.rs:64-102 *)

Definition mk (ps : list param) (wh : list pred) (tr : option (str * list ty)) (self : ty) : hdr :=
  {| h_params := impl_params ps; h_trait := tr; h_self := self; h_where := wh |}.

Definition convert_path (tr : str) : str := s "derive_more::core::convert::" ++ tr.
Definition fmt_path (tr : str) : str := s "derive_more::core::fmt::" ++ tr.

Definition numbered_from (n : nat) : list name := map n_from (seq 0 n).

Definition header (f : family) (g : generics) : hdr :=
  let self := TInput RNo (ty_args g) in
  match f with
  | FInherent => mk (g_params g) (g_where g) None self
  | FFmt tr bounds =>
      (* where_clause.predicates.extend(bounds) *)
      mk (g_params g) (g_where g ++ bounds) (Some (fmt_path tr, [])) self
  | FAddLike tr =>
      let gx := add_extra_type_param_bound_op_output g tr in
      mk (g_params gx) (g_where gx) (Some (ops_path tr, [])) self
  | FAddAssignLike tr =>
      let gx := add_extra_ty_param_bound_op g tr in
      mk (g_params gx) (g_where gx) (Some (ops_path tr, [])) self
  | FFrom arg => mk (g_params g) (g_where g) (Some (convert_path (s "From"), [arg])) self
  | FFromForward ftys =>
      (* for each field: make_where_clause().predicates.push(ty: From<__FromTi>); params.push(__FromTi) *)
      let ids := numbered_from (length ftys) in
      let preds := map (fun '(u, id) => PAdded (TUser RNo u) [BTrait (convert_path (s "From")) [TParam id] None])
                       (combine ftys ids) in
      mk (g_params g ++ map (fun id => ty_param id []) ids) (g_where g ++ preds)
         (Some (convert_path (s "From"), [TParams ids])) self
  | FInto sel out =>
      let r := refk_of sel lt_into in
      let ps := if is_ref sel then g_params g ++ [lt_param lt_into] else g_params g in
      mk ps (g_where g) (Some (convert_path (s "From"), [TInput r (ty_args g)])) (TTuple r out)
  | FAsRef tr k =>
      let tp := convert_path tr in
      match k with
      | AsPlain ret => mk (g_params g) (g_where g) (Some (tp, [TUser RNo ret])) self
      | AsForwarded fty ret =>
          mk (g_params g) (g_where g ++ [PAdded (TUser RNo fty) [BTrait tp [TUser RNo ret] None]])
             (Some (tp, [TUser RNo ret])) self
      | AsBlanket fty =>
          mk (g_params g ++ [ty_param n_as [maybe_sized]])
             (g_where g ++ [PAdded (TUser RNo fty) [BTrait tp [TParam n_as] None]])
             (Some (tp, [TParam n_as])) self
      end
  | FDeref tr fwd =>
      let gx := match fwd with
                | Some fty => add_extra_where_clauses g [PAdded (TUser RNo fty) [BTrait (with_trait tr) [] None]]
                | None => g
                end in
      mk (g_params gx) (g_where gx) (Some (with_trait tr, [])) self
  | FIndex tr fty =>
      let gx := add_where_clauses_for_new_ident g 1 n_idx
                  [PAdded (TUser RNo fty) [BTrait (with_trait tr) [TParam n_idx] None]] true in
      mk (g_params gx) (g_where gx) (Some (with_trait tr, [TParam n_idx])) self
  | FMulLike tr nfields dtys =>
      let gx := add_where_clauses_for_new_ident g nfields n_rhs
                  (map (fun u => PAdded (TUser RNo u) [BTrait (with_trait tr) [TParam n_rhs] (Some (TUser RNo u))]) dtys)
                  true in
      mk (g_params gx) (g_where gx) (Some (with_trait tr, [TParam n_rhs])) self
  | FMulAssignLike tr nfields dtys =>
      let gx := add_where_clauses_for_new_ident g nfields n_rhs
                  (map (fun u => PAdded (TUser RNo u) [BTrait (with_trait tr) [TParam n_rhs] None]) dtys) true in
      mk (g_params gx) (g_where gx) (Some (with_trait tr, [TParam n_rhs])) self
  | FIntoIterator sel fty =>
      let r := refk_of sel lt_more in
      let gp := if is_ref sel then add_extra_generic_param g (lt_param lt_more) else g in
      let gw := add_extra_where_clauses g [PAdded (TUser r fty) [BTrait (with_trait (s "IntoIterator")) [] None]] in
      mk (g_params gp) (g_where gw) (Some (with_trait (s "IntoIterator"), [])) (TInput r (ty_args g))
  | FSum tr op =>
      let gx := if existsb is_ty (g_params g)
                then add_extra_where_clauses (add_extra_ty_param_bound g (BTrait (with_trait tr) [] None))
                       [PAdded self [BTrait (ops_path op) [] (Some self)]]
                else g in
      mk (g_params gx) (g_where gx) (Some (with_trait tr, [])) self
  | FFromStrStruct =>
      let gx := add_extra_ty_param_bound g (BTrait (with_trait (s "FromStr")) [] None) in
      mk (g_params gx) (g_where gx) (Some (with_trait (s "FromStr"), [])) self
  | FFromStrEnum =>
      (* input.generics.split_for_impl() since a07fcdf *)
      mk (g_params g) (g_where g) (Some (with_trait (s "FromStr"), [])) self
  | FTryFrom repr =>
      (* `TryFrom<#repr_ty> for #ident #ty_generics #where_clause` since 6cf1b20 *)
      mk (g_params g) (g_where g) (Some (convert_path (s "TryFrom"), [TNamed repr []])) self
  | FTryInto sel tys =>
      let r := refk_of sel lt_more in
      let gp := if is_ref sel then add_extra_generic_param g (lt_param lt_more) else g in
      mk (g_params gp) (g_where g) (Some (convert_path (s "TryFrom"), [TInput r (ty_args g)])) (TTuple r tys)
  | FError bounds =>
      let g1 := if existsb is_ty (g_params g)
                then add_extra_where_clauses g
                       [PAdded self [BTrait (fmt_path (s "Debug")) [] None; BTrait (fmt_path (s "Display")) [] None]]
                else g in
      let g2 := match bounds with
                | [] => g1
                | _ => add_extra_where_clauses g1
                         (map (fun u => PAdded (TUser RNo u)
                                          [BTrait (fmt_path (s "Debug")) [] None; BTrait (fmt_path (s "Display")) [] None;
                                           BTrait (with_trait (s "Error")) [] None; BLit (s "'static")]) bounds)
                end in
      mk (g_params g2) (g_where g2) (Some (with_trait (s "Error"), [])) self
  end.

(** * Well-formedness of a header with respect to the declared generics *)

Definition ref_names (r : refk) : list name := match r with RNo => [] | RRef l => [l] | RMut l => [l] end.

Definition ty_names (t : ty) : list name :=
  match t with
  | TUser r u => ref_names r ++ u_free u
  | TInput r args => ref_names r ++ args
  | TNamed _ args => args
  | TParam n => [n]
  | TTuple r us => ref_names r ++ flat_map u_free us
  | TParams ns => ns
  end.

Definition opt_list {A} (o : option A) : list A := match o with Some a => [a] | None => [] end.

Definition bound_tys (b : bound) : list ty :=
  match b with BTrait _ args out => args ++ opt_list out | _ => [] end.
Definition bound_names (b : bound) : list name :=
  match b with
  | BUser u => u_free u
  | BTrait _ args out => flat_map ty_names (args ++ opt_list out)
  | BLit _ => []
  end.
Definition pred_tys (p : pred) : list ty :=
  match p with PUser _ => [] | PAdded lhs bs => lhs :: flat_map bound_tys bs end.
Definition pred_names (p : pred) : list name :=
  match p with PUser u => u_free u | PAdded lhs bs => ty_names lhs ++ flat_map bound_names bs end.
Definition param_tys (p : param) : list ty := flat_map bound_tys (p_bounds p).
Definition param_names (p : param) : list name := flat_map bound_names (p_bounds p).

Definition trait_args (h : hdr) : list ty := match h_trait h with Some (_, a) => a | None => [] end.

(* every type expression / every parameter name occurring anywhere in the header *)
Definition header_tys (h : hdr) : list ty :=
  flat_map param_tys (h_params h) ++ trait_args h ++ [h_self h] ++ flat_map pred_tys (h_where h).
Definition header_names (h : hdr) : list name :=
  flat_map param_names (h_params h) ++ flat_map ty_names (trait_args h) ++ ty_names (h_self h)
  ++ flat_map pred_names (h_where h).

(* the type's own generic arguments go on the type itself and on nothing else *)
Definition ty_ok (g : generics) (t : ty) : Prop :=
  match t with
  | TInput _ args => args = ty_args g
  | TNamed _ args => args = []
  | _ => True
  end.

Definition is_input (t : ty) : bool := match t with TInput _ _ => true | _ => false end.

Fixpoint lts_first (ks : list pkind) : bool :=         (* no lifetime after a type/const parameter *)
  match ks with
  | [] => true
  | KLt :: r => lts_first r
  | _ :: r => forallb (fun k => match k with KLt => false | _ => true end) r
  end.

(* q prints declared parameter p: same kind, name, const type; p's bounds first, then whatever the derive added *)
Definition prints (p q : param) : Prop :=
  p_kind q = p_kind p /\ p_name q = p_name p /\ p_cty q = p_cty p /\ exists extra, p_bounds q = p_bounds p ++ extra.

Record wf_header (g : generics) (h : hdr) : Prop := {
  wf_nodup : NoDup (map p_name (h_params h));
  wf_order : lts_first (map p_kind (h_params h)) = true;
  wf_nodefault : Forall (fun q => p_default q = None) (h_params h);
  wf_declared : forall p, In p (g_params g) -> exists q, In q (h_params h) /\ prints p q;
  wf_only : forall q, In q (h_params h) ->
                      (exists p, In p (g_params g) /\ prints p q) \/ fresh_name (p_name q) = true;
  wf_tygen : Forall (ty_ok g) (header_tys h);
  wf_about_input : existsb is_input (trait_args h ++ [h_self h]) = true;
  wf_scoped : incl (header_names h) (map p_name (h_params h));
  wf_where_kept : incl (g_where g) (h_where h)
}.

(** * What "supported" means for the theorem *)

Definition user_bound (b : bound) : Prop := match b with BUser _ => True | _ => False end.
Definition user_pred (p : pred) : Prop := match p with PUser _ => True | _ => False end.
Definition g_names (g : generics) : list name := map p_name (g_params g).

Record wf_generics (g : generics) : Prop := {
  wg_nodup : NoDup (g_names g);
  wg_not_fresh : Forall (fun p => fresh_name (p_name p) = false) (g_params g);   (* the stated assumption on user names *)
  wg_user_bounds : Forall (fun p => Forall user_bound (p_bounds p)) (g_params g);
  wg_user_preds : Forall user_pred (g_where g);
  wg_scoped : incl (flat_map param_names (g_params g) ++ flat_map pred_names (g_where g)) (g_names g)
}.

Definition utexts_of (f : family) : list utext :=
  match f with
  | FFromForward ftys => ftys
  | FInto _ out => out
  | FAsRef _ (AsPlain ret) => [ret]
  | FAsRef _ (AsForwarded fty ret) => [fty; ret]
  | FAsRef _ (AsBlanket fty) => [fty]
  | FDeref _ (Some fty) => [fty]
  | FIndex _ fty => [fty]
  | FMulLike _ _ dtys => dtys
  | FMulAssignLike _ _ dtys => dtys
  | FIntoIterator _ fty => [fty]
  | FTryInto _ tys => tys
  | FError bounds => bounds
  | _ => []
  end.

Definition plain_from_arg (t : ty) : Prop :=
  match t with TUser RNo _ => True | TTuple RNo _ => True | _ => False end.

(* the conditions under which the header is claimed well formed *)
Definition supported (f : family) (g : generics) : Prop :=
  wf_generics g
  /\ incl (flat_map u_free (utexts_of f)) (g_names g)
  /\ match f with
     | FFmt _ bounds => incl (flat_map pred_names bounds) (g_names g) /\ Forall (ty_ok g) (flat_map pred_tys bounds)
     | FFrom arg => plain_from_arg arg /\ incl (ty_names arg) (g_names g)
     | _ => True
     end.

(** * Printing (used by the tie only): white-space free token text *)

Fixpoint join (sep : str) (l : list str) : str :=
  match l with
  | [] => []
  | [x] => x
  | x :: r => x ++ sep ++ join sep r
  end.

Definition r_ref (r : refk) : str :=
  match r with RNo => [] | RRef l => s "&" ++ l | RMut l => s "&" ++ l ++ s "mut" end.

Definition r_args (args : list name) : str :=
  match args with [] => [] | _ => s "<" ++ join (s ",") args ++ s ">" end.

Definition r_ty (id : str) (t : ty) : str :=
  match t with
  | TUser r u => r_ref r ++ u_text u
  | TInput r args => r_ref r ++ id ++ r_args args
  | TNamed p args => p ++ r_args args
  | TParam n => n
  | TTuple r us => s "(" ++ join (s ",") (map (fun u => r_ref r ++ u_text u) us) ++ s ")"
  | TParams ns => s "(" ++ join (s ",") ns ++ s ")"
  end.

Definition r_bound (id : str) (b : bound) : str :=
  match b with
  | BUser u => u_text u
  | BLit t => t
  | BTrait p args out =>
      let a := map (r_ty id) args ++ match out with Some o => [s "Output=" ++ r_ty id o] | None => [] end in
      p ++ match a with [] => [] | _ => s "<" ++ join (s ",") a ++ s ">" end
  end.

Definition r_bounds (id : str) (bs : list bound) : str :=
  match bs with [] => [] | _ => s ":" ++ join (s "+") (map (r_bound id) bs) end.

Definition r_param (id : str) (p : param) : str :=
  match p_kind p with
  | KConst => s "const" ++ p_name p ++ s ":" ++ p_cty p
  | _ => p_name p ++ r_bounds id (p_bounds p)
  end.

Definition r_pred (id : str) (p : pred) : str :=
  match p with
  | PUser u => u_text u
  | PAdded lhs bs => r_ty id lhs ++ r_bounds id bs
  end.

(* (impl parameters, trait, self type, where-predicates) of a header for the input type named [id] *)
Definition render (id : str) (h : hdr) : list str * option str * str * list str :=
  (map (r_param id) (h_params h),
   match h_trait h with
   | Some (p, args) => Some (p ++ match args with [] => [] | _ => s "<" ++ join (s ",") (map (r_ty id) args) ++ s ">" end)
   | None => None
   end,
   r_ty id (h_self h),
   map (r_pred id) (h_where h)).

(** * Attribute presence (facts regenerated into Gen/ImplAttrs.v) *)

Inductive missing := MAuto | MDeprecated | MUnreachable.

(* what a template lacks: every template must be #[automatically_derived]; one whose body interpolates
   (fields, variants, user types end up there) must allow `deprecated` and `unreachable_code` *)
Definition lacks (t : tpl) : list missing :=
  (if t_auto t then [] else [MAuto])
  ++ (if t_interp t && negb (t_dep t) then [MDeprecated] else [])
  ++ (if t_interp t && negb (t_unreach t) then [MUnreachable] else []).

Definition offender := (tpl * missing)%type.
Definition key (o : offender) : string * nat * missing := (t_file (fst o), t_idx (fst o), snd o).

Definition offenders (ts : list tpl) : list offender :=
  flat_map (fun t => map (fun m => (t, m)) (lacks t)) ts.

Definition missing_eqb (a b : missing) : bool :=
  match a, b with MAuto, MAuto | MDeprecated, MDeprecated | MUnreachable, MUnreachable => true | _, _ => false end.

Definition key_eqb (a b : string * nat * missing) : bool :=
  let '(f1, i1, m1) := a in let '(f2, i2, m2) := b in
  String.eqb f1 f2 && Nat.eqb i1 i2 && missing_eqb m1 m2.

(* templates known (on the pinned tree) to lack an attribute; a repaired template simply stops being an
   offender, a new offender is not in this list *)
Definition known_offender_keys : list (string * nat * missing) :=
  [ ("add_assign_like.rs", 0%nat, MDeprecated); ("add_assign_like.rs", 0%nat, MUnreachable);
    ("from_str.rs", 0%nat, MDeprecated); ("from_str.rs", 0%nat, MUnreachable);
    ("index.rs", 0%nat, MDeprecated); ("index.rs", 0%nat, MUnreachable);
    ("index_mut.rs", 0%nat, MDeprecated); ("index_mut.rs", 0%nat, MUnreachable);
    ("into.rs", 0%nat, MUnreachable);
    ("into_iterator.rs", 0%nat, MDeprecated); ("into_iterator.rs", 0%nat, MUnreachable);
    ("mul_assign_like.rs", 0%nat, MDeprecated); ("mul_assign_like.rs", 0%nat, MUnreachable);
    ("mul_like.rs", 0%nat, MDeprecated); ("mul_like.rs", 0%nat, MUnreachable);
    ("sum_like.rs", 0%nat, MDeprecated); ("sum_like.rs", 0%nat, MUnreachable);
    ("try_from.rs", 0%nat, MUnreachable) ]%string.

(* the header shapes the model assumes for the two templates whose generics handling was repaired; the facts are
   regenerated from the source on every run (Proofs.source_headers re-checks them) *)
Definition source_headers_as_modelled : bool :=
  negb try_from_tygen_on_trait && try_from_tygen_on_self && from_str_enum_generic.

Definition closedb (ts : list tpl) : bool :=
  forallb (fun o => existsb (key_eqb (key o)) known_offender_keys) (offenders ts).

(** * Comparing a rendered header list with the expected one inside Coq (the tie prints only the verdict) *)

Fixpoint strs_eqb (a b : list str) : bool :=
  match a, b with
  | [], [] => true
  | x :: a', y :: b' => str_eqb x y && strs_eqb a' b'
  | _, _ => false
  end.

Definition rendered := (list str * option str * str * list str)%type.

Definition rendered_eqb (a b : rendered) : bool :=
  let '(p1, t1, s1, w1) := a in
  let '(p2, t2, s2, w2) := b in
  strs_eqb p1 p2
  && match t1, t2 with Some x, Some y => str_eqb x y | None, None => true | _, _ => false end
  && str_eqb s1 s2 && strs_eqb w1 w2.

Fixpoint rendereds_eqb (a b : list rendered) : bool :=
  match a, b with
  | [], [] => true
  | x :: a', y :: b' => rendered_eqb x y && rendereds_eqb a' b'
  | _, _ => false
  end.

(** * The 50 derive macros and which impls each emits for a given attribute set

    Mirrors the decision layer above the header templates:
      lib.rs 102-281 (the create_derive! table), from.rs expand 24-93 + Expansion::expand 147-264,
      into.rs expand 25-116 + Expansion::expand 131-205, as/mod.rs expand 19-142 + to_tokens 187-260 (ImplKind),
      utils.rs FullMetaInfo::ref_types 1240-1252 (into_iterator.rs 24, try_into.rs 36-48). *)

Inductive addop := OAdd | OSub | OBitAnd | OBitOr | OBitXor.
Inductive mulop := OMul | ODiv | ORem | OShr | OShl.
Inductive notop := ONot | ONeg.
Inductive fmtop := ODisplay | OBinary | OOctal | OLowerHex | OUpperHex | OLowerExp | OUpperExp | OPointer.

Inductive derive :=
| DAddLike (o : addop) | DAddAssignLike (o : addop) | DMulLike (o : mulop) | DMulAssignLike (o : mulop) | DNotLike (o : notop)
| DSum | DProduct | DAsRef | DAsMut | DConstructor | DDebug | DFmt (o : fmtop) | DDeref | DDerefMut | DError | DFrom | DFromStr
| DIndex | DIndexMut | DInto | DIntoIterator | DIsVariant | DUnwrap | DTryUnwrap | DTryFrom | DTryInto.

Definition addop_name (o : addop) : str :=
  match o with OAdd => s "Add" | OSub => s "Sub" | OBitAnd => s "BitAnd" | OBitOr => s "BitOr" | OBitXor => s "BitXor" end.
Definition mulop_name (o : mulop) : str :=
  match o with OMul => s "Mul" | ODiv => s "Div" | ORem => s "Rem" | OShr => s "Shr" | OShl => s "Shl" end.
Definition notop_name (o : notop) : str := match o with ONot => s "Not" | ONeg => s "Neg" end.
Definition fmtop_name (o : fmtop) : str :=
  match o with
  | ODisplay => s "Display" | OBinary => s "Binary" | OOctal => s "Octal" | OLowerHex => s "LowerHex"
  | OUpperHex => s "UpperHex" | OLowerExp => s "LowerExp" | OUpperExp => s "UpperExp" | OPointer => s "Pointer"
  end.

(* the name under which lib.rs registers the derive *)
Definition derive_name (d : derive) : str :=
  match d with
  | DAddLike o => addop_name o | DAddAssignLike o => addop_name o ++ s "Assign"
  | DMulLike o => mulop_name o | DMulAssignLike o => mulop_name o ++ s "Assign" | DNotLike o => notop_name o
  | DSum => s "Sum" | DProduct => s "Product" | DAsRef => s "AsRef" | DAsMut => s "AsMut" | DConstructor => s "Constructor"
  | DDebug => s "Debug" | DFmt o => fmtop_name o | DDeref => s "Deref" | DDerefMut => s "DerefMut" | DError => s "Error"
  | DFrom => s "From" | DFromStr => s "FromStr" | DIndex => s "Index" | DIndexMut => s "IndexMut" | DInto => s "Into"
  | DIntoIterator => s "IntoIterator" | DIsVariant => s "IsVariant" | DUnwrap => s "Unwrap" | DTryUnwrap => s "TryUnwrap"
  | DTryFrom => s "TryFrom" | DTryInto => s "TryInto"
  end.

Definition all_addops := [OAdd; OSub; OBitAnd; OBitOr; OBitXor].
Definition all_mulops := [OMul; ODiv; ORem; OShr; OShl].
Definition all_fmtops := [ODisplay; OBinary; OOctal; OLowerHex; OUpperHex; OLowerExp; OUpperExp; OPointer].

Definition all_derives : list derive :=
  map DAddLike all_addops ++ map DAddAssignLike all_addops ++ map DMulLike all_mulops ++ map DMulAssignLike all_mulops
  ++ [DNotLike ONot; DNotLike ONeg; DSum; DProduct; DAsRef; DAsMut; DConstructor; DDebug] ++ map DFmt all_fmtops
  ++ [DDeref; DDerefMut; DError; DFrom; DFromStr; DIndex; DIndexMut; DInto; DIntoIterator; DIsVariant; DUnwrap;
      DTryUnwrap; DTryFrom; DTryInto].

(** ** From (from.rs) *)

(* attr::FieldConversion as parsed from #[from], #[from(skip)], #[from(forward)], #[from(<types>)] *)
Inductive conv_attr := CAbsent | CEmpty | CSkip | CForward | CTypes (tys : list utext).

Record variant := V { v_fields : list utext; v_attr : conv_attr }.

Inductive from_input :=
| FromStruct (attr : conv_attr) (fields : list utext)
| FromEnum (vs : list variant).

(* from.rs:55-66 *)
Definition explicit_from (a : conv_attr) : bool :=
  match a with CEmpty | CTypes _ | CForward => true | _ => false end.

Definition is_nil {A} (l : list A) : bool := match l with [] => true | _ => false end.

(* from.rs Expansion::expand 147-264 for one struct / one variant *)
Definition from_expansion (attr : conv_attr) (is_variant has_explicit_from : bool) (fields : list utext) : list family :=
  let skip_variant := has_explicit_from || (is_variant && is_nil fields) in
  match attr, skip_variant with
  | CTypes tys, _ => map (fun t => FFrom (TUser RNo t)) tys
  | CEmpty, _ | CAbsent, false => [FFrom (TTuple RNo fields)]
  | CForward, _ => [FFromForward fields]
  | CSkip, _ | CAbsent, true => []
  end.

Definition from_families (i : from_input) : list family :=
  match i with
  | FromStruct attr fields => from_expansion attr false false fields
  | FromEnum vs =>
      let has := existsb (fun v => explicit_from (v_attr v)) vs in
      flat_map (fun v => from_expansion (v_attr v) true has (v_fields v)) vs
  end.

(** ** Into (into.rs) *)

Record convs := Cv { c_consider : bool; c_tys : list (list utext) }.   (* each listed type, split per field by validate_type *)
Record conv3 := C3 { c_owned : convs; c_ref : convs; c_ref_mut : convs }.

(* into.rs:324-333 Default for ConversionsAttribute *)
Definition conv_default : conv3 := C3 (Cv true []) (Cv false []) (Cv false []).

Record into_field := IF { if_ty : utext; if_skip : bool; if_convs : option conv3 }.

(* struct attribute: absent / #[into] / #[into(...)] *)
Inductive into_sattr := SAbsent | SEmpty | SConvs (c : conv3).
Record into_input := II { in_attr : into_sattr; in_fields : list into_field }.

(* into.rs Expansion::expand 131-205: owned, ref, ref_mut in this order; the fields' own tuple first, then the listed types *)
Definition into_expansion (fields : list utext) (c : conv3) : list family :=
  flat_map (fun '(cv, sel) =>
              if c_consider cv || negb (is_nil (c_tys cv))
              then (if c_consider cv then [FInto sel fields] else []) ++ map (FInto sel) (c_tys cv)
              else [])
           [(c_owned c, SOwned); (c_ref c, SRef); (c_ref_mut c, SMut)].

Definition is_none {A} (o : option A) : bool := match o with None => true | Some _ => false end.

(* into.rs expand 25-116 *)
Definition into_families (i : into_input) : list family :=
  let struct_attr :=
    match in_attr i with
    | SEmpty => Some conv_default
    | SConvs c => Some c
    | SAbsent => if forallb (fun f => is_none (if_convs f)) (in_fields i) then Some conv_default else None
    end in
  flat_map (fun f => match if_convs f with Some c => into_expansion [if_ty f] c | None => [] end) (in_fields i)
  ++ match struct_attr with
     | Some c => into_expansion (map if_ty (filter (fun f => negb (if_skip f)) (in_fields i))) c
     | None => []
     end.

(** ** AsRef / AsMut (as/mod.rs) *)

Inductive asref_sattr := ASNone | ASForward | ASTypes (tys : list utext).
Record asref_input := AR { ar_attr : asref_sattr; ar_fields : list (utext * conv_attr) }.

(* GenericsSearch::any_in: any type, lifetime or const parameter of the item occurs in the type *)
Definition mentions_generics (u : utext) : bool := negb (is_nil (u_free u)).

(* as/mod.rs to_tokens 205-240: one impl per return type, ImplKind by syntactic equality and the generics search *)
Definition asref_expansion (tr : str) (fty : utext) (conv : asref_sattr) : list family :=
  match conv with
  | ASForward => [FAsRef tr (AsBlanket fty)]
  | ASNone => [FAsRef tr (AsPlain fty)]
  | ASTypes tys =>
      map (fun ret =>
             if str_eqb (u_text fty) (u_text ret) then FAsRef tr (AsPlain ret)
             else if mentions_generics fty || mentions_generics ret then FAsRef tr (AsForwarded fty ret)
             else FAsRef tr (AsPlain ret)) tys
  end.

Definition conv_present (a : conv_attr) : bool := match a with CAbsent => false | _ => true end.
Definition conv_is_skip (a : conv_attr) : bool := match a with CSkip => true | _ => false end.

(* as/mod.rs expand 36-142 (error paths excluded: they emit a diagnostic, not an impl) *)
Definition asref_families (tr : str) (i : asref_input) : list family :=
  match ar_attr i with
  | ASNone =>
      let present := filter (fun f => conv_present (snd f)) (ar_fields i) in
      if forallb (fun f => conv_is_skip (snd f)) present
      then flat_map (fun f => match snd f with CAbsent => asref_expansion tr (fst f) ASNone | _ => [] end) (ar_fields i)
      else flat_map (fun f => match snd f with
                              | CEmpty => asref_expansion tr (fst f) ASNone
                              | CForward => asref_expansion tr (fst f) ASForward
                              | CTypes tys => asref_expansion tr (fst f) (ASTypes tys)
                              | _ => []
                              end) (ar_fields i)
  | a => match ar_fields i with
         | [f] => asref_expansion tr (fst f) a
         | _ => []
         end
  end.

(** ** owned / ref / ref_mut selections (utils.rs FullMetaInfo::ref_types) *)

Definition ref_types (owned ref_ ref_mut : bool) : list refsel :=
  (if owned then [SOwned] else []) ++ (if ref_ then [SRef] else []) ++ (if ref_mut then [SMut] else []).

(* try_into.rs 36-48: one impl per (selection, field types) pair, first occurrence order here (the code iterates a hash map) *)
Record tvariant := TV { tv_tys : list utext; tv_owned : bool; tv_ref : bool; tv_ref_mut : bool }.

Fixpoint utexts_eqb (a b : list utext) : bool :=
  match a, b with
  | [], [] => true
  | x :: a', y :: b' => str_eqb (u_text x) (u_text y) && utexts_eqb a' b'
  | _, _ => false
  end.
Definition refsel_eqb (a b : refsel) : bool :=
  match a, b with SOwned, SOwned | SRef, SRef | SMut, SMut => true | _, _ => false end.

Fixpoint dedup_keys (l : list (refsel * list utext)) : list (refsel * list utext) :=
  match l with
  | [] => []
  | k :: r => k :: filter (fun k' => negb (refsel_eqb (fst k) (fst k') && utexts_eqb (snd k) (snd k'))) (dedup_keys r)
  end.

Definition tryinto_families (vs : list tvariant) : list family :=
  map (fun k => FTryInto (fst k) (snd k))
      (dedup_keys (flat_map (fun v => map (fun sel => (sel, tv_tys v)) (ref_types (tv_owned v) (tv_ref v) (tv_ref_mut v))) vs)).

(** ** Everything a derive needs to know to build its headers *)

Inductive dinput :=
| IPlain                                               (* no further input *)
| IFmtBounds (bounds : list pred)                      (* fmt: the inferred / bound(...) predicates (C04's subject) *)
| IForward (fwd : bool)                                (* #[mul(forward)], #[mul_assign(forward)] *)
| IScalar (nfields : nat) (dtys : list utext)          (* mul-like without forward: enabled fields, distinct types *)
| IFromI (i : from_input)
| IIntoI (i : into_input)
| IAsRefI (i : asref_input)
| IDerefI (fwd : option utext)
| IField (fty : utext)                                 (* index / index_mut: the single enabled field *)
| IRefs (owned ref_ ref_mut : bool) (fty : utext)      (* into_iterator *)
| ITryIntoI (vs : list tvariant)
| IErrorI (bounds : list utext)
| IEnum (is_enum : bool)                               (* from_str *)
| IRepr (repr : str).                                  (* try_from *)

Definition families_of (d : derive) (i : dinput) : list family :=
  match d, i with
  | DAddLike o, IPlain => [FAddLike (addop_name o)]
  | DNotLike o, IPlain => [FAddLike (notop_name o)]
  | DAddAssignLike o, IPlain => [FAddAssignLike (addop_name o ++ s "Assign")]
  | DMulLike o, IForward true => [FAddLike (mulop_name o)]
  | DMulLike o, IScalar n dtys => [FMulLike (mulop_name o) n dtys]
  | DMulAssignLike o, IForward true => [FAddAssignLike (mulop_name o ++ s "Assign")]
  | DMulAssignLike o, IScalar n dtys => [FMulAssignLike (mulop_name o ++ s "Assign") n dtys]
  | DSum, IPlain => [FSum (s "Sum") (s "Add")]
  | DProduct, IPlain => [FSum (s "Product") (s "Mul")]
  | DAsRef, IAsRefI a => asref_families (s "AsRef") a
  | DAsMut, IAsRefI a => asref_families (s "AsMut") a
  | DConstructor, IPlain | DIsVariant, IPlain | DUnwrap, IPlain | DTryUnwrap, IPlain => [FInherent]
  | DDebug, IFmtBounds b => [FFmt (s "Debug") b]
  | DFmt o, IFmtBounds b => [FFmt (fmtop_name o) b]
  | DDeref, IDerefI fwd => [FDeref (s "Deref") fwd]
  | DDerefMut, IDerefI fwd => [FDeref (s "DerefMut") fwd]
  | DError, IErrorI b => [FError b]
  | DFrom, IFromI f => from_families f
  | DFromStr, IEnum true => [FFromStrEnum]
  | DFromStr, IEnum false => [FFromStrStruct]
  | DIndex, IField fty => [FIndex (s "Index") fty]
  | DIndexMut, IField fty => [FIndex (s "IndexMut") fty]
  | DInto, IIntoI a => into_families a
  | DIntoIterator, IRefs o r m fty => map (fun sel => FIntoIterator sel fty) (ref_types o r m)
  | DTryFrom, IRepr repr => [FTryFrom repr]
  | DTryInto, ITryIntoI vs => tryinto_families vs
  | _, _ => []
  end.

Definition headers_of (d : derive) (i : dinput) (g : generics) : list hdr := map (fun f => header f g) (families_of d i).

(* every piece of user syntax an input carries *)
Definition conv_utexts (a : conv_attr) : list utext := match a with CTypes tys => tys | _ => [] end.
Definition convs_utexts (c : convs) : list utext := concat (c_tys c).
Definition conv3_utexts (c : conv3) : list utext := convs_utexts (c_owned c) ++ convs_utexts (c_ref c) ++ convs_utexts (c_ref_mut c).

Definition input_utexts (i : dinput) : list utext :=
  match i with
  | IScalar _ dtys => dtys
  | IFromI (FromStruct a fs) => conv_utexts a ++ fs
  | IFromI (FromEnum vs) => flat_map (fun v => conv_utexts (v_attr v) ++ v_fields v) vs
  | IIntoI a => match in_attr a with SConvs c => conv3_utexts c | _ => [] end
                ++ flat_map (fun f => if_ty f :: match if_convs f with Some c => conv3_utexts c | None => [] end) (in_fields a)
  | IAsRefI a => match ar_attr a with ASTypes tys => tys | _ => [] end
                 ++ flat_map (fun f => fst f :: conv_utexts (snd f)) (ar_fields a)
  | IDerefI (Some u) => [u]
  | IField u => [u]
  | IRefs _ _ _ u => [u]
  | ITryIntoI vs => flat_map tv_tys vs
  | IErrorI b => b
  | _ => []
  end.

(* the hypotheses of the all-derives theorem *)
Definition input_ok (i : dinput) (g : generics) : Prop :=
  incl (flat_map u_free (input_utexts i)) (g_names g)
  /\ match i with
     | IFmtBounds bounds => incl (flat_map pred_names bounds) (g_names g) /\ Forall (ty_ok g) (flat_map pred_tys bounds)
     | _ => True
     end.

(** ** Placement of parameters: lifetimes, then types, then consts *)

Definition kind_rank (k : pkind) : nat := match k with KLt => 0 | KTy => 1 | KConst => 2 end.

Fixpoint kinds_sorted (ks : list pkind) : bool :=
  match ks with
  | [] => true
  | k :: r => forallb (fun k' => Nat.leb (kind_rank k) (kind_rank k')) r && kinds_sorted r
  end.

(* pairwise distinct (selection, field types) keys: no two TryFrom impls of derive(TryInto) target the same tuple *)
Definition key_eq (a b : refsel * list utext) : bool := refsel_eqb (fst a) (fst b) && utexts_eqb (snd a) (snd b).
Fixpoint keys_distinct (l : list (refsel * list utext)) : bool :=
  match l with
  | [] => true
  | k :: r => forallb (fun k' => negb (key_eq k k')) r && keys_distinct r
  end.
Definition tryinto_keys (vs : list tvariant) : list (refsel * list utext) :=
  dedup_keys (flat_map (fun v => map (fun sel => (sel, tv_tys v)) (ref_types (tv_owned v) (tv_ref v) (tv_ref_mut v))) vs).

(** * Which item shapes a derive accepts (attribute-free inputs; `fwd` = #[mul(forward)] / #[mul_assign(forward)])

    Mirrors the shape checks at the top of every expand(): add_like.rs 21-40, add_assign_like.rs 16-30,
    mul_like.rs 10-18 + utils.rs State::enabled_fields_data 587-590, sum_like.rs 10-11, as/mod.rs 25-35,
    constructor.rs 12-26, fmt/display.rs expand_struct / expand_enum (implicit formats), deref.rs / index.rs /
    into_iterator.rs via State::assert_single_enabled_field 560-569, from_str.rs 11-24 + 61-63, into.rs 28-38,
    is_variant.rs 19-22, unwrap.rs 19-22 + get_field_info, try_from.rs 14-18, try_into.rs 24-27. *)

Inductive vkind := VUnit | VTuple (n : nat) | VNamed (n : nat).
Inductive shape := SStruct (k : vkind) | SEnum (vs : list vkind).

Definition vk_fields (k : vkind) : nat := match k with VUnit => 0%nat | VTuple n => n | VNamed n => n end.
Definition vk_is_unit (k : vkind) : bool := match k with VUnit => true | _ => false end.
Definition vk_is_named (k : vkind) : bool := match k with VNamed _ => true | _ => false end.

Definition add_like_accepts (sh : shape) : bool :=
  match sh with SStruct k => negb (vk_is_unit k) | SEnum _ => true end.
Definition add_assign_like_accepts (sh : shape) : bool :=
  match sh with SStruct k => negb (vk_is_unit k) | SEnum _ => false end.
Definition struct_only (sh : shape) : bool := match sh with SStruct _ => true | SEnum _ => false end.
Definition enum_only (sh : shape) : bool := match sh with SStruct _ => false | SEnum _ => true end.
Definition single_field_struct (sh : shape) : bool :=
  match sh with SStruct k => Nat.eqb (vk_fields k) 1 | SEnum _ => false end.

(* fmt/display.rs: without a format attribute a struct / variant may have at most one field; a field-less enum variant
   has an implicit format (its name) for Display only *)
Definition fmt_accepts (is_display : bool) (sh : shape) : bool :=
  match sh with
  | SStruct k => Nat.leb (vk_fields k) 1
  | SEnum vs => forallb (fun k => match vk_fields k with
                                  | O => is_display
                                  | S O => true
                                  | _ => false
                                  end) vs
  end.

Definition accepts (d : derive) (fwd : bool) (sh : shape) : bool :=
  match d with
  | DAddLike _ | DNotLike _ => add_like_accepts sh
  | DAddAssignLike _ => add_assign_like_accepts sh
  | DMulLike _ => if fwd then add_like_accepts sh else struct_only sh
  | DMulAssignLike _ => if fwd then add_assign_like_accepts sh else struct_only sh
  | DSum | DProduct | DAsRef | DAsMut | DConstructor | DInto => struct_only sh
  | DDebug | DError | DFrom => true
  | DFmt o => fmt_accepts (match o with ODisplay => true | _ => false end) sh
  | DDeref | DDerefMut | DIndex | DIndexMut | DIntoIterator => single_field_struct sh
  | DFromStr => match sh with
                | SStruct k => Nat.eqb (vk_fields k) 1
                | SEnum vs => forallb (fun k => Nat.eqb (vk_fields k) 0) vs
                end
  | DIsVariant | DTryFrom | DTryInto => enum_only sh
  | DUnwrap | DTryUnwrap => match sh with SStruct _ => false | SEnum vs => forallb (fun k => negb (vk_is_named k)) vs end
  end.

(* what impl/doc/*.md lists as supported for an attribute-free item *)
Definition documented (d : derive) (sh : shape) : bool :=
  match d, sh with
  | (DAddLike _ | DNotLike _), SStruct k => negb (vk_is_unit k) && Nat.leb 1 (vk_fields k)
  | (DAddLike _ | DNotLike _), SEnum _ => true
  | (DAddAssignLike _ | DMulLike _ | DMulAssignLike _ | DSum | DProduct), SStruct k => Nat.leb 1 (vk_fields k)
  | (DConstructor | DInto | DFrom | DDebug | DError), SStruct _ => true
  | (DAsRef | DAsMut | DDeref | DDerefMut | DIndex | DIndexMut | DIntoIterator | DFromStr), SStruct k => Nat.eqb (vk_fields k) 1
  | DFmt _, SStruct k => Nat.leb (vk_fields k) 1
  | DFmt ODisplay, SEnum vs => forallb (fun k => Nat.leb (vk_fields k) 1) vs
  | DFmt _, SEnum vs => forallb (fun k => Nat.eqb (vk_fields k) 1) vs
  | (DDebug | DError | DFrom | DIsVariant | DTryFrom | DTryInto), SEnum _ => true
  | DFromStr, SEnum vs => forallb vk_is_unit vs
  | (DUnwrap | DTryUnwrap), SEnum vs => forallb (fun k => negb (vk_is_named k)) vs
  | _, _ => false
  end.
