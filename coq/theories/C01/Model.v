(** C01 -- model of the generics handling of derive_more's expansions (impl headers) and of the
    attribute-presence facts.  Executable definitions only; proofs are in Proofs.v.

    What is modelled (file / function / lines of /repo/impl/src):
      utils.rs  add_extra_type_param_bound_op_output 135-150, add_extra_ty_param_bound_op 152-157,
                add_extra_ty_param_bound 159-170, add_extra_generic_param 172-182,
                add_extra_generic_type_param 184-204, add_extra_where_clauses 206-218,
                add_where_clauses_for_new_ident 220-238, State::new_impl 365-503 (only `generics`),
                RefType::lifetime/reference_with_lifetime 60-95
      syn 2.0   Generics::split_for_impl, ToTokens for ImplGenerics / TypeGenerics / WhereClause (generics.rs)
      the `impl<..> Trait<..> for Ty<..> where ..` header of every derive family (one constructor of [family]
      per header template; the template list itself is regenerated into Gen/ImplAttrs.v).

    Not modelled: which impls a derive emits for a given attribute set (that is decided by the check script's
    case builder and validated against the real expansion), bodies, rustc's type checker and lints. *)
From Coq Require Import List NArith Bool String Ascii DecimalNat.
Require Import Verif.Base.Chars.
Require Import Verif.Gen.ImplAttrs.
Import ListNotations.
Open Scope N_scope.
Open Scope list_scope.

(** * Syntax *)

Definition name := str.                       (* an identifier; lifetimes include the leading quote *)

Fixpoint s (x : string) : str :=              (* Coq string literal -> code points *)
  match x with
  | EmptyString => []
  | String c r => N_of_ascii c :: s r
  end.

Inductive pkind := KLt | KTy | KConst.

(** A piece of user-written syntax (a type, a bound, a where-predicate): its text, kept verbatim, and the
    generic parameter names it mentions. *)
Record utext := U { u_text : str; u_free : list name }.

(** `&'lt` / `&'lt mut` in front of a type *)
Inductive refk := RNo | RRef (lt : name) | RMut (lt : name).

Inductive ty :=
| TUser (r : refk) (u : utext)              (* [&'l [mut]] <user type> *)
| TInput (r : refk) (args : list name)      (* [&'l [mut]] <input ident> <args>  (args as TypeGenerics prints them) *)
| TNamed (path : str) (args : list name)    (* any other path followed by generic arguments *)
| TParam (n : name)                         (* a generic parameter used as a type *)
| TTuple (r : refk) (us : list utext)       (* ( [&'l [mut]] u1 , ... ) *)
| TParams (ns : list name).                 (* ( n1 , n2 , ... ) *)

Inductive bound :=
| BUser (u : utext)                                         (* written by the user *)
| BTrait (path : str) (args : list ty) (out : option ty)    (* path < args , Output = out > *)
| BLit (text : str).                                        (* mentions no identifier in scope: ?Sized, 'static *)

Record param := P { p_kind : pkind; p_name : name; p_bounds : list bound; p_cty : str; p_default : option str }.

Inductive pred :=
| PUser (u : utext)                         (* user's where-predicate, verbatim *)
| PAdded (lhs : ty) (bs : list bound).      (* lhs : b1 + b2 ... *)

Record generics := G { g_params : list param; g_where : list pred }.

Record hdr := H {
  h_params : list param;                    (* what is printed between `impl<` and `>` *)
  h_trait : option (str * list ty);         (* trait path and its generic arguments; None = inherent impl *)
  h_self : ty;
  h_where : list pred }.

(** * syn: split_for_impl *)

Definition is_lt (p : param) : bool := match p_kind p with KLt => true | _ => false end.
Definition is_ty (p : param) : bool := match p_kind p with KTy => true | _ => false end.
Definition is_const (p : param) : bool := match p_kind p with KConst => true | _ => false end.

Definition drop_default (p : param) : param :=
  {| p_kind := p_kind p; p_name := p_name p; p_bounds := p_bounds p; p_cty := p_cty p; p_default := None |}.

(* syn generics.rs, ToTokens for ImplGenerics: lifetimes first, then the others in order; defaults left off *)
Definition impl_params (ps : list param) : list param :=
  map drop_default (filter is_lt ps ++ filter (fun p => negb (is_lt p)) ps).

(* syn generics.rs, ToTokens for TypeGenerics: names only, lifetimes first *)
Definition ty_args_of (ps : list param) : list name :=
  map p_name (filter is_lt ps ++ filter (fun p => negb (is_lt p)) ps).

Definition impl_generics (g : generics) : list param := impl_params (g_params g).
Definition ty_args (g : generics) : list name := ty_args_of (g_params g).

(** * utils.rs helpers *)

Definition add_bound (b : bound) (p : param) : param :=
  {| p_kind := p_kind p; p_name := p_name p; p_bounds := p_bounds p ++ [b]; p_cty := p_cty p; p_default := p_default p |}.

(* utils.rs:159 add_extra_ty_param_bound *)
Definition add_extra_ty_param_bound (g : generics) (b : bound) : generics :=
  {| g_params := map (fun p => if is_ty p then add_bound b p else p) (g_params g); g_where := g_where g |}.

Definition ops_path (tr : str) : str := s "derive_more::core::ops::" ++ tr.
Definition with_trait (tr : str) : str := s "derive_more::with_trait::" ++ tr.

(* utils.rs:152 add_extra_ty_param_bound_op *)
Definition add_extra_ty_param_bound_op (g : generics) (tr : str) : generics :=
  add_extra_ty_param_bound g (BTrait (ops_path tr) [] None).

(* utils.rs:135 add_extra_type_param_bound_op_output: `T: ops::Tr<Output = T>` for every type parameter T *)
Definition add_extra_type_param_bound_op_output (g : generics) (tr : str) : generics :=
  {| g_params := map (fun p => if is_ty p
                               then add_bound (BTrait (ops_path tr) [] (Some (TParam (p_name p)))) p
                               else p) (g_params g);
     g_where := g_where g |}.

(* utils.rs:172 add_extra_generic_param: pushed at the end *)
Definition add_extra_generic_param (g : generics) (p : param) : generics :=
  {| g_params := g_params g ++ [p]; g_where := g_where g |}.

(* utils.rs:184 add_extra_generic_type_param: lifetimes, types, the new one, consts *)
Definition add_extra_generic_type_param (g : generics) (p : param) : generics :=
  {| g_params := filter is_lt (g_params g) ++ filter is_ty (g_params g) ++ [p] ++ filter is_const (g_params g);
     g_where := g_where g |}.

(* utils.rs:206 add_extra_where_clauses: the new predicates come first *)
Definition add_extra_where_clauses (g : generics) (ps : list pred) : generics :=
  {| g_params := g_params g; g_where := ps ++ g_where g |}.

Definition lt_param (n : name) : param := P KLt n [] [] None.
Definition ty_param (n : name) (bs : list bound) : param := P KTy n bs [] None.

Definition copy_bound : bound := BTrait (s "derive_more::core::marker::Copy") [] None.
Definition maybe_sized : bound := BLit (s "?derive_more::core::marker::Sized").

(* utils.rs:220 add_where_clauses_for_new_ident *)
Definition add_where_clauses_for_new_ident (g : generics) (nfields : nat) (id : name)
           (ps : list pred) (sized : bool) : generics :=
  let p := if Nat.ltb 1 nfields then ty_param id [copy_bound]
           else if sized then ty_param id [] else ty_param id [maybe_sized] in
  add_extra_generic_type_param (add_extra_where_clauses g ps) p.

(** * Fresh names introduced by the derives *)

Definition n_idx : name := s "__IdxT".                         (* index.rs:8, index_mut.rs:8 *)
Definition n_rhs : name := s "__RhsT".                         (* mul_like.rs:20, mul_assign_like.rs:25 *)
Definition n_as : name := s "__AsT".                           (* as/mod.rs:211 *)
Definition lt_more : name := s "'__deriveMoreLifetime".        (* utils.rs:63 RefType::lifetime *)
Definition lt_into : name := s "'__derive_more_into".          (* into.rs:158 *)

Fixpoint uint_str (u : Decimal.uint) : str :=
  match u with
  | Decimal.Nil => []
  | Decimal.D0 r => 48 :: uint_str r | Decimal.D1 r => 49 :: uint_str r | Decimal.D2 r => 50 :: uint_str r
  | Decimal.D3 r => 51 :: uint_str r | Decimal.D4 r => 52 :: uint_str r | Decimal.D5 r => 53 :: uint_str r
  | Decimal.D6 r => 54 :: uint_str r | Decimal.D7 r => 55 :: uint_str r | Decimal.D8 r => 56 :: uint_str r
  | Decimal.D9 r => 57 :: uint_str r
  end.
Definition dec (n : nat) : str := uint_str (Nat.to_uint n).
Definition n_from (i : nat) : name := s "__FromT" ++ dec i.    (* from.rs:222 format_ident!("__FromT{i}") *)

(* a name the derives reserve for themselves; users are assumed not to declare such parameters *)
Definition fresh_name (n : name) : bool :=
  match n with
  | 95 :: 95 :: _ => true
  | 39 :: 95 :: 95 :: _ => true
  | _ => false
  end.

(** * The header every derive family builds *)

Inductive refsel := SOwned | SRef | SMut.
Definition refk_of (sel : refsel) (lt : name) : refk :=
  match sel with SOwned => RNo | SRef => RRef lt | SMut => RMut lt end.
Definition is_ref (sel : refsel) : bool := match sel with SOwned => false | _ => true end.

Inductive askind :=
| AsPlain (ret : utext)                   (* Direct / Specialized: input generics untouched *)
| AsForwarded (fty ret : utext)           (* where-predicate `fty: Trait<ret>` pushed last *)
| AsBlanket (fty : utext).                (* #[as_ref(forward)]: `__AsT: ?Sized` pushed last *)

Inductive family :=
| FInherent                                            (* constructor.rs:32 is_variant.rs:59 unwrap.rs:124 try_unwrap.rs:129 *)
| FFmt (tr : str) (bounds : list pred)                 (* fmt/display.rs:62-75, fmt/debug.rs:53-66 *)
| FAddLike (tr : str)                                  (* add_like.rs:19-47, not_like.rs:15-43 (also mul forward) *)
| FAddAssignLike (tr : str)                            (* add_assign_like.rs:13-34 *)
| FFrom (arg : ty)                                     (* from.rs:174-186, 197-209 *)
| FFromForward (ftys : list utext)                     (* from.rs:211-255 *)
| FInto (sel : refsel) (out : list utext)              (* into.rs:157-195 *)
| FAsRef (tr : str) (k : askind)                       (* as/mod.rs:246-295 *)
| FDeref (tr : str) (fwd : option utext)               (* deref.rs:25-48, deref_mut.rs:22-39 *)
| FIndex (tr : str) (fty : utext)                      (* index.rs:23-38, index_mut.rs:22-37 *)
| FMulLike (tr : str) (nfields : nat) (dtys : list utext)        (* mul_like.rs:20-52 + mul_helpers.rs:27-35 *)
| FMulAssignLike (tr : str) (nfields : nat) (dtys : list utext)  (* mul_assign_like.rs:25-56 *)
| FIntoIterator (sel : refsel) (fty : utext)           (* into_iterator.rs:24-48 *)
| FSum (tr op : str)                                   (* sum_like.rs:19-46 *)
| FFromStrStruct                                       (* from_str.rs:26-42 with State::new *)
| FFromStrEnum                                         (* from_str.rs:93-100 *)
| FTryFrom (repr : str)                                (* try_from.rs:84, 124-127 *)
| FTryInto (sel : refsel) (tys : list utext)           (* try_into.rs:95-112 *)
| FError (bounds : list utext).                        (* error.rs:64-102 *)

Definition mk (ps : list param) (wh : list pred) (tr : option (str * list ty)) (self : ty) : hdr :=
  {| h_params := impl_params ps; h_trait := tr; h_self := self; h_where := wh |}.

Definition convert_path (tr : str) : str := s "derive_more::core::convert::" ++ tr.
Definition fmt_path (tr : str) : str := s "derive_more::core::fmt::" ++ tr.

Definition numbered_from (n : nat) : list name := map n_from (seq 0 n).

Definition header (f : family) (g : generics) : hdr :=
  let self := TInput RNo (ty_args g) in
  match f with
  | FInherent => mk (g_params g) (g_where g) None self
  | FFmt tr bounds =>
      (* where_clause.predicates.extend(bounds) *)
      mk (g_params g) (g_where g ++ bounds) (Some (fmt_path tr, [])) self
  | FAddLike tr =>
      let gx := add_extra_type_param_bound_op_output g tr in
      mk (g_params gx) (g_where gx) (Some (ops_path tr, [])) self
  | FAddAssignLike tr =>
      let gx := add_extra_ty_param_bound_op g tr in
      mk (g_params gx) (g_where gx) (Some (ops_path tr, [])) self
  | FFrom arg => mk (g_params g) (g_where g) (Some (convert_path (s "From"), [arg])) self
  | FFromForward ftys =>
      (* for each field: make_where_clause().predicates.push(ty: From<__FromTi>); params.push(__FromTi) *)
      let ids := numbered_from (length ftys) in
      let preds := map (fun '(u, id) => PAdded (TUser RNo u) [BTrait (convert_path (s "From")) [TParam id] None])
                       (combine ftys ids) in
      mk (g_params g ++ map (fun id => ty_param id []) ids) (g_where g ++ preds)
         (Some (convert_path (s "From"), [TParams ids])) self
  | FInto sel out =>
      let r := refk_of sel lt_into in
      let ps := if is_ref sel then g_params g ++ [lt_param lt_into] else g_params g in
      mk ps (g_where g) (Some (convert_path (s "From"), [TInput r (ty_args g)])) (TTuple r out)
  | FAsRef tr k =>
      let tp := convert_path tr in
      match k with
      | AsPlain ret => mk (g_params g) (g_where g) (Some (tp, [TUser RNo ret])) self
      | AsForwarded fty ret =>
          mk (g_params g) (g_where g ++ [PAdded (TUser RNo fty) [BTrait tp [TUser RNo ret] None]])
             (Some (tp, [TUser RNo ret])) self
      | AsBlanket fty =>
          mk (g_params g ++ [ty_param n_as [maybe_sized]])
             (g_where g ++ [PAdded (TUser RNo fty) [BTrait tp [TParam n_as] None]])
             (Some (tp, [TParam n_as])) self
      end
  | FDeref tr fwd =>
      let gx := match fwd with
                | Some fty => add_extra_where_clauses g [PAdded (TUser RNo fty) [BTrait (with_trait tr) [] None]]
                | None => g
                end in
      mk (g_params gx) (g_where gx) (Some (with_trait tr, [])) self
  | FIndex tr fty =>
      let gx := add_where_clauses_for_new_ident g 1 n_idx
                  [PAdded (TUser RNo fty) [BTrait (with_trait tr) [TParam n_idx] None]] true in
      mk (g_params gx) (g_where gx) (Some (with_trait tr, [TParam n_idx])) self
  | FMulLike tr nfields dtys =>
      let gx := add_where_clauses_for_new_ident g nfields n_rhs
                  (map (fun u => PAdded (TUser RNo u) [BTrait (with_trait tr) [TParam n_rhs] (Some (TUser RNo u))]) dtys)
                  true in
      mk (g_params gx) (g_where gx) (Some (with_trait tr, [TParam n_rhs])) self
  | FMulAssignLike tr nfields dtys =>
      let gx := add_where_clauses_for_new_ident g nfields n_rhs
                  (map (fun u => PAdded (TUser RNo u) [BTrait (with_trait tr) [TParam n_rhs] None]) dtys) true in
      mk (g_params gx) (g_where gx) (Some (with_trait tr, [TParam n_rhs])) self
  | FIntoIterator sel fty =>
      let r := refk_of sel lt_more in
      let gp := if is_ref sel then add_extra_generic_param g (lt_param lt_more) else g in
      let gw := add_extra_where_clauses g [PAdded (TUser r fty) [BTrait (with_trait (s "IntoIterator")) [] None]] in
      mk (g_params gp) (g_where gw) (Some (with_trait (s "IntoIterator"), [])) (TInput r (ty_args g))
  | FSum tr op =>
      let gx := if existsb is_ty (g_params g)
                then add_extra_where_clauses (add_extra_ty_param_bound g (BTrait (with_trait tr) [] None))
                       [PAdded self [BTrait (ops_path op) [] (Some self)]]
                else g in
      mk (g_params gx) (g_where gx) (Some (with_trait tr, [])) self
  | FFromStrStruct =>
      let gx := add_extra_ty_param_bound g (BTrait (with_trait (s "FromStr")) [] None) in
      mk (g_params gx) (g_where gx) (Some (with_trait (s "FromStr"), [])) self
  | FFromStrEnum =>
      (* input.generics.split_for_impl() since a07fcdf *)
      mk (g_params g) (g_where g) (Some (with_trait (s "FromStr"), [])) self
  | FTryFrom repr =>
      (* `TryFrom<#repr_ty> for #ident #ty_generics #where_clause` since 6cf1b20 *)
      mk (g_params g) (g_where g) (Some (convert_path (s "TryFrom"), [TNamed repr []])) self
  | FTryInto sel tys =>
      let r := refk_of sel lt_more in
      let gp := if is_ref sel then add_extra_generic_param g (lt_param lt_more) else g in
      mk (g_params gp) (g_where g) (Some (convert_path (s "TryFrom"), [TInput r (ty_args g)])) (TTuple r tys)
  | FError bounds =>
      let g1 := if existsb is_ty (g_params g)
                then add_extra_where_clauses g
                       [PAdded self [BTrait (fmt_path (s "Debug")) [] None; BTrait (fmt_path (s "Display")) [] None]]
                else g in
      let g2 := match bounds with
                | [] => g1
                | _ => add_extra_where_clauses g1
                         (map (fun u => PAdded (TUser RNo u)
                                          [BTrait (fmt_path (s "Debug")) [] None; BTrait (fmt_path (s "Display")) [] None;
                                           BTrait (with_trait (s "Error")) [] None; BLit (s "'static")]) bounds)
                end in
      mk (g_params g2) (g_where g2) (Some (with_trait (s "Error"), [])) self
  end.

(** * Well-formedness of a header with respect to the declared generics *)

Definition ref_names (r : refk) : list name := match r with RNo => [] | RRef l => [l] | RMut l => [l] end.

Definition ty_names (t : ty) : list name :=
  match t with
  | TUser r u => ref_names r ++ u_free u
  | TInput r args => ref_names r ++ args
  | TNamed _ args => args
  | TParam n => [n]
  | TTuple r us => ref_names r ++ flat_map u_free us
  | TParams ns => ns
  end.

Definition opt_list {A} (o : option A) : list A := match o with Some a => [a] | None => [] end.

Definition bound_tys (b : bound) : list ty :=
  match b with BTrait _ args out => args ++ opt_list out | _ => [] end.
Definition bound_names (b : bound) : list name :=
  match b with
  | BUser u => u_free u
  | BTrait _ args out => flat_map ty_names (args ++ opt_list out)
  | BLit _ => []
  end.
Definition pred_tys (p : pred) : list ty :=
  match p with PUser _ => [] | PAdded lhs bs => lhs :: flat_map bound_tys bs end.
Definition pred_names (p : pred) : list name :=
  match p with PUser u => u_free u | PAdded lhs bs => ty_names lhs ++ flat_map bound_names bs end.
Definition param_tys (p : param) : list ty := flat_map bound_tys (p_bounds p).
Definition param_names (p : param) : list name := flat_map bound_names (p_bounds p).

Definition trait_args (h : hdr) : list ty := match h_trait h with Some (_, a) => a | None => [] end.

(* every type expression / every parameter name occurring anywhere in the header *)
Definition header_tys (h : hdr) : list ty :=
  flat_map param_tys (h_params h) ++ trait_args h ++ [h_self h] ++ flat_map pred_tys (h_where h).
Definition header_names (h : hdr) : list name :=
  flat_map param_names (h_params h) ++ flat_map ty_names (trait_args h) ++ ty_names (h_self h)
  ++ flat_map pred_names (h_where h).

(* the type's own generic arguments go on the type itself and on nothing else *)
Definition ty_ok (g : generics) (t : ty) : Prop :=
  match t with
  | TInput _ args => args = ty_args g
  | TNamed _ args => args = []
  | _ => True
  end.

Definition is_input (t : ty) : bool := match t with TInput _ _ => true | _ => false end.

Fixpoint lts_first (ks : list pkind) : bool :=         (* no lifetime after a type/const parameter *)
  match ks with
  | [] => true
  | KLt :: r => lts_first r
  | _ :: r => forallb (fun k => match k with KLt => false | _ => true end) r
  end.

(* q prints declared parameter p: same kind, name, const type; p's bounds first, then whatever the derive added *)
Definition prints (p q : param) : Prop :=
  p_kind q = p_kind p /\ p_name q = p_name p /\ p_cty q = p_cty p /\ exists extra, p_bounds q = p_bounds p ++ extra.

Record wf_header (g : generics) (h : hdr) : Prop := {
  wf_nodup : NoDup (map p_name (h_params h));
  wf_order : lts_first (map p_kind (h_params h)) = true;
  wf_nodefault : Forall (fun q => p_default q = None) (h_params h);
  wf_declared : forall p, In p (g_params g) -> exists q, In q (h_params h) /\ prints p q;
  wf_only : forall q, In q (h_params h) ->
                      (exists p, In p (g_params g) /\ prints p q) \/ fresh_name (p_name q) = true;
  wf_tygen : Forall (ty_ok g) (header_tys h);
  wf_about_input : existsb is_input (trait_args h ++ [h_self h]) = true;
  wf_scoped : incl (header_names h) (map p_name (h_params h));
  wf_where_kept : incl (g_where g) (h_where h)
}.

(** * What "supported" means for the theorem *)

Definition user_bound (b : bound) : Prop := match b with BUser _ => True | _ => False end.
Definition user_pred (p : pred) : Prop := match p with PUser _ => True | _ => False end.
Definition g_names (g : generics) : list name := map p_name (g_params g).

Record wf_generics (g : generics) : Prop := {
  wg_nodup : NoDup (g_names g);
  wg_not_fresh : Forall (fun p => fresh_name (p_name p) = false) (g_params g);   (* the stated assumption on user names *)
  wg_user_bounds : Forall (fun p => Forall user_bound (p_bounds p)) (g_params g);
  wg_user_preds : Forall user_pred (g_where g);
  wg_scoped : incl (flat_map param_names (g_params g) ++ flat_map pred_names (g_where g)) (g_names g)
}.

Definition utexts_of (f : family) : list utext :=
  match f with
  | FFromForward ftys => ftys
  | FInto _ out => out
  | FAsRef _ (AsPlain ret) => [ret]
  | FAsRef _ (AsForwarded fty ret) => [fty; ret]
  | FAsRef _ (AsBlanket fty) => [fty]
  | FDeref _ (Some fty) => [fty]
  | FIndex _ fty => [fty]
  | FMulLike _ _ dtys => dtys
  | FMulAssignLike _ _ dtys => dtys
  | FIntoIterator _ fty => [fty]
  | FTryInto _ tys => tys
  | FError bounds => bounds
  | _ => []
  end.

Definition plain_from_arg (t : ty) : Prop :=
  match t with TUser RNo _ => True | TTuple RNo _ => True | _ => False end.

(* the conditions under which the header is claimed well formed *)
Definition supported (f : family) (g : generics) : Prop :=
  wf_generics g
  /\ incl (flat_map u_free (utexts_of f)) (g_names g)
  /\ match f with
     | FFmt _ bounds => incl (flat_map pred_names bounds) (g_names g) /\ Forall (ty_ok g) (flat_map pred_tys bounds)
     | FFrom arg => plain_from_arg arg /\ incl (ty_names arg) (g_names g)
     | _ => True
     end.

(** * Printing (used by the tie only): white-space free token text *)

Fixpoint join (sep : str) (l : list str) : str :=
  match l with
  | [] => []
  | [x] => x
  | x :: r => x ++ sep ++ join sep r
  end.

Definition r_ref (r : refk) : str :=
  match r with RNo => [] | RRef l => s "&" ++ l | RMut l => s "&" ++ l ++ s "mut" end.

Definition r_args (args : list name) : str :=
  match args with [] => [] | _ => s "<" ++ join (s ",") args ++ s ">" end.

Definition r_ty (id : str) (t : ty) : str :=
  match t with
  | TUser r u => r_ref r ++ u_text u
  | TInput r args => r_ref r ++ id ++ r_args args
  | TNamed p args => p ++ r_args args
  | TParam n => n
  | TTuple r us => s "(" ++ join (s ",") (map (fun u => r_ref r ++ u_text u) us) ++ s ")"
  | TParams ns => s "(" ++ join (s ",") ns ++ s ")"
  end.

Definition r_bound (id : str) (b : bound) : str :=
  match b with
  | BUser u => u_text u
  | BLit t => t
  | BTrait p args out =>
      let a := map (r_ty id) args ++ match out with Some o => [s "Output=" ++ r_ty id o] | None => [] end in
      p ++ match a with [] => [] | _ => s "<" ++ join (s ",") a ++ s ">" end
  end.

Definition r_bounds (id : str) (bs : list bound) : str :=
  match bs with [] => [] | _ => s ":" ++ join (s "+") (map (r_bound id) bs) end.

Definition r_param (id : str) (p : param) : str :=
  match p_kind p with
  | KConst => s "const" ++ p_name p ++ s ":" ++ p_cty p
  | _ => p_name p ++ r_bounds id (p_bounds p)
  end.

Definition r_pred (id : str) (p : pred) : str :=
  match p with
  | PUser u => u_text u
  | PAdded lhs bs => r_ty id lhs ++ r_bounds id bs
  end.

(* (impl parameters, trait, self type, where-predicates) of a header for the input type named [id] *)
Definition render (id : str) (h : hdr) : list str * option str * str * list str :=
  (map (r_param id) (h_params h),
   match h_trait h with
   | Some (p, args) => Some (p ++ match args with [] => [] | _ => s "<" ++ join (s ",") (map (r_ty id) args) ++ s ">" end)
   | None => None
   end,
   r_ty id (h_self h),
   map (r_pred id) (h_where h)).

(** * Attribute presence (facts regenerated into Gen/ImplAttrs.v) *)

Inductive missing := MAuto | MDeprecated | MUnreachable.

(* what a template lacks: every template must be #[automatically_derived]; one whose body interpolates
   (fields, variants, user types end up there) must allow `deprecated` and `unreachable_code` *)
Definition lacks (t : tpl) : list missing :=
  (if t_auto t then [] else [MAuto])
  ++ (if t_interp t && negb (t_dep t) then [MDeprecated] else [])
  ++ (if t_interp t && negb (t_unreach t) then [MUnreachable] else []).

Definition offender := (tpl * missing)%type.
Definition key (o : offender) : string * nat * missing := (t_file (fst o), t_idx (fst o), snd o).

Definition offenders (ts : list tpl) : list offender :=
  flat_map (fun t => map (fun m => (t, m)) (lacks t)) ts.

Definition missing_eqb (a b : missing) : bool :=
  match a, b with MAuto, MAuto | MDeprecated, MDeprecated | MUnreachable, MUnreachable => true | _, _ => false end.

Definition key_eqb (a b : string * nat * missing) : bool :=
  let '(f1, i1, m1) := a in let '(f2, i2, m2) := b in
  String.eqb f1 f2 && Nat.eqb i1 i2 && missing_eqb m1 m2.

(* templates known (on the pinned tree) to lack an attribute; a repaired template simply stops being an
   offender, a new offender is not in this list *)
Definition known_offender_keys : list (string * nat * missing) :=
  [ ("add_assign_like.rs", 0%nat, MDeprecated); ("add_assign_like.rs", 0%nat, MUnreachable);
    ("from_str.rs", 0%nat, MDeprecated); ("from_str.rs", 0%nat, MUnreachable);
    ("index.rs", 0%nat, MDeprecated); ("index.rs", 0%nat, MUnreachable);
    ("index_mut.rs", 0%nat, MDeprecated); ("index_mut.rs", 0%nat, MUnreachable);
    ("into.rs", 0%nat, MUnreachable);
    ("into_iterator.rs", 0%nat, MDeprecated); ("into_iterator.rs", 0%nat, MUnreachable);
    ("mul_assign_like.rs", 0%nat, MDeprecated); ("mul_assign_like.rs", 0%nat, MUnreachable);
    ("mul_like.rs", 0%nat, MDeprecated); ("mul_like.rs", 0%nat, MUnreachable);
    ("sum_like.rs", 0%nat, MDeprecated); ("sum_like.rs", 0%nat, MUnreachable);
    ("try_from.rs", 0%nat, MUnreachable) ]%string.

(* the header shapes the model assumes for the two templates whose generics handling was repaired; the facts are
   regenerated from the source on every run (Proofs.source_headers re-checks them) *)
Definition source_headers_as_modelled : bool :=
  negb try_from_tygen_on_trait && try_from_tygen_on_self && from_str_enum_generic.

Definition closedb (ts : list tpl) : bool :=
  forallb (fun o => existsb (key_eqb (key o)) known_offender_keys) (offenders ts).

(** * Comparing a rendered header list with the expected one inside Coq (the tie prints only the verdict) *)

Fixpoint strs_eqb (a b : list str) : bool :=
  match a, b with
  | [], [] => true
  | x :: a', y :: b' => str_eqb x y && strs_eqb a' b'
  | _, _ => false
  end.

Definition rendered := (list str * option str * str * list str)%type.

Definition rendered_eqb (a b : rendered) : bool :=
  let '(p1, t1, s1, w1) := a in
  let '(p2, t2, s2, w2) := b in
  strs_eqb p1 p2
  && match t1, t2 with Some x, Some y => str_eqb x y | None, None => true | _, _ => false end
  && str_eqb s1 s2 && strs_eqb w1 w2.

Fixpoint rendereds_eqb (a b : list rendered) : bool :=
  match a, b with
  | [], [] => true
  | x :: a', y :: b' => rendered_eqb x y && rendereds_eqb a' b'
  | _, _ => false
  end.
