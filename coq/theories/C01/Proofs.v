(** C01 -- proofs about the header model (Model.v). *)
From Coq Require Import List NArith Bool String Ascii DecimalNat Permutation Lia Arith.
Require Import Verif.Base.Chars.
Require Import Verif.Gen.ImplAttrs.
Require Import Verif.C01.Model.
Import ListNotations.
Open Scope N_scope.
Open Scope list_scope.

(** * Lists *)

Lemma filter_partition_perm {A} (f : A -> bool) (l : list A) :
  Permutation l (filter f l ++ filter (fun x => negb (f x)) l).
Proof.
  induction l as [|a l IH]; cbn; [constructor|].
  destruct (f a); cbn.
  - now constructor.
  - now apply Permutation_cons_app.
Qed.

Lemma in_partition {A} (f : A -> bool) (l : list A) x :
  In x (filter f l ++ filter (fun x => negb (f x)) l) <-> In x l.
Proof.
  split; intro H.
  - eapply Permutation_in; [apply Permutation_sym, filter_partition_perm | exact H].
  - eapply Permutation_in; [apply filter_partition_perm | exact H].
Qed.

Lemma incl_flat_map {A B} (f : A -> list B) (l l' : list A) :
  incl l l' -> incl (flat_map f l) (flat_map f l').
Proof.
  intros H x Hx. apply in_flat_map in Hx as (a & Ha & Hx). apply in_flat_map. exists a. split; [now apply H | exact Hx].
Qed.

Lemma incl_flat_map_each {A B} (f : A -> list B) (l : list A) (t : list B) :
  (forall a, In a l -> incl (f a) t) -> incl (flat_map f l) t.
Proof.
  intros H x Hx. apply in_flat_map in Hx as (a & Ha & Hx). exact (H a Ha x Hx).
Qed.

Lemma Forall_flat_map {A B} (P : B -> Prop) (f : A -> list B) (l : list A) :
  (forall a, In a l -> Forall P (f a)) -> Forall P (flat_map f l).
Proof.
  intros H. apply Forall_forall. intros x Hx. apply in_flat_map in Hx as (a & Ha & Hx).
  specialize (H a Ha). rewrite Forall_forall in H. now apply H.
Qed.

Lemma NoDup_app_intro {A} (l1 l2 : list A) :
  NoDup l1 -> NoDup l2 -> (forall x, In x l1 -> In x l2 -> False) -> NoDup (l1 ++ l2).
Proof.
  induction l1 as [|a l1 IH]; cbn; intros H1 H2 Hd; [exact H2|].
  inversion H1 as [|? ? Hna Hnd]; subst. constructor.
  - intro Hin. apply in_app_or in Hin as [Hin|Hin]; [now apply Hna | exact (Hd a (or_introl eq_refl) Hin)].
  - apply IH; auto. intros x Hx1 Hx2. exact (Hd x (or_intror Hx1) Hx2).
Qed.

(** * Kinds and the printing order *)

Lemma kinds_exhaustive p : is_lt p = true \/ is_ty p = true \/ is_const p = true.
Proof. unfold is_lt, is_ty, is_const. destruct (p_kind p); auto. Qed.

Lemma nonlt_kind p : negb (is_lt p) = true -> p_kind p <> KLt.
Proof. unfold is_lt. destruct (p_kind p); cbn; congruence. Qed.

Lemma lts_first_app (l1 l2 : list pkind) :
  Forall (fun k => k = KLt) l1 -> Forall (fun k => k <> KLt) l2 -> lts_first (l1 ++ l2) = true.
Proof.
  intros H1 H2. induction H1 as [|k l1 Hk H1 IH]; cbn.
  - destruct l2 as [|k l2]; [reflexivity|]. inversion H2 as [|? ? Hk Hl2]; subst.
    assert (Hall : forallb (fun k0 => match k0 with KLt => false | _ => true end) l2 = true).
    { apply forallb_forall. intros x Hx. rewrite Forall_forall in Hl2. specialize (Hl2 x Hx). now destruct x. }
    destruct k; [congruence | exact Hall | exact Hall].
  - subst k. exact IH.
Qed.

Lemma in_impl_params ps q : In q (impl_params ps) <-> exists p, In p ps /\ q = drop_default p.
Proof.
  unfold impl_params. rewrite in_map_iff. split.
  - intros (p & Hq & Hp). exists p. split; [now apply in_partition in Hp | now symmetry].
  - intros (p & Hp & Hq). exists p. split; [now symmetry | now apply in_partition].
Qed.

Lemma impl_params_names ps : map p_name (impl_params ps) = ty_args_of ps.
Proof. unfold impl_params, ty_args_of. rewrite map_map. reflexivity. Qed.

Lemma ty_args_of_perm ps : Permutation (map p_name ps) (ty_args_of ps).
Proof. unfold ty_args_of. apply Permutation_map, filter_partition_perm. Qed.

Lemma ty_args_incl g : incl (ty_args g) (g_names g).
Proof. intros x Hx. eapply Permutation_in; [apply Permutation_sym, ty_args_of_perm | exact Hx]. Qed.

Lemma impl_params_order ps : lts_first (map p_kind (impl_params ps)) = true.
Proof.
  unfold impl_params. rewrite map_map, map_app. apply lts_first_app.
  - apply Forall_forall. intros k Hk. apply in_map_iff in Hk as (p & Hk & Hp).
    apply filter_In in Hp as [_ Hp]. cbn in Hk. subst k. unfold is_lt in Hp. now destruct (p_kind p).
  - apply Forall_forall. intros k Hk. apply in_map_iff in Hk as (p & Hk & Hp).
    apply filter_In in Hp as [_ Hp]. cbn in Hk. subst k. now apply nonlt_kind.
Qed.

Lemma impl_params_nodefault ps : Forall (fun q => p_default q = None) (impl_params ps).
Proof. apply Forall_forall. intros q Hq. apply in_impl_params in Hq as (p & _ & ->). reflexivity. Qed.

Lemma impl_params_param_names ps : incl (flat_map param_names (impl_params ps)) (flat_map param_names ps).
Proof.
  apply incl_flat_map_each. intros q Hq. apply in_impl_params in Hq as (p & Hp & ->).
  intros x Hx. apply in_flat_map. exists p. split; [exact Hp | exact Hx].
Qed.

Lemma impl_params_param_tys ps : incl (flat_map param_tys (impl_params ps)) (flat_map param_tys ps).
Proof.
  apply incl_flat_map_each. intros q Hq. apply in_impl_params in Hq as (p & Hp & ->).
  intros x Hx. apply in_flat_map. exists p. split; [exact Hp | exact Hx].
Qed.

(** * The general well-formedness lemma *)

Definition extends (p q : param) : Prop :=
  p_kind q = p_kind p /\ p_name q = p_name p /\ p_cty q = p_cty p /\ exists extra, p_bounds q = p_bounds p ++ extra.

Lemma extends_refl p : extends p p.
Proof. repeat split. exists []. now rewrite app_nil_r. Qed.

Lemma extends_prints p q : extends p q -> prints p (drop_default q).
Proof. intros (Hk & Hn & Hc & He). repeat split; assumption. Qed.

(* [ps] is the parameter list of the extended generics the derive prints *)
Record ext (g : generics) (ps : list param) : Prop := {
  ext_decl : forall p, In p (g_params g) -> exists q, In q ps /\ extends p q;
  ext_only : forall q, In q ps -> (exists p, In p (g_params g) /\ extends p q) \/ fresh_name (p_name q) = true;
  ext_nodup : NoDup (map p_name ps) }.

Definition targs (tr : option (str * list ty)) : list ty := match tr with Some (_, a) => a | None => [] end.

Lemma wf_mk g ps wh tr self :
  ext g ps ->
  incl (g_where g) wh ->
  Forall (ty_ok g) (flat_map param_tys ps ++ targs tr ++ [self] ++ flat_map pred_tys wh) ->
  existsb is_input (targs tr ++ [self]) = true ->
  incl (flat_map param_names ps ++ flat_map ty_names (targs tr) ++ ty_names self ++ flat_map pred_names wh)
       (map p_name ps) ->
  wf_header g (mk ps wh tr self).
Proof.
  intros [Hd Ho Hn] Hw Ht Hi Hs. constructor; cbn [mk h_params h_trait h_self h_where].
  - rewrite impl_params_names. eapply Permutation_NoDup; [apply ty_args_of_perm | exact Hn].
  - apply impl_params_order.
  - apply impl_params_nodefault.
  - intros p Hp. destruct (Hd p Hp) as (q & Hq & He). exists (drop_default q). split.
    + apply in_impl_params. now exists q.
    + now apply extends_prints.
  - intros q' Hq'. apply in_impl_params in Hq' as (q & Hq & ->). destruct (Ho q Hq) as [(p & Hp & He)|Hf].
    + left. exists p. split; [exact Hp | now apply extends_prints].
    + right. exact Hf.
  - unfold header_tys, trait_args; cbn [h_params h_trait h_self h_where]. fold (targs tr).
    rewrite !Forall_app in *. destruct Ht as (H1 & H2 & H3 & H4). repeat split; try assumption.
    apply Forall_forall. intros x Hx. apply impl_params_param_tys in Hx. rewrite Forall_forall in H1. now apply H1.
  - unfold trait_args; cbn [h_trait h_self]. exact Hi.
  - unfold header_names, trait_args; cbn [h_params h_trait h_self h_where]. fold (targs tr).
    intros x Hx. rewrite impl_params_names.
    eapply Permutation_in; [apply ty_args_of_perm|]. apply Hs.
    rewrite !in_app_iff in *. destruct Hx as [Hx|Hx]; [left; now apply impl_params_param_names | right; exact Hx].
  - exact Hw.
Qed.

(** * Facts about declared (user) generics *)

Section User.
  Variable g : generics.
  Hypothesis Hg : wf_generics g.

  Lemma user_param_tys : flat_map param_tys (g_params g) = [].
  Proof.
    destruct Hg as [_ _ Hb _ _]. induction Hb as [|p l Hp Hl IH]; cbn; [reflexivity|].
    rewrite IH, app_nil_r. unfold param_tys. induction Hp as [|b bs Hb' Hbs IHb]; cbn; [reflexivity|].
    rewrite IHb. destruct b; cbn in *; try contradiction. reflexivity.
  Qed.

  Lemma user_pred_tys : flat_map pred_tys (g_where g) = [].
  Proof.
    destruct Hg as [_ _ _ Hp _]. induction Hp as [|p l Hp Hl IH]; cbn; [reflexivity|].
    rewrite IH. destruct p; cbn in *; [reflexivity | contradiction].
  Qed.

  Lemma user_param_names : incl (flat_map param_names (g_params g)) (g_names g).
  Proof. destruct Hg as [_ _ _ _ Hs]. intros x Hx. apply Hs. apply in_or_app. now left. Qed.

  Lemma user_pred_names : incl (flat_map pred_names (g_where g)) (g_names g).
  Proof. destruct Hg as [_ _ _ _ Hs]. intros x Hx. apply Hs. apply in_or_app. now right. Qed.

  Lemma user_not_fresh x : In x (g_names g) -> fresh_name x = false.
  Proof.
    destruct Hg as [_ Hf _ _ _]. intros Hx. apply in_map_iff in Hx as (p & <- & Hp).
    rewrite Forall_forall in Hf. now apply Hf.
  Qed.

  (** ext for the recurring shapes of extended parameter lists *)

  Lemma ext_same : ext g (g_params g).
  Proof.
    constructor.
    - intros p Hp. exists p. split; [exact Hp | apply extends_refl].
    - intros q Hq. left. exists q. split; [exact Hq | apply extends_refl].
    - apply Hg.
  Qed.

  Lemma ext_map (f : param -> param) :
    (forall p, extends p (f p)) -> ext g (map f (g_params g)).
  Proof.
    intros Hf. constructor.
    - intros p Hp. exists (f p). split; [now apply in_map | apply Hf].
    - intros q Hq. apply in_map_iff in Hq as (p & <- & Hp). left. exists p. split; [exact Hp | apply Hf].
    - rewrite map_map. erewrite map_ext; [apply Hg|]. intros p. cbn. destruct (Hf p) as (_ & Hn & _). exact Hn.
  Qed.

  Lemma ext_perm_fresh ps fs :
    Permutation ps (g_params g ++ fs) ->
    Forall (fun q => fresh_name (p_name q) = true) fs ->
    NoDup (map p_name fs) ->
    ext g ps.
  Proof.
    intros Hp Hf Hn. constructor.
    - intros p Hin. exists p. split; [|apply extends_refl].
      eapply Permutation_in; [apply Permutation_sym, Hp|]. apply in_or_app. now left.
    - intros q Hq. eapply Permutation_in in Hq; [|exact Hp]. apply in_app_or in Hq as [Hq|Hq].
      + left. exists q. split; [exact Hq | apply extends_refl].
      + right. rewrite Forall_forall in Hf. now apply Hf.
    - eapply Permutation_NoDup; [apply Permutation_sym, Permutation_map, Hp|].
      rewrite map_app. apply NoDup_app_intro; [apply Hg | exact Hn|].
      intros x Hx1 Hx2. apply user_not_fresh in Hx1. apply in_map_iff in Hx2 as (q & <- & Hq).
      rewrite Forall_forall in Hf. rewrite (Hf q Hq) in Hx1. discriminate.
  Qed.

  Lemma ext_app_fresh fs :
    Forall (fun q => fresh_name (p_name q) = true) fs -> NoDup (map p_name fs) -> ext g (g_params g ++ fs).
  Proof. intros. eapply ext_perm_fresh; eauto. Qed.
End User.

(* utils.rs add_extra_generic_type_param keeps every parameter: lifetimes, types, new, consts *)
Lemma type_param_insert_perm (l : list param) x :
  Permutation (filter is_lt l ++ filter is_ty l ++ [x] ++ filter is_const l) (l ++ [x]).
Proof.
  induction l as [|a l IH]; cbn; [reflexivity|].
  unfold is_lt, is_ty, is_const in *. destruct (p_kind a); cbn.
  - now constructor.
  - etransitivity; [|constructor; exact IH]. symmetry. apply Permutation_middle.
  - etransitivity; [|constructor; exact IH].
    rewrite !app_assoc. symmetry. etransitivity; [apply Permutation_middle|]. rewrite <- !app_assoc. reflexivity.
Qed.

(** * Every family *)

Section Families.
  Variable g : generics.
  Hypothesis Hg : wf_generics g.

  Lemma ext_names ps : ext g ps -> incl (g_names g) (map p_name ps).
  Proof.
    intros [Hd _ _] x Hx. apply in_map_iff in Hx as (p & <- & Hp).
    destruct (Hd p Hp) as (q & Hq & (_ & Hn & _)). rewrite <- Hn. now apply in_map.
  Qed.

  (* where-clause = front ++ user's ++ back: covers every family *)
  Lemma wf_mk2 ps front back tr self :
    ext g ps ->
    Forall (ty_ok g) (flat_map param_tys ps) ->
    incl (flat_map param_names ps) (map p_name ps) ->
    Forall (ty_ok g) (targs tr ++ [self] ++ flat_map pred_tys (front ++ back)) ->
    existsb is_input (targs tr ++ [self]) = true ->
    incl (flat_map ty_names (targs tr) ++ ty_names self ++ flat_map pred_names (front ++ back)) (map p_name ps) ->
    wf_header g (mk ps (front ++ g_where g ++ back) tr self).
  Proof.
    intros He Ht Hn Ht2 Hi Hn2. apply wf_mk; auto.
    - intros x Hx. apply in_or_app. right. apply in_or_app. now left.
    - rewrite !flat_map_app in *. rewrite (user_pred_tys g Hg). rewrite !Forall_app in *.
      destruct Ht2 as (A & B & C & D). repeat split; auto.
    - rewrite !flat_map_app in *. intros x Hx. rewrite !in_app_iff in Hx.
      destruct Hx as [Hx|[Hx|[Hx|[Hx|[Hx|Hx]]]]].
      + now apply Hn.
      + apply Hn2. rewrite !in_app_iff. auto.
      + apply Hn2. rewrite !in_app_iff. auto.
      + apply Hn2. rewrite !in_app_iff. auto.
      + apply (ext_names ps He). now apply (user_pred_names g Hg).
      + apply Hn2. rewrite !in_app_iff. auto.
  Qed.

  (** the three kinds of printed parameter lists *)

  Lemma same_tys : Forall (ty_ok g) (flat_map param_tys (g_params g)).
  Proof. rewrite (user_param_tys g Hg). constructor. Qed.

  Lemma same_names : incl (flat_map param_names (g_params g)) (map p_name (g_params g)).
  Proof. apply (user_param_names g Hg). Qed.

  Definition bounded (B : param -> bound) (p : param) : param := if is_ty p then add_bound (B p) p else p.

  Lemma bounded_extends B p : extends p (bounded B p).
  Proof.
    unfold bounded. destruct (is_ty p); [|apply extends_refl].
    repeat split. exists [B p]. reflexivity.
  Qed.

  Lemma bounded_names B : map p_name (map (bounded B) (g_params g)) = g_names g.
  Proof.
    rewrite map_map. apply map_ext. intros p. unfold bounded. now destruct (is_ty p).
  Qed.

  Lemma bounded_tys B :
    (forall p, In p (g_params g) -> Forall (ty_ok g) (bound_tys (B p))) ->
    Forall (ty_ok g) (flat_map param_tys (map (bounded B) (g_params g))).
  Proof.
    intros HB. apply Forall_flat_map. intros q Hq. apply in_map_iff in Hq as (p & <- & Hp).
    unfold bounded. destruct (is_ty p).
    - unfold param_tys, add_bound; cbn [p_bounds]. rewrite flat_map_app. apply Forall_app. split.
      + pose proof same_tys as H. rewrite Forall_forall in H. apply Forall_forall. intros x Hx. apply H.
        apply in_flat_map. exists p. split; [exact Hp | exact Hx].
      + cbn. rewrite app_nil_r. now apply HB.
    - pose proof same_tys as H. rewrite Forall_forall in H. apply Forall_forall. intros x Hx. apply H.
      apply in_flat_map. exists p. split; [exact Hp | exact Hx].
  Qed.

  Lemma bounded_param_names B :
    (forall p, In p (g_params g) -> incl (bound_names (B p)) (g_names g)) ->
    incl (flat_map param_names (map (bounded B) (g_params g))) (map p_name (map (bounded B) (g_params g))).
  Proof.
    intros HB. rewrite bounded_names. apply incl_flat_map_each. intros q Hq. apply in_map_iff in Hq as (p & <- & Hp).
    assert (Hu : incl (param_names p) (g_names g)).
    { intros x Hx. apply same_names. apply in_flat_map. exists p. split; [exact Hp | exact Hx]. }
    unfold bounded. destruct (is_ty p); [|exact Hu].
    unfold param_names, add_bound; cbn [p_bounds]. rewrite flat_map_app. apply incl_app; [exact Hu|].
    cbn. rewrite app_nil_r. now apply HB.
  Qed.

  Lemma perm_fresh_tys ps fs :
    Permutation ps (g_params g ++ fs) -> flat_map param_tys fs = [] ->
    Forall (ty_ok g) (flat_map param_tys ps).
  Proof.
    intros Hp Hf. apply Forall_flat_map. intros q Hq. eapply Permutation_in in Hq; [|exact Hp].
    apply in_app_or in Hq as [Hq|Hq].
    - pose proof same_tys as H. rewrite Forall_forall in H. apply Forall_forall. intros x Hx. apply H.
      apply in_flat_map. exists q. split; [exact Hq | exact Hx].
    - assert (param_tys q = []) as ->; [|constructor].
      destruct (param_tys q) as [|t l] eqn:E; [reflexivity|].
      assert (In t (flat_map param_tys fs)) as Hin by (apply in_flat_map; exists q; split; [exact Hq | rewrite E; now left]).
      rewrite Hf in Hin. contradiction.
  Qed.

  Lemma perm_fresh_names ps fs :
    Permutation ps (g_params g ++ fs) -> flat_map param_names fs = [] ->
    incl (flat_map param_names ps) (map p_name ps).
  Proof.
    intros Hp Hf. apply incl_flat_map_each. intros q Hq. eapply Permutation_in in Hq; [|exact Hp].
    assert (Hsub : incl (g_names g) (map p_name ps)).
    { intros x Hx. eapply Permutation_in; [apply Permutation_sym, Permutation_map, Hp|].
      rewrite map_app. apply in_or_app. now left. }
    apply in_app_or in Hq as [Hq|Hq].
    - intros x Hx. apply Hsub, same_names. apply in_flat_map. exists q. split; [exact Hq | exact Hx].
    - assert (param_names q = []) as ->; [|intros x []].
      destruct (param_names q) as [|t l] eqn:E; [reflexivity|].
      assert (In t (flat_map param_names fs)) as Hin by (apply in_flat_map; exists q; split; [exact Hq | rewrite E; now left]).
      rewrite Hf in Hin. contradiction.
  Qed.

  Lemma perm_names_incl ps fs : Permutation ps (g_params g ++ fs) -> incl (g_names g ++ map p_name fs) (map p_name ps).
  Proof.
    intros Hp x Hx. eapply Permutation_in; [apply Permutation_sym, Permutation_map, Hp|]. now rewrite map_app.
  Qed.

  Lemma self_names r : incl (ref_names r) (g_names g) -> incl (ty_names (TInput r (ty_args g))) (g_names g).
  Proof. intros Hr. cbn [ty_names]. apply incl_app; [exact Hr | apply ty_args_incl]. Qed.

  Let self := TInput RNo (ty_args g).

  (* ---- plain generics, where-clause extended at either end *)
  Lemma wf_plain front back tr slf :
    Forall (ty_ok g) (targs tr ++ [slf] ++ flat_map pred_tys (front ++ back)) ->
    existsb is_input (targs tr ++ [slf]) = true ->
    incl (flat_map ty_names (targs tr) ++ ty_names slf ++ flat_map pred_names (front ++ back)) (g_names g) ->
    wf_header g (mk (g_params g) (front ++ g_where g ++ back) tr slf).
  Proof.
    intros. apply wf_mk2; auto using same_tys, same_names. now apply ext_same.
  Qed.

  Lemma wf_bounded B front tr :
    (forall p, In p (g_params g) -> Forall (ty_ok g) (bound_tys (B p))) ->
    (forall p, In p (g_params g) -> incl (bound_names (B p)) (g_names g)) ->
    Forall (ty_ok g) (flat_map pred_tys front) ->
    incl (flat_map pred_names front) (g_names g) ->
    wf_header g (mk (map (bounded B) (g_params g)) (front ++ g_where g) (Some (tr, [])) self).
  Proof.
    intros Ht Hn Hft Hfn. rewrite <- (app_nil_r (g_where g)). apply wf_mk2.
    - apply ext_map; auto. apply bounded_extends.
    - now apply bounded_tys.
    - now apply bounded_param_names.
    - rewrite app_nil_r. cbn [targs app]. constructor; [reflexivity | exact Hft].
    - reflexivity.
    - rewrite app_nil_r, bounded_names. cbn [targs flat_map app]. apply incl_app; [|exact Hfn].
      apply self_names. intros x [].
  Qed.
End Families.

(** * Fresh names *)

Lemma uint_str_inj u v : uint_str u = uint_str v -> u = v.
Proof.
  revert v. induction u; intros v H; destruct v; cbn in H; try discriminate; try reflexivity;
    injection H as H; f_equal; now apply IHu.
Qed.

Lemma dec_inj a b : dec a = dec b -> a = b.
Proof.
  unfold dec. intros H. apply uint_str_inj in H.
  rewrite <- (DecimalNat.Unsigned.of_to a), <- (DecimalNat.Unsigned.of_to b). now rewrite H.
Qed.

Lemma n_from_inj a b : n_from a = n_from b -> a = b.
Proof. unfold n_from. intros H. apply app_inv_head in H. now apply dec_inj. Qed.

Lemma n_from_fresh i : fresh_name (n_from i) = true.
Proof. reflexivity. Qed.

Lemma numbered_from_nodup n : NoDup (numbered_from n).
Proof.
  unfold numbered_from. apply FinFun.Injective_map_NoDup; [|apply seq_NoDup].
  intros a b. apply n_from_inj.
Qed.

Lemma numbered_from_fresh n : Forall (fun x => fresh_name x = true) (numbered_from n).
Proof. apply Forall_forall. intros x Hx. apply in_map_iff in Hx as (i & <- & _). apply n_from_fresh. Qed.

Lemma ty_params_names ids : map p_name (map (fun id => ty_param id []) ids) = ids.
Proof. rewrite map_map. cbn. apply map_id. Qed.

Lemma ty_params_tys ids : flat_map param_tys (map (fun id => ty_param id []) ids) = [].
Proof. induction ids; cbn; auto. Qed.

Lemma ty_params_pnames ids : flat_map param_names (map (fun id => ty_param id []) ids) = [].
Proof. induction ids; cbn; auto. Qed.

Section Main.
  Variable g : generics.
  Hypothesis Hg : wf_generics g.

  Let self := TInput RNo (ty_args g).

  Lemma wf_fresh ps fs front back tr slf :
    Permutation ps (g_params g ++ fs) ->
    Forall (fun q => fresh_name (p_name q) = true) fs -> NoDup (map p_name fs) ->
    flat_map param_tys fs = [] -> flat_map param_names fs = [] ->
    Forall (ty_ok g) (targs tr ++ [slf] ++ flat_map pred_tys (front ++ back)) ->
    existsb is_input (targs tr ++ [slf]) = true ->
    incl (flat_map ty_names (targs tr) ++ ty_names slf ++ flat_map pred_names (front ++ back))
         (g_names g ++ map p_name fs) ->
    wf_header g (mk ps (front ++ g_where g ++ back) tr slf).
  Proof.
    intros Hp Hf Hn Ht Hpn Ht2 Hi Hn2. apply wf_mk2; auto.
    - eapply ext_perm_fresh; eauto.
    - eapply perm_fresh_tys; eauto.
    - eapply perm_fresh_names; eauto.
    - intros x Hx. eapply perm_names_incl; eauto.
  Qed.

  Lemma wf_plain_fb front back tr slf :
    Forall (ty_ok g) (targs tr ++ [slf] ++ flat_map pred_tys (front ++ back)) ->
    existsb is_input (targs tr ++ [slf]) = true ->
    incl (flat_map ty_names (targs tr) ++ ty_names slf ++ flat_map pred_names (front ++ back)) (g_names g) ->
    wf_header g (mk (g_params g) (front ++ g_where g ++ back) tr slf).
  Proof.
    intros A B C. apply (wf_fresh (g_params g) [] front back); auto.
    - now rewrite app_nil_r.
    - constructor.
    - cbn. now rewrite app_nil_r.
  Qed.

  Lemma wf_plain0 tr slf :
    Forall (ty_ok g) (targs tr ++ [slf]) ->
    existsb is_input (targs tr ++ [slf]) = true ->
    incl (flat_map ty_names (targs tr) ++ ty_names slf) (g_names g) ->
    wf_header g (mk (g_params g) (g_where g) tr slf).
  Proof.
    intros A B C. rewrite <- (app_nil_r (g_where g)). apply (wf_plain_fb [] []); cbn [app flat_map]; rewrite ?app_nil_r; auto.
  Qed.

  Lemma self_ok : ty_ok g self.
  Proof. reflexivity. Qed.

  Lemma self_incl : incl (ty_names self) (g_names g).
  Proof. apply self_names. intros x []. Qed.

  Ltac names :=
    cbn [targs flat_map ty_names ref_names pred_names bound_names opt_list app]; rewrite ?app_nil_r;
    repeat (apply incl_app); try (apply ty_args_incl); try (intros ? []); auto.

  (* ---------------- one lemma per family *)

  Lemma wf_FInherent : wf_header g (header FInherent g).
  Proof.
    unfold header; cbv beta iota zeta. apply wf_plain0.
    - cbn. repeat constructor.
    - reflexivity.
    - names.
  Qed.

  Lemma wf_FFmt tr bounds :
    incl (flat_map pred_names bounds) (g_names g) -> Forall (ty_ok g) (flat_map pred_tys bounds) ->
    wf_header g (header (FFmt tr bounds) g).
  Proof.
    intros Hn Ht. unfold header; cbv beta iota zeta.
    change (g_where g ++ bounds) with ([] ++ g_where g ++ bounds). apply wf_plain_fb.
    - cbn [targs app]. constructor; [reflexivity | exact Ht].
    - reflexivity.
    - names.
  Qed.

  Lemma add_like_eq tr :
    g_params (add_extra_type_param_bound_op_output g tr)
    = map (bounded (fun p => BTrait (ops_path tr) [] (Some (TParam (p_name p))))) (g_params g).
  Proof. reflexivity. Qed.

  Lemma wf_FAddLike tr : wf_header g (header (FAddLike tr) g).
  Proof.
    unfold header; cbv beta iota zeta. rewrite add_like_eq. cbn [add_extra_type_param_bound_op_output g_where].
    apply (wf_bounded g Hg _ []).
    - intros p _. cbn. repeat constructor.
    - intros p Hp. cbn. intros x [<-|[]]. now apply in_map.
    - constructor.
    - intros x [].
  Qed.

  Lemma wf_FAddAssignLike tr : wf_header g (header (FAddAssignLike tr) g).
  Proof.
    unfold header; cbv beta iota zeta.
    change (g_params (add_extra_ty_param_bound_op g tr)) with (map (bounded (fun _ => BTrait (ops_path tr) [] None)) (g_params g)).
    cbn [add_extra_ty_param_bound_op add_extra_ty_param_bound g_where].
    apply (wf_bounded g Hg _ []).
    - intros p _. cbn. constructor.
    - intros p _ x [].
    - constructor.
    - intros x [].
  Qed.

  Lemma wf_FFrom arg :
    plain_from_arg arg -> incl (ty_names arg) (g_names g) -> wf_header g (header (FFrom arg) g).
  Proof.
    intros Hp Hn. unfold header; cbv beta iota zeta. apply wf_plain0.
    - cbn [targs app]. constructor; [|repeat constructor].
      destruct arg as [[] ?| | | |[] ?| ]; cbn in *; auto; contradiction.
    - cbn [targs app existsb]. apply orb_true_iff. right. reflexivity.
    - names.
  Qed.

  Lemma wf_FFromForward ftys :
    incl (flat_map u_free ftys) (g_names g) -> wf_header g (header (FFromForward ftys) g).
  Proof.
    intros Hu. unfold header; cbv beta iota zeta.
    set (ids := numbered_from (length ftys)).
    match goal with |- wf_header g (mk _ (g_where g ++ ?b) _ _) => change (g_where g ++ b) with ([] ++ g_where g ++ b) end.
    apply (wf_fresh _ (map (fun id => ty_param id []) ids)).
    - reflexivity.
    - apply Forall_forall. intros q Hq. apply in_map_iff in Hq as (id & <- & Hid). cbn.
      pose proof (numbered_from_fresh (length ftys)) as H. rewrite Forall_forall in H. now apply H.
    - rewrite ty_params_names. apply numbered_from_nodup.
    - apply ty_params_tys.
    - apply ty_params_pnames.
    - cbn [targs app]. constructor; [exact I|]. constructor; [reflexivity|].
      apply Forall_flat_map. intros pr Hpr. apply in_map_iff in Hpr as ([u id] & <- & _). cbn. repeat constructor.
    - reflexivity.
    - rewrite ty_params_names. cbn [targs flat_map ty_names app]. rewrite app_nil_r.
      repeat apply incl_app.
      + apply incl_appr, incl_refl.
      + cbn. intros x [].
      + apply incl_appl, ty_args_incl.
      + apply incl_flat_map_each. intros pr Hpr. apply in_map_iff in Hpr as ([u id] & <- & Hin).
        cbn. rewrite ?app_nil_r. apply incl_app.
        * apply incl_appl. intros x Hx. apply Hu. apply in_flat_map. exists u. split; [|exact Hx].
          now apply in_combine_l in Hin.
        * apply incl_appr. intros x [<-|[]]. now apply in_combine_r in Hin.
  Qed.

  Lemma wf_ref_param lt_ front back tr slf (sel : refsel) :
    fresh_name lt_ = true ->
    Forall (ty_ok g) (targs tr ++ [slf] ++ flat_map pred_tys (front ++ back)) ->
    existsb is_input (targs tr ++ [slf]) = true ->
    incl (flat_map ty_names (targs tr) ++ ty_names slf ++ flat_map pred_names (front ++ back))
         (g_names g ++ (if is_ref sel then [lt_] else [])) ->
    wf_header g (mk (if is_ref sel then g_params g ++ [lt_param lt_] else g_params g) (front ++ g_where g ++ back) tr slf).
  Proof.
    intros Hf A B C. destruct (is_ref sel).
    - apply (wf_fresh _ [lt_param lt_]).
      + reflexivity.
      + constructor; [exact Hf | constructor].
      + cbn. constructor; [intros [] | constructor].
      + reflexivity.
      + reflexivity.
      + exact A.
      + exact B.
      + exact C.
    - rewrite app_nil_r in C. now apply wf_plain_fb.
  Qed.

  Lemma refk_names sel lt_ : incl (ref_names (refk_of sel lt_)) (if is_ref sel then [lt_] else []).
  Proof. destruct sel; cbn; intros x Hx; auto. Qed.

  Lemma wf_FInto sel out :
    incl (flat_map u_free out) (g_names g) -> wf_header g (header (FInto sel out) g).
  Proof.
    intros Hu. unfold header; cbv beta iota zeta. rewrite <- (app_nil_r (g_where g)).
    apply (wf_ref_param lt_into [] []).
    - reflexivity.
    - cbn. repeat constructor.
    - reflexivity.
    - cbn [targs flat_map ty_names app]. rewrite !app_nil_r. repeat apply incl_app.
      + apply incl_appr, refk_names.
      + apply incl_appl, ty_args_incl.
      + apply incl_appr, refk_names.
      + apply incl_appl, Hu.
  Qed.

  Lemma wf_FAsRef tr k :
    incl (flat_map u_free (utexts_of (FAsRef tr k))) (g_names g) -> wf_header g (header (FAsRef tr k) g).
  Proof.
    intros Hu. unfold header; cbv beta iota zeta. destruct k as [ret|fty ret|fty]; cbn in Hu; rewrite ?app_nil_r in Hu.
    - apply wf_plain0.
      + cbn. repeat constructor.
      + cbn [targs app existsb]. apply orb_true_iff. right. reflexivity.
      + names.
    - match goal with |- wf_header g (mk _ (g_where g ++ ?b) _ _) => change (g_where g ++ b) with ([] ++ g_where g ++ b) end.
      apply wf_plain_fb.
      + cbn. repeat constructor.
      + cbn [targs app existsb]. apply orb_true_iff. right. reflexivity.
      + cbn [targs flat_map ty_names ref_names pred_names bound_names opt_list app]. rewrite ?app_nil_r.
        apply incl_app_inv in Hu as [H1 H2]. repeat apply incl_app; auto. apply ty_args_incl.
    - match goal with |- wf_header g (mk _ (g_where g ++ ?b) _ _) => change (g_where g ++ b) with ([] ++ g_where g ++ b) end.
      apply (wf_fresh _ [ty_param n_as [maybe_sized]]).
      + reflexivity.
      + constructor; [reflexivity | constructor].
      + cbn. constructor; [intros [] | constructor].
      + reflexivity.
      + reflexivity.
      + cbn. repeat constructor.
      + cbn [targs app existsb]. apply orb_true_iff. right. reflexivity.
      + cbn [targs flat_map ty_names ref_names pred_names bound_names opt_list app map p_name ty_param]. rewrite ?app_nil_r.
        intros x Hx. apply in_app_iff. destruct Hx as [<-|Hx]; [right; now left|].
        rewrite !in_app_iff in Hx. destruct Hx as [Hx|[Hx|Hx]].
        * left. now apply ty_args_incl.
        * left. now apply Hu.
        * right. exact Hx.
  Qed.

  Lemma wf_FDeref tr fwd :
    incl (flat_map u_free (utexts_of (FDeref tr fwd))) (g_names g) -> wf_header g (header (FDeref tr fwd) g).
  Proof.
    intros Hu. unfold header; cbv beta iota zeta. destruct fwd as [fty|]; cbn in Hu; rewrite ?app_nil_r in Hu.
    - cbn [add_extra_where_clauses g_params g_where].
      match goal with |- wf_header g (mk _ (?f ++ g_where g) _ _) => rewrite <- (app_nil_r (g_where g)); apply (wf_plain_fb f []) end.
      + cbn. repeat constructor.
      + reflexivity.
      + names.
    - apply wf_plain0.
      + cbn. repeat constructor.
      + reflexivity.
      + names.
  Qed.

  (* utils.rs add_where_clauses_for_new_ident, as used by index / mul *)
  Lemma wf_new_ident nfields id preds tr :
    fresh_name id = true ->
    Forall (ty_ok g) (flat_map pred_tys preds) ->
    incl (flat_map pred_names preds) (g_names g ++ [id]) ->
    let gx := add_where_clauses_for_new_ident g nfields id preds true in
    wf_header g (mk (g_params gx) (g_where gx) (Some (tr, [TParam id])) self).
  Proof.
    intros Hf Ht Hn gx. subst gx. unfold add_where_clauses_for_new_ident.
    set (p := if Nat.ltb 1 nfields then ty_param id [copy_bound] else ty_param id []).
    assert (Hp : p_name p = id /\ param_tys p = [] /\ param_names p = []).
    { subst p. destruct (Nat.ltb 1 nfields); cbn; auto. }
    destruct Hp as (Hp1 & Hp2 & Hp3).
    cbn [add_extra_generic_type_param add_extra_where_clauses g_params g_where].
    rewrite <- (app_nil_r (g_where g)).
    apply (wf_fresh _ [p] preds []).
    - apply type_param_insert_perm.
    - constructor; [now rewrite Hp1 | constructor].
    - cbn. constructor; [intros [] | constructor].
    - cbn. now rewrite Hp2.
    - cbn. now rewrite Hp3.
    - rewrite app_nil_r. cbn [targs app]. constructor; [exact I|]. constructor; [reflexivity | exact Ht].
    - reflexivity.
    - rewrite app_nil_r. cbn [targs flat_map ty_names app map]. rewrite Hp1.
      intros x Hx. destruct Hx as [<-|Hx]; [apply in_app_iff; right; now left|].
      apply in_app_iff in Hx as [Hx|Hx].
      + apply in_app_iff. left. now apply self_incl.
      + now apply Hn.
  Qed.

  Lemma wf_FIndex tr fty : incl (u_free fty) (g_names g) -> wf_header g (header (FIndex tr fty) g).
  Proof.
    intros Hu. unfold header; cbv beta iota zeta. apply wf_new_ident.
    - reflexivity.
    - cbn. repeat constructor.
    - cbn [flat_map pred_names ty_names ref_names bound_names opt_list app]. rewrite ?app_nil_r.
      intros y Hy. apply in_app_iff in Hy as [Hy|[<-|[]]]; apply in_app_iff;
        [left; now apply Hu | right; now left].
  Qed.

  Lemma wf_FMulLike tr n dtys :
    incl (flat_map u_free dtys) (g_names g) -> wf_header g (header (FMulLike tr n dtys) g).
  Proof.
    intros Hu. unfold header; cbv beta iota zeta. apply wf_new_ident.
    - reflexivity.
    - apply Forall_flat_map. intros pr Hpr. apply in_map_iff in Hpr as (u & <- & _). cbn. repeat constructor.
    - apply incl_flat_map_each. intros pr Hpr. apply in_map_iff in Hpr as (u & <- & Hin).
      assert (Hx : incl (u_free u) (g_names g)).
      { intros x Hx. apply Hu. apply in_flat_map. exists u. split; auto. }
      cbn [pred_names ty_names ref_names flat_map bound_names opt_list app]. rewrite ?app_nil_r.
      intros y Hy. apply in_app_iff in Hy as [Hy|[<-|Hy]]; apply in_app_iff;
        [left; now apply Hx | right; now left | left; now apply Hx].
  Qed.

  Lemma wf_FMulAssignLike tr n dtys :
    incl (flat_map u_free dtys) (g_names g) -> wf_header g (header (FMulAssignLike tr n dtys) g).
  Proof.
    intros Hu. unfold header; cbv beta iota zeta. apply wf_new_ident.
    - reflexivity.
    - apply Forall_flat_map. intros pr Hpr. apply in_map_iff in Hpr as (u & <- & _). cbn. repeat constructor.
    - apply incl_flat_map_each. intros pr Hpr. apply in_map_iff in Hpr as (u & <- & Hin).
      assert (Hx : incl (u_free u) (g_names g)).
      { intros x Hx. apply Hu. apply in_flat_map. exists u. split; auto. }
      cbn [pred_names ty_names ref_names flat_map bound_names opt_list app]. rewrite ?app_nil_r.
      intros y Hy. apply in_app_iff in Hy as [Hy|[<-|[]]]; apply in_app_iff;
        [left; now apply Hx | right; now left].
  Qed.

  Lemma gp_ref sel lt_ :
    g_params (if is_ref sel then add_extra_generic_param g (lt_param lt_) else g)
    = if is_ref sel then g_params g ++ [lt_param lt_] else g_params g.
  Proof. now destruct (is_ref sel). Qed.

  Lemma wf_FIntoIterator sel fty :
    incl (u_free fty) (g_names g) -> wf_header g (header (FIntoIterator sel fty) g).
  Proof.
    intros Hu. unfold header; cbv beta iota zeta. rewrite gp_ref.
    cbn [add_extra_where_clauses g_where].
    match goal with |- wf_header g (mk _ (?f ++ g_where g) _ _) => rewrite <- (app_nil_r (g_where g)); apply (wf_ref_param lt_more f []) end.
    - reflexivity.
    - cbn. repeat constructor.
    - reflexivity.
    - cbn [targs flat_map ty_names pred_names bound_names opt_list app]. rewrite !app_nil_r. repeat apply incl_app.
      + apply incl_appr, refk_names.
      + apply incl_appl, ty_args_incl.
      + apply incl_appr, refk_names.
      + apply incl_appl, Hu.
  Qed.

  Lemma wf_FTryInto sel tys :
    incl (flat_map u_free tys) (g_names g) -> wf_header g (header (FTryInto sel tys) g).
  Proof.
    intros Hu. unfold header; cbv beta iota zeta. rewrite gp_ref. rewrite <- (app_nil_r (g_where g)).
    apply (wf_ref_param lt_more [] []).
    - reflexivity.
    - cbn. repeat constructor.
    - reflexivity.
    - cbn [targs flat_map ty_names app]. rewrite !app_nil_r. repeat apply incl_app.
      + apply incl_appr, refk_names.
      + apply incl_appl, ty_args_incl.
      + apply incl_appr, refk_names.
      + apply incl_appl, Hu.
  Qed.

  Lemma wf_FSum tr op : wf_header g (header (FSum tr op) g).
  Proof.
    unfold header; cbv beta iota zeta. destruct (existsb is_ty (g_params g)).
    - cbn [add_extra_where_clauses add_extra_ty_param_bound g_params g_where].
      change (map (fun p => if is_ty p then add_bound (BTrait (with_trait tr) [] None) p else p) (g_params g))
        with (map (bounded (fun _ => BTrait (with_trait tr) [] None)) (g_params g)).
      apply (wf_bounded g Hg).
      + intros p _. cbn. constructor.
      + intros p _ x [].
      + cbn. repeat constructor.
      + cbn [flat_map pred_names ty_names ref_names bound_names opt_list app]. rewrite ?app_nil_r.
        repeat apply incl_app; apply ty_args_incl.
    - apply wf_plain0.
      + cbn. repeat constructor.
      + reflexivity.
      + names.
  Qed.

  Lemma wf_FFromStrStruct : wf_header g (header FFromStrStruct g).
  Proof.
    unfold header; cbv beta iota zeta. cbn [add_extra_ty_param_bound g_params g_where].
    change (map (fun p => if is_ty p then add_bound (BTrait (with_trait (s "FromStr")) [] None) p else p) (g_params g))
      with (map (bounded (fun _ => BTrait (with_trait (s "FromStr")) [] None)) (g_params g)).
    apply (wf_bounded g Hg _ []).
    - intros p _. cbn. constructor.
    - intros p _ x [].
    - constructor.
    - intros x [].
  Qed.

  Lemma wf_FFromStrEnum : wf_header g (header FFromStrEnum g).
  Proof.
    unfold header; cbv beta iota zeta. apply wf_plain0.
    - cbn. repeat constructor.
    - reflexivity.
    - names.
  Qed.

  Lemma wf_FTryFrom repr : wf_header g (header (FTryFrom repr) g).
  Proof.
    unfold header; cbv beta iota zeta. apply wf_plain0.
    - cbn. repeat constructor.
    - cbn [targs app existsb]. apply orb_true_iff. right. reflexivity.
    - names.
  Qed.

  Definition err_self_pred : pred :=
    PAdded self [BTrait (fmt_path (s "Debug")) [] None; BTrait (fmt_path (s "Display")) [] None].
  Definition err_bound_pred (u : utext) : pred :=
    PAdded (TUser RNo u)
           [BTrait (fmt_path (s "Debug")) [] None; BTrait (fmt_path (s "Display")) [] None;
            BTrait (with_trait (s "Error")) [] None; BLit (s "'static")].

  Lemma error_header_eq bounds :
    header (FError bounds) g
    = mk (g_params g)
         (map err_bound_pred bounds ++ ((if existsb is_ty (g_params g) then [err_self_pred] else []) ++ g_where g))
         (Some (with_trait (s "Error"), [])) self.
  Proof.
    unfold header; cbv beta iota zeta. destruct bounds; destruct (existsb is_ty (g_params g)); reflexivity.
  Qed.

  Lemma wf_FError bounds :
    incl (flat_map u_free bounds) (g_names g) -> wf_header g (header (FError bounds) g).
  Proof.
    intros Hu. rewrite error_header_eq. rewrite app_assoc. rewrite <- (app_nil_r (g_where g)). apply wf_plain_fb.
    - rewrite app_nil_r, flat_map_app. cbn [targs app]. constructor; [reflexivity|]. apply Forall_app. split.
      + apply Forall_flat_map. intros pr Hpr. apply in_map_iff in Hpr as (u & <- & _). cbn. repeat constructor.
      + destruct (existsb is_ty (g_params g)); cbn; repeat constructor.
    - reflexivity.
    - rewrite app_nil_r, flat_map_app. cbn [targs flat_map app]. repeat apply incl_app.
      + cbn. intros x [].
      + apply ty_args_incl.
      + apply incl_flat_map_each. intros pr Hpr. apply in_map_iff in Hpr as (u & <- & Hin).
        cbn. rewrite ?app_nil_r. intros x Hx. apply Hu. apply in_flat_map. exists u. split; auto.
      + destruct (existsb is_ty (g_params g)); cbn; [|intros x []]. rewrite ?app_nil_r. apply ty_args_incl.
  Qed.
End Main.

(** * The header theorem *)

Theorem wf_all : forall f g, supported f g -> wf_header g (header f g).
Proof.
  intros f g (Hg & Hu & Hf).
  destruct f; cbn [utexts_of] in Hu; cbn beta iota in Hf.
  - now apply wf_FInherent.
  - destruct Hf. now apply wf_FFmt.
  - now apply wf_FAddLike.
  - now apply wf_FAddAssignLike.
  - destruct Hf. now apply wf_FFrom.
  - now apply wf_FFromForward.
  - now apply wf_FInto.
  - now apply wf_FAsRef.
  - now apply wf_FDeref.
  - apply wf_FIndex; auto. cbn in Hu. now rewrite app_nil_r in Hu.
  - now apply wf_FMulLike.
  - now apply wf_FMulAssignLike.
  - apply wf_FIntoIterator; auto. cbn in Hu. now rewrite app_nil_r in Hu.
  - now apply wf_FSum.
  - now apply wf_FFromStrStruct.
  - now apply wf_FFromStrEnum.
  - now apply wf_FTryFrom.
  - now apply wf_FTryInto.
  - now apply wf_FError.
Qed.

(** * The two repaired headers, unconditionally; the source facts the model relies on *)

Theorem wf_try_from repr g : wf_generics g -> wf_header g (header (FTryFrom repr) g).
Proof. intros Hg. now apply wf_FTryFrom. Qed.

Theorem wf_from_str_enum g : wf_generics g -> wf_header g (header FFromStrEnum g).
Proof. intros Hg. now apply wf_FFromStrEnum. Qed.

(* try_from.rs prints `TryFrom<#repr_ty> for #ident #ty_generics`, from_str.rs prints the enum's generics:
   re-checked against the regenerated Gen/ImplAttrs.v on every run *)
Theorem source_headers :
  try_from_tygen_on_trait = false /\ try_from_tygen_on_self = true /\ from_str_enum_generic = true.
Proof. repeat split; vm_compute; reflexivity. Qed.

Definition g_const : generics := G [P KConst (s "N") [] (s "usize") None] [].

Lemma g_const_wf : wf_generics g_const.
Proof.
  constructor; cbn.
  - constructor; [intros [] | constructor].
  - repeat constructor.
  - repeat constructor.
  - constructor.
  - intros x [].
Qed.

(* the former refutation witness `enum G<const N: usize> { A, B }` now renders correctly *)
Example try_from_const_rendered :
  render (s "G") (header (FTryFrom (s "isize")) g_const)
  = ([s "constN:usize"], Some (s "derive_more::core::convert::TryFrom<isize>"), s "G<N>", []).
Proof. vm_compute. reflexivity. Qed.

(** * Attribute presence over the regenerated template facts *)

Lemma missing_eqb_eq a b : missing_eqb a b = true -> a = b.
Proof. destruct a, b; cbn; congruence. Qed.

Lemma key_eqb_eq a b : key_eqb a b = true -> a = b.
Proof.
  destruct a as [[f1 i1] m1], b as [[f2 i2] m2]. cbn. intros H.
  apply andb_true_iff in H as [H Hm]. apply andb_true_iff in H as [Hf Hi].
  apply String.eqb_eq in Hf. apply Nat.eqb_eq in Hi. apply missing_eqb_eq in Hm. congruence.
Qed.

Theorem attrs_closed : forall o, In o (offenders impl_templates) -> In (key o) known_offender_keys.
Proof.
  assert (H : closedb impl_templates = true) by (vm_compute; reflexivity).
  unfold closedb in H. rewrite forallb_forall in H. intros o Ho. specialize (H o Ho).
  apply existsb_exists in H as (k & Hk & He). apply key_eqb_eq in He. now rewrite He.
Qed.

Lemma offender_of t m : In t impl_templates -> In m (lacks t) -> In (t_file t, t_idx t, m) known_offender_keys.
Proof.
  intros Ht Hm. apply (attrs_closed (t, m)). unfold offenders. apply in_flat_map. exists t. split; [exact Ht|].
  apply in_map_iff. exists m. split; [reflexivity | exact Hm].
Qed.

Theorem attrs_present : forall t, In t impl_templates ->
  (t_auto t = true \/ In (t_file t, t_idx t, MAuto) known_offender_keys)
  /\ (t_interp t = true -> t_dep t = true \/ In (t_file t, t_idx t, MDeprecated) known_offender_keys)
  /\ (t_interp t = true -> t_unreach t = true \/ In (t_file t, t_idx t, MUnreachable) known_offender_keys).
Proof.
  intros t Ht. repeat split.
  - destruct (t_auto t) eqn:E; [now left | right]. apply offender_of; auto.
    unfold lacks. rewrite E. now left.
  - intros Hi. destruct (t_dep t) eqn:E; [now left | right]. apply offender_of; auto.
    unfold lacks. rewrite Hi, E. cbn. apply in_or_app. right. now left.
  - intros Hi. destruct (t_unreach t) eqn:E; [now left | right]. apply offender_of; auto.
    unfold lacks. rewrite Hi, E. cbn. apply in_or_app. right. apply in_or_app. right. now left.
Qed.

(** * The hypotheses are satisfiable; what the model prints *)

(* struct S<'a, T: Clone = i32, const N: usize = 3>(Vec<&'a T>) where T: Copy; *)
Definition g_ex : generics :=
  G [P KLt (s "'a") [] [] None;
     P KTy (s "T") [BUser (U (s "Clone") [])] [] (Some (s "i32"));
     P KConst (s "N") [] (s "usize") (Some (s "3"))]
    [PUser (U (s "T:Copy") [s "T"])].

Example g_ex_wf : wf_generics g_ex.
Proof.
  constructor; cbn.
  - repeat constructor; cbn; intuition discriminate.
  - repeat constructor.
  - repeat constructor.
  - repeat constructor.
  - intros x [<-|[]]. right. now left.
Qed.

Example index_supported : supported (FIndex (s "Index") (U (s "Vec<&'aT>") [s "'a"; s "T"])) g_ex.
Proof.
  split; [apply g_ex_wf|]. split; [|exact I].
  cbn. intros x [<-|[<-|[]]]; [now left | right; now left].
Qed.

Example index_rendered :
  render (s "S") (header (FIndex (s "Index") (U (s "Vec<&'aT>") [s "'a"; s "T"])) g_ex)
  = ([s "'a"; s "T:Clone"; s "__IdxT"; s "constN:usize"],
     Some (s "derive_more::with_trait::Index<__IdxT>"),
     s "S<'a,T,N>",
     [s "Vec<&'aT>:derive_more::with_trait::Index<__IdxT>"; s "T:Copy"]).
Proof. vm_compute. reflexivity. Qed.

Example from_forward_supported : supported (FFromForward [U (s "T") [s "T"]; U (s "i32") []]) g_ex.
Proof.
  split; [apply g_ex_wf|]. split; [|exact I]. cbn. intros x [<-|[]]. right. now left.
Qed.

(** * All 50 derives: which impls are emitted, and that each of their headers is well formed *)

Lemma all_derives_length : length all_derives = 50%nat.
Proof. reflexivity. Qed.

Lemma derive_name_inj_on_all : NoDup (map derive_name all_derives).
Proof.
  assert (H : forall l : list str, (fix nd (l : list str) : bool :=
              match l with [] => true | x :: r => negb (existsb (str_eqb x) r) && nd r end) l = true -> NoDup l).
  { induction l as [|x r IH]; intros Hl; [constructor|]. apply andb_true_iff in Hl as [Hx Hr]. constructor; [|now apply IH].
    intros Hin. apply negb_true_iff in Hx. assert (existsb (str_eqb x) r = true); [|congruence].
    apply existsb_exists. exists x. split; [exact Hin | now apply str_eqb_eq]. }
  apply H. vm_compute. reflexivity.
Qed.

Lemma all_derives_complete d : In d all_derives.
Proof. destruct d as [[]|[]|[]|[]|[]| | | | | | |[]| | | | | | | | | | | | | |]; vm_compute; tauto. Qed.

Section AllDerives.
  Variable g : generics.
  Hypothesis Hg : wf_generics g.

  Definition scoped (us : list utext) : Prop := incl (flat_map u_free us) (g_names g).

  Lemma scoped_nil : scoped [].
  Proof. intros x []. Qed.

  Lemma scoped_cons u us : incl (u_free u) (g_names g) -> scoped us -> scoped (u :: us).
  Proof. intros Hu Hs x Hx. cbn in Hx. apply in_app_or in Hx as [Hx|Hx]; auto. Qed.

  Lemma scoped_incl us us' : incl us us' -> scoped us' -> scoped us.
  Proof. intros Hi Hs x Hx. apply Hs. eapply incl_flat_map; eauto. Qed.

  Lemma scoped_in u us : In u us -> scoped us -> incl (u_free u) (g_names g).
  Proof. intros Hin Hs x Hx. apply Hs. apply in_flat_map. exists u. split; auto. Qed.

  (* a family whose user syntax all comes from a scoped list is supported (FFmt apart) *)
  Lemma supported_simple f : (match f with FFmt _ _ | FFrom _ => False | _ => True end) -> scoped (utexts_of f) -> supported f g.
  Proof.
    intros Hk Hs. split; [exact Hg|]. split; [exact Hs|]. destruct f; try exact I; contradiction.
  Qed.

  Lemma supported_from_tuple us : scoped us -> supported (FFrom (TTuple RNo us)) g.
  Proof.
    intros Hs. split; [exact Hg|]. split; [intros x []|]. split; [exact I|]. exact Hs.
  Qed.

  Lemma supported_from_user u : incl (u_free u) (g_names g) -> supported (FFrom (TUser RNo u)) g.
  Proof.
    intros Hs. split; [exact Hg|]. split; [intros x []|]. split; [exact I|]. exact Hs.
  Qed.

  Lemma from_expansion_supported attr isv has fields f :
    scoped (conv_utexts attr ++ fields) -> In f (from_expansion attr isv has fields) -> supported f g.
  Proof.
    intros Hs Hin. unfold from_expansion in Hin.
    assert (Hf : scoped fields) by (eapply scoped_incl; [|exact Hs]; apply incl_appr, incl_refl).
    destruct attr as [| | | |tys]; cbn [conv_utexts] in *.
    - destruct (has || (isv && is_nil fields)); [destruct Hin|]. destruct Hin as [<-|[]]. now apply supported_from_tuple.
    - destruct Hin as [<-|[]]. now apply supported_from_tuple.
    - destruct (has || (isv && is_nil fields)); destruct Hin.
    - destruct Hin as [<-|[]]. apply supported_simple; [exact I | exact Hf].
    - apply in_map_iff in Hin as (t & <- & Ht). apply supported_from_user.
      eapply scoped_in; [|exact Hs]. apply in_or_app. now left.
  Qed.

  Lemma from_families_supported i f : scoped (input_utexts (IFromI i)) -> In f (from_families i) -> supported f g.
  Proof.
    intros Hs Hin. destruct i as [attr fields|vs]; cbn [from_families input_utexts] in *.
    - eapply from_expansion_supported; eauto.
    - apply in_flat_map in Hin as (v & Hv & Hin). eapply from_expansion_supported; [|exact Hin].
      eapply scoped_incl; [|exact Hs]. intros u Hu. apply in_flat_map. exists v. split; auto.
  Qed.

  Lemma into_expansion_supported fields c f :
    scoped fields -> scoped (conv3_utexts c) -> In f (into_expansion fields c) -> supported f g.
  Proof.
    intros Hf Hc Hin. unfold into_expansion in Hin. apply in_flat_map in Hin as ([cv sel] & Hcv & Hin).
    assert (Hcs : scoped (convs_utexts cv)).
    { eapply scoped_incl; [|exact Hc]. unfold conv3_utexts. destruct Hcv as [E|[E|[E|[]]]]; inversion E; subst; intros u Hu;
        rewrite !in_app_iff; auto. }
    destruct (c_consider cv || negb (is_nil (c_tys cv))); [|destruct Hin].
    apply in_app_or in Hin as [Hin|Hin].
    - destruct (c_consider cv); [|destruct Hin]. destruct Hin as [<-|[]]. apply supported_simple; [exact I | exact Hf].
    - apply in_map_iff in Hin as (t & <- & Ht). apply supported_simple; [exact I|]. cbn [utexts_of].
      eapply scoped_incl; [|exact Hcs]. intros u Hu. unfold convs_utexts. apply in_concat. exists t. split; auto.
  Qed.

  Lemma into_families_supported i f : scoped (input_utexts (IIntoI i)) -> In f (into_families i) -> supported f g.
  Proof.
    intros Hs Hin. cbn [input_utexts] in Hs. unfold into_families in Hin.
    assert (Hfld : forall fl, In fl (in_fields i) ->
                              scoped [if_ty fl] /\ forall c, if_convs fl = Some c -> scoped (conv3_utexts c)).
    { intros fl Hfl. split.
      - eapply scoped_incl; [|exact Hs]. intros u [<-|[]]. apply in_or_app. right. apply in_flat_map. exists fl. split; [auto|now left].
      - intros c Hc. eapply scoped_incl; [|exact Hs]. intros u Hu. apply in_or_app. right. apply in_flat_map. exists fl.
        split; [auto|]. right. now rewrite Hc. }
    assert (Hall : scoped (map if_ty (filter (fun f0 => negb (if_skip f0)) (in_fields i)))).
    { intros x Hx. apply in_flat_map in Hx as (u & Hu & Hx). apply in_map_iff in Hu as (fl & <- & Hfl).
      apply filter_In in Hfl as [Hfl _]. destruct (Hfld fl Hfl) as [H1 _]. apply H1. cbn. rewrite app_nil_r. exact Hx. }
    apply in_app_or in Hin as [Hin|Hin].
    - apply in_flat_map in Hin as (fl & Hfl & Hin). destruct (Hfld fl Hfl) as [H1 H2].
      destruct (if_convs fl) as [c|] eqn:E; [|destruct Hin]. eapply into_expansion_supported; [exact H1 | now apply H2 | exact Hin].
    - destruct (in_attr i) as [| |c] eqn:Ea.
      + destruct (forallb (fun f0 => is_none (if_convs f0)) (in_fields i)); [|destruct Hin].
        eapply (into_expansion_supported _ conv_default); [exact Hall | exact scoped_nil | exact Hin].
      + eapply (into_expansion_supported _ conv_default); [exact Hall | exact scoped_nil | exact Hin].
      + eapply into_expansion_supported; [exact Hall | | exact Hin].
        eapply scoped_incl; [|exact Hs]. apply incl_appl, incl_refl.
  Qed.

  Lemma asref_expansion_supported tr fty conv f :
    incl (u_free fty) (g_names g) -> scoped (match conv with ASTypes tys => tys | _ => [] end) ->
    In f (asref_expansion tr fty conv) -> supported f g.
  Proof.
    intros Hf Hc Hin. destruct conv as [| |tys]; cbn [asref_expansion] in Hin.
    - destruct Hin as [<-|[]]. apply supported_simple; [exact I|]. cbn [utexts_of]. apply scoped_cons; [exact Hf | exact scoped_nil].
    - destruct Hin as [<-|[]]. apply supported_simple; [exact I|]. cbn [utexts_of]. apply scoped_cons; [exact Hf | exact scoped_nil].
    - apply in_map_iff in Hin as (ret & <- & Hret).
      assert (Hr : incl (u_free ret) (g_names g)) by (eapply scoped_in; eauto).
      destruct (str_eqb (u_text fty) (u_text ret)); [|destruct (mentions_generics fty || mentions_generics ret)];
        apply supported_simple; try exact I; cbn [utexts_of]; repeat (apply scoped_cons; [assumption|]); exact scoped_nil.
  Qed.

  Lemma asref_families_supported tr i f : scoped (input_utexts (IAsRefI i)) -> In f (asref_families tr i) -> supported f g.
  Proof.
    intros Hs Hin. cbn [input_utexts] in Hs. unfold asref_families in Hin.
    assert (Hfld : forall fl, In fl (ar_fields i) -> incl (u_free (fst fl)) (g_names g) /\ scoped (conv_utexts (snd fl))).
    { intros fl Hfl. split.
      - eapply scoped_in; [|exact Hs]. apply in_or_app. right. apply in_flat_map. exists fl. split; [auto | now left].
      - eapply scoped_incl; [|exact Hs]. intros u Hu. apply in_or_app. right. apply in_flat_map. exists fl. split; [auto | now right]. }
    destruct (ar_attr i) as [| |tys] eqn:Ea.
    - destruct (forallb _ _).
      + apply in_flat_map in Hin as (fl & Hfl & Hin). destruct (Hfld fl Hfl) as [H1 H2].
        destruct (snd fl); try contradiction. apply (asref_expansion_supported tr (fst fl) ASNone); [exact H1 | exact scoped_nil | exact Hin].
      + apply in_flat_map in Hin as (fl & Hfl & Hin). destruct (Hfld fl Hfl) as [H1 H2].
        destruct (snd fl) as [| | | |tys] eqn:Es; try contradiction.
        * apply (asref_expansion_supported tr (fst fl) ASNone); [exact H1 | exact scoped_nil | exact Hin].
        * apply (asref_expansion_supported tr (fst fl) ASForward); [exact H1 | exact scoped_nil | exact Hin].
        * apply (asref_expansion_supported tr (fst fl) (ASTypes tys)); [exact H1 | exact H2 | exact Hin].
    - destruct (ar_fields i) as [|fl [|? ?]] eqn:Ef; try contradiction.
      destruct (Hfld fl (or_introl eq_refl)) as [H1 _]. apply (asref_expansion_supported tr (fst fl) ASForward); [exact H1 | exact scoped_nil | exact Hin].
    - destruct (ar_fields i) as [|fl [|? ?]] eqn:Ef; try contradiction.
      destruct (Hfld fl (or_introl eq_refl)) as [H1 _]. apply (asref_expansion_supported tr (fst fl) (ASTypes tys)); [exact H1 | | exact Hin].
      eapply scoped_incl; [|exact Hs]. apply incl_appl, incl_refl.
  Qed.

  Lemma dedup_keys_in l k : In k (dedup_keys l) -> In k l.
  Proof.
    induction l as [|a l IH]; cbn; [tauto|]. intros [<-|H]; [now left|]. right. apply IH. now apply filter_In in H.
  Qed.

  Lemma tryinto_families_supported vs f : scoped (flat_map tv_tys vs) -> In f (tryinto_families vs) -> supported f g.
  Proof.
    intros Hs Hin. unfold tryinto_families in Hin. apply in_map_iff in Hin as ([sel tys] & <- & Hk).
    apply dedup_keys_in in Hk. apply in_flat_map in Hk as (v & Hv & Hk). apply in_map_iff in Hk as (sel' & E & _).
    inversion E; subst. apply supported_simple; [exact I|]. cbn [utexts_of fst snd].
    eapply scoped_incl; [|exact Hs]. intros u Hu. apply in_flat_map. exists v. split; auto.
  Qed.

  Theorem families_of_supported d i f : input_ok i g -> In f (families_of d i) -> supported f g.
  Proof.
    intros [Hs Hx] Hin. fold (scoped (input_utexts i)) in Hs.
    destruct d; destruct i; cbn [families_of] in Hin; try contradiction;
      repeat match goal with b : bool |- _ => destruct b end; cbn [ref_types app map] in Hin; try contradiction;
      try (eapply asref_families_supported; [exact Hs | exact Hin]; fail);
      try (eapply from_families_supported; [exact Hs | exact Hin]; fail);
      try (eapply into_families_supported; [exact Hs | exact Hin]; fail);
      try (eapply tryinto_families_supported; [exact Hs | exact Hin]; fail);
      repeat (destruct Hin as [<-|Hin]; [|try contradiction]);
      try (apply supported_simple; [exact I | first [exact Hs | exact scoped_nil]]; fail);
      try (split; [exact Hg|]; split; [exact scoped_nil | exact Hx]; fail).
    all: try (apply supported_simple; [exact I|]; match goal with fwd : option utext |- _ => destruct fwd end;
              [exact Hs | exact scoped_nil]).
  Qed.

  Theorem wf_all_derives d i : input_ok i g -> Forall (wf_header g) (headers_of d i g).
  Proof.
    intros Hi. unfold headers_of. apply Forall_forall. intros h Hh. apply in_map_iff in Hh as (f & <- & Hf).
    apply wf_all. eapply families_of_supported; eauto.
  Qed.
End AllDerives.

(** * Clause-level corollaries *)

(* the printed order for ANY parameter list, sorted or not *)
Theorem printed_lifetimes_first ps : lts_first (map p_kind (impl_params ps)) = true.
Proof. apply impl_params_order. Qed.

Lemma kinds_sorted_app l1 l2 :
  kinds_sorted l1 = true -> kinds_sorted l2 = true ->
  (forall a b, In a l1 -> In b l2 -> Nat.leb (kind_rank a) (kind_rank b) = true) -> kinds_sorted (l1 ++ l2) = true.
Proof.
  induction l1 as [|k l1 IH]; cbn; intros H1 H2 H12; [exact H2|].
  apply andb_true_iff in H1 as [Hk H1]. apply andb_true_iff. split.
  - rewrite forallb_app. apply andb_true_iff. split; [exact Hk|]. apply forallb_forall. intros b Hb. apply H12; [now left | exact Hb].
  - apply IH; [exact H1 | exact H2 |]. intros a b Ha Hb. apply H12; [now right | exact Hb].
Qed.

Lemma kinds_sorted_const (k : pkind) l : Forall (fun x => x = k) l -> kinds_sorted l = true.
Proof.
  induction 1 as [|x l Hx Hl IH]; cbn; [reflexivity|]. subst x. rewrite IH, andb_true_r.
  apply forallb_forall. intros y Hy. rewrite Forall_forall in Hl. rewrite (Hl y Hy). now destruct k.
Qed.

Lemma filter_kind (f : param -> bool) k l :
  (forall p, f p = true -> p_kind p = k) -> Forall (fun x => x = k) (map p_kind (filter f l)).
Proof.
  intros Hf. apply Forall_forall. intros x Hx. apply in_map_iff in Hx as (p & <- & Hp). apply filter_In in Hp as [_ Hp]. now apply Hf.
Qed.

(* utils.rs add_extra_generic_type_param: whatever order the user wrote, the extended list is lifetimes, types (the new
   one last among them), consts *)
Theorem new_type_param_placement g p :
  p_kind p = KTy ->
  kinds_sorted (map p_kind (g_params (add_extra_generic_type_param g p))) = true
  /\ Permutation (g_params (add_extra_generic_type_param g p)) (g_params g ++ [p]).
Proof.
  intros Hp. split; [|apply type_param_insert_perm].
  cbn [add_extra_generic_type_param g_params]. rewrite !map_app.
  assert (Hl := filter_kind is_lt KLt (g_params g) ltac:(intros q; unfold is_lt; now destruct (p_kind q))).
  assert (Ht := filter_kind is_ty KTy (g_params g) ltac:(intros q; unfold is_ty; now destruct (p_kind q))).
  assert (Hc := filter_kind is_const KConst (g_params g) ltac:(intros q; unfold is_const; now destruct (p_kind q))).
  assert (Hnew : map p_kind [p] = [KTy]) by (cbn; now rewrite Hp). rewrite Hnew.
  rewrite Forall_forall in Hl, Ht, Hc.
  apply kinds_sorted_app; [apply (kinds_sorted_const KLt); now apply Forall_forall| |].
  - apply kinds_sorted_app; [apply (kinds_sorted_const KTy); now apply Forall_forall| |].
    + apply kinds_sorted_app; [reflexivity | apply (kinds_sorted_const KConst); now apply Forall_forall |].
      intros a b [<-|[]] Hb. now rewrite (Hc b Hb).
    + intros a b Ha Hb. rewrite (Ht a Ha). apply in_app_or in Hb as [[<-|[]]|Hb]; [reflexivity | now rewrite (Hc b Hb)].
  - intros a b Ha Hb. rewrite (Hl a Ha). reflexivity.
Qed.

(* utils.rs add_extra_where_clauses / add_extra_ty_param_bound: scoping of what the builders add *)
Theorem where_builder_scoped g ps names :
  incl (flat_map pred_names (g_where g)) names -> incl (flat_map pred_names ps) names ->
  incl (flat_map pred_names (g_where (add_extra_where_clauses g ps))) names.
Proof.
  intros Hg Hp. cbn [add_extra_where_clauses g_where]. rewrite flat_map_app. now apply incl_app.
Qed.

Theorem bound_builder_scoped g b names :
  incl (flat_map param_names (g_params g)) names -> incl (bound_names b) names ->
  incl (flat_map param_names (g_params (add_extra_ty_param_bound g b))) names.
Proof.
  intros Hg Hb. cbn [add_extra_ty_param_bound g_params]. apply incl_flat_map_each. intros q Hq.
  apply in_map_iff in Hq as (p & <- & Hp).
  assert (Hu : incl (param_names p) names).
  { intros x Hx. apply Hg. apply in_flat_map. exists p. split; auto. }
  destruct (is_ty p); [|exact Hu]. unfold param_names, add_bound; cbn [p_bounds]. rewrite flat_map_app. apply incl_app; [exact Hu|].
  cbn. now rewrite app_nil_r.
Qed.

(* the two clauses of the property text, for every header of every derive *)
Theorem own_generics_only_on_the_type d i g :
  wf_generics g -> input_ok i g ->
  forall h, In h (headers_of d i g) ->
    (forall t, In t (header_tys h) -> ty_ok g t) /\ existsb is_input (trait_args h ++ [h_self h]) = true.
Proof.
  intros Hg Hi h Hh. pose proof (wf_all_derives g Hg d i Hi) as H. rewrite Forall_forall in H. destruct (H h Hh).
  split; [|assumption]. now apply Forall_forall.
Qed.

Theorem added_bounds_in_scope d i g :
  wf_generics g -> input_ok i g ->
  forall h, In h (headers_of d i g) ->
    incl (header_names h) (map p_name (h_params h))
    /\ (forall q, In q (h_params h) -> In (p_name q) (g_names g) \/ fresh_name (p_name q) = true).
Proof.
  intros Hg Hi h Hh. pose proof (wf_all_derives g Hg d i Hi) as H. rewrite Forall_forall in H. destruct (H h Hh) as [_ _ _ _ Ho _ _ Hs _].
  split; [exact Hs|]. intros q Hq. destruct (Ho q Hq) as [(p & Hp & (_ & Hn & _))|Hf]; [left | now right].
  rewrite Hn. now apply in_map.
Qed.

(** * TryInto: one impl per distinct (selection, field types) key *)

Lemma filter_keys_distinct f l : keys_distinct l = true -> keys_distinct (filter f l) = true.
Proof.
  induction l as [|k l IH]; cbn; [auto|]. intros H. apply andb_true_iff in H as [Hk Hl].
  destruct (f k); cbn; [|now apply IH]. rewrite IH by assumption. rewrite andb_true_r.
  apply forallb_forall. intros x Hx. apply filter_In in Hx as [Hx _]. rewrite forallb_forall in Hk. now apply Hk.
Qed.

Theorem tryinto_keys_distinct vs : keys_distinct (tryinto_keys vs) = true.
Proof.
  unfold tryinto_keys. generalize (flat_map (fun v => map (fun sel => (sel, tv_tys v)) (ref_types (tv_owned v) (tv_ref v) (tv_ref_mut v))) vs).
  induction l as [|k l IH]; cbn; [reflexivity|]. apply andb_true_iff. split.
  - apply forallb_forall. intros x Hx. apply filter_In in Hx as [_ Hx]. exact Hx.
  - now apply filter_keys_distinct.
Qed.

(** * Attribute presence, template by template (decidable over the regenerated list) *)

Theorem all_automatically_derived : forall t, In t impl_templates -> t_auto t = true.
Proof.
  assert (H : forallb t_auto impl_templates = true) by (vm_compute; reflexivity).
  rewrite forallb_forall in H. exact H.
Qed.

(* every template is either complete or lacks exactly attributes recorded for it *)
Theorem attrs_decided : forall t, In t impl_templates ->
  lacks t = [] \/ (lacks t <> [] /\ forall m, In m (lacks t) -> In (t_file t, t_idx t, m) known_offender_keys).
Proof.
  intros t Ht. destruct (lacks t) as [|m l] eqn:E; [now left | right]. split; [discriminate|].
  intros m' Hm. apply offender_of; [exact Ht | now rewrite E].
Qed.

(** * Examples: the decision layer on concrete inputs *)

(* enum E<T> { #[from] A(T), B { x: i32, y: T }, C }  ->  only the variant carrying #[from] gets an impl *)
Example from_explicit_variant :
  from_families (FromEnum [V [U (s "T") [s "T"]] CEmpty; V [U (s "i32") []; U (s "T") [s "T"]] CAbsent; V [] CAbsent])
  = [FFrom (TTuple RNo [U (s "T") [s "T"]])].
Proof. reflexivity. Qed.

(* #[into(owned(i64), ref)] on a field next to an unattributed field: no struct-level impl *)
Example into_field_only :
  into_families (II SAbsent [IF (U (s "i32") []) false (Some (C3 (Cv false [[U (s "i64") []]]) (Cv true []) (Cv false [])));
                             IF (U (s "u8") []) false None])
  = [FInto SOwned [U (s "i64") []]; FInto SRef [U (s "i32") []]].
Proof. reflexivity. Qed.

(* #[as_ref(str, [T])] struct S<T>(Vec<T>): specialised (plain) for str? no - the field mentions T, both are forwarded *)
Example asref_kinds :
  asref_families (s "AsRef") (AR (ASTypes [U (s "str") []; U (s "Vec<T>") [s "T"]]) [(U (s "Vec<T>") [s "T"], CAbsent)])
  = [FAsRef (s "AsRef") (AsForwarded (U (s "Vec<T>") [s "T"]) (U (s "str") []));
     FAsRef (s "AsRef") (AsPlain (U (s "Vec<T>") [s "T"]))].
Proof. reflexivity. Qed.

Example all_derives_input_ok : input_ok (IIntoI (II SEmpty [IF (U (s "Vec<T>") [s "T"]) false None])) g_ex.
Proof. split; [|exact I]. cbn. intros x [<-|[]]. right. now left. Qed.

(** * Acceptance: every documented shape is accepted *)

Lemma forallb_impl {A} (f h : A -> bool) l : (forall a, f a = true -> h a = true) -> forallb f l = true -> forallb h l = true.
Proof. intros H Hf. apply forallb_forall. intros a Ha. apply H. rewrite forallb_forall in Hf. now apply Hf. Qed.

Lemma leb1_cases n : Nat.leb n 1 = true -> n = 0%nat \/ n = 1%nat.
Proof. destruct n as [|[|n]]; cbn; auto; discriminate. Qed.

Lemma fields_pos_not_unit k : Nat.leb 1 (vk_fields k) = true -> negb (vk_is_unit k) = true.
Proof. now destruct k. Qed.

Theorem documented_accepted d fwd sh : documented d sh = true -> accepts d fwd sh = true.
Proof.
  intros H. destruct sh as [k|vs].
  - (* structs *)
    destruct d as [o|o|o|o|o| | | | | | |o| | | | | | | | | | | | | |]; cbn in *; try discriminate; try reflexivity;
      try (destruct fwd; cbn); try reflexivity; try exact H;
      try (apply andb_true_iff in H as [H _]; exact H);
      try (now apply fields_pos_not_unit);
      try (destruct o; exact H).
  - (* enums *)
    destruct d as [o|o|o|o|o| | | | | | |o| | | | | | | | | | | | | |]; cbn in *; try discriminate; try reflexivity;
      try exact H.
    + destruct o; cbn in *;
        (eapply forallb_impl; [|exact H]; intros k Hk; cbn in Hk;
         first [ apply leb1_cases in Hk as [->| ->]; reflexivity | apply Nat.eqb_eq in Hk; rewrite Hk; reflexivity ]).
    + eapply forallb_impl; [|exact H]. intros k Hk. now destruct k.
Qed.

(* mul.md: "Deriving `Mul` for enums is not (yet) supported, except when you use `#[mul(forward)]`" *)
Theorem mul_forward_enum_accepted o vs : accepts (DMulLike o) true (SEnum vs) = true.
Proof. reflexivity. Qed.

(* and the refusals the documentation announces *)
Theorem struct_only_derives_refuse_enums d vs :
  In d ([DSum; DProduct; DAsRef; DAsMut; DConstructor; DInto; DDeref; DDerefMut; DIndex; DIndexMut; DIntoIterator]
        ++ map DAddAssignLike all_addops) ->
  accepts d false (SEnum vs) = false.
Proof. cbn. intuition (subst; reflexivity). Qed.

Theorem enum_only_derives_refuse_structs d k :
  In d [DIsVariant; DUnwrap; DTryUnwrap; DTryFrom; DTryInto] -> accepts d false (SStruct k) = false.
Proof. cbn. intuition (subst; reflexivity). Qed.

Example documented_nontrivial :
  documented (DFmt ODisplay) (SEnum [VUnit; VTuple 1; VNamed 1]) = true
  /\ documented (DFmt OBinary) (SEnum [VUnit]) = false
  /\ accepts (DFmt OBinary) false (SEnum [VUnit]) = false
  /\ accepts DUnwrap false (SEnum [VTuple 2; VNamed 1]) = false.
Proof. repeat split. Qed.
